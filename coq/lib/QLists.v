(* Basic definitions over lists of weighted rational observations. No axioms. *)
From Coq Require Import QArith Qreduction Lqa Lia List Bool.
Import ListNotations.
Open Scope Q_scope.

Definition elt := (Q * Q)%type.          (* (observation y, case weight w) *)
Definition ey (e : elt) : Q := fst e.
Definition ew (e : elt) : Q := snd e.
Definition posw (e : elt) : Prop := 0 < ew e.

Fixpoint wsum (l : list elt) : Q :=      (* sum of w*y *)
  match l with [] => 0 | e :: l' => ew e * ey e + wsum l' end.
Fixpoint wtot (l : list elt) : Q :=      (* sum of w *)
  match l with [] => 0 | e :: l' => ew e + wtot l' end.
Definition wmean (l : list elt) : Q := Qred (wsum l / wtot l).

Fixpoint qsum (l : list Q) : Q := match l with [] => 0 | x :: l' => x + qsum l' end.

Fixpoint sortedQ (l : list Q) : Prop :=
  match l with
  | [] => True
  | x :: l' => match l' with [] => True | y :: _ => x <= y /\ sortedQ l' end
  end.

Fixpoint minQ (x : Q) (l : list Q) : Q :=
  match l with [] => x | y :: l' => minQ (if Qle_bool y x then y else x) l' end.
Fixpoint maxQ (x : Q) (l : list Q) : Q :=
  match l with [] => x | y :: l' => maxQ (if Qle_bool x y then y else x) l' end.

Lemma wsum_app A B : wsum (A ++ B) == wsum A + wsum B.
Proof. induction A; simpl; [ring| rewrite IHA; ring]. Qed.
Lemma wtot_app A B : wtot (A ++ B) == wtot A + wtot B.
Proof. induction A; simpl; [ring| rewrite IHA; ring]. Qed.
Lemma wtot_pos l : l <> [] -> Forall posw l -> 0 < wtot l.
Proof.
  intros Hn H. destruct l as [|a l]; [congruence|]. clear Hn.
  revert a H. induction l as [|b l IH]; intros a H; inversion H; subst; simpl.
  - unfold posw in *. lra.
  - specialize (IH b H3). simpl in IH. unfold posw in *. lra.
Qed.
Lemma wmean_eq l : wmean l == wsum l / wtot l.
Proof. unfold wmean. apply Qred_correct. Qed.
