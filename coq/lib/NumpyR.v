(* The closed numpy/scipy vocabulary understood by translate/pyexpr.py, with the
   real-number meaning numpy documents, plus a side-condition ("ok") predicate
   for every partial primitive: when it holds, numpy's result is a finite,
   non-NaN number equal to the value given here.  Its Python twin (used to
   validate the translator against the real numpy on every run) is
   translate/numpy_sem.py. *)
From Coq Require Import Reals Lra List Bool.
Import ListNotations.
Open Scope R_scope.

Inductive result (A : Type) : Type := Ok (a : A) | ValueErr.
Arguments Ok {A} a.
Arguments ValueErr {A}.

Definition rbind {A B} (r : result A) (f : A -> result B) : result B :=
  match r with Ok a => f a | ValueErr => ValueErr end.

Inductive fnl : Type := Fmean | Fmedian | Fexpectile | Fquantile | Fother.
Definition fun_eqb (a b : fnl) : bool :=
  match a, b with
  | Fmean, Fmean | Fmedian, Fmedian | Fexpectile, Fexpectile | Fquantile, Fquantile => true
  | _, _ => false
  end.

(* boolean comparisons on R (classical deciders from the standard library) *)
Definition Rleb (a b : R) : bool := if Rle_dec a b then true else false.
Definition Rltb (a b : R) : bool := if Rlt_dec a b then true else false.
Definition Reqb (a b : R) : bool := if Req_EM_T a b then true else false.

Lemma Rleb_true a b : Rleb a b = true <-> a <= b.
Proof. unfold Rleb; destruct (Rle_dec a b); split; intros; auto; discriminate || lra. Qed.
Lemma Rleb_false a b : Rleb a b = false <-> b < a.
Proof. unfold Rleb; destruct (Rle_dec a b); split; intros; auto; discriminate || lra. Qed.
Lemma Rltb_true a b : Rltb a b = true <-> a < b.
Proof. unfold Rltb; destruct (Rlt_dec a b); split; intros; auto; discriminate || lra. Qed.
Lemma Rltb_false a b : Rltb a b = false <-> b <= a.
Proof. unfold Rltb; destruct (Rlt_dec a b); split; intros; auto; discriminate || lra. Qed.
Lemma Reqb_true a b : Reqb a b = true <-> a = b.
Proof. unfold Reqb; destruct (Req_EM_T a b); split; intros; auto; discriminate || lra. Qed.
Lemma Reqb_false a b : Reqb a b = false <-> a <> b.
Proof. unfold Reqb; destruct (Req_EM_T a b); split; intros; auto; discriminate || contradiction. Qed.

(* np.greater_equal(a, b), np.less_equal(a, b) used as numbers *)
Definition ge_ind (a b : R) : R := if Rleb b a then 1 else 0.
Definition le_ind (a b : R) : R := if Rleb a b then 1 else 0.

Definition np_abs (x : R) : R := Rabs x.
Definition np_square (x : R) : R := x * x.
Definition np_sign (x : R) : R := if Rltb 0 x then 1 else if Rltb x 0 then -1 else 0.

(* np.log: finite iff the argument is positive *)
Definition np_log (x : R) : R := ln x.
Definition np_log_ok (x : R) : Prop := 0 < x.

(* scipy.special.xlogy(x, y) = 0 if x = 0 (and y not NaN), else x*log(y) *)
Definition xlogy (x y : R) : R := if Reqb x 0 then 0 else x * ln y.
Definition xlogy_ok (x y : R) : Prop := x = 0 \/ 0 < y.

(* numpy's floating `%`: x - floor(x/m)*m, sign of the divisor *)
Definition np_mod (x m : R) : R := x - m * IZR (Int_part (x / m)).
Definition is_int (h : R) : Prop := exists k : Z, h = IZR k.

(* np.power on floats.  Positive base: exp(h ln x).  Zero base: 1 for h = 0,
   0 for h > 0 (division by zero / inf for h < 0: not ok).  Negative base: only
   integral exponents give a number: sign (-1)^h times |x|^h. *)
Definition np_power (x h : R) : R :=
  if Rltb 0 x then Rpower x h
  else if Reqb x 0 then (if Reqb h 0 then 1 else 0)
  else if Reqb (np_mod h 2) 1 then - Rpower (- x) h else Rpower (- x) h.
Definition np_power_ok (x h : R) : Prop :=
  0 < x \/ (x = 0 /\ 0 <= h) \/ (x < 0 /\ is_int h).

(* true division *)
Definition np_div (a b : R) : R := a / b.
Definition np_div_ok (a b : R) : Prop := b <> 0.

(* np.average(v, weights=w) over lists; w = None is the plain mean *)
Fixpoint sumR (l : list R) : R := match l with [] => 0 | x :: l' => x + sumR l' end.
Fixpoint dotR (v w : list R) : R :=
  match v, w with x :: v', y :: w' => x * y + dotR v' w' | _, _ => 0 end.
Definition np_average (v : list R) (w : option (list R)) : R :=
  match w with
  | None => sumR v / INR (length v)
  | Some w => dotR v w / sumR w
  end.

(* element-wise lifting of a per-observation function that may raise: the vector
   call raises iff some observation is outside the domain (`np.all(...)` guards) *)
Fixpoint lift2 (f : R -> R -> result R) (ys zs : list R) : result (list R) :=
  match ys, zs with
  | y :: ys', z :: zs' =>
      rbind (f y z) (fun s => rbind (lift2 f ys' zs') (fun ss => Ok (s :: ss)))
  | _, _ => Ok []
  end.
