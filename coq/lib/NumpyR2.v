(* Extension of the numpy vocabulary of lib/NumpyR.v (kept in a separate file so
   that NumpyR.vo stays untouched): strict comparisons used as numbers. *)
From Coq Require Import Reals Lra.
Open Scope R_scope.
From MD Require Import lib.NumpyR.

(* np.less(a, b), np.greater(a, b) used as numbers *)
Definition lt_ind (a b : R) : R := if Rltb a b then 1 else 0.
Definition gt_ind (a b : R) : R := if Rltb b a then 1 else 0.

Lemma lt_ind_lt a b : a < b -> lt_ind a b = 1.
Proof. intros H. unfold lt_ind. rewrite (proj2 (Rltb_true a b) H). reflexivity. Qed.
Lemma lt_ind_ge a b : b <= a -> lt_ind a b = 0.
Proof. intros H. unfold lt_ind. rewrite (proj2 (Rltb_false a b) H). reflexivity. Qed.
