(* Bridge: the definitions GENERATED from scoring.py / identification.py
   (gen/Gen_ident.v, gen/Gen_scoring.v) equal the hand-written specifications of
   spec/Scores.v, and inside the documented domains every partial numpy primitive
   is used within its domain.

   The proofs are meant to survive semantics-preserving changes of the Python
   text (renamed locals, re-associated arithmetic, reordered branches): they never
   mention the shape of the generated terms.  A generic tactic walks the decision
   tree of both sides (deciding a comparison with [lra] from the tests already
   taken, or else splitting on it), and every leaf is closed by normalising the
   numpy vocabulary to atoms ([ln _], [np_power _ _], [Rabs _], ...) followed by
   [ring] / [field]. *)
From Coq Require Import Reals Lra Psatz List Bool.
Import ListNotations. Open Scope R_scope.
From MD Require Import lib.NumpyR lib.NumpyR2 spec.Scores theory.Powers theory.Bregman gen.Gen_ident gen.Gen_scoring.

(* ================================================================== *)
(* 0. tactics                                                          *)

(* one comparison atom: decide it from the context, or split on it *)
Ltac dec_atom c :=
  lazymatch c with
  | Reqb ?a ?b =>
      first [ rewrite (proj2 (Reqb_true a b)) by lra
            | rewrite (proj2 (Reqb_false a b)) by lra
            | let E := fresh "E" in
              destruct (Reqb a b) eqn:E;
              [apply Reqb_true in E | apply Reqb_false in E] ]
  | Rltb ?a ?b =>
      first [ rewrite (proj2 (Rltb_true a b)) by lra
            | rewrite (proj2 (Rltb_false a b)) by lra
            | let E := fresh "E" in
              destruct (Rltb a b) eqn:E;
              [apply Rltb_true in E | apply Rltb_false in E] ]
  | Rleb ?a ?b =>
      first [ rewrite (proj2 (Rleb_true a b)) by lra
            | rewrite (proj2 (Rleb_false a b)) by lra
            | let E := fresh "E" in
              destruct (Rleb a b) eqn:E;
              [apply Rleb_true in E | apply Rleb_false in E] ]
  end.

(* some comparison atom occurring in the boolean expression c *)
Ltac with_atom c tac :=
  match c with
  | context [Reqb ?a ?b] => tac constr:(Reqb a b)
  | context [Rltb ?a ?b] => tac constr:(Rltb a b)
  | context [Rleb ?a ?b] => tac constr:(Rleb a b)
  end.

Ltac bsimp := cbn [negb andb orb].

(* one step down the decision tree: outermost test of either side first *)
Ltac step :=
  bsimp;
  match goal with
  | |- (if ?c then _ else _) = _ => with_atom c dec_atom
  | |- _ = (if ?c then _ else _) => with_atom c dec_atom
  | |- (if ?c then _ else _) => with_atom c dec_atom
  | |- context [if ?c then _ else _] => with_atom c dec_atom
  end.
Ltac steps := repeat step; bsimp.

(* same, but also comparisons that are not under an [if] *)
Ltac step_any :=
  first [ step
        | match goal with
          | |- context [Reqb ?a ?b] => dec_atom constr:(Reqb a b)
          | |- context [Rltb ?a ?b] => dec_atom constr:(Rltb a b)
          | |- context [Rleb ?a ?b] => dec_atom constr:(Rleb a b)
          end ].
Ltac steps_any := repeat step_any; bsimp.

(* normalisation of xlogy and ln to atoms *)
Lemma xlogy_z x y : x = 0 -> xlogy x y = 0.
Proof. intros ->. apply xlogy_0. Qed.

Lemma ln_quot a b : 0 < a -> 0 < b -> ln (a / b) = ln a - ln b.
Proof.
  intros Ha Hb. unfold Rdiv.
  rewrite ln_mult by (try apply Rinv_0_lt_compat; assumption).
  rewrite ln_Rinv by assumption. ring.
Qed.

Lemma ln_one t : t = 1 -> ln t = 0.
Proof. intros ->. exact ln_1. Qed.

Ltac norm_xlogy :=
  repeat match goal with
  | |- context [xlogy ?x ?y] =>
      first [ rewrite (xlogy_z x y) by lra
            | rewrite (xlogy_nz x y) by lra
            | let H := fresh "Hx" in
              destruct (Req_dec x 0) as [H | H]; [try subst x |] ]
  end.

Ltac norm_ln :=
  repeat match goal with
  | |- context [ln (?a / ?b)] => rewrite (ln_quot a b) by lra
  | |- context [ln ?t] => rewrite (ln_one t) by lra
  end.

Ltac split_all := repeat match goal with |- _ /\ _ => split end.

Ltac fin :=
  first [ reflexivity
        | ring
        | timeout 60 (field; split_all; lra)
        | lra ].

Ltac norm_np :=
  unfold np_abs, np_square, np_div, np_log, pw; rewrite ?Rplus_0_r.

(* ================================================================== *)
(* 1. facts about the specification side only                          *)

Lemma Rpower_2 x : 0 < x -> Rpower x 2 = x * x.
Proof.
  intros Hx. replace 2 with (1 + 1) by ring.
  rewrite Rpower_plus, Rpower_1 by exact Hx. reflexivity.
Qed.

Lemma pw_abs_2 x : np_power (Rabs x) 2 = x * x.
Proof.
  destruct (Req_dec x 0) as [Hx | Hx].
  - subst x. rewrite Rabs_R0. change (pw 0 2 = 0 * 0). rewrite pw_0 by lra. ring.
  - assert (Ha : 0 < Rabs x) by (apply Rabs_pos_lt; exact Hx).
    rewrite (np_power_pos _ 2 Ha), (Rpower_2 _ Ha).
    rewrite <- Rabs_mult. apply Rabs_pos_eq. timeout 60 nra.
Qed.

Lemma sign_pw_abs_1 x : np_sign x * np_power (Rabs x) 1 = x.
Proof.
  destruct (Rtotal_order x 0) as [Hx | [Hx | Hx]].
  - rewrite (np_sign_neg x Hx), (Rabs_left x Hx).
    rewrite np_power_pos, Rpower_1 by lra. ring.
  - subst x. rewrite np_sign_0. ring.
  - rewrite (np_sign_pos x Hx), Rabs_pos_eq by lra.
    rewrite np_power_pos, Rpower_1 by lra. ring.
Qed.

(* squared error in closed form: the Python has a fast path for degree 2 *)
Lemma breg_2 h y z : h = 2 -> breg h y z = (z - y) * (z - y).
Proof.
  intros ->. unfold breg, phi, dphi, hrange_of, pw. steps.
  replace (2 - 1) with 1 by ring.
  rewrite !pw_abs_2.
  replace (np_sign z * np_power (Rabs z) 1 / 1) with (np_sign z * np_power (Rabs z) 1)
    by (timeout 60 field).
  rewrite sign_pw_abs_1. timeout 60 field.
Qed.

Lemma asym_half' a y z : a = 1 / 2 -> asym a y z = 1.
Proof. intros ->. apply asym_half. Qed.

Lemma hqs_domb_spec h y z : hqs_domb h y z = true <-> hqs_dom h y z.
Proof.
  unfold hqs_domb, hqs_dom.
  rewrite orb_true_iff, andb_true_iff, !Rltb_true. reflexivity.
Qed.

(* the level-1/2 quantile score is half the absolute value of G z - G y *)
Lemma Gq_abs h a y z : a = 1 / 2 -> hqs_domb h y z = true ->
  Rabs (Gq h z - Gq h y) = 2 * ((ge_ind z y - a) * (Gq h z - Gq h y)).
Proof.
  intros -> D. apply hqs_domb_spec in D.
  set (dQ := fun x : R => hqs_whole_line h = true \/ 0 < x).
  assert (M : forall u v, dQ u -> dQ v -> u <= v -> Gq h u <= Gq h v).
  { intros u v Hu Hv Huv. apply Gq_mono; [| exact Huv].
    destruct Hu as [Hu | Hu]; [left; exact Hu |].
    destruct Hv as [Hv | Hv]; [left; exact Hv |].
    right. split; assumption. }
  assert (Dy : dQ y) by (unfold dQ; destruct D as [D | [D1 D2]]; [left | right]; assumption).
  assert (Dz : dQ z) by (unfold dQ; destruct D as [D | [D1 D2]]; [left | right]; assumption).
  pose proof (Sq_half dQ (Gq h) M y z Dy Dz) as H.
  unfold Sq in H. lra.
Qed.

Lemma Rabs_score h a y z s :
  a = 1 / 2 -> hqs_domb h y z = true -> s = Gq h z - Gq h y ->
  Rabs s = 2 * ((ge_ind z y - a) * (Gq h z - Gq h y)).
Proof. intros Ha D ->. apply Gq_abs; assumption. Qed.

(* side conditions of the numpy primitives *)
Lemma np_power_ok_pos x h : 0 < x -> np_power_ok x h.
Proof. intros H. left. exact H. Qed.

Lemma np_power_ok_nn x h : 0 <= x -> 0 <= h -> np_power_ok x h.
Proof.
  intros [Hx | Hx] Hh; [left; exact Hx |].
  right; left. split; [symmetry; exact Hx | exact Hh].
Qed.

Lemma odd_is_int h : np_mod h 2 = 1 -> is_int h.
Proof.
  unfold np_mod, is_int. intros H.
  exists (1 + 2 * Int_part (h / 2))%Z. rewrite plus_IZR, mult_IZR. lra.
Qed.

Lemma np_power_ok_odd x h : np_mod h 2 = 1 -> 0 <= h -> np_power_ok x h.
Proof.
  intros Hm Hh. destruct (Rtotal_order x 0) as [Hx | [Hx | Hx]].
  - right; right. split; [exact Hx | apply odd_is_int; exact Hm].
  - right; left. split; assumption.
  - left. exact Hx.
Qed.

Ltac pos_solve :=
  first [ lra
        | apply Rdiv_lt_0_compat; lra
        | apply Rmult_lt_0_compat; lra ].

Ltac ok_atom :=
  norm_np;
  first [ exact I
        | apply np_power_ok_pos; lra
        | apply np_power_ok_nn; [first [lra | apply Rabs_pos] | lra]
        | apply np_power_ok_odd; [first [assumption | lra] | lra]
        | unfold np_div_ok;
          first [ lra | apply Rmult_integral_contrapositive_currified; lra ]
        | unfold np_log_ok; pos_solve
        | unfold xlogy_ok;
          first [ left; lra
                | right; pos_solve
                | match goal with
                  | |- ?x = 0 \/ _ =>
                      let H := fresh "Hx" in
                      destruct (Req_dec x 0) as [H | H];
                      [left; exact H | right; pos_solve]
                  end ] ].

Ltac ok_leaf := steps; split_all; ok_atom.

(* ================================================================== *)
(* 2. identification functions                                         *)

Theorem bridge_V : forall f a y z, gen_V f a y z = spec_V f a y z.
Proof.
  intros f a y z.
  unfold gen_V, spec_V, level_okb, V_mean, V_quantile, V_expectile, asym.
  destruct f; cbn [fun_eqb negb andb orb]; steps;
    try reflexivity; apply f_equal; norm_np; fin.
Qed.

(* ================================================================== *)
(* 3. homogeneous expectile scores                                     *)

Ltac hes_arith :=
  unfold asym, breg, phi, dphi, hrange_of; steps;
  norm_np; norm_xlogy; norm_ln; fin.

Ltac hes_leaf h a y z :=
  apply f_equal;
  rewrite ?(asym_half' a y z) by lra;
  first [ solve [hes_arith]
        | solve [rewrite (breg_2 h y z) by lra; hes_arith] ].

Theorem bridge_hes : forall h a y z, gen_hes_spo h a y z = spec_hes h a y z.
Proof.
  intros h a y z.
  unfold gen_hes_spo, spec_hes, hes_domb, hrange_of. cbv zeta.
  steps; try reflexivity; hes_leaf h a y z.
Qed.

Theorem bridge_init_hes : forall h a,
  gen_hes_init h a = (if level_okb a then Ok 0 else ValueErr).
Proof.
  intros h a. unfold gen_hes_init, level_okb. steps; reflexivity.
Qed.

Theorem bridge_functional_hes : forall h a,
  gen_hes_functional h a = (if Reqb a (1/2) then Fmean else Fexpectile).
Proof.
  intros h a. unfold gen_hes_functional. steps; reflexivity.
Qed.

Theorem hes_ok : forall h a y z, hes_dom h y z -> gen_hes_spo_ok h a y z.
Proof.
  intros h a y z D. apply hes_domb_spec in D. revert D.
  unfold hes_domb, hrange_of, gen_hes_spo_ok. cbv zeta.
  steps_any; intros D; try discriminate D; ok_leaf.
Qed.

(* ================================================================== *)
(* 4. homogeneous quantile scores                                      *)

Ltac hqs_arith :=
  unfold Gq, odd_gt1; steps; norm_np; norm_ln; fin.

Ltac hqs_dom_tac :=
  unfold hqs_domb, hqs_whole_line, odd_gt1; steps_any; reflexivity.

(* level 1/2: gen takes an absolute value *)
Ltac hqs_abs h a y z :=
  match goal with
  | |- context [Rabs ?s] =>
      rewrite (Rabs_score h a y z s); [ | lra | hqs_dom_tac | hqs_arith ]
  end.

Ltac hqs_leaf h a y z :=
  apply f_equal; unfold np_abs;
  try hqs_abs h a y z;
  hqs_arith.

Theorem bridge_hqs : forall h a y z, gen_hqs_spo h a y z = spec_hqs h a y z.
Proof.
  intros h a y z.
  unfold gen_hqs_spo, spec_hqs, hqs_domb, hqs_whole_line, odd_gt1. cbv zeta.
  steps; try reflexivity; hqs_leaf h a y z.
Qed.

Theorem bridge_init_hqs : forall h a,
  gen_hqs_init h a = (if level_okb a then Ok 0 else ValueErr).
Proof.
  intros h a. unfold gen_hqs_init, level_okb. steps; reflexivity.
Qed.

Theorem hqs_ok : forall h a y z, hqs_dom h y z -> gen_hqs_spo_ok h a y z.
Proof.
  intros h a y z D. apply hqs_domb_spec in D. revert D.
  unfold hqs_domb, hqs_whole_line, odd_gt1, gen_hqs_spo_ok. cbv zeta.
  steps_any; intros D; try discriminate D; ok_leaf.
Qed.

(* ================================================================== *)
(* 5. log loss                                                         *)

(* the flag any1 = np.any((y > 0) & (y < 1)) over the sample: either it is set,
   or this observation is 0 or 1 *)
Lemma any1_cases y z any1 : 0 <= y <= 1 ->
  (gen_logloss_spo_any1 y z = true -> any1 = true) ->
  any1 = true \/ y = 0 \/ y = 1.
Proof.
  intros Hy. unfold gen_logloss_spo_any1.
  steps_any; intros H; first [ left; apply H; reflexivity | right; lra ].
Qed.

Theorem bridge_logloss : forall y z any1, 0 <= y <= 1 -> 0 < z < 1 ->
  (gen_logloss_spo_any1 y z = true -> any1 = true) ->
  gen_logloss_spo y z any1 = Ok (spec_logloss y z).
Proof.
  intros y z any1 Hy Hz Hany.
  pose proof (any1_cases y z any1 Hy Hany) as Hc. clear Hany.
  unfold gen_logloss_spo, spec_logloss, phi_ll, dphi_ll. cbv zeta.
  assert (Hy3 : y = 0 \/ y = 1 \/ 0 < y < 1) by lra.
  destruct Hy3 as [Hy0 | [Hy1 | Hy01]]; [subst y | subst y |];
    (destruct any1;
     [| try (exfalso; destruct Hc as [Hc | Hc]; [discriminate Hc | lra]) ]);
    apply f_equal; norm_np; norm_xlogy; norm_ln; fin.
Qed.

Theorem logloss_ok : forall y z any1, 0 <= y <= 1 -> 0 < z < 1 ->
  gen_logloss_spo_ok y z any1.
Proof.
  intros y z any1 Hy Hz. unfold gen_logloss_spo_ok. cbv zeta.
  destruct any1; ok_leaf.
Qed.

(* ================================================================== *)
(* 6. elementary scores                                                *)

Theorem bridge_elem : forall eta f a y z,
  gen_elem_spo eta f a y z = spec_elem eta f a y z.
Proof.
  intros eta f a y z.
  unfold gen_elem_spo, gen_elem_functional, spec_elem. cbv zeta.
  rewrite bridge_V.
  destruct f; cbn [fun_eqb orb elem_strict];
    (destruct (spec_V _ a y eta); cbn [rbind]; [apply f_equal; fin | reflexivity]).
Qed.

Theorem bridge_init_elem : forall eta f a,
  gen_elem_init eta f a = (if level_okb a then Ok 0 else ValueErr).
Proof.
  intros eta f a. unfold gen_elem_init, level_okb. steps; reflexivity.
Qed.

Print Assumptions bridge_hes.
Print Assumptions bridge_hqs.
