(* The leaves regenerated from the current text of pava / gpava /
   isotonic_regression equal the leaves the models (and hence the theorems) use. *)
From Coq Require Import QArith Qreduction Lqa List Bool.
Open Scope Q_scope.
From MD Require Import lib.QLists model.Gpava model.Pava model.Isotonic.
From MD Require Import gen.Gen_pava_leaves gen.Gen_gpava_leaves gen.Gen_isotonic_regression_leaves.

(* pava: comparisons *)
Lemma br_pava_viol a b : leaf_pava_viol a b = pgeb a b.   Proof. reflexivity. Qed.
Lemma br_pava_up a b : leaf_pava_up a b = pgeb a b.       Proof. reflexivity. Qed.
Lemma br_pava_down a b : leaf_pava_down a b = pgeb a b.   Proof. reflexivity. Qed.
(* pava: reads *)
Lemma br_pava_init_x y0 : leaf_pava_init_x y0 = y0.       Proof. reflexivity. Qed.
Lemma br_pava_init_w w0 : leaf_pava_init_w w0 = w0.       Proof. reflexivity. Qed.
Lemma br_pava_read_x v : leaf_pava_read_x v = v.          Proof. reflexivity. Qed.
Lemma br_pava_read_w v : leaf_pava_read_w v = v.          Proof. reflexivity. Qed.
(* pava: arithmetic (the model wraps every result in Qred, which is == -transparent) *)
Lemma br_pava_sb0 wp xp wb xb : leaf_pava_sb0 wp xp wb xb == l_sb0 wp xp wb xb.
Proof. unfold leaf_pava_sb0, l_sb0. rewrite Qred_correct. ring. Qed.
Lemma br_pava_wadd0 wb wp : wb + leaf_pava_wadd0 wp == l_wadd wb wp.
Proof. unfold leaf_pava_wadd0, l_wadd. rewrite Qred_correct. ring. Qed.
Lemma br_pava_wadd_up wb wi : wb + leaf_pava_wadd_up wi == l_wadd wb wi.
Proof. unfold leaf_pava_wadd_up, l_wadd. rewrite Qred_correct. ring. Qed.
Lemma br_pava_wadd_down wb wi : wb + leaf_pava_wadd_down wi == l_wadd wb wi.
Proof. unfold leaf_pava_wadd_down, l_wadd. rewrite Qred_correct. ring. Qed.
Lemma br_pava_sadd_up sb w x : sb + leaf_pava_sadd_up w x == l_sadd sb w x.
Proof. unfold leaf_pava_sadd_up, l_sadd. rewrite Qred_correct. ring. Qed.
Lemma br_pava_sadd_down sb w x : sb + leaf_pava_sadd_down w x == l_sadd sb w x.
Proof. unfold leaf_pava_sadd_down, l_sadd. rewrite Qred_correct. ring. Qed.
Lemma br_pava_div sb wb : leaf_pava_div sb wb == qdiv sb wb.
Proof. unfold leaf_pava_div, qdiv. rewrite Qred_correct. reflexivity. Qed.

(* gpava *)
Lemma br_gpava_viol a b : leaf_gpava_viol a b = geb a b.  Proof. reflexivity. Qed.
Lemma br_gpava_up a b : leaf_gpava_up a b = geb a b.      Proof. reflexivity. Qed.
Lemma br_gpava_down a b : leaf_gpava_down a b = geb a b.  Proof. reflexivity. Qed.
Lemma br_gpava_init_x y0 : leaf_gpava_init_x y0 = y0.     Proof. reflexivity. Qed.
Lemma br_gpava_read_x v : leaf_gpava_read_x v = v.        Proof. reflexivity. Qed.

(* isotonic_regression *)
Lemma br_iso_level_guard lv : leaf_isotonic_regression_level_guard lv = (Qle_bool lv 0 || Qle_bool 1 lv).
Proof. reflexivity. Qed.
Lemma br_iso_w_nonpos w : leaf_isotonic_regression_w_nonpos w = Qle_bool w 0.
Proof. reflexivity. Qed.
Lemma br_iso_midpoint xl xu : leaf_isotonic_regression_midpoint xl xu == Qred ((1#2) * (xl + xu)).
Proof. unfold leaf_isotonic_regression_midpoint. rewrite Qred_correct. reflexivity. Qed.
