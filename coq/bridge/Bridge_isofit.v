(* The leaves regenerated from the current text of class IsotonicRegression
   (skeleton/IsotonicRegression.tmpl.py pins every statement of __init__, fit and
   predict; the two index conditions of lines 528 and 532-534 are holes) equal the
   conditions used by model/IsoFit.v.  The leaves compute over Q on the integer
   block indices; the model uses truncated subtraction on nat. *)
From Coq Require Import QArith Qreduction Lqa Lia List Bool ZArith.
Import ListNotations.
Open Scope Q_scope.
From MD Require Import lib.QLists model.Functionals model.Isotonic model.IsoFit.
From MD Require Import gen.Gen_IsotonicRegression_leaves.

Lemma Qnat_expr (a b : nat) : Qnat a - 1 - Qnat b = inject_Z (Z.of_nat a - 1 - Z.of_nat b).
Proof.
  unfold Qnat, Qminus. change 1 with (inject_Z 1).
  rewrite <- !inject_Z_opp, <- !inject_Z_plus. reflexivity.
Qed.

Lemma ge1_nat_Q (a b : nat) : Qle_bool 1 (Qnat a - 1 - Qnat b) = Nat.leb 1 (a - 1 - b).
Proof.
  rewrite Qnat_expr. change 1 with (inject_Z 1).
  destruct (Nat.leb 1 (a - 1 - b)) eqn:E.
  - apply Nat.leb_le in E. apply Qle_bool_iff. rewrite <- Zle_Qle. lia.
  - apply Nat.leb_gt in E.
    destruct (Qle_bool (inject_Z 1) (inject_Z (Z.of_nat a - 1 - Z.of_nat b))) eqn:E2; [|reflexivity].
    apply Qle_bool_iff in E2. rewrite <- Zle_Qle in E2. lia.
Qed.

(* line 528: `r[i] - 1 - r[i - 1] >= 1` *)
Lemma br_isofit_prev_gt1 (ri prev : nat) :
  leaf_IsotonicRegression_prev_gt1 (Qnat ri) (Qnat prev) = Nat.leb 1 (ri - 1 - prev).
Proof. unfold leaf_IsotonicRegression_prev_gt1. apply ge1_nat_Q. Qed.

(* lines 532-534 *)
Lemma br_isofit_last_cond xa xb y0 yl (rl prev : nat) :
  leaf_IsotonicRegression_last_cond xa xb y0 yl (Qnat rl) (Qnat prev) =
  negb (Qeq_bool xa xb) && (Qeq_bool y0 yl || Nat.leb 1 (rl - 1 - prev)).
Proof. unfold leaf_IsotonicRegression_last_cond. rewrite ge1_nat_Q. reflexivity. Qed.

(* the model's index list, written with the generated leaves *)
Lemma br_idx_from_last Xs y0 yl prev rl :
  idx_from Xs (Qeq_bool y0 yl) prev [rl] =
  if leaf_IsotonicRegression_last_cond (nth (rl - 1) Xs 0) (nth prev Xs 0) y0 yl (Qnat rl) (Qnat prev)
  then [(rl - 1)%nat] else [].
Proof. rewrite br_isofit_last_cond. reflexivity. Qed.

Lemma br_idx_from_step Xs allsame prev ri r2 rs :
  idx_from Xs allsame prev (ri :: r2 :: rs) =
  (if leaf_IsotonicRegression_prev_gt1 (Qnat ri) (Qnat prev) then [(ri - 1)%nat] else [])
    ++ ri :: idx_from Xs allsame ri (r2 :: rs).
Proof. rewrite br_isofit_prev_gt1. reflexivity. Qed.

Print Assumptions br_idx_from_last.
Print Assumptions br_idx_from_step.
