(* Comparator for the correspondence run of compute_partial_dependence (C16).
   The Coq side cannot run a Python callable, so the predictor of a case is DATA, a member of
   a family definable in both worlds (harness/run_pd.py builds the Python callable from the
   same numbers and evaluates it exactly, with Fractions):

     f(row) = c0 + sum_k cs[k]*row[k] + d * row[a] * row[b] + (h if row[s] <= t else 0)

   i.e. linear + one interaction (which may involve the overwritten feature) + one step. *)
From Coq Require Import ZArith QArith Qabs Qreduction List Bool.
Import ListNotations.
Open Scope Q_scope.
From MD Require Import lib.QLists model.PartialDep corr.Decode.

Record predspec := mkpred {
  p_c0 : Q; p_cs : list Q;
  p_d : Q; p_a : nat; p_b : nat;
  p_h : Q; p_s : nat; p_t : Q }.

Definition eval_pred (p : predspec) (r : row) : Q :=
  Qred (p_c0 p + dot (p_cs p) r + p_d p * nth (p_a p) r 0 * nth (p_b p) r 0
        + (if Qle_bool (nth (p_s p) r 0) (p_t p) then p_h p else 0)).

(* what the implementation did; exception classes as observed *)
Inductive pdobs :=
  | ObsOk (v : list Q)
  | ObsIndexError | ObsValueError | ObsZeroDivision | ObsTypeError | ObsOther.

Record pdcase := mkpd {
  pc_ct : coltype;                 (* storage type of the overwritten column in the container *)
  pc_pred : predspec;
  pc_X : matrix; pc_j : nat; pc_grid : list Q; pc_w : option (list Q);
  pc_nmax : option nat;
  pc_idx : list nat;               (* default_rng(seed).choice(n, size=n_max, replace=False), [] if unused *)
  pc_seen : matrix;                (* the matrix the real function handed to the predictor *)
  pc_obs : pdobs }.

Definition run (c : pdcase) : pd_result :=
  compute_pd (eval_pred (pc_pred c)) (pc_ct c) (pc_X c) (pc_j c) (pc_grid c) (pc_w c) (pc_nmax c) (pc_idx c).

Fixpoint row_eqb (a b : row) : bool :=
  match a, b with
  | [], [] => true
  | x :: a', y :: b' => Qeq_bool x y && row_eqb a' b'
  | _, _ => false
  end.
Fixpoint matrix_eqb (a b : matrix) : bool :=
  match a, b with
  | [], [] => true
  | x :: a', y :: b' => row_eqb x y && matrix_eqb a' b'
  | _, _ => false
  end.

Definition model_input (c : pdcase) : matrix :=
  pred_input (pc_ct c) (pc_X c) (pc_j c) (pc_grid c) (pc_nmax c) (pc_idx c).

(* values within 1e-9 (relative to 1+|v|); the stacked matrix EXACTLY, row by row, in order *)
Definition ok_case (c : pdcase) : bool :=
  match run c, pc_obs c with
  | PDOk v, ObsOk o => all_close tol9 v o && matrix_eqb (model_input c) (pc_seen c)
  | PDErr EIndex, ObsIndexError => true
  | PDErr EValue, ObsValueError => true
  | PDErr EZeroDivision, ObsZeroDivision => true
  | PDErr EEmptyGrid, ObsZeroDivision => true
  | PDErr EEmptyGrid, ObsIndexError => true
  | _, _ => false
  end.

Definition is_sub (c : pdcase) : bool :=
  match subsampling (length (pc_X c)) (pc_nmax c) with Some _ => true | None => false end.
Definition is_err (c : pdcase) : bool := match run c with PDErr _ => true | _ => false end.
Definition nrows_compared (c : pdcase) : nat :=
  match run c with PDOk _ => length (pc_seen c) | _ => 0%nat end.

(* (disagreeing indices, #cases, #sub-sampled cases, #error cases, #stacked rows compared exactly) *)
Definition summary (cs : list pdcase) :=
  (bad_indices ok_case cs, length cs,
   count_true is_sub cs, count_true is_err cs,
   fold_right (fun c s => (nrows_compared c + s)%nat) 0%nat cs).
