(* Comparator for the correspondence run of `np.histogram_bin_edges(a, bins=rule)`,
   rule in sturges / sqrt / rice, against model/NumpyRules.v (harness/run_nprules.py corr).

   A case keeps only the summary of the array the model needs: dtype kind, n, min, max.
   Checked per case:
   * layer 2 (`np_edges`, binary64): same number of bins, every edge EQUAL as a rational
     (bit for bit), ValueError exactly when the model says so;
   * layer 1 (`rule_edges_exact`, mathematical): if numpy's number of bins is the exact one,
     every edge within 1e-12 * max(|first|, |last|) of the rational linspace; if it is not,
     n must be an `exact_point` of the rule and numpy has exactly one bin more. *)
From Coq Require Import ZArith NArith QArith Qabs Qreduction List Bool.
Import ListNotations.
Open Scope Q_scope.
From MD Require Import model.NumpyRules corr.Decode.

Inductive nobs :=
  | ObsOk (nbins : N) (edges : list Q)
  | ObsValueError
  | ObsOther.

Record ncase := NCase {
  c_rule : rule; c_kind : dkind; c_n : N; c_lo : Q; c_hi : Q; c_obs : nobs }.

Fixpoint all_eq (a b : list Q) : bool :=
  match a, b with
  | [], [] => true
  | x :: a', y :: b' => Qeq_bool x y && all_eq a' b'
  | _, _ => false
  end.

(* |a - b| <= 1e-12 * scale *)
Definition tol12 : Q := 1 # 1000000000000.
Fixpoint all_within (scale : Q) (a b : list Q) : bool :=
  match a, b with
  | [], [] => true
  | x :: a', y :: b' => Qle_bool (Qabs (x - y)) (tol12 * scale) && all_within scale a' b'
  | _, _ => false
  end.
Definition qmax (a b : Q) : Q := if Qle_bool a b then b else a.

Definition exact_layer_ok (c : ncase) (K' : N) (es' : list Q) : bool :=
  let '(f, l, Kx) := rule_outer_exact (c_rule c) (c_kind c) (c_n c) (c_lo c) (c_hi c) in
  if (K' =? Kx)%N
  then all_within (qmax (Qabs f) (Qabs l)) (linspaceQ f l Kx) es'
  else exact_point (c_rule c) (c_n c) && (K' =? Kx + 1)%N.

Definition model_of (c : ncase) : npres := np_edges (c_rule c) (c_kind c) (c_n c) (c_lo c) (c_hi c).

(* numpy's number of bins differs from the mathematical one *)
Definition is_inexact (c : ncase) : bool :=
  match c_obs c with
  | ObsOk K' _ =>
      let '(_, _, Kx) := rule_outer_exact (c_rule c) (c_kind c) (c_n c) (c_lo c) (c_hi c) in
      negb (K' =? Kx)%N
  | _ => false
  end.

(* the model is evaluated once per case: (agrees, model says ValueError, outside the model, inexact) *)
Definition verdict (c : ncase) : bool * bool * bool * bool :=
  match model_of c, c_obs c with
  | NpOk K es, ObsOk K' es' =>
      ((K =? K')%N && all_eq es es' && exact_layer_ok c K' es', false, false, is_inexact c)
  | NpOk _ _, _ => (false, false, false, false)
  | NpErr _, ObsValueError => (true, true, false, false)
  | NpErr _, _ => (false, true, false, false)
  | NpUnmodelled, ObsOk _ _ => (true, false, true, is_inexact c)   (* the model makes no claim *)
  | NpUnmodelled, _ => (false, false, true, false)
  end.

Definition ok_case (c : ncase) : bool := fst (fst (fst (verdict c))).

Definition v_ok (v : bool * bool * bool * bool) : bool := fst (fst (fst v)).
Definition v_err (v : bool * bool * bool * bool) : bool := snd (fst (fst v)).
Definition v_unm (v : bool * bool * bool * bool) : bool := snd (fst v).
Definition v_inexact (v : bool * bool * bool * bool) : bool := snd v.

(* (disagreeing indices, #cases, #ValueError cases, #cases outside the model,
    #cases where numpy's number of bins is not that of the exact rule) *)
Definition summary (cs : list ncase) :=
  let vs := map verdict cs in
  (bad_indices v_ok vs, List.length vs, count_true v_err vs, count_true v_unm vs,
   count_true v_inexact vs).
