(* Comparator for the correspondence run of `isotonic_regression`. *)
From Coq Require Import ZArith QArith Qabs Qreduction List Bool.
Import ListNotations.
Open Scope Q_scope.
From MD Require Import lib.QLists model.Functionals model.Isotonic corr.Decode.

(* what the implementation did *)
Inductive iobs :=
  | ORes (x : list Q) (r : list nat)
  | OValueError | ONotImplemented | OOther.

Record icase := mkicase {
  c_y : list Q; c_w : option (list Q); c_inc : bool; c_fun : ifun; c_level : Q;
  c_exact_r : bool;          (* float arithmetic provably exact: compare block vector exactly *)
  c_obs : iobs }.

Definition run (c : icase) := isotonic_regression (c_y c) (c_w c) (c_inc c) (c_fun c) (c_level c).

(* a boundary k present in one block vector only is tolerated (inexact stream)
   when the model's neighbouring values are within 1e-7 of each other *)
Fixpoint memn (k : nat) (l : list nat) : bool :=
  match l with [] => false | x :: l' => Nat.eqb x k || memn k l' end.
Definition near_boundary (x : list Q) (k : nat) : bool :=
  match k with
  | O => false
  | S k' => close tol7 (nth k' x 0) (nth k x 0)
  end.
Definition r_close (x : list Q) (rm ri : list nat) : bool :=
  forallb (fun k => memn k ri || near_boundary x k) rm &&
  forallb (fun k => memn k rm || near_boundary x k) ri.

Definition ok_case (c : icase) : bool :=
  match run c, c_obs c with
  | IOk (x, r), ORes xi ri =>
      all_close tol9 x xi && (if c_exact_r c then nat_list_eqb r ri else r_close x r ri)
  | IErr EValue, OValueError => true
  | IErr ENotImplemented, ONotImplemented => true
  | IErr EIndex, OOther => true
  | _, _ => false
  end.

Definition nblocks (c : icase) : nat :=
  match run c with IOk (_, r) => pred (length r) | _ => 0%nat end.

(* summary printed by a case file: (disagreeing indices, #cases, #error cases, total blocks) *)
Definition summary (cs : list icase) :=
  (bad_indices ok_case cs, length cs,
   count_true (fun c => match run c with IErr _ => true | _ => false end) cs,
   fold_right (fun c s => (nblocks c + s)%nat) 0%nat cs).
