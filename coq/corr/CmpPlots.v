(* Comparator for the correspondence run of the plot functions (C19):
     plot_reliability_diagram, plot_murphy_diagram, plot_bias  (matplotlib / Agg backend)
   against model/Plots.v, on the Line2D / errorbar data that harness/run_plots.py reads back
   from the returned Axes.

   Reliability curves are compared as FUNCTIONS (scikit-learn - used for functional = "mean" -
   and the library thin out the interior vertices of constant runs differently, and float PAVA
   may split a run of equal values by one ulp):
     * the observed vertices have non-decreasing x, start at the smallest and end at the
       largest prediction of that column (exact);
     * every observed vertex (x_k, y_k) lies on the model's curve: y_k ~ model(x_k);
     * the polyline through the observed vertices, evaluated at every prediction of the column
       and at every model vertex, equals the model's curve there.
   For diagram_type = "bias" the same is done on the curves x - fit(x) (piecewise linear on the
   same knots).  Tolerance: close tol9 (1e-9 relative).  The binning of plot_bias' feature is
   computed by the C08 / C09 models through corr/CmpBias.grouping_of. *)
From Coq Require Import ZArith QArith Qabs Qreduction List Bool String.
Import ListNotations.
Open Scope Q_scope.
From MD Require Import lib.QLists model.Functionals model.Isotonic model.IsoFit model.Binning model.Bias
  model.Plots corr.Decode.
From MD Require corr.CmpBias.

(* ------------------------------------------------------------------ *)
(* small helpers                                                       *)
(* ------------------------------------------------------------------ *)
Definition ostr_eqb (a b : option string) : bool :=
  match a, b with
  | None, None => true
  | Some x, Some y => String.eqb x y
  | _, _ => false
  end.
Fixpoint labels_eqb (a b : list (option string)) : bool :=
  match a, b with
  | [], [] => true
  | x :: a', y :: b' => ostr_eqb x y && labels_eqb a' b'
  | _, _ => false
  end.

Fixpoint all_eq (a b : list Q) : bool :=
  match a, b with
  | [], [] => true
  | x :: a', y :: b' => Qeq_bool x y && all_eq a' b'
  | _, _ => false
  end.

Fixpoint nondecr (l : list Q) : bool :=
  match l with
  | a :: ((b :: _) as l') => Qle_bool a b && nondecr l'
  | _ => true
  end.

Definition pt_eqb (p q : Q * Q) : bool := Qeq_bool (fst p) (fst q) && Qeq_bool (snd p) (snd q).

Fixpoint forall2b {A B} (p : A -> B -> bool) (a : list A) (b : list B) : bool :=
  match a, b with
  | [], [] => true
  | x :: a', y :: b' => p x y && forall2b p a' b'
  | _, _ => false
  end.

(* ------------------------------------------------------------------ *)
(* reliability diagram                                                 *)
(* ------------------------------------------------------------------ *)
Inductive rel_obs :=
  | RObs (refline : list (Q * Q))            (* the dotted reference line: its two end points *)
         (curves : list (list (Q * Q)))      (* get_xydata() of the solid lines, in drawing order *)
         (labels : list (option string))     (* their labels (None = not in the legend) *)
  | RShapeError | RValueError | RNotImplemented | RIndexError | ROther.

Record rel_case := mkrel {
  r_dt : diagram; r_fun : functional; r_level : Q;
  r_y : list Q; r_w : option (list Q); r_preds : list (list Q); r_names : list string;
  r_obs : rel_obs }.

(* the model curve mps and the observed polyline ops describe the same function on the column *)
Definition curve_ok (col : list Q) (mps ops : list (Q * Q)) : bool :=
  match arr_min_max col, ops with
  | Some (lo, hi), p0 :: _ =>
      nondecr (map fst ops) &&
      Qeq_bool (fst p0) lo && Qeq_bool (fst (last ops p0)) hi &&
      (* every observed vertex lies on the model's curve *)
      forallb (fun p => match interp_np mps (fst p) with
                        | Some v => close tol9 v (snd p) | None => false end) ops &&
      (* same function at every prediction of the column and at every model vertex *)
      forallb (fun x => match interp_np mps x, interp_np ops x with
                        | Some a, Some b => close tol9 a b | _, _ => false end)
              (col ++ map fst mps)
  | _, _ => false
  end.

Definition refline_ok (m : option segment) (o : list (Q * Q)) : bool :=
  match m, o with
  | Some (a, b), [a'; b'] => pt_eqb a a' && pt_eqb b b'
  | _, _ => false
  end.

Fixpoint first_err {A} (l : list (fres A)) : option ferr :=
  match l with
  | [] => None
  | FErr e :: _ => Some e
  | FOk _ :: l' => first_err l'
  end.

Definition rel_ok (c : rel_case) : bool :=
  match reliability_diagram (r_dt c) (r_fun c) (r_level c) (r_y c) (r_w c) (r_preds c) with
  | RDValueError => match r_obs c with RValueError => true | _ => false end
  | RDOk refl curves =>
  match first_err curves, r_obs c with
  | None, RObs orefl ocurves olabels =>
      refline_ok refl orefl &&
      forall2b (fun cm o => match snd cm with
                            | FOk mps => curve_ok (fst cm) mps o
                            | FErr _ => false end)
               (combine (r_preds c) curves) ocurves &&
      Nat.eqb (List.length curves) (List.length (r_preds c)) &&
      labels_eqb (curve_labels (r_names c)) olabels
  | Some FShape, RShapeError => true
  | Some (FIso EValue), RValueError => true
  | Some (FIso ENotImplemented), RNotImplemented => true
  | Some (FIso EIndex), RIndexError => true
  | _, _ => false
  end
  end.

(* ------------------------------------------------------------------ *)
(* Murphy diagram                                                      *)
(* ------------------------------------------------------------------ *)
Inductive mur_obs :=
  | MObs (curves : list (list (Q * Q))) (labels : list (option string))
  | MEValue | METype | MEZeroDiv | MEOther.

Record mur_case := mkmur {
  m_fun : functional; m_level : Q; m_y : list Q; m_w : option (list Q);
  m_preds : list (list Q); m_names : list string; m_spec : eta_spec;
  m_obs : mur_obs }.

(* the x data against the model's grid: explicit etas exactly; the default grid within
   tolerance (np.linspace rounds) with EXACT end points *)
Definition etas_ok (spec : eta_spec) (g xs : list Q) : bool :=
  match spec with
  | EtaList _ => all_eq g xs
  | EtaCount k =>
      Nat.eqb (List.length xs) k && all_close tol9 g xs &&
      match g, xs with
      | g0 :: _, x0 :: _ => Qeq_bool g0 x0 && Qeq_bool (last g g0) (last xs x0)
      | [], [] => true
      | _, _ => false
      end
  end.

(* the y data: the model's average elementary scores AT THE PLOTTED etas (the scores are
   discontinuous in eta, so a grid point is never moved) *)
Definition mur_curve_ok (c : mur_case) (g : list Q) (col : list Q) (o : list (Q * Q)) : bool :=
  etas_ok (m_spec c) g (map fst o) &&
  match murphy_curve (m_fun c) (m_level c) (m_y c) (m_w c) (map fst o) col with
  | MOk mps => all_close tol9 (map snd mps) (map snd o)
  | MErr _ => false
  end.

Definition merr_matches (e : merr) (o : mur_obs) : bool :=
  match e, o with
  | MValueError, MEValue | MTypeError, METype | MZeroDivision, MEZeroDiv => true
  | _, _ => false
  end.

Definition mur_ok (c : mur_case) : bool :=
  match murphy_diagram (m_fun c) (m_level c) (m_y c) (m_w c) (m_spec c) (m_preds c), m_obs c with
  | MOk (g, _), MObs ocurves olabels =>
      forall2b (mur_curve_ok c g) (m_preds c) ocurves &&
      labels_eqb (curve_labels (m_names c)) olabels
  | MErr e, o => merr_matches e o
  | _, _ => false
  end.

(* ------------------------------------------------------------------ *)
(* bias plot                                                           *)
(* ------------------------------------------------------------------ *)
Record bp_point := mkpt {
  p_y : Q;               (* y of the marker *)
  p_count : nat;         (* bias_count of that row (from compute_bias on the same data) *)
  p_err : option Q;      (* half length of the error bar / band at that point, if drawn *)
  p_t : Q }.             (* scipy's stdtrit(max(count - 1, 1), 1 - (1 - confidence_level) / 2) *)

Record bp_series := mkos {
  os_main : list bp_point;        (* markers "o", in drawing order *)
  os_null : option bp_point;      (* marker "D" *)
  os_label : option string }.

Inductive bias_plot_obs :=
  | BPObs (series : list bp_series)
  | BPETypeError | BPEValueError | BPEInvalidOp | BPEOther.

Record bplot_case := mkbp {
  bp_fun : functional; bp_level : Q; bp_y : list Q; bp_models : list (list Q);
  bp_two_d : bool; bp_names : list string;
  bp_feat : CmpBias.feat; bp_n_bins : nat; bp_w : option (list Q);
  bp_errbars : bool;              (* error bars are drawn (confidence_level > 0) and were read back *)
  bp_obs : bias_plot_obs }.

Definition point_ok (errbars : bool) (g : gstat) (p : bp_point) : bool :=
  g_defined g && close tol9 (g_mean g) (p_y p) && Nat.eqb (g_count g) (p_count p) &&
  match p_err p with
  | Some e => errbars && close tol9 (g_stderr2 g * (p_t p * p_t p)) (e * e)
  | None => negb errbars
  end.

Definition series_ok (errbars : bool) (lab : option string) (m : bias_series) (o : bp_series) : bool :=
  forall2b (point_ok errbars) (bs_main m) (os_main o) &&
  match bs_null m, os_null o with
  | None, None => true
  | Some g, Some p => point_ok errbars g p
  | _, _ => false
  end &&
  ostr_eqb lab (os_label o).

Fixpoint series_all_ok (errbars : bool) (labs : list (option string)) (ms : list bias_series)
    (os : list bp_series) : bool :=
  match labs, ms, os with
  | [], [], [] => true
  | l :: labs', m :: ms', o :: os' => series_ok errbars l m o && series_all_ok errbars labs' ms' os'
  | _, _, _ => false
  end.

Definition has_feature (ft : CmpBias.feat) : bool :=
  match ft with CmpBias.FNone => false | _ => true end.

Definition bp_ok (c : bplot_case) : bool :=
  match CmpBias.grouping_of (bp_feat c) (bp_n_bins c) with
  | CmpBias.GR g =>
      match bias_plot (bp_fun c) (bp_level c) (bp_y c) (bp_models c) (bp_two_d c) g (bp_w c), bp_obs c with
      | BPOk ms, BPObs os =>
          let has_nulls := existsb (fun m => match bs_null m with Some _ => true | None => false end) ms in
          series_all_ok (bp_errbars c)
            (bias_labels (bp_names c) (bp_two_d c) (has_feature (bp_feat c)) has_nulls) ms os
      | BPNameError, BPETypeError => true
      | BPBias (BErr ETypeError), BPETypeError => true
      | BPBias (BErr EValueError), BPEValueError => true
      | BPBias (BErr EInvalidOp), BPEInvalidOp => true
      | _, _ => false
      end
  | CmpBias.GRErr ETypeError => match bp_obs c with BPETypeError => true | _ => false end
  | CmpBias.GRErr EValueError => match bp_obs c with BPEValueError => true | _ => false end
  | CmpBias.GRErr EInvalidOp => match bp_obs c with BPEInvalidOp => true | _ => false end
  | CmpBias.GRNan => false        (* never generated: the harness drops features with NaN bin edges *)
  end.

(* ------------------------------------------------------------------ *)
(* the case stream                                                     *)
(* ------------------------------------------------------------------ *)
Inductive pcase :=
  | CRel (c : rel_case)
  | CMur (c : mur_case)
  | CBias (c : bplot_case).

Definition ok_case (c : pcase) : bool :=
  match c with
  | CRel c' => rel_ok c'
  | CMur c' => mur_ok c'
  | CBias c' => bp_ok c'
  end.

Definition is_rel (c : pcase) : bool := match c with CRel _ => true | _ => false end.
Definition is_mur (c : pcase) : bool := match c with CMur _ => true | _ => false end.
Definition is_err (c : pcase) : bool :=
  match c with
  | CRel c' => match r_obs c' with RObs _ _ _ => false | _ => true end
  | CMur c' => match m_obs c' with MObs _ _ => false | _ => true end
  | CBias c' => match bp_obs c' with BPObs _ => false | _ => true end
  end.
(* number of plotted vertices / points compared *)
Definition npoints (c : pcase) : nat :=
  match c with
  | CRel c' => match r_obs c' with RObs _ cs _ => List.length (List.concat cs) | _ => 0%nat end
  | CMur c' => match m_obs c' with MObs cs _ => List.length (List.concat cs) | _ => 0%nat end
  | CBias c' => match bp_obs c' with
                | BPObs ss => fold_right (fun s n => (List.length (os_main s) + n)%nat) 0%nat ss
                | _ => 0%nat end
  end.

(* (disagreeing indices, #cases, #reliability cases, #Murphy cases, #cases with an exception,
    #plotted points compared) *)
Definition summary (cs : list pcase) :=
  (bad_indices ok_case cs, List.length cs, count_true is_rel cs, count_true is_mur cs,
   count_true is_err cs, fold_right (fun c s => (npoints c + s)%nat) 0%nat cs).
