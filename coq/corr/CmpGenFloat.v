(* Comparator of the BIT-EXACT correspondence run of the per-observation closed forms of scoring.py
   (score_per_obs of HomogeneousExpectileScore, HomogeneousQuantileScore, ElementaryScore, LogLoss and the
   named subclasses) and of identification_function against the GENERATED binary64 functions
   gen/Gen_scoring_f.v, gen/Gen_ident_f.v (printed by translate/gen_f.py from /repo's source on every run).
   Inputs and observed outputs are float64 written as hexadecimal literals (exact).  A returned array must be
   bit-equal element by element (+0 <> -0, NaN = NaN: Coq has a single NaN); ValueError must agree; a case
   whose branch the float printer could not express (FNotExpr: power / log / xlogy) is counted separately and is
   neither a failure nor an agreement.  harness/run_genfloat.py writes the case files. *)
From Coq Require Import PrimFloat Uint63 ZArith List Bool FloatOps.
Import ListNotations.
From MD Require Import lib.NumpyF gen.Gen_ident_f gen.Gen_scoring_f.

Definition fbit_eqb (a b : float) : bool := PrimFloat.Leibniz.eqb a b.

(* which public callable was called, with its constructor / keyword arguments *)
Inductive gfun :=
  | GHes (degree level : float)                 (* HomogeneousExpectileScore(degree, level).score_per_obs *)
  | GHqs (degree level : float)                 (* HomogeneousQuantileScore(degree, level).score_per_obs *)
  | GElem (eta : float) (f : fnl) (level : float)   (* ElementaryScore(eta, functional, level).score_per_obs *)
  | GLogLoss
  | GSquaredError | GPoissonDeviance | GGammaDeviance
  | GPinball (level : float)
  | GIdent (f : fnl) (level : float).           (* identification_function(y, z, functional=, level=) *)

(* what the implementation did *)
Inductive gobs := GORes (v : list float) | GOValueError | GOOther.

Record gcase := mkgcase { gc_fun : gfun; gc_y : list float; gc_z : list float; gc_obs : gobs }.

(* constructor first (it may raise), then the per-observation function lifted over the arrays *)
Definition with_init (i : fres) (r : fresl) : fresl :=
  match i with FVal _ => r | FValueErr => FLValueErr | FNotExpr => FLNotExpr end.

(* np.any(cond) over the sample; None = the condition is not expressible *)
Fixpoint any2_f (p : float -> float -> option bool) (ys zs : list float) : option bool :=
  match ys, zs with
  | y :: ys', z :: zs' =>
      match p y z, any2_f p ys' zs' with
      | Some a, Some b => Some (a || b)
      | _, _ => None
      end
  | _, _ => Some false
  end.

Definition grun (c : gcase) : fresl :=
  let y := gc_y c in
  let z := gc_z c in
  match gc_fun c with
  | GHes d l => with_init (gen_hes_init_f d l) (lift2_f (gen_hes_spo_f d l) y z)
  | GHqs d l => with_init (gen_hqs_init_f d l) (lift2_f (gen_hqs_spo_f d l) y z)
  | GElem e f l => with_init (gen_elem_init_f e f l) (lift2_f (gen_elem_spo_f e f l) y z)
  | GLogLoss =>
      match any2_f gen_logloss_spo_any1_f y z with
      | Some a => lift2_f (fun yi zi => gen_logloss_spo_f yi zi a) y z
      | None => FLNotExpr
      end
  | GSquaredError => with_init gen_SquaredError_init_f (lift2_f gen_SquaredError_spo_f y z)
  | GPoissonDeviance => with_init gen_PoissonDeviance_init_f (lift2_f gen_PoissonDeviance_spo_f y z)
  | GGammaDeviance => with_init gen_GammaDeviance_init_f (lift2_f gen_GammaDeviance_spo_f y z)
  | GPinball l => with_init (gen_PinballLoss_init_f l) (lift2_f (gen_PinballLoss_spo_f l) y z)
  | GIdent f l => lift2_f (gen_V_f f l) y z
  end.

Fixpoint flist_eqb (a b : list float) : bool :=
  match a, b with
  | [], [] => true
  | x :: a', y :: b' => fbit_eqb x y && flist_eqb a' b'
  | _, _ => false
  end.

Definition gnotexpr (c : gcase) : bool := match grun c with FLNotExpr => true | _ => false end.

Definition gok_case (c : gcase) : bool :=
  match grun c, gc_obs c with
  | FLNotExpr, _ => true                         (* no claim; counted by gnotexpr *)
  | FVals v, GORes w => flist_eqb v w
  | FLValueErr, GOValueError => true
  | _, _ => false
  end.

Fixpoint gbad_from (i : nat) (l : list gcase) : list nat :=
  match l with
  | [] => []
  | c :: l' => if gok_case c then gbad_from (S i) l' else i :: gbad_from (S i) l'
  end.

Definition gcount (p : gcase -> bool) (l : list gcase) : nat := List.length (filter p l).
Definition gvalues (c : gcase) : nat := match grun c with FVals v => List.length v | _ => 0%nat end.
Definition gnonfinite (c : gcase) : bool :=
  match grun c with FVals v => existsb (fun x => negb (PrimFloat.is_finite x)) v | _ => false end.

(* self-check of the literal encoding: the same double as a hexadecimal literal and as
   (sign, mantissa, exponent), value = mantissa * 2^exponent *)
Definition fenc (s : bool) (m : int) (e : Z) : float :=
  let f := Z.ldexp (PrimFloat.of_uint63 m) e in
  if s then PrimFloat.opp f else f.
Definition enc_bad (l : list (float * (bool * int * Z))) : nat :=
  List.length (filter (fun p => let '(f, (s, m, e)) := p in negb (fbit_eqb f (fenc s m e))) l).

(* A not-expressible case in which the implementation did NOT return a float64 array.  In general this is
   "no claim" (an inexpressible computation may precede a raise); for the present source every ValueError guard
   precedes the inexpressible expression of its branch and is modelled, so the count is expected to be 0 - a
   non-zero count means the parameter conditions (e.g. Python's float % in `degree % 2 == 1`) selected a
   different branch than the implementation. *)
Definition gnotexpr_noarray (c : gcase) : bool :=
  match grun c, gc_obs c with
  | FLNotExpr, GORes _ => false
  | FLNotExpr, _ => true
  | _, _ => false
  end.

(* summary printed by a case file:
   (disagreeing indices, #cases, #cases not expressible (no claim), #cases where model and implementation both
    raise ValueError, #observations compared bit for bit, #cases with inf / NaN among the model's values,
    #not-expressible cases where the implementation raised, #encoding mismatches) *)
Definition gsummary (cs : list gcase) (enc : list (float * (bool * int * Z))) :=
  (gbad_from 0 cs, List.length cs,
   gcount gnotexpr cs,
   gcount (fun c => match grun c, gc_obs c with FLValueErr, GOValueError => true | _, _ => false end) cs,
   fold_right (fun c s => (gvalues c + s)%nat) 0%nat cs,
   gcount gnonfinite cs,
   gcount gnotexpr_noarray cs,
   enc_bad enc).
