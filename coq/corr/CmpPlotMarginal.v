(* Comparator for the correspondence run of `plot_marginal` (matplotlib / Agg backend; C19, companion of
   corr/CmpPlots.v): model/PlotMarginal.v on top of model/Marginal.v against what harness/run_plotmarginal.py
   reads back from the returned Axes and its twin:
     * the Line2D objects of the primary axes in drawing order: an "o" line per plotted column (label, line
       style, x / y data with NaN as None), each followed - when the feature has nulls - by its "D" line;
     * the bar containers of the twin axis (centre, width, height of every rectangle), whether the first one has
       the grey histogram edges;
     * tick labels (categorical), x label, title, legend texts.
   The inputs of the call are a corr/CmpMarginal.mcase (its c_obs is not used): the plotted numbers are compared
   with the Marginal MODEL evaluated on the exact rational inputs, tolerance close tol9. *)
From Coq Require Import ZArith QArith Qabs Qreduction List Bool String.
Import ListNotations.
Open Scope Q_scope.
From MD Require Import lib.QLists model.Functionals model.Binning model.PartialDep model.Bias model.Marginal
  model.PlotMarginal corr.Decode corr.CmpMarginal.

Record oser := mkoser {
  os_label : option string;                       (* None: not in the legend (label starting with "_") *)
  os_style : lstyle;
  os_main : list (option Q * option Q);
  os_null : option (option Q * option Q) }.       (* the "D" line that follows (one point) *)

Record obar := mkobar { ob_x : Q; ob_w : Q; ob_h : option Q }.     (* centre, width, height (None = NaN / inf) *)

Inductive pmobs :=
  | PObs (series : list oser) (bars : list (list obar)) (hist : bool)
         (xticks : option (list string)) (xlabel title : string) (legend : list string)
  | PEValue | PEType | PECompute | PEInvalidOp | PEIndex | PEZeroDiv | PEOther.

Record pmcase := mkpmc {
  pc_m : mcase;                 (* y, [z], feature, n_bins, weights, predictor + what it is given *)
  pc_two_d : bool;              (* y_pred handed over with shape (n_obs, 1) *)
  pc_sl : show_lines;
  pc_fname : string;            (* name of the feature column of compute_marginal's frame *)
  pc_mname : string;            (* array_name(y_pred, default "") *)
  pc_obs : pmobs }.

Definition run_pm (c : pmcase) : pmres :=
  let m := pc_m c in
  match c_pd m with
  | Some (pr, pin) =>
      plot_marginal (meval_pred pr) (c_y m) (c_models m) (pc_two_d c) (c_feat m) (c_n_bins m) (c_w m) (Some pin)
                    (pc_sl c) (pc_fname c) (pc_mname c)
  | None =>
      plot_marginal (fun _ => 0) (c_y m) (c_models m) (pc_two_d c) (c_feat m) (c_n_bins m) (c_w m) None
                    (pc_sl c) (pc_fname c) (pc_mname c)
  end.

(* ------------------------------------------------------------------ *)
Definition optq_close (a b : option Q) : bool :=
  match a, b with
  | None, None => true
  | Some x, Some y => close tol9 x y
  | _, _ => false
  end.

Definition pm_ostr_eqb (a b : option string) : bool :=
  match a, b with
  | None, None => true
  | Some x, Some y => String.eqb x y
  | _, _ => false
  end.

Fixpoint pm_forall2b {A B} (p : A -> B -> bool) (a : list A) (b : list B) : bool :=
  match a, b with
  | [], [] => true
  | x :: a', y :: b' => p x y && pm_forall2b p a' b'
  | _, _ => false
  end.

Definition lstyle_eqb (a b : lstyle) : bool :=
  match a, b with
  | LSNone, LSNone | LSSolid, LSSolid | LSDashed, LSDashed => true
  | _, _ => false
  end.

Definition pt_ok (m o : option Q * option Q) : bool :=
  optq_close (fst m) (fst o) && optq_close (snd m) (snd o).

Definition series_ok (m : series) (o : oser) : bool :=
  pm_ostr_eqb (Some (s_label m)) (os_label o) &&
  lstyle_eqb (s_style m) (os_style o) &&
  pm_forall2b pt_ok (s_main m) (os_main o) &&
  match s_null m, os_null o with
  | None, None => true
  | Some (x, y), Some op => pt_ok (Some x, y) op
  | _, _ => false
  end.

Definition bar_ok (m : bar) (o : obar) : bool :=
  close tol9 (b_x m) (ob_x o) &&
  close tol9 (match b_width m with Some w => w | None => eight_tenths end) (ob_w o) &&
  optq_close (b_height m) (ob_h o).

(* the first container always exists (possibly empty), the second one iff there is a null group *)
Definition containers_of (p : pmplot) : list (list bar) :=
  pm_bars p :: match pm_null_bar p with Some b => [[b]] | None => [] end.

Definition ticks_ok (m o : option (list string)) : bool :=
  match m, o with
  | None, None => true
  | Some a, Some b => pm_forall2b String.eqb a b
  | _, _ => false
  end.

Definition plot_ok (p : pmplot) (o : pmobs) : bool :=
  match o with
  | PObs ser bars hist ticks xl ti lg =>
      pm_forall2b series_ok (pm_series p) ser &&
      pm_forall2b (pm_forall2b bar_ok) (containers_of p) bars &&
      Bool.eqb (pm_hist p) hist &&
      ticks_ok (pm_xticks p) ticks &&
      String.eqb (pm_xlabel p) xl && String.eqb (pm_title p) ti &&
      pm_forall2b String.eqb (pm_legend p) lg
  | _ => false
  end.

Definition ok_res (c : pmcase) (r : pmres) : bool :=
  match r, pc_obs c with
  | PMOk p, o => plot_ok p o
  | PMValueError, PEValue => true
  | PMTypeError, PEType => true
  | PMMarg (MErr EValueError), PEValue => true
  | PMMarg (MErr ETypeError), PEType => true
  | PMMarg (MErr EInvalidOp), PEInvalidOp => true
  | PMMarg (MPdErr EIndex), PEIndex => true
  | PMMarg (MPdErr EValue), PEValue => true
  | PMMarg (MPdErr EZeroDivision), PEZeroDiv => true
  | PMMarg (MPdErr EEmptyGrid), (PEZeroDiv | PEIndex) => true
  (* y_pred of shape (n_obs, 1): the column "model" is taken for the feature.  Numerical feature: polars refuses
     to compare the bin edges with the model name; string-like: matplotlib refuses x of length 1 against several
     rows, or - one row - draws the model name as the only category *)
  | PMModelColumn, PECompute => is_num (c_feat (pc_m c))
  | PMModelColumn, (PEValue | PObs _ _ _ _ _ _ _) => is_str (c_feat (pc_m c))
  | _, _ => false
  end.

Definition ok_case (c : pmcase) : bool := ok_res c (run_pm c).

(* ------------------------------------------------------------------ *)
Definition is_err_res (r : pmres) : bool := match r with PMOk _ => false | _ => true end.
Definition npoints (r : pmres) : nat :=
  match r with
  | PMOk p => fold_right (fun s n => (List.length (s_main s) + (match s_null s with Some _ => 1 | None => 0 end) + n)%nat)
                         (List.length (pm_bars p)) (pm_series p)
  | _ => 0%nat
  end.
Definition has_pd_series (r : pmres) : bool :=
  match r with PMOk p => (2 <? List.length (pm_series p))%nat | _ => false end.
Definition has_null_group (r : pmres) : bool :=
  match r with PMOk p => match pm_null_bar p with Some _ => true | None => false end | _ => false end.
Definition is_hist (r : pmres) : bool := match r with PMOk p => pm_hist p | _ => false end.

Record pinfo := mkpi { pn_ok : bool; pn_err : bool; pn_pts : nat; pn_pd : bool; pn_null : bool; pn_hist : bool }.
Definition case_info (c : pmcase) : pinfo :=
  let r := run_pm c in
  mkpi (ok_res c r) (is_err_res r) (npoints r) (has_pd_series r) (has_null_group r) (is_hist r).

(* (disagreeing indices, #cases, #cases in which the model does not draw, #plotted points and bars compared,
    #cases with a partial dependence series, #cases with a null group, #cases drawn as histogram) *)
Definition summary (cs : list pmcase) :=
  let infos := map case_info cs in
  (bad_indices pn_ok infos, List.length cs, count_true pn_err infos,
   fold_right (fun i s => (pn_pts i + s)%nat) 0%nat infos, count_true pn_pd infos, count_true pn_null infos,
   count_true pn_hist infos).
