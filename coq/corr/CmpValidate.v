(* Comparator for the correspondence run of C20: one case = one descriptor of
   model/Validate.v together with the outcome classes the REAL entry point produced
   on the replicated random data sets (harness/run_validate.py).  Exact comparison. *)
From Coq Require Import QArith ZArith List Bool.
Import ListNotations.
From MD Require Import model.Validate corr.Decode.

Definition other_eqb (a b : other_exn) : bool :=
  match a, b with
  | TypeErr, TypeErr | ShapeErr, ShapeErr | UnboundLocal, UnboundLocal => true
  | _, _ => false                      (* `Unexpected` equals nothing, not even itself *)
  end.
Definition outcome_eqb (a b : outcome) : bool :=
  match a, b with
  | Ok, Ok | ValueError, ValueError | NotImplementedError, NotImplementedError => true
  | OtherException x, OtherException y => other_eqb x y
  | _, _ => false
  end.

Record vcase := mkvcase { vc_entry : entry; vc_d : descriptor; vc_obs : list outcome }.

Definition ok_case (c : vcase) : bool :=
  match vc_obs c with
  | [] => false
  | obs => forallb (outcome_eqb (validate (vc_entry c) (vc_d c))) obs
  end.

Definition is_ok (o : outcome) : bool := match o with Ok => true | _ => false end.
(* bad indices, number of descriptors, number of real calls compared, descriptors the model accepts *)
Definition summary (cs : list vcase) :=
  (bad_indices ok_case cs, length cs,
   fold_right (fun c s => length (vc_obs c) + s)%nat 0%nat cs,
   count_true (fun c => is_ok (validate (vc_entry c) (vc_d c))) cs).

(* ------------------------------------------------------------------ compact case files
   Several hundred thousand descriptors as Gallina records take minutes to parse; the harness therefore packs
   one descriptor and its observed outcomes into ONE primitive 63-bit integer literal (fast to parse), fields
   from the low bits upwards:
     entry 5 bits (index into `entries`) | level 3 (index into `levels`) | functional 3 | bin method 1 |
     n_bins 3 (index into [-1;0;1;2;3;10]) | n_obs 5 | n_pred 5 | n_feat 5 (0 = None, else n+1) | n_w 5 (same) |
     rank 1 | sign 2 | kind 3 | number of outcomes 2 | outcome 3 bits each (O V N T S U X = 0..6)
   Anything that does not decode counts as a disagreement.  The primitive integers are used for decoding only. *)
From Coq Require Import Uint63.

Definition fld (x off w : int) : nat := Z.to_nat (to_Z ((x >> off) land ((1 << w) - 1))%uint63).

(* the level axis of the harness: exact values of the doubles -1, 0, 5e-324, 0.5, 1-2^-53, 1, 2 *)
Definition lvl_tiny : Q := Qmake 1 (Pos.pow 2 1074).
Definition lvl_one_m : Q := Qmake (2 ^ 53 - 1) (Pos.pow 2 53).
Definition levels : list Q := [(-1 # 1)%Q; 0%Q; lvl_tiny; (1 # 2)%Q; lvl_one_m; 1%Q; 2%Q].
Definition entries : list entry :=
  [E_ident; E_bias; E_marginal; E_ctor; E_per_obs; E_call; E_decompose; E_decompose_infer; E_isoreg; E_isofit;
   E_bin_feature; E_pd; E_plot_rel; E_plot_bias; E_plot_marginal; E_plot_murphy; E_val2; E_valsame].
Definition functionals : list functional := [Fmean; Fmedian; Fexpectile; Fquantile; Fother].
Definition nbins_tab : list Z := [(-1)%Z; 0%Z; 1%Z; 2%Z; 3%Z; 10%Z].
Definition signs : list wsign := [AllPos; HasZero; HasNeg].
Definition kinds : list skind := [KHES; KSquared; KPoisson; KGamma; KLogLoss; KHQS; KPinball; KElementary].
Definition outcomes : list outcome :=
  [Ok; ValueError; NotImplementedError; OtherException TypeErr; OtherException ShapeErr; OtherException UnboundLocal].
Definition olen (n : nat) : option nat := match n with O => None | S k => Some k end.

Fixpoint dec_codes (x : int) (off : int) (n : nat) : list outcome :=
  match n with
  | O => []
  | S n' => nth (fld x off 3) outcomes (OtherException Unexpected) :: dec_codes x (off + 3)%uint63 n'
  end.

Definition dec_case (x : int) : option vcase :=
  match nth_error entries (fld x 0 5), nth_error levels (fld x 5 3), nth_error functionals (fld x 8 3),
        nth_error nbins_tab (fld x 12 3), nth_error signs (fld x 36 2), nth_error kinds (fld x 38 3) with
  | Some e, Some lv, Some f, Some nb, Some sg, Some k =>
      Some (mkvcase e
              (mkD lv f (match fld x 11 1 with O => BMvalid | _ => BMother end) nb (fld x 15 5) (fld x 20 5)
                   (olen (fld x 25 5)) (olen (fld x 30 5)) (match fld x 35 1 with O => R1 | _ => R2 end) sg k)
              (dec_codes x 43 (fld x 41 2)))
  | _, _, _, _, _, _ => None
  end.

Definition ok_opt (c : option vcase) : bool := match c with Some v => ok_case v | None => false end.
(* the cases come in blocks (a list of lists) so that no list literal is nested deeply *)
Definition summary_int (blocks : list (list int)) :=
  let cs := map dec_case (concat blocks) in
  (bad_indices ok_opt cs, length cs,
   fold_right (fun c n => match c with Some v => (length (vc_obs v) + n)%nat | None => n end) 0%nat cs,
   count_true (fun c => match c with Some v => is_ok (validate (vc_entry v) (vc_d v)) | None => false end) cs).
