(* Comparator for the correspondence run of C20: one case = one descriptor of
   model/Validate.v together with the outcome classes the REAL entry point produced
   on the replicated random data sets (harness/run_validate.py).  Exact comparison. *)
From Coq Require Import QArith ZArith List Bool.
Import ListNotations.
From MD Require Import model.Validate corr.Decode.

Definition other_eqb (a b : other_exn) : bool :=
  match a, b with
  | TypeErr, TypeErr | ShapeErr, ShapeErr | UnboundLocal, UnboundLocal => true
  | _, _ => false                      (* `Unexpected` equals nothing, not even itself *)
  end.
Definition outcome_eqb (a b : outcome) : bool :=
  match a, b with
  | Ok, Ok | ValueError, ValueError | NotImplementedError, NotImplementedError => true
  | OtherException x, OtherException y => other_eqb x y
  | _, _ => false
  end.

Record vcase := mkvcase { vc_entry : entry; vc_d : descriptor; vc_obs : list outcome }.

Definition ok_case (c : vcase) : bool :=
  match vc_obs c with
  | [] => false
  | obs => forallb (outcome_eqb (validate (vc_entry c) (vc_d c))) obs
  end.

Definition is_ok (o : outcome) : bool := match o with Ok => true | _ => false end.
(* bad indices, number of descriptors, number of real calls compared, descriptors the model accepts *)
Definition summary (cs : list vcase) :=
  (bad_indices ok_case cs, length cs,
   fold_right (fun c s => length (vc_obs c) + s)%nat 0%nat cs,
   count_true (fun c => is_ok (validate (vc_entry c) (vc_d c))) cs).
