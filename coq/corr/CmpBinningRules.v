(* `bin_feature` with bin_method in sturges / sqrt / rice, the interior edges computed by the
   MODEL (model/NumpyRules.v) instead of being handed over by the harness as in corr/CmpBinning.v.
   Cases come from harness/run_nprules.py corrbin.

   binning.py l. 284-288:
       a = feature.filter(feature.is_finite() & feature.is_not_null())
       bin_edges = np.histogram_bin_edges(a, bins=bin_method)[1:-1]
       n_bins_ef = bin_edges.shape[0] + 1
   The model derives (n, min, max) of `a` from the feature column itself. *)
From Coq Require Import ZArith NArith QArith Qabs Qreduction List Bool String.
Import ListNotations.
Open Scope Q_scope.
From MD Require Import lib.QLists model.Functionals model.Binning model.NumpyRules
  corr.Decode corr.CmpBinning.

(* the finite, non-null values: the array numpy sees *)
Definition finite_vals (feature : list (option ext)) : list Q :=
  flat_map (fun o => match o with Some (Fin q) => [q] | _ => [] end) feature.

Definition summary_of (a : list Q) : N * Q * Q :=
  match a with
  | [] => (0%N, 0, 0)
  | x :: xs => (N.of_nat (List.length a), minQ x xs, maxQ x xs)
  end.

Definition rule_npres (dk : dkind) (r : rule) (feature : list (option ext)) : npres :=
  let '(n, lo, hi) := summary_of (finite_vals feature) in np_edges r dk n lo hi.

Inductive rres := RRes (res : nres) | RUnmodelled.

(* does `bin_numeric` get as far as the call of numpy (l. 288)?  Otherwise its result does not
   depend on the interior edges *)
Definition reaches_numpy (kind : nkind) (feature : list (option ext)) (n_bins : nat) : bool :=
  match bin_numeric kind feature n_bins NumpyRule [] with
  | NOk _ _ (_ :: _) _ => true
  | _ => false
  end.

Definition bin_with_rule (kind : nkind) (dk : dkind) (r : rule) (feature : list (option ext))
    (n_bins : nat) : rres :=
  if reaches_numpy kind feature n_bins then
    match rule_npres dk r feature with
    | NpOk _ es => RRes (bin_numeric kind feature n_bins NumpyRule (middle es))
    | NpErr _ => RRes (NErr EValueError)               (* numpy's ValueError propagates *)
    | NpUnmodelled => RUnmodelled
    end
  else RRes (bin_numeric kind feature n_bins NumpyRule []).

Inductive rcase :=
  RCase (kind : nkind) (dk : dkind) (r : rule) (feature : list (option ext)) (n_bins : nat)
        (obs : bobs).

Definition ok_case (c : rcase) : bool :=
  match c with
  | RCase kind dk r feature n_bins obs =>
      match bin_with_rule kind dk r feature n_bins, obs with
      | RRes (NOk n _ _ rows), ONum n' rows' => Nat.eqb n n' && rows_ok rows rows'
      | RRes (NErr e), OErr e' => berr_eqb e e'
      | RUnmodelled, _ => true
      | _, _ => false
      end
  end.

Definition is_err (c : rcase) : bool :=
  match c with
  | RCase kind dk r feature n_bins _ =>
      match bin_with_rule kind dk r feature n_bins with RRes (NOk _ _ _ _) => false | _ => true end
  end.
Definition is_unmodelled (c : rcase) : bool :=
  match c with
  | RCase kind dk r feature n_bins _ =>
      match bin_with_rule kind dk r feature n_bins with RUnmodelled => true | _ => false end
  end.
(* numpy's bin count differs from the mathematical rule (float effect at an exact point) *)
Definition is_inexact (c : rcase) : bool :=
  match c with
  | RCase kind dk r feature n_bins _ =>
      let '(n, lo, hi) := summary_of (finite_vals feature) in
      match np_edges r dk n lo hi with
      | NpOk K _ => let '(_, _, Kx) := rule_outer_exact r dk n lo hi in negb (K =? Kx)%N
      | _ => false
      end
  end.

(* (disagreeing indices, #cases, #cases the model rejects or leaves out, #unmodelled,
    #cases with one bin more than the exact rule) *)
Definition summary (cs : list rcase) :=
  (bad_indices ok_case cs, List.length cs, count_true is_err cs, count_true is_unmodelled cs,
   count_true is_inexact cs).
