(* `bin_feature` with bin_method in sturges / sqrt / rice, the interior edges computed by the
   MODEL (model/NumpyRules.v) instead of being handed over by the harness as in corr/CmpBinning.v.
   Cases come from harness/run_nprules.py corrbin.

   binning.py l. 284-288:
       a = feature.filter(feature.is_finite() & feature.is_not_null())
       bin_edges = np.histogram_bin_edges(a, bins=bin_method)[1:-1]
       n_bins_ef = bin_edges.shape[0] + 1
   The model derives (n, min, max) of `a` from the feature column itself. *)
From Coq Require Import ZArith NArith QArith Qabs Qreduction List Bool String.
Import ListNotations.
Open Scope Q_scope.
From MD Require Import lib.QLists model.Functionals model.Binning model.NumpyRules
  corr.Decode corr.CmpBinning.

(* the finite, non-null values: the array numpy sees *)
Definition finite_vals (feature : list (option ext)) : list Q :=
  flat_map (fun o => match o with Some (Fin q) => [q] | _ => [] end) feature.

Definition summary_of (a : list Q) : N * Q * Q :=
  match a with
  | [] => (0%N, 0, 0)
  | x :: xs => (N.of_nat (List.length a), minQ x xs, maxQ x xs)
  end.

Definition rule_npres (dk : dkind) (r : rule) (feature : list (option ext)) : npres :=
  let '(n, lo, hi) := summary_of (finite_vals feature) in np_edges r dk n lo hi.

Inductive rres := RRes (res : nres) | RUnmodelled.

(* does `bin_numeric` get as far as the call of numpy (l. 288)?  Otherwise its result does not
   depend on the interior edges *)
Definition reaches_numpy (kind : nkind) (feature : list (option ext)) (n_bins : nat) : bool :=
  match bin_numeric kind feature n_bins NumpyRule [] with
  | NOk _ _ (_ :: _) _ => true
  | _ => false
  end.

Definition bin_with_rule (kind : nkind) (dk : dkind) (r : rule) (feature : list (option ext))
    (n_bins : nat) : rres :=
  if reaches_numpy kind feature n_bins then
    match rule_npres dk r feature with
    | NpOk _ es => RRes (bin_numeric kind feature n_bins NumpyRule (middle es))
    | NpErr _ => RRes (NErr EValueError)               (* numpy's ValueError propagates *)
    | NpUnmodelled => RUnmodelled
    end
  else RRes (bin_numeric kind feature n_bins NumpyRule []).

Inductive rcase :=
  RCase (kind : nkind) (dk : dkind) (r : rule) (feature : list (option ext)) (n_bins : nat)
        (obs : bobs).

(* numpy's bin count differs from the mathematical rule (float effect at an exact point) *)
Definition is_inexact (dk : dkind) (r : rule) (feature : list (option ext)) : bool :=
  let '(n, lo, hi) := summary_of (finite_vals feature) in
  match np_edges r dk n lo hi with
  | NpOk K _ => let '(_, _, Kx) := rule_outer_exact r dk n lo hi in negb (K =? Kx)%N
  | _ => false
  end.

(* one evaluation of the model per case: (agrees, the model rejects the input, outside the model) *)
Definition verdict (c : rcase) : bool * bool * bool :=
  match c with
  | RCase kind dk r feature n_bins obs =>
      match bin_with_rule kind dk r feature n_bins, obs with
      | RRes (NOk n _ _ rows), ONum n' rows' => (Nat.eqb n n' && rows_ok rows rows', false, false)
      | RRes (NOk _ _ _ _), _ => (false, false, false)
      | RRes (NErr e), OErr e' => (berr_eqb e e', true, false)
      | RRes _, _ => (false, true, false)
      | RUnmodelled, _ => (true, false, true)
      end
  end.
Definition ok_case (c : rcase) : bool := fst (fst (verdict c)).
Definition case_inexact (c : rcase) : bool :=
  match c with RCase _ dk r feature _ _ => is_inexact dk r feature end.

Definition v_ok (v : bool * bool * bool) : bool := fst (fst v).
Definition v_err (v : bool * bool * bool) : bool := snd (fst v).
Definition v_unm (v : bool * bool * bool) : bool := snd v.

(* (disagreeing indices, #cases, #cases the model rejects, #cases outside the model,
    #cases with a bin count different from the exact rule's) *)
Definition summary (cs : list rcase) :=
  let vs := map verdict cs in
  (bad_indices v_ok vs, List.length vs, count_true v_err vs, count_true v_unm vs,
   count_true case_inexact cs).
