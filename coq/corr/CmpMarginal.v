(* Comparator for the correspondence run of `compute_marginal` (C10).
   model/Marginal.v on top of model/Binning.v (groups), model/Bias.v (statistics) and
   model/PartialDep.v (partial dependence).

   The predictor of a case is DATA (same definable family as corr/CmpPartialDep.v):
     f(row) = c0 + sum_k cs[k]*row[k] + d * row[a] * row[b] + (h if row[s] <= t else 0)
   on ENCODED rows: a string-like feature cell is the rank of its category, a null / NaN cell is
   `pi_nullq`, the pooled label is `pi_other` (harness/run_marginal.py builds the Python callable from the
   same numbers, applies the same encoding to the container it is handed, evaluates exactly with
   Fractions, and records every row it is shown). *)
From Coq Require Import ZArith QArith Qabs Qreduction List Bool String.
Import ListNotations.
Open Scope Q_scope.
From MD Require Import lib.QLists model.Functionals model.Binning model.PartialDep model.Bias model.Marginal
  corr.Decode.

Record mpred := mkmpred {
  mp_c0 : Q; mp_cs : list Q;
  mp_d : Q; mp_a : nat; mp_b : nat;
  mp_h : Q; mp_s : nat; mp_t : Q }.

Definition meval_pred (p : mpred) (r : xrow) : Q :=
  Qred (mp_c0 p + dot (mp_cs p) r + mp_d p * nth (mp_a p) r 0 * nth (mp_b p) r 0
        + (if Qle_bool (nth (mp_s p) r 0) (mp_t p) then mp_h p else 0)).

(* one output row of the implementation *)
Inductive ocell := OCNone | OCNull | OCNum (q : Q) | OCLabel (s : string).
Inductive oedges := OEAbsent | OENull | OE (lo std hi : Q).     (* std as returned, NOT squared *)
Inductive opd := OPAbsent | OPNull | OPVal (q : Q).

Record orow := mkor {
  or_cell : ocell;
  or_obs_mean : option Q;       (* None = NaN *)
  or_pred_mean : option Q;
  or_obs_se : option Q;         (* y_obs_stderr as returned (not squared) *)
  or_pred_se : option Q;
  or_count : nat;
  or_weights : Q;
  or_edges : oedges;
  or_pd : opd }.

Inductive mobs :=
  | OBRows (per_model : list (list orow)) (seen : option matrix)   (* seen: encoded matrix given to the predictor *)
  | OBErr (e : berr)
  | OBNanEdges
  | OBNullLabel          (* TypeError raised at line 869 *)
  | OBPdIndexError | OBPdZeroDivision | OBPdValueError
  | OBOther.

Record mcase := mkmc {
  c_y : list Q; c_models : list (list Q); c_feat : mfeat; c_n_bins : nat; c_w : option (list Q);
  c_pd : option (mpred * pdin);
  c_obs : mobs }.

Definition run_rule (rule : pool_rule) (c : mcase) : mres :=
  match c_pd c with
  | Some (pr, pin) =>
      compute_marginal (meval_pred pr) rule (c_y c) (c_models c) (c_feat c) (c_n_bins c) (c_w c) (Some pin)
  | None =>
      compute_marginal (fun _ => 0) rule (c_y c) (c_models c) (c_feat c) (c_n_bins c) (c_w c) None
  end.

Definition xcloseq (a : ext) (b : Q) : bool :=
  match a with Fin x => close tol9 x b | _ => false end.

Definition stat_ok (g : gstat) (cnt : nat) (wts : Q) (mean se : option Q) : bool :=
  Nat.eqb (g_count g) cnt && close tol9 (g_weights g) wts &&
  (if g_defined g then
     match mean, se with
     | Some m, Some s => close tol9 (g_mean g) m && close tol9 (g_stderr2 g) (s * s)
     | _, _ => false
     end
   else match mean with None => true | Some _ => false end).

Definition cell_ok (r : mrow) (o : ocell) : bool :=
  match o_cell r, o with
  | FCNone, OCNone => true
  | FCNull, OCNull => true
  | FCNum m, OCNum q => close tol9 m q
  | FCCat _, OCLabel s | FCPooled, OCLabel s =>
      match o_label r with Some t => String.eqb s t | None => false end
  | _, _ => false
  end.

Definition edges_ok (isnum : bool) (r : mrow) (o : oedges) : bool :=
  if isnum then
    match o_edges r, o with
    | None, OENull => match o_cell r with FCNull => true | _ => false end
    | Some (lo, v, hi), OE lo' s hi' => xcloseq lo lo' && close tol9 v (s * s) && xcloseq hi hi'
    | _, _ => false
    end
  else match o with OEAbsent => true | _ => false end.

Definition pd_ok (m : option (option Q)) (o : opd) : bool :=
  match m, o with
  | None, OPAbsent => true
  | Some None, OPNull => true
  | Some (Some v), OPVal q => close tol9 v q
  | _, _ => false
  end.

Definition row_ok (isnum : bool) (r : mrow) (pd : option (option Q)) (o : orow) : bool :=
  cell_ok r (or_cell o) &&
  stat_ok (m_obs (o_stat r)) (or_count o) (or_weights o) (or_obs_mean o) (or_obs_se o) &&
  stat_ok (m_pred (o_stat r)) (or_count o) (or_weights o) (or_pred_mean o) (or_pred_se o) &&
  edges_ok isnum r (or_edges o) && pd_ok pd (or_pd o).

Fixpoint rows_ok (isnum : bool) (a : list mrow) (pd : option (list (option Q))) (b : list orow) : bool :=
  match a, b with
  | [], [] => match pd with Some (_ :: _) => false | _ => true end
  | r :: a', o :: b' =>
      match pd with
      | None => row_ok isnum r None o && rows_ok isnum a' None b'
      | Some (p :: ps) => row_ok isnum r (Some p) o && rows_ok isnum a' (Some ps) b'
      | Some [] => false
      end
  | _, _ => false
  end.

Fixpoint models_ok (isnum : bool) (a : list (list mrow * option (list (option Q)))) (b : list (list orow)) : bool :=
  match a, b with
  | [], [] => true
  | (t, pd) :: a', o :: b' => rows_ok isnum t pd o && models_ok isnum a' b'
  | _, _ => false
  end.

Fixpoint row_close (a b : xrow) : bool :=
  match a, b with
  | [], [] => true
  | x :: a', y :: b' => close tol9 x y && row_close a' b'
  | _, _ => false
  end.
Fixpoint matrix_close (a b : matrix) : bool :=
  match a, b with
  | [], [] => true
  | x :: a', y :: b' => row_close x y && matrix_close a' b'
  | _, _ => false
  end.

Definition seen_ok (a b : option matrix) : bool :=
  match a, b with
  | None, None => true
  | Some x, Some y => matrix_close x y
  | _, _ => false
  end.

Definition berr_eqb (a b : berr) : bool :=
  match a, b with
  | ETypeError, ETypeError | EInvalidOp, EInvalidOp | EValueError, EValueError => true
  | _, _ => false
  end.

Definition is_num (ft : mfeat) : bool := match ft with MFNum _ _ _ => true | _ => false end.

Definition ok_res (r : mres) (c : mcase) : bool :=
  match r, c_obs c with
  | MOk l seen, OBRows o seen' => models_ok (is_num (c_feat c)) l o && seen_ok seen seen'
  | MErr e, OBErr e' => berr_eqb e e'
  | MNanEdges, OBNanEdges => true
  | MNullLabel, OBNullLabel => true
  | MPdErr EIndex, OBPdIndexError => true
  | MPdErr EValue, OBPdValueError => true
  | MPdErr EZeroDivision, OBPdZeroDivision => true
  | MPdErr EEmptyGrid, OBPdZeroDivision => true
  | MPdErr EEmptyGrid, OBPdIndexError => true
  | _, _ => false
  end.

Definition ok_rule (rule : pool_rule) (c : mcase) : bool := ok_res (run_rule rule c) c.

(* the code as it is (since /repo fix 7801489): the pooled row is the row whose value the feature never takes *)
Definition ok_case (c : mcase) : bool := ok_rule ByBin c.
(* RECORD of the old rule (last row iff its label contains "other "); used with MARG_RULE=ByLastLabel only *)
Definition ok_case_old (c : mcase) : bool := ok_rule ByLastLabel c.

Definition nrows_res (r : mres) : nat :=
  match r with
  | MOk l _ => fold_right (fun t s => (List.length (fst t) + s)%nat) 0%nat l
  | _ => 0%nat
  end.
Definition is_err_res (r : mres) : bool := match r with MOk _ _ => false | _ => true end.
Definition has_pd_res (r : mres) : bool := match r with MOk _ (Some _) => true | _ => false end.

(* would the OLD rule (before fix 7801489) have picked other rows than the pooled one (former D4 / D5)?
   The tables do not depend on the rule: both masks are computed on the first table of the run. *)
Fixpoint mask_eqb (a b : list bool) : bool :=
  match a, b with
  | [], [] => true
  | x :: a', y :: b' => Bool.eqb x y && mask_eqb a' b'
  | _, _ => false
  end.
Definition old_rule_differs (r : mres) (c : mcase) : bool :=
  match c_pd c, r with
  | Some _, MOk ((t, _) :: _) _ =>
      if has_feature (c_feat c) then
        match drop_mask ByLastLabel (is_str (c_feat c)) t, drop_mask ByBin (is_str (c_feat c)) t with
        | Some m, Some m' => negb (mask_eqb m m')
        | _, _ => true
        end
      else false
  | Some _, (MNullLabel | MPdErr _) => true       (* only reachable when comparing against the old rule *)
  | _, _ => false
  end.

(* one evaluation of the model per case *)
Record cinfo := mkci { ci_ok : bool; ci_rows : nat; ci_err : bool; ci_pd : bool; ci_old : bool }.
Definition case_info (rule : pool_rule) (c : mcase) : cinfo :=
  let r := run_rule rule c in
  mkci (ok_res r c) (nrows_res r) (is_err_res r) (has_pd_res r) (old_rule_differs r c).

Definition summary_rule (rule : pool_rule) (cs : list mcase) :=
  let infos := map (case_info rule) cs in
  (bad_indices ci_ok infos, List.length cs, count_true ci_err infos,
   fold_right (fun i s => (ci_rows i + s)%nat) 0%nat infos, count_true ci_pd infos, count_true ci_old infos).

(* (disagreeing indices, #cases, #cases the model rejects, #output rows compared, #cases with a partial
    dependence column, #cases on which the OLD rule would not pick exactly the pooled row) *)
Definition summary (cs : list mcase) := summary_rule ByBin cs.
Definition summary_old (cs : list mcase) := summary_rule ByLastLabel cs.
