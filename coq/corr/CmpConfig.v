(* Comparator for the correspondence run of _config.py histories. *)
From Coq Require Import List Bool.
Import ListNotations.
From MD Require Import model.Config corr.Decode.

Definition backend_eqb (a b : backend) : bool :=
  match a, b with Matplotlib, Matplotlib | Plotly, Plotly => true | _, _ => false end.
Definition outcome_eqb (a b : outcome) : bool :=
  match a, b with
  | Done, Done | ValueError, ValueError | ModuleNotFound, ModuleNotFound | NoOpenContext, NoOpenContext => true
  | _, _ => false
  end.
Fixpoint trace_eqb (a b : list (backend * outcome)) : bool :=
  match a, b with
  | [], [] => true
  | (x, r) :: a', (y, q) :: b' => backend_eqb x y && outcome_eqb r q && trace_eqb a' b'
  | _, _ => false
  end.

Record ccase := mkccase { cc_av : bool; cc_ops : list op; cc_obs : list (backend * outcome) }.
Definition ok_case (c : ccase) : bool := trace_eqb (trace (cc_av c) init (cc_ops c)) (cc_obs c).
Definition depth_of (c : ccase) : nat :=
  fst (fold_left (fun '(mx, d) o => match o with
        | Enter a => if enter_ok (cc_av c) a then (Nat.max mx (S d), S d) else (mx, d)
        | Leave _ => (mx, pred d) | _ => (mx, d) end) (cc_ops c) (0, 0)).
Definition summary (cs : list ccase) :=
  (bad_indices ok_case cs, length cs,
   fold_right (fun c s => length (cc_ops c) + s) 0 cs,
   fold_right (fun c s => Nat.max (depth_of c) s) 0 cs).
