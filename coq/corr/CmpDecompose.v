(* Comparator for the correspondence run of `decompose` (model/Decompose.v).

   How transcendental scores are handled.  The model is generic in the
   per-observation score S.  A case carries a TABLE of the values of the real
   `score_per_obs` at every (observation, prediction) pair the implementation scored
   (written by the recording scoring function of harness/run_decompose.py, exact
   floats, `None` = ValueError).  [S_tab] looks a pair up (observation exact,
   prediction within 1e-9) and the WHOLE model runs on it - for all score
   configurations, rational or not.  A pair that is not in the table yields the
   sentinel 10^30, so a model that scores anything the implementation did not
   score cannot agree by accident.

   For the rational scores (squared error, asymmetric squared error = HES degree 2,
   pinball, quantile score of degree 3) the model is run a second time with the
   score computed INSIDE Coq ([S_of]: the functions sq_score, asq_score, pin_score,
   hqs3_score of model/Decompose.v, the ones the sign theorems of
   proofs/DecomposeProps.v are about), the table is not used for the result, and
   every table entry is compared with the Coq formula.

   Checked per case, tolerance `close tol9`:
     - marginal forecast: model vs the constant array the recorder received;
     - recalibrated forecast of every column (after the repair, caller's row
       order): model vs the array the recorder received;
     - the four output numbers of every column: model vs returned frame;
     - exception class (ValueError / NotImplementedError / UnboundLocalError);
     - for rational scores additionally all of the above with S computed in Coq. *)
From Coq Require Import ZArith QArith Qabs Qreduction List Bool.
Import ListNotations.
Open Scope Q_scope.
From MD Require Import lib.QLists model.Functionals model.Isotonic model.Decompose corr.Decode.

Inductive skind :=
  | KSq                 (* SquaredError: np.square(z - y) *)
  | KHes2 (a : Q)       (* HomogeneousExpectileScore(2, a): 2 |1{z>=y} - a| (z - y)^2 *)
  | KPin (a : Q)        (* PinballLoss(a) *)
  | KHqs3 (a : Q)       (* HomogeneousQuantileScore(3, a) *)
  | KTable.             (* values only from the table *)

Definition S_of (k : skind) : Q -> Q -> option Q :=
  match k with
  | KSq => total sq_score
  | KHes2 a => total (asq_score a)
  | KPin a => total (pin_score a)
  | KHqs3 a => total (hqs3_score a)
  | KTable => fun _ _ => None
  end.

(* the table: grouped by observation value *)
Definition tab := list (Q * list (Q * option Q)).

Fixpoint find_x (x : Q) (l : list (Q * option Q)) : option (option Q) :=
  match l with
  | [] => None
  | (tx, tv) :: l' => if close tol9 x tx then Some tv else find_x x l'
  end.
Fixpoint find_y (y : Q) (t : tab) : list (Q * option Q) :=
  match t with
  | [] => []
  | (ty, l) :: t' => if Qeq_bool ty y then l else find_y y t'
  end.
Definition sentinel : Q := inject_Z (10 ^ 30).
Definition S_tab (t : tab) (y x : Q) : option Q :=
  match find_x x (find_y y t) with
  | Some v => v
  | None => Some sentinel
  end.

(* what the implementation did *)
Inductive dobs :=
  | ORows (rows : list (Q * Q * Q * Q))   (* miscalibration, discrimination, uncertainty, score *)
  | ONonFinite                            (* a returned number is nan / inf: not compared *)
  | OValueError | ONotImplemented | OUnbound | OOther.

Record dcase := mkdcase {
  c_variant : variant;          (* which of the three reported behaviours the code under test has fixed
                                   (probed by the harness on the implementation, see run_decompose.py) *)
  c_kind : skind;
  c_sf_fun : option ifun; c_sf_level : option Q;     (* attributes of the scoring function *)
  c_fun : option ifun; c_level : option Q;           (* explicit arguments *)
  c_y : list Q; c_cols : list (list Q); c_w : option (list Q);
  c_tab : tab;
  c_marg : option Q;            (* marginal seen by the recorder *)
  c_recal : list (list Q);      (* recalibrated arrays seen by the recorder, per column *)
  c_obs : dobs }.

(* ---------- the model, with access to the intermediate vectors ---------- *)
Definition run (S : Q -> Q -> option Q) (c : dcase) : dres (list drow) :=
  decompose (c_variant c) S (c_sf_fun c) (c_sf_level c) (c_y c) (c_cols c) (c_w c) (c_fun c) (c_level c).

Definition guards_ok (c : dcase) : bool :=
  forallb (fun x => Nat.eqb (length x) (length (c_y c))) (c_cols c)
  && (match c_w c with None => true | Some wl => Nat.eqb (length wl) (length (c_y c)) end)
  && all_pos_w (c_w c) && negb (match c_cols c with [] => true | _ => false end).

(* marginal and the recalibrated vectors the model scores *)
Definition model_marg (S : Q -> Q -> option Q) (c : dcase) : option Q :=
  match infer (c_sf_fun c) (c_sf_level c) (c_fun c) (c_level c) with
  | DOk fa =>
      let '(f, a) := alias (c_variant c) fa in
      if guards_ok c then marginal f a (c_y c) (weights_or_ones (length (c_y c)) (c_w c))
      else None
  | _ => None
  end.

Definition model_recals (S : Q -> Q -> option Q) (c : dcase) : list (option (list Q)) :=
  match infer (c_sf_fun c) (c_sf_level c) (c_fun c) (c_level c) with
  | DOk fa =>
      let '(f, a) := alias (c_variant c) fa in
      if guards_ok c then
        match prelude S f a (c_y c) (c_w c) with
        | DOk (_, ymin, ok, _) =>
            map (fun x => match recal_final (c_variant c) f a (c_y c) (c_w c) ymin ok x with
                          | DOk r => Some r | DErr _ => None end) (c_cols c)
        | _ => []
        end
      else []
  | _ => []
  end.

Definition row_close (r : drow) (o : Q * Q * Q * Q) : bool :=
  let '(m, d, u, s) := o in
  close tol9 (mcb r) m && close tol9 (dsc r) d && close tol9 (unc r) u && close tol9 (sco r) s.
Fixpoint rows_close (rs : list drow) (os : list (Q * Q * Q * Q)) : bool :=
  match rs, os with
  | [], [] => true
  | r :: rs', o :: os' => row_close r o && rows_close rs' os'
  | _, _ => false
  end.

(* the recorder saw a prefix of the columns (it stops at the first exception) *)
Fixpoint recals_close (ms : list (option (list Q))) (os : list (list Q)) : bool :=
  match os with
  | [] => true
  | o :: os' =>
      match ms with
      | Some m :: ms' => all_close tol9 m o && recals_close ms' os'
      | _ => false
      end
  end.

Definition marg_close (m : option Q) (o : option Q) : bool :=
  match o with
  | None => true
  | Some ov => match m with Some mv => close tol9 mv ov | None => false end
  end.

Definition agree (S : Q -> Q -> option Q) (c : dcase) : bool :=
  marg_close (model_marg S c) (c_marg c) &&
  recals_close (model_recals S c) (c_recal c) &&
  match run S c, c_obs c with
  | DOk rows, ORows os => rows_close rows os
  | DOk _, ONonFinite => true
  | DErr DEValue, OValueError => true
  | DErr DENotImplemented, ONotImplemented => true
  | DErr DEUnbound, OUnbound => true
  | _, _ => false
  end.

(* every table entry equals the Coq formula (rational kinds) *)
Definition entry_ok (k : skind) (y : Q) (e : Q * option Q) : bool :=
  match S_of k y (fst e), snd e with
  | Some v, Some tv => close tol9 v tv
  | _, _ => false
  end.
Definition tab_ok (k : skind) (t : tab) : bool :=
  forallb (fun g => forallb (entry_ok k (fst g)) (snd g)) t.

Definition is_rational (k : skind) : bool := match k with KTable => false | _ => true end.

Definition ok_case (c : dcase) : bool :=
  agree (S_tab (c_tab c)) c &&
  (if is_rational (c_kind c) then tab_ok (c_kind c) (c_tab c) && agree (S_of (c_kind c)) c else true).

Definition is_err (c : dcase) : bool :=
  match run (S_tab (c_tab c)) c with DErr _ => true | _ => false end.

(* did the model go through the repair path for some column *)
Definition repaired (c : dcase) : bool :=
  let S := S_tab (c_tab c) in
  match infer (c_sf_fun c) (c_sf_level c) (c_fun c) (c_level c) with
  | DOk fa =>
      let '(f, a) := alias (c_variant c) fa in
      if guards_ok c then
        match prelude S f a (c_y c) (c_w c) with
        | DOk (_, ymin, ok, _) =>
            negb ok && existsb (fun x => match recalibrate f a x (c_y c) (c_w c) with
                                         | DOk r0 => Qle_bool (if v_repair (c_variant c) then min_list r0 else hd 0 r0) ymin
                                         | _ => false end) (c_cols c)
        | _ => false
        end
      else false
  | _ => false
  end.

(* summary printed by a case file:
   (disagreeing indices, #cases, #model errors, #rational-score cases, #repair-path cases) *)
Definition summary (cs : list dcase) :=
  (bad_indices ok_case cs, length cs, count_true is_err cs,
   count_true (fun c => is_rational (c_kind c)) cs, count_true repaired cs).
