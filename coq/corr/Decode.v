(* Decoding of the case files written by the correspondence harness, and the
   tolerance used when an implementation float is compared with the model's
   exact rational.  A float is written as (sign, mantissa, exponent) with the
   mantissa a primitive 63-bit integer literal (fast to parse); that primitive
   is used here only, never in a model or a theorem. *)
From Coq Require Import Uint63 ZArith QArith Qabs Qreduction List Bool.
Import ListNotations.
Open Scope Q_scope.

Definition fl (s : bool) (m : int) (e : Z) : Q :=
  let mz := (if s then - to_Z m else to_Z m)%Z in
  match e with
  | Z0 => inject_Z mz
  | Zpos p => inject_Z (mz * Z.pow_pos 2 p)
  | Zneg p => Qred (Qmake mz (Pos.pow 2 p))
  end.

(* small integers *)
Definition zi (z : Z) : Q := inject_Z z.

(* |a - b| <= tol * (1 + |a|) *)
Definition close (tol a b : Q) : bool := Qle_bool (Qabs (a - b)) (tol * (1 + Qabs a)).
Definition tol9 : Q := 1 # 1000000000.
Definition tol7 : Q := 1 # 10000000.

Fixpoint all_close (tol : Q) (a b : list Q) : bool :=
  match a, b with
  | [], [] => true
  | x :: a', y :: b' => close tol x y && all_close tol a' b'
  | _, _ => false
  end.

Fixpoint nat_list_eqb (a b : list nat) : bool :=
  match a, b with
  | [], [] => true
  | x :: a', y :: b' => Nat.eqb x y && nat_list_eqb a' b'
  | _, _ => false
  end.

(* indices (0-based) of the cases a predicate rejects *)
Fixpoint bad_from {A} (ok : A -> bool) (i : nat) (l : list A) : list nat :=
  match l with
  | [] => []
  | c :: l' => if ok c then bad_from ok (S i) l' else i :: bad_from ok (S i) l'
  end.
Definition bad_indices {A} (ok : A -> bool) (l : list A) : list nat := bad_from ok 0 l.
Definition count_true {A} (p : A -> bool) (l : list A) : nat := length (filter p l).
