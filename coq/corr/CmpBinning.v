(* Comparator for the correspondence run of `bin_feature` (C13). *)
From Coq Require Import ZArith QArith Qabs Qreduction List Bool String.
Import ListNotations.
Open Scope Q_scope.
From MD Require Import lib.QLists model.Functionals model.Binning corr.Decode.

(* what the implementation did *)
Inductive bobs :=
  | ONum (n_bins_out : nat) (rows : list nrow)       (* bin number as stored, reported edge pair *)
  | ONan                                             (* some reported edge is NaN *)
  | OStr (n_bins_out : nat) (bins : list (option string))
  | OErr (e : berr)
  | OOther.

Inductive bcase :=
  | CNum (kind : nkind) (feature : list (option ext)) (n_bins : nat) (m : bmethod)
         (interior : list Q) (obs : bobs)
  | CStr (kind : skind) (names : list string) (feature : list (option nat)) (n_bins : nat)
         (obs : bobs).

Definition xclose (a b : ext) : bool :=
  match a, b with
  | MInf, MInf | PInf, PInf => true
  | Fin x, Fin y => close tol9 x y
  | _, _ => false
  end.

Definition nrow_ok (a b : nrow) : bool :=
  match a, b with
  | None, None => true
  | Some (i, (l, r)), Some (j, (l', r')) => Nat.eqb i j && xclose l l' && xclose r r'
  | _, _ => false
  end.
Fixpoint rows_ok (a b : list nrow) : bool :=
  match a, b with
  | [], [] => true
  | x :: a', y :: b' => nrow_ok x y && rows_ok a' b'
  | _, _ => false
  end.

Definition ostr_eqb (a b : option string) : bool :=
  match a, b with
  | None, None => true
  | Some s, Some t => String.eqb s t
  | _, _ => false
  end.
Fixpoint strs_ok (a b : list (option string)) : bool :=
  match a, b with
  | [], [] => true
  | x :: a', y :: b' => ostr_eqb x y && strs_ok a' b'
  | _, _ => false
  end.

Definition berr_eqb (a b : berr) : bool :=
  match a, b with
  | ETypeError, ETypeError | EInvalidOp, EInvalidOp | EValueError, EValueError => true
  | _, _ => false
  end.

Definition ok_case (c : bcase) : bool :=
  match c with
  | CNum kind feature n_bins m interior obs =>
      match bin_numeric kind feature n_bins m interior, obs with
      | NOk n _ _ rows, ONum n' rows' => Nat.eqb n n' && rows_ok rows rows'
      | NNanEdges, ONan => true
      | NErr e, OErr e' => berr_eqb e e'
      | _, _ => false
      end
  | CStr kind names feature n_bins obs =>
      match bin_string kind names feature n_bins, obs with
      | SOk n _ label _ bins, OStr n' bins' =>
          Nat.eqb n n' && strs_ok (map (render names label) bins) bins'
      | SErr e, OErr e' => berr_eqb e e'
      | _, _ => false
      end
  end.

Definition is_err (c : bcase) : bool :=
  match c with
  | CNum kind feature n_bins m interior _ =>
      match bin_numeric kind feature n_bins m interior with NOk _ _ _ _ => false | _ => true end
  | CStr kind names feature n_bins _ =>
      match bin_string kind names feature n_bins with SOk _ _ _ _ _ => false | _ => true end
  end.
Definition is_pooled (c : bcase) : bool :=
  match c with
  | CStr kind names feature n_bins _ =>
      match bin_string kind names feature n_bins with SOk _ _ (Some _) _ _ => true | _ => false end
  | _ => false
  end.

(* (disagreeing indices, #cases, #cases the model rejects, #string cases with a pooled bin) *)
Definition summary (cs : list bcase) :=
  (bad_indices ok_case cs, List.length cs, count_true is_err cs, count_true is_pooled cs).
