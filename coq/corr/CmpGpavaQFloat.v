(* Comparator of the BIT-EXACT correspondence run of the quantile / median path of
   `isotonic_regression` against the binary64 twin model/GpavaQFloat.v.
   Inputs and observed outputs are float64 written as hexadecimal literals (exact);
   x must be bit-equal (+0 <> -0, NaN = NaN), r must be equal, exception classes must be equal.
   The only relaxation: when y contains zeros of BOTH signs the sign of a zero of x is not
   determined by the numpy source (unstable selection among equal keys, see model/GpavaQFloat.v);
   such cases (recognised HERE from y, not from a flag of the harness) are compared modulo the sign
   of zero, everything else (non-zero values, r) exactly. *)
From Coq Require Import PrimFloat Uint63 ZArith List Bool FloatOps.
Import ListNotations.
From MD Require Import model.PavaFloat model.GpavaQFloat corr.CmpPavaFloat.

(* what the implementation did *)
Inductive qobs :=
  | QORes (x : list float) (r : list nat)
  | QOValueError | QOIndexError | QONotImplementedError | QOOther.

Record qcase := mkqcase {
  qc_median : bool;                 (* functional = "median" (true) or "quantile" (false) *)
  qc_y : list float;
  qc_w : option (list float);
  qc_level : float;                 (* the `level` argument that was passed *)
  qc_lu : float;                    (* float(1 - Decimal(str(level))) computed by the harness as in line 23
                                       (for median: of 0.5) and checked there against the q values the code
                                       handed to np.quantile *)
  qc_inc : bool;
  qc_obs : qobs }.

Definition qrun (c : qcase) : qpub :=
  isotonic_quantile_pub_f (qc_median c) (qc_y c) (qc_w c) (qc_level c) (qc_lu c) (qc_inc c).

(* y contains +0.0 and -0.0 *)
Definition is_pzero (v : float) : bool := fbit_eqb v PrimFloat.zero.
Definition is_nzero (v : float) : bool := fbit_eqb v PrimFloat.neg_zero.
Definition mixed_zero (y : list float) : bool := (existsb is_pzero y && existsb is_nzero y)%bool.

Fixpoint flist_eqb_with (eq : float -> float -> bool) (a b : list float) : bool :=
  match a, b with
  | [], [] => true
  | x :: a', y :: b' => (eq x y && flist_eqb_with eq a' b')%bool
  | _, _ => false
  end.

(* level_upper is (1 - level) up to the two roundings of str / float: |lu - fl(1 - level)| <= 2^-51 *)
Definition lu_plausible (c : qcase) : bool :=
  if qc_median c then fbit_eqb (qc_lu c) fhalf
  else PrimFloat.leb (PrimFloat.abs (PrimFloat.sub (qc_lu c) (PrimFloat.sub PrimFloat.one (qc_level c))))
                     0x1p-51%float.

Definition qok_case (c : qcase) : bool :=
  match qrun c, qc_obs c with
  | QRes (FOk (x, r)), QORes xi ri =>
      ((if mixed_zero (qc_y c) then flist_eqb_with fzero_eqb x xi else flist_eqb x xi)
       && natl_eqb r ri && lu_plausible c)%bool
  | QRes (FErr FEValue), QOValueError => true
  | QRes (FErr FEIndex), QOIndexError => true
  | QNotImplemented, QONotImplementedError => true
  | _, _ => false
  end.

Fixpoint qbad_from (i : nat) (l : list qcase) : list nat :=
  match l with
  | [] => []
  | c :: l' => if qok_case c then qbad_from (S i) l' else i :: qbad_from (S i) l'
  end.

Definition qcount (p : qcase -> bool) (l : list qcase) : nat := List.length (filter p l).

Definition qis_err (c : qcase) : bool :=
  match qrun c with QRes (FOk _) => false | _ => true end.
Definition qnblocks (c : qcase) : nat :=
  match qrun c with QRes (FOk (_, r)) => Nat.pred (List.length r) | _ => 0%nat end.
Definition qnonfinite (c : qcase) : bool :=
  match qrun c with
  | QRes (FOk (x, _)) => existsb (fun v => negb (PrimFloat.is_finite v)) x
  | _ => false
  end.
(* mixed-zero cases in which the twin and numpy really chose zeros of different sign *)
Definition qzero_sign_differs (c : qcase) : bool :=
  match qrun c, qc_obs c with
  | QRes (FOk (x, _)), QORes xi _ => negb (flist_eqb x xi)
  | _, _ => false
  end.
(* the decimal trick of line 23 mattered: level_upper is not the float difference 1 - level *)
Definition qlu_not_float_sub (c : qcase) : bool :=
  (negb (qc_median c) && negb (qis_err c)
   && negb (fbit_eqb (qc_lu c) (PrimFloat.sub PrimFloat.one (qc_level c))))%bool.

(* summary printed by a case file:
   (disagreeing indices, #cases, #error cases, total blocks of r, #cases with inf/NaN in the twin's x,
    #cases compared modulo the sign of zero, #of those where a sign really differs,
    #cases with level_upper <> fl(1 - level), #encoding mismatches) *)
Definition qsummary (cs : list qcase) (enc : list (float * (bool * int * Z))) :=
  (qbad_from 0 cs, List.length cs,
   qcount qis_err cs,
   fold_right (fun c s => (qnblocks c + s)%nat) 0%nat cs,
   qcount qnonfinite cs,
   qcount (fun c => (negb (qis_err c) && mixed_zero (qc_y c))%bool) cs,
   qcount qzero_sign_differs cs,
   qcount qlu_not_float_sub cs,
   enc_bad enc).
