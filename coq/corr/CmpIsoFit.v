(* Comparator for the correspondence run of `IsotonicRegression.fit` / `.predict`
   (model/IsoFit.v, harness/run_isofit.py). *)
From Coq Require Import ZArith QArith Qabs Qreduction List Bool.
Import ListNotations.
Open Scope Q_scope.
From MD Require Import lib.QLists model.Functionals model.Isotonic model.IsoFit corr.Decode.

(* what the implementation did: the thresholds and the predictions at the
   queries (None = a non-finite prediction, NaN or inf), or the exception class *)
Inductive fobs :=
  | FRes (xt yt : list Q) (preds : list (option Q))
  | FShapeError | FValueError | FNotImplemented | FIndexError | FOther.

Record fcase := mkfcase {
  f_X : list Q; f_y : list Q; f_w : option (list Q); f_inc : bool; f_fun : ifun; f_level : Q;
  f_np : bool;        (* X was handed over as float64 / int64 (informational only: since /repo fix
                         7007a15 the thresholds are cast to float64, so EVERY dtype of X is
                         evaluated by numpy.interp, i.e. by [predict]; before that fix the other
                         dtypes went through [predict_generic]) *)
  f_exact : bool;     (* float arithmetic provably decides every comparison as the exact one:
                         the threshold vertices are compared one by one *)
  f_q : list Q;       (* query points *)
  f_obs : fobs }.

Definition run (c : fcase) := fit (f_X c) (f_y c) (f_w c) (f_inc c) (f_fun c) (f_level c).

Fixpoint all_eq (a b : list Q) : bool :=
  match a, b with
  | [], [] => true
  | x :: a', y :: b' => Qeq_bool x y && all_eq a' b'
  | _, _ => false
  end.

(* the two vertex lists define the same piecewise linear function with constant
   fill: compare the two interpolants at every vertex of either list *)
Definition same_function (ps1 ps2 : list (Q * Q)) : bool :=
  forallb (fun x =>
             match interp_np ps1 x, interp_np ps2 x with
             | Some a, Some b => close tol9 a b
             | _, _ => false
             end) (map fst ps1 ++ map fst ps2).

(* every dtype of X: the numpy.interp path.  A non-finite implementation
   prediction (None) never agrees with the model. *)
Definition pred_model (c : fcase) (ft : fitted) (q : Q) : option (option Q) :=
  option_map Some (predict ft q).

Fixpoint preds_ok (c : fcase) (ft : fitted) (qs : list Q) (ps : list (option Q)) : bool :=
  match qs, ps with
  | [], [] => true
  | q :: qs', p :: ps' =>
      (match pred_model c ft q, p with
       | Some (Some a), Some b => close tol9 a b
       | Some None, None => true
       | _, _ => false
       end) && preds_ok c ft qs' ps'
  | _, _ => false
  end.

Definition thr_ok (c : fcase) (ft : fitted) (xt yt : list Q) : bool :=
  Nat.eqb (length xt) (length yt) &&
  (if f_exact c
   then all_eq (X_thresholds ft) xt && all_close tol9 (y_thresholds ft) yt
   else same_function (thr_points ft) (combine xt yt)).

Definition ok_case (c : fcase) : bool :=
  match run c, f_obs c with
  | FOk ft, FRes xt yt ps => thr_ok c ft xt yt && preds_ok c ft (f_q c) ps
  | FErr FShape, FShapeError => true
  | FErr (FIso EValue), FValueError => true
  | FErr (FIso ENotImplemented), FNotImplemented => true
  | FErr (FIso EIndex), FIndexError => true
  | _, _ => false
  end.

Definition nthr (c : fcase) : nat :=
  match run c with FOk ft => length (X_thresholds ft) | _ => 0%nat end.
(* non-finite predictions reported by the implementation (expected: none) *)
Definition nnan (c : fcase) : nat :=
  match f_obs c with
  | FRes _ _ ps => length (filter (fun p => match p with None => true | Some _ => false end) ps)
  | _ => 0%nat
  end.

(* summary printed by a case file:
   (disagreeing indices, #cases, #error cases, total thresholds, #non-finite implementation predictions) *)
Definition summary (cs : list fcase) :=
  (bad_indices ok_case cs, length cs,
   count_true (fun c => match run c with FErr _ => true | _ => false end) cs,
   fold_right (fun c s => (nthr c + s)%nat) 0%nat cs,
   fold_right (fun c s => (nnan c + s)%nat) 0%nat cs).
