(* Comparator for the correspondence run of `compute_bias` (C09): the binning model
   (model/Binning.v) supplies the groups, model/Bias.v the statistics. *)
From Coq Require Import ZArith QArith Qabs Qreduction List Bool String.
Import ListNotations.
Open Scope Q_scope.
From MD Require Import lib.QLists model.Functionals model.Binning model.Bias corr.Decode.

Inductive feat :=
  | FNone
  | FNum (kind : nkind) (feature : list (option ext)) (m : bmethod) (interior : list Q)
  | FStr (kind : skind) (names : list string) (feature : list (option nat)).

(* one output row of the implementation *)
Record orow := mko {
  o_mean : option Q;        (* None = NaN *)
  o_count : nat;
  o_weights : Q;
  o_stderr : option Q;      (* bias_stderr as returned (not squared); None = NaN *)
  o_exp : pclass;           (* what the harness' exact per-group recomputation expects for p_value *)
  o_p_ok : bool }.          (* implementation's p_value agrees with scipy on those pieces *)

Inductive bias_obs :=
  | OBRows (per_model : list (list orow))
  | OBNanEdges                     (* bin_feature produced NaN edges: no model *)
  | OBErr (e : berr)
  | OBOther.

Record bias_case := mkb {
  b_fun : functional; b_level : Q; b_y : list Q; b_models : list (list Q);
  b_feat : feat; b_n_bins : nat; b_w : option (list Q); b_obs : bias_obs }.

Inductive grouping_res :=
  | GR (g : option (list (option nat) * nat))
  | GRNan
  | GRErr (e : berr).

Definition grouping_of (ft : feat) (n_bins : nat) : grouping_res :=
  match ft with
  | FNone => GR None
  | FNum kind feature m interior =>
      match bin_numeric kind feature n_bins m interior with
      | NOk n _ _ rows => GR (Some (numeric_keys rows, n))
      | NNanEdges => GRNan
      | NErr e => GRErr e
      end
  | FStr kind names feature =>
      match bin_string kind names feature n_bins with
      | SOk n _ label _ bins => GR (Some (string_keys kind names label bins, n))
      | SErr e => GRErr e
      end
  end.

Definition run (c : bias_case) : bres + grouping_res :=
  match grouping_of (b_feat c) (b_n_bins c) with
  | GR g => inl (compute_bias (b_fun c) (b_level c) (b_y c) (b_models c) g (b_w c))
  | r => inr r
  end.

Definition pclass_eqb (a b : pclass) : bool :=
  match a, b with
  | PNaN, PNaN | PZero, PZero => true
  | PStudent t d, PStudent t' d' => Qeq_bool t t' && Nat.eqb d d'
  | _, _ => false
  end.

Definition row_ok (g : gstat) (o : orow) : bool :=
  Nat.eqb (g_count g) (o_count o) &&
  close tol9 (g_weights g) (o_weights o) &&
  (if g_defined g then
     match o_mean o, o_stderr o with
     | Some m, Some s =>
         close tol9 (g_mean g) m && close tol9 (g_stderr2 g) (s * s) &&
         pclass_eqb (g_p g) (o_exp o) && o_p_ok o
     | _, _ => false
     end
   else match o_mean o with None => true | Some _ => false end).

Fixpoint rows_ok (a : list gstat) (b : list orow) : bool :=
  match a, b with
  | [], [] => true
  | g :: a', o :: b' => row_ok g o && rows_ok a' b'
  | _, _ => false
  end.
Fixpoint models_ok (a : list (list gstat)) (b : list (list orow)) : bool :=
  match a, b with
  | [], [] => true
  | g :: a', o :: b' => rows_ok g o && models_ok a' b'
  | _, _ => false
  end.

Definition berr_eqb (a b : berr) : bool :=
  match a, b with
  | ETypeError, ETypeError | EInvalidOp, EInvalidOp | EValueError, EValueError => true
  | _, _ => false
  end.

Definition ok_case (c : bias_case) : bool :=
  match run c, b_obs c with
  | inl (BOk r), OBRows o => models_ok r o
  | inl (BErr e), OBErr e' => berr_eqb e e'
  | inr GRNan, OBNanEdges => true
  | inr (GRErr e), OBErr e' => berr_eqb e e'
  | _, _ => false
  end.

Definition nrows (c : bias_case) : nat :=
  match run c with inl (BOk r) => fold_right (fun l s => (List.length l + s)%nat) 0%nat r | _ => 0%nat end.
Definition is_err (c : bias_case) : bool :=
  match run c with inl (BOk _) => false | _ => true end.

(* (disagreeing indices, #cases, #cases the model rejects, total number of output rows compared) *)
Definition summary (cs : list bias_case) :=
  (bad_indices ok_case cs, List.length cs, count_true is_err cs,
   fold_right (fun c s => (nrows c + s)%nat) 0%nat cs).
