(* Comparator of the BIT-EXACT correspondence run of the mean path of
   `isotonic_regression` against the binary64 twin model/PavaFloat.v.
   Inputs and observed outputs are float64 written as hexadecimal literals
   (exact); x must be bit-equal (+0 <> -0, NaN = NaN), r must be equal. *)
From Coq Require Import PrimFloat Uint63 ZArith List Bool FloatOps.
Import ListNotations.
From MD Require Import model.PavaFloat.

(* what the implementation did *)
Inductive fobs :=
  | FORes (x : list float) (r : list nat)
  | FOValueError | FOIndexError | FOOther.

Record fcase := mkfcase {
  fc_y : list float; fc_w : option (list float); fc_inc : bool; fc_obs : fobs }.

Definition frun (c : fcase) := isotonic_mean_f (fc_y c) (fc_w c) (fc_inc c).

Fixpoint flist_eqb (a b : list float) : bool :=
  match a, b with
  | [], [] => true
  | x :: a', y :: b' => fbit_eqb x y && flist_eqb a' b'
  | _, _ => false
  end.

Fixpoint natl_eqb (a b : list nat) : bool :=
  match a, b with
  | [], [] => true
  | x :: a', y :: b' => Nat.eqb x y && natl_eqb a' b'
  | _, _ => false
  end.

Definition fok_case (c : fcase) : bool :=
  match frun c, fc_obs c with
  | FOk (x, r), FORes xi ri => flist_eqb x xi && natl_eqb r ri
  | FErr FEValue, FOValueError => true
  | FErr FEIndex, FOIndexError => true
  | _, _ => false
  end.

Fixpoint fbad_from (i : nat) (l : list fcase) : list nat :=
  match l with
  | [] => []
  | c :: l' => if fok_case c then fbad_from (S i) l' else i :: fbad_from (S i) l'
  end.

Definition fnblocks (c : fcase) : nat :=
  match frun c with FOk (_, r) => Nat.pred (List.length r) | _ => 0%nat end.
Definition fnonfinite (c : fcase) : bool :=
  match frun c with
  | FOk (x, _) => existsb (fun v => negb (PrimFloat.is_finite v)) x
  | _ => false
  end.
Definition fcount (p : fcase -> bool) (l : list fcase) : nat := List.length (filter p l).

(* --- self-check of the literal encoding: the same double written as a
   hexadecimal literal and as (sign, mantissa, exponent), value = mantissa * 2^exponent --- *)
Definition fenc (s : bool) (m : int) (e : Z) : float :=
  let f := Z.ldexp (PrimFloat.of_uint63 m) e in
  if s then PrimFloat.opp f else f.
Definition enc_bad (l : list (float * (bool * int * Z))) : nat :=
  List.length (filter (fun p => let '(f, (s, m, e)) := p in negb (fbit_eqb f (fenc s m e))) l).

(* summary printed by a case file:
   (disagreeing indices, #cases, #error cases, total blocks, #cases with inf/NaN in the twin's x,
    #encoding mismatches) *)
Definition fsummary (cs : list fcase) (enc : list (float * (bool * int * Z))) :=
  (fbad_from 0 cs, List.length cs,
   fcount (fun c => match frun c with FErr _ => true | _ => false end) cs,
   fold_right (fun c s => (fnblocks c + s)%nat) 0%nat cs,
   fcount fnonfinite cs,
   enc_bad enc).
