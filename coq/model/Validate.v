(* Executable model of the ARGUMENT VALIDATION of model-diagnostics (property C20).

   A call of an entry point is abstracted to a `descriptor`: the level as a rational,
   the class of the functional / bin-method string, the number of bins, the lengths of
   the first dimension of y_obs / y_pred / feature (or X) / weights, the rank and the
   sign class of the weights and, for the scoring classes, which class is meant.
   Everything else about the call is "otherwise valid data" and has no influence on
   the guards below.

   `validate e d` is the outcome of the real call: the guards are evaluated IN THE
   ORDER THE PYTHON CODE EVALUATES THEM, the first guard that fires decides the
   exception class.  `Ok` means that no guard fired (the function returns its table,
   fit, score, array or Axes).  Line numbers refer to /repo/src/model_diagnostics at the
   time of writing (commit b2b5cba); translate/gen_guards.py ties the guards to the source by
   function, independent of line numbers.
   Definitions only; the theorems are in proofs/ValidateProps.v, the comparison with
   the implementation on the exhaustively enumerated descriptor space in
   corr/CmpValidate.v + harness/run_validate.py.

   Exceptions raised by third-party code are modelled by their observed class:
   numpy.average (TypeError for weights whose shape differs when axis=None, ValueError
   when an axis is given), polars DataFrame construction (ShapeError for columns of
   different height), scikit-learn's IsotonicRegression.fit (ValueError for
   inconsistent lengths and for non-1-D sample weights; non-positive weights are
   dropped silently). *)
From Coq Require Import QArith ZArith List Bool.
Import ListNotations.
Open Scope Q_scope.

Inductive functional := Fmean | Fmedian | Fexpectile | Fquantile | Fother.
(* the ten valid names ("quantile", "uniform", "auto", "fd", "doane", "scott", "stone",
   "rice", "sturges", "sqrt": _utils/binning.py 95-106) form one class *)
Inductive bin_method := BMvalid | BMother.
Inductive wrank := R1 | R2.
Inductive wsign := AllPos | HasZero | HasNeg.       (* HasNeg: at least one negative entry *)
Inductive skind := KHES | KSquared | KPoisson | KGamma | KLogLoss | KHQS | KPinball | KElementary.

Record descriptor := mkD {
  d_level : Q;
  d_functional : functional;
  d_bin_method : bin_method;
  d_n_bins : Z;
  d_n_obs : nat;                (* len(y_obs); for isotonic_regression len(y); for bin_feature the argument n_obs;
                                   for compute_partial_dependence the rows of X *)
  d_n_pred : nat;               (* first dimension of y_pred (second argument of the validate helpers) *)
  d_n_feat : option nat;        (* first dimension of feature / X; None: no feature given *)
  d_n_w : option nat;           (* first dimension of weights; None: weights=None *)
  d_w_rank : wrank;
  d_w_sign : wsign;
  d_kind : skind                (* the scoring class, where the entry point is one of its methods *)
}.

Inductive entry :=
  | E_ident            (* calibration.identification_function *)
  | E_bias             (* calibration.compute_bias *)
  | E_marginal         (* calibration.compute_marginal; no feature = feature_name None *)
  | E_ctor             (* scoring.<d_kind>(...)  constructor only *)
  | E_per_obs          (* scoring.<d_kind>(...).score_per_obs(y_obs, y_pred) *)
  | E_call             (* scoring.<d_kind>(...)(y_obs, y_pred, weights) *)
  | E_decompose        (* scoring.decompose with explicit functional and level *)
  | E_decompose_infer  (* scoring.decompose(functional=None, level=None, scoring_function=<d_kind>(...)) *)
  | E_isoreg           (* _utils.isotonic.isotonic_regression *)
  | E_isofit           (* _utils.isotonic.IsotonicRegression(functional, level).fit(y_pred, y_obs, weights) - private class *)
  | E_bin_feature      (* _utils.binning.bin_feature *)
  | E_pd               (* _utils.partial_dependence.compute_partial_dependence *)
  | E_plot_rel         (* calibration.plot_reliability_diagram *)
  | E_plot_bias        (* calibration.plot_bias *)
  | E_plot_marginal    (* calibration.plot_marginal; no feature = X None with feature_name 0 *)
  | E_plot_murphy      (* scoring.plot_murphy_diagram *)
  | E_val2             (* _utils.array.validate_2_arrays *)
  | E_valsame          (* _utils.array.validate_same_first_dimension *).

Inductive other_exn := TypeErr | ShapeErr | UnboundLocal | Unexpected.
Inductive outcome := Ok | ValueError | NotImplementedError | OtherException (c : other_exn).

(* ---------------------------------------------------------------- guards *)
Definition seq (a b : outcome) : outcome :=          (* a raised: that exception; otherwise go on with b *)
  match a with
  | Ok => b
  | ValueError => ValueError
  | NotImplementedError => NotImplementedError
  | OtherException c => OtherException c
  end.
Definition guard (c : bool) (exn : outcome) : outcome := if c then exn else Ok.
Fixpoint first_of (gs : list outcome) : outcome :=
  match gs with [] => Ok | g :: gs' => seq g (first_of gs') end.

Definition len_ne (a b : nat) : bool := negb (Nat.eqb a b).
(* `level <= 0 or level >= 1` *)
Definition level_bad (l : Q) : bool := Qle_bool l 0 || Qle_bool 1 l.
(* `functional in ("expectile", "quantile")` *)
Definition uses_level (f : functional) : bool :=
  match f with Fexpectile | Fquantile => true | _ => false end.
Definition is_other (f : functional) : bool := match f with Fother => true | _ => false end.
Definition is_r2 (r : wrank) : bool := match r with R2 => true | R1 => false end.
Definition nonpos (s : wsign) : bool := match s with AllPos => false | _ => true end.

(* _utils/array.py 74-99: both arguments one-dimensional -> line 96-98 *)
Definition validate_2_arrays (a b : nat) : outcome := guard (len_ne a b) ValueError.
(* _utils/array.py 62-71 *)
Definition validate_same_first_dimension (a b : nat) : outcome := guard (len_ne a b) ValueError.

(* calibration/identification.py 101-121 *)
Definition ident_core (n_obs n_pred : nat) (f : functional) (l : Q) : outcome :=
  first_of [ validate_2_arrays n_obs n_pred;                       (* 101 *)
             guard (uses_level f && level_bad l) ValueError;       (* 103-105 *)
             guard (is_other f) ValueError ].                      (* 115-121 *)

(* the weights prelude shared by compute_bias (300-305), compute_marginal (658-663), decompose (834-841) *)
Definition weights_1d (nw : option nat) (rk : wrank) (n_obs : nat) : outcome :=
  match nw with
  | None => Ok
  | Some m => first_of [ validate_same_first_dimension m n_obs;    (* 301 / 659 / 837 *)
                         guard (is_r2 rk) ValueError ]             (* 303 / 661 / 839 *)
  end.

(* _utils/binning.py 107-115, 143-148 *)
Definition bin_core (bm : bin_method) (nb : Z) (nf n_obs : nat) : outcome :=
  first_of [ guard (match bm with BMother => true | BMvalid => false end) ValueError;   (* 107-112 *)
             guard (nb <? 2)%Z ValueError;                                               (* 113-115 *)
             guard (len_ne nf n_obs) ValueError ].                                       (* 143-148 *)
Definition bin_opt (bm : bin_method) (nb : Z) (nf : option nat) (n_obs : nat) : outcome :=
  match nf with None => Ok | Some k => bin_core bm nb k n_obs end.

(* calibration/identification.py 296-333 *)
Definition bias_core (d : descriptor) : outcome :=
  first_of [ validate_same_first_dimension (d_n_obs d) (d_n_pred d);                     (* 296 *)
             weights_1d (d_n_w d) (d_w_rank d) (d_n_obs d);                              (* 300-305 *)
             bin_opt (d_bin_method d) (d_n_bins d) (d_n_feat d) (d_n_pred d);            (* 309, 313-320: n_obs := len(y_pred) *)
             ident_core (d_n_obs d) (d_n_pred d) (d_functional d) (d_level d) ].         (* 333 *)

(* calibration/identification.py 653-696; x_none: X is None although a feature_name is given *)
Definition marginal_core (x_none : bool) (d : descriptor) : outcome :=
  first_of [ validate_same_first_dimension (d_n_obs d) (d_n_pred d);                     (* 653 *)
             weights_1d (d_n_w d) (d_w_rank d) (d_n_obs d);                              (* 658-663 *)
             guard x_none ValueError;                                                    (* 670-674 *)
             bin_opt (d_bin_method d) (d_n_bins d) (d_n_feat d) (d_n_pred d) ].          (* 686, 689-696 *)

(* scoring/scoring.py: constructors 149-154, 275, 303, 332, 473-478, 579, 654-662 *)
Definition ctor_core (k : skind) (l : Q) : outcome :=
  match k with
  | KHES | KHQS | KPinball | KElementary => guard (level_bad l) ValueError
  | KSquared | KPoisson | KGamma | KLogLoss => Ok                  (* no level argument *)
  end.
(* score_per_obs: 185, 401, 506, 690-705 *)
Definition per_obs_core (k : skind) (f : functional) (l : Q) (n_obs n_pred : nat) : outcome :=
  first_of [ ctor_core k l;
             validate_2_arrays n_obs n_pred;
             match k with
             | KElementary => ident_core n_obs n_obs f l            (* 700-705, y_pred := full(y.shape) *)
             | _ => Ok
             end ].
(* numpy.average(a, weights=w) with axis=None *)
Definition np_average (nw : option nat) (rk : wrank) (n : nat) : outcome :=
  match nw with
  | None => Ok
  | Some m => guard (len_ne m n || is_r2 rk) (OtherException TypeErr)
  end.
(* __call__: 63 *)
Definition call_core (k : skind) (f : functional) (l : Q) (n_obs n_pred : nat) (nw : option nat) (rk : wrank) : outcome :=
  seq (per_obs_core k f l n_obs n_pred) (np_average nw rk n_obs).

(* _utils/isotonic.py 356-384 *)
Definition isoreg_core (n : nat) (f : functional) (l : Q) (nw : option nat) (rk : wrank) (sg : wsign) : outcome :=
  first_of [ guard (is_other f) ValueError;                                              (* 357-362 *)
             guard (uses_level f && level_bad l) ValueError;                             (* 363-365 *)
             match nw with
             | None => Ok                                                                (* 371-372 *)
             | Some m =>
                 first_of [ guard (match f with Fmedian | Fquantile => true | _ => false end)
                                  NotImplementedError;                                   (* 366-368, 374-376 *)
                            guard (is_r2 rk || len_ne n m) ValueError;                   (* 379-381 *)
                            guard (nonpos sg) ValueError ]                               (* 382-384 *)
             end ].

(* _utils/isotonic.py 502-522: polars builds the frame before anything is validated *)
Definition isofit_core (n_x n_y : nat) (f : functional) (l : Q) (nw : option nat) (rk : wrank) (sg : wsign) : outcome :=
  first_of [ guard (len_ne n_x n_y) (OtherException ShapeErr);                           (* 507 *)
             match nw with None => Ok | Some m => guard (len_ne m n_y) (OtherException ShapeErr) end;   (* 508-509 *)
             isoreg_core n_y f l nw rk sg ].                                             (* 516-522 *)

(* sklearn.isotonic.IsotonicRegression.fit(X, y, sample_weight) *)
Definition skl_fit (n_x n_y : nat) (nw : option nat) (rk : wrank) : outcome :=
  first_of [ guard (len_ne n_x n_y) ValueError;
             match nw with None => Ok | Some m => guard (len_ne m n_y || is_r2 rk) ValueError end ].

(* scoring/scoring.py 827-900 (after functional / level have been determined) *)
Definition decompose_core (f : functional) (l : Q) (d : descriptor) : outcome :=
  first_of [ guard (is_other f) ValueError;                                              (* 828-833 *)
             guard (uses_level f && level_bad l) ValueError;                             (* 834-836 *)
             validate_same_first_dimension (d_n_obs d) (d_n_pred d);                     (* 841 *)
             weights_1d (d_n_w d) (d_w_rank d) (d_n_obs d);                              (* 846-853 *)
             match f with
             | Fmean => skl_fit (d_n_pred d) (d_n_obs d) (d_n_w d) (d_w_rank d)          (* 858, 900 *)
             | Fmedian =>                                                                (* 837-839: median := 0.5-quantile *)
                 isofit_core (d_n_pred d) (d_n_obs d) Fquantile (1 # 2) (d_n_w d) (d_w_rank d) (d_w_sign d)
             | _ => isofit_core (d_n_pred d) (d_n_obs d) f l (d_n_w d) (d_w_rank d) (d_w_sign d)   (* 861, 900 *)
             end ].

(* the attribute `functional` of a scoring object: 156-161, 376, 481, 665 *)
Definition functional_of (k : skind) (f : functional) (l : Q) : functional :=
  match k with
  | KHES => if Qeq_bool l (1 # 2) then Fmean else Fexpectile
  | KSquared | KPoisson | KGamma | KLogLoss => Fmean
  | KHQS | KPinball => Fquantile
  | KElementary => f
  end.
(* 815-825: level = 0.5 unless the inferred functional has a level, then scoring_function.level *)
Definition level_of (f' : functional) (l : Q) : Q := if uses_level f' then l else 1 # 2.

(* calibration/plots.py 155-216 (n_bootstrap = None) *)
Definition plot_rel_core (d : descriptor) : outcome :=
  first_of [ validate_same_first_dimension (d_n_obs d) (d_n_pred d);                     (* 155 *)
             match d_n_w d with
             | None => Ok
             | Some m => validate_same_first_dimension m (d_n_obs d)                     (* 156-157 *)
             end;
             guard (Nat.eqb (d_n_pred d) 0) ValueError;                                  (* 159: numpy min / max of an empty array or list *)
             match d_functional d with
             | Fmean => skl_fit (d_n_pred d) (d_n_obs d) (d_n_w d) (d_w_rank d)          (* 208-212 *)
             | f => isofit_core (d_n_pred d) (d_n_obs d) f (d_level d) (d_n_w d) (d_w_rank d) (d_w_sign d)   (* 214-216 *)
             end ].

(* _utils/partial_dependence.py 93-97: numpy.average(..., axis=1, weights=weights).  numpy accepts 2-d weights of
   exactly the shape (n_grid, n) of the reshaped predictions; the descriptor carries neither n_grid nor the number of
   weight columns, so this clause describes 2-d weights of any OTHER shape and harness/run_validate.py never generates
   the coincidence (the weights of this helper are not among the clauses of C20). *)
Definition pd_core (d : descriptor) : outcome :=
  match d_n_w d with None => Ok | Some m => guard (len_ne m (d_n_obs d) || is_r2 (d_w_rank d)) ValueError end.

Definition validate (e : entry) (d : descriptor) : outcome :=
  match e with
  | E_ident => ident_core (d_n_obs d) (d_n_pred d) (d_functional d) (d_level d)
  | E_bias => bias_core d
  | E_marginal => marginal_core false d
  | E_ctor => ctor_core (d_kind d) (d_level d)
  | E_per_obs => per_obs_core (d_kind d) (d_functional d) (d_level d) (d_n_obs d) (d_n_pred d)
  | E_call => call_core (d_kind d) (d_functional d) (d_level d) (d_n_obs d) (d_n_pred d) (d_n_w d) (d_w_rank d)
  | E_decompose => decompose_core (d_functional d) (d_level d) d                         (* 806, 815: both given *)
  | E_decompose_infer =>
      let f' := functional_of (d_kind d) (d_functional d) (d_level d) in
      seq (ctor_core (d_kind d) (d_level d))                                             (* the caller builds the object *)
          (decompose_core f' (level_of f' (d_level d)) d)                                (* 806-825 *)
  | E_isoreg => isoreg_core (d_n_obs d) (d_functional d) (d_level d) (d_n_w d) (d_w_rank d) (d_w_sign d)
  | E_isofit => isofit_core (d_n_pred d) (d_n_obs d) (d_functional d) (d_level d) (d_n_w d) (d_w_rank d) (d_w_sign d)
  | E_bin_feature => bin_core (d_bin_method d) (d_n_bins d)
                       (match d_n_feat d with Some k => k | None => 0%nat end) (d_n_obs d)
  | E_pd => pd_core d
  | E_plot_rel => plot_rel_core d
  | E_plot_bias => bias_core d                                                           (* calibration/plots.py 475-484 *)
  | E_plot_marginal => marginal_core (match d_n_feat d with None => true | Some _ => false end) d   (* calibration/plots.py 1005-1016 *)
  | E_plot_murphy =>
      seq (guard (Nat.eqb (d_n_pred d) 0 || Nat.eqb (d_n_obs d) 0) ValueError)           (* scoring/plots.py 120-121: numpy min / max of an empty array *)
      (call_core KElementary (d_functional d) (d_level d) (d_n_obs d) (d_n_pred d) (d_n_w d) (d_w_rank d))   (* 134-136 *)
  | E_val2 => validate_2_arrays (d_n_obs d) (d_n_pred d)
  | E_valsame => validate_same_first_dimension (d_n_obs d) (d_n_pred d)
  end.
