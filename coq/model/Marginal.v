(* Executable rational model of `compute_marginal`
   (src/model_diagnostics/calibration/identification.py, lines 482-912; line numbers as of
   commit 7007a15).  Definitions only; the lemmas are in proofs/MarginalProps.v.

   Built on the existing models
     model/Binning.v     bin_feature          (bin_numeric, bin_string, render)
     model/Bias.v        the group machinery  (row = (y_obs, y_pred, key, weight), stat_of,
                                               key_universe, present, numeric_keys, string_keys)
     model/PartialDep.v  compute_partial_dependence (compute_pd, pd_def, pred_input)

   What is in the model
   * validation delegated to bin_feature (n_bins < 2 -> ValueError; lines 690-696);
   * the ungrouped path (feature_name None, lines 709-730);
   * the polars group-by (lines 732-854): per group the weighted means of y_obs and y_pred, the
     count, the weight sum, the squared standard errors
         sum w (y - mean)^2 / sum w / (count - 1   if count > 1 else 1)              lines 747-753, 791-795
     (sqrt is not rational: the model exposes the SQUARE), and for a numerical feature the
     UNWEIGHTED mean of the feature inside the bin (line 765: this is the value shown in the feature
     column), the UNWEIGHTED POPULATION standard deviation of the feature inside the bin (line 766,
     `std(ddof=0)`; exposed squared) and the first `bin_edges` pair of the group (line 767), assembled
     into the triple (lower, std, upper) at lines 834-853; the null group reports [null, null, null];
   * the order of the output rows (line 817, `.sort(feature_name)`): nulls first, then ascending -
     numerical: by the mean of the feature inside the bin, which increases with the bin number
     (MarginalProps.marg_feature_means_increasing); string / categorical: byte order of the labels;
     enum: declaration order, the pooled label last.  This is exactly the key order of model/Bias.v;
   * `.sort("__priority").head(n_bins)` (lines 808-816) never drops a row when n_bins is the value the
     binning helper returned (MarginalProps.marg_no_truncation_numeric, _string); the model answers `MTruncated`
     otherwise, as model/Bias.v does;
   * the partial dependence column (lines 863-899, as of fix 7801489): the pooled category is the one value
     of the binned feature that the feature itself never takes (lines 868-881: `is_real = v is None or v in
     real_values`); the pooled label is fresh (BinningProps.pooled_label_fresh), so the row that is not real is
     exactly the row of the pooled bin - rule `ByBin`, THE model of the current code.  The grid = feature
     column of the output (bin means / labels / null) filtered by is_real (line 882),
     compute_partial_dependence on (X, feature_index, grid, weights, n_max, rng) (lines 883-891), the values
     go back to the real rows and the pooled row gets null (lines 892-899).
     `ByLastLabel` is a RECORD OF THE OLD RULE (before fix 7801489: "the LAST row's label contains the text
     'other '", drop that last row, TypeError when that label is null); it is kept only for the refutation
     witnesses of the former findings D4 / D5 and for `MARG_RULE=ByLastLabel` in the harness.

   Abstraction of X (as in model/PartialDep.v): a list of rows of rationals and ANY row-wise predictor
   f.  The feature column j of X holds, for a numerical feature, the value itself; for a string-like
   feature the rank `c` of the category (model/Binning.v) as the rational c; a null / NaN cell is the
   reserved rational `pi_nullq`, and the artificial pooled category - which has no rank - is the
   reserved rational `pi_other`.  The harness applies the same encoding to whatever container the
   real function hands to the predictor (harness/run_marginal.py, Recorder).
   After fix 6654639 a float grid is never truncated into an integer column: storage type CFloat.

   Domain restriction (explicit): numerical feature cells are `option Q` - finite or null/NaN.
   Infinite feature values (mean/std of a bin become inf/NaN) are outside this model; they are
   covered for bin_feature itself by model/Binning.v (C13).  Boolean features are not modelled. *)
From Coq Require Import ZArith QArith Qabs Qreduction List Bool Arith String Ascii.
Import ListNotations.
Open Scope Q_scope.
From MD Require Import lib.QLists model.Functionals model.Binning model.PartialDep model.Bias.

(* model/Bias.v and model/PartialDep.v both have a `row` *)
Notation brow := MD.model.Bias.row.           (* (y_obs, y_pred, key, weight) *)
Notation xrow := MD.model.PartialDep.row.     (* one row of X: list Q *)

(* ------------------------------------------------------------------ *)
(* group statistics, lines 741-799 *)

Definition grp_rows (g : option nat) (rows : list brow) : list brow :=
  filter (fun r => okey_eqb (r_key r) g) rows.
Definition obs_elt (r : brow) : elt := (r_y r, r_w r).
Definition pred_elt (r : brow) : elt := (r_z r, r_w r).
Definition obs_members (g : option nat) (rows : list brow) : list elt := map obs_elt (grp_rows g rows).
Definition pred_members (g : option nat) (rows : list brow) : list elt := map pred_elt (grp_rows g rows).

(* Bias.stat_of computes (mean, count, weight sum, squared standard error) with exactly the formulas of
   lines 747-753 / 775-795; its p-value class is not used here *)
Record mstat := mkm {
  m_key : option nat;
  m_obs : gstat;            (* statistics of y_obs over the group *)
  m_pred : gstat }.         (* statistics of y_pred over the group *)

Definition y_obs_mean (s : mstat) : Q := g_mean (m_obs s).
Definition y_pred_mean (s : mstat) : Q := g_mean (m_pred s).
Definition y_obs_stderr2 (s : mstat) : Q := g_stderr2 (m_obs s).      (* y_obs_stderr ^ 2 *)
Definition y_pred_stderr2 (s : mstat) : Q := g_stderr2 (m_pred s).    (* y_pred_stderr ^ 2 *)
Definition m_count (s : mstat) : nat := g_count (m_obs s).
Definition m_weights (s : mstat) : Q := g_weights (m_obs s).
Definition m_defined (s : mstat) : bool := g_defined (m_obs s).       (* total weight <> 0 *)

Definition mstat_of (g : option nat) (rows : list brow) : mstat :=
  mkm g (stat_of g (obs_members g rows)) (stat_of g (pred_members g rows)).

(* group_by("bin") ... .sort(feature_name): the groups that occur, null first, then ascending key *)
Definition marg_groups (rows : list brow) : list mstat :=
  map (fun g => mstat_of g rows) (filter (fun g => present g rows) (key_universe rows)).

(* the ungrouped path, lines 709-730 *)
Definition marg_all (rows : list brow) : mstat :=
  mkm None (stat_of None (map obs_elt rows)) (stat_of None (map pred_elt rows)).

(* ------------------------------------------------------------------ *)
(* the feature side of an output row *)

Inductive fcell :=
  | FCNone                 (* no feature column (feature_name None) *)
  | FCNull                 (* the null group *)
  | FCNum (mean : Q)       (* numerical feature: unweighted mean of the feature inside the bin, line 765 *)
  | FCCat (c : nat)        (* a real category (rank c) *)
  | FCPooled.              (* the artificial "other n" *)

Record mrow := mkrow {
  o_stat : mstat;
  o_cell : fcell;
  o_label : option string;              (* string-like features: the text in the feature column *)
  o_edges : option (ext * Q * ext) }.   (* numerical, non-null: (lower, std^2, upper); None = column absent
                                           or [null, null, null] *)

(* numerical: feature values of the members of a group *)
Definition fmembers (g : option nat) (keys : list (option nat)) (feature : list (option Q)) : list Q :=
  nonnull (map snd (filter (fun kv => okey_eqb (fst kv) g) (combine keys feature))).
(* pl.col(feature).mean(), line 765 *)
Definition fmean (l : list Q) : Q := Qred (qsum l / Qnat (List.length l)).
(* pl.col(feature).std(ddof=0) squared, line 766: population variance, unweighted *)
Definition fvar0 (l : list Q) : Q :=
  let m := fmean l in Qred (qsum (map (fun x => (x - m) * (x - m)) l) / Qnat (List.length l)).

(* pl.col("bin_edges").first() of the group, line 767 *)
Definition edge_of (k : nat) (nrows : list nrow) : option (ext * ext) :=
  match find (fun r => match r with Some (b, _) => Nat.eqb b k | None => false end) nrows with
  | Some (Some (_, e)) => Some e
  | _ => None
  end.

Definition xfeature (feature : list (option Q)) : list (option ext) := map (option_map Fin) feature.

Definition num_row (feature : list (option Q)) (nrows : list nrow) (s : mstat) : mrow :=
  match m_key s with
  | None => mkrow s FCNull None None                                  (* lines 836-843 *)
  | Some k =>
      let vals := fmembers (Some k) (numeric_keys nrows) feature in
      mkrow s (FCNum (fmean vals)) None
            (option_map (fun e => (fst e, fvar0 vals, snd e)) (edge_of k nrows))   (* lines 844-850 *)
  end.

Definition num_table (feature : list (option Q)) (nrows : list nrow) (ys zs ws : list Q) : list mrow :=
  map (num_row feature nrows) (marg_groups (zip4 ys zs (numeric_keys nrows) ws)).

(* string-like: the bin a group key stands for *)
Fixpoint bin_of (g : option nat) (keys : list (option nat)) (bins : list sbin) : sbin :=
  match keys, bins with
  | k :: ks, b :: bs => if okey_eqb k g then b else bin_of g ks bs
  | _, _ => SBNull
  end.
Definition cell_of_sbin (b : sbin) : fcell :=
  match b with SBNull => FCNull | SBKeep c => FCCat c | SBOther => FCPooled end.

Definition str_row (names : list string) (label : option string) (keys : list (option nat))
    (bins : list sbin) (s : mstat) : mrow :=
  let b := bin_of (m_key s) keys bins in
  mkrow s (cell_of_sbin b) (render names label b) None.

Definition str_table (kind : skind) (names : list string) (label : option string) (bins : list sbin)
    (ys zs ws : list Q) : list mrow :=
  let keys := string_keys kind names label bins in
  map (str_row names label keys bins) (marg_groups (zip4 ys zs keys ws)).

Definition plain_table (ys zs ws : list Q) : list mrow :=
  [mkrow (marg_all (zip4 ys zs (map (fun _ => None) ys) ws)) FCNone None None].

(* ------------------------------------------------------------------ *)
Inductive mfeat :=
  | MFNone                                                               (* feature_name None *)
  | MFNum (feature : list (option Q)) (m : bmethod) (interior : list Q)  (* interior: numpy's rule edges *)
  | MFStr (kind : skind) (names : list string) (feature : list (option nat)).

Definition is_str (ft : mfeat) : bool := match ft with MFStr _ _ _ => true | _ => false end.
Definition has_feature (ft : mfeat) : bool := match ft with MFNone => false | _ => true end.

Inductive tres :=
  | TOk (rows : list mrow)
  | TTruncated            (* more groups than the n_bins returned by bin_feature: never (marg_no_truncation_numeric, _string) *)
  | TNanEdges
  | TErr (e : berr).

(* one column of y_pred: lines 705-854 *)
Definition table_of (ft : mfeat) (n_bins : nat) (ys zs ws : list Q) : tres :=
  match ft with
  | MFNone => TOk (plain_table ys zs ws)
  | MFNum feature m interior =>
      match bin_numeric KNum (xfeature feature) n_bins m interior with
      | NOk n _ _ nrows =>
          let t := num_table feature nrows ys zs ws in
          if (List.length t <=? n)%nat then TOk t else TTruncated          (* line 816 *)
      | NNanEdges => TNanEdges
      | NErr e => TErr e
      end
  | MFStr kind names feature =>
      match bin_string kind names feature n_bins with
      | SOk n _ label _ bins =>
          let t := str_table kind names label bins ys zs ws in
          if (List.length t <=? n)%nat then TOk t else TTruncated
      | SErr e => TErr e
      end
  end.

(* ------------------------------------------------------------------ *)
(* partial dependence, lines 863-899 *)

(* Python `"other " in s`: substring test *)
Fixpoint prefixb (p s : string) : bool :=
  match p with
  | EmptyString => true
  | String a p' => match s with
                   | EmptyString => false
                   | String b s' => Ascii.eqb a b && prefixb p' s'
                   end
  end.
Fixpoint substrb (p s : string) : bool :=
  prefixb p s || match s with EmptyString => false | String _ s' => substrb p s' end.
Definition contains_other (s : string) : bool := substrb "other " s.

Inductive pool_rule :=
  | ByBin           (* THE CODE (lines 868-882): the row whose value the feature never takes = the pooled bin *)
  | ByLastLabel.    (* OLD rule, before /repo fix 7801489: last row iff its label contains "other " *)

Definition is_pooled (r : mrow) : bool := match o_cell r with FCPooled => true | _ => false end.

(* which output rows are taken OUT of the grid (and get a null partial dependence);
   None = (old rule only) TypeError `"other " in None`: the last label is null *)
Definition drop_mask (rule : pool_rule) (str : bool) (rows : list mrow) : option (list bool) :=
  if negb str then Some (map (fun _ => false) rows) else
  match rule with
  | ByBin => Some (map is_pooled rows)
  | ByLastLabel =>
      match rev rows with
      | [] => Some []
      | lastr :: before =>
          match o_label lastr with
          | None => None
          | Some s => Some (map (fun _ => false) before ++ [contains_other s])     (* old lines 871-875 *)
          end
      end
  end.

Fixpoint kept {A} (mask : list bool) (l : list A) : list A :=
  match mask, l with
  | b :: m', x :: l' => if b then kept m' l' else x :: kept m' l'
  | _, _ => []
  end.

(* lines 892-899: the values go to the rows that were in the grid, null to the others *)
Fixpoint fill (mask : list bool) (vals : list Q) : list (option Q) :=
  match mask with
  | [] => []
  | true :: m' => None :: fill m' vals
  | false :: m' => match vals with
                   | v :: vs => Some v :: fill m' vs
                   | [] => None :: fill m' []
                   end
  end.

(* what the predictor is given for X and how a cell of the feature column reads as a rational *)
Record pdin := mkpdin {
  pi_X : matrix;              (* encoded X *)
  pi_j : nat;                 (* feature_index *)
  pi_nullq : Q;               (* encoding of a null / NaN cell *)
  pi_other : Q;               (* encoding of the pooled label *)
  pi_nmax : option nat;       (* n_max *)
  pi_idx : list nat }.        (* default_rng(rng).choice(n, size=n_max, replace=False); [] if unused *)

Definition enc_cell (p : pdin) (c : fcell) : Q :=
  match c with
  | FCNone => 0
  | FCNull => pi_nullq p
  | FCNum m => m
  | FCCat c => Qnat c
  | FCPooled => pi_other p
  end.

(* the grid handed to compute_partial_dependence, line 882 *)
Definition pd_grid (p : pdin) (mask : list bool) (rows : list mrow) : list Q :=
  map (enc_cell p) (kept mask (map o_cell rows)).

(* every value the predictor finds in the feature column *)
Definition shown_values (p : pdin) (grid : list Q) : list Q :=
  map (fun r => nth (pi_j p) r 0) (pred_input CFloat (pi_X p) (pi_j p) grid (pi_nmax p) (pi_idx p)).

Inductive pcres :=
  | PCOk (col : list (option Q)) (seen : matrix)      (* the column, and the matrix the predictor received *)
  | PCNullLabel                                       (* old rule only: TypeError *)
  | PCErr (e : pd_error).

Section WithPredictor.
Variable f : xrow -> Q.                  (* row-wise predictor on encoded rows *)

Definition pd_column (rule : pool_rule) (str : bool) (p : pdin) (w : option (list Q)) (rows : list mrow)
  : pcres :=
  match drop_mask rule str rows with
  | None => PCNullLabel
  | Some mask =>
      let grid := pd_grid p mask rows in
      match compute_pd f CFloat (pi_X p) (pi_j p) grid w (pi_nmax p) (pi_idx p) with    (* lines 883-891 *)
      | PDOk v => PCOk (fill mask v)
                       (pred_input CFloat (pi_X p) (pi_j p) grid (pi_nmax p) (pi_idx p))
      | PDErr e => PCErr e
      end
  end.

Inductive mres :=
  | MOk (per_model : list (list mrow * option (list (option Q))))   (* table, partial_dependence column *)
        (seen : option matrix)                                      (* predictor input (first model) *)
  | MTruncated
  | MNanEdges
  | MErr (e : berr)
  | MNullLabel
  | MPdErr (e : pd_error).

Fixpoint all_models (ts : list tres) : tres + list (list mrow) :=
  match ts with
  | [] => inr []
  | TOk r :: ts' => match all_models ts' with inr l => inr (r :: l) | inl e => inl e end
  | t :: _ => inl t
  end.

Fixpoint with_pd (rule : pool_rule) (str : bool) (p : pdin) (w : option (list Q)) (tabs : list (list mrow))
  : pcres + list (list mrow * option (list (option Q))) :=
  match tabs with
  | [] => inr []
  | t :: tabs' =>
      match pd_column rule str p w t with
      | PCOk col _ => match with_pd rule str p w tabs' with
                      | inr l => inr ((t, Some col) :: l)
                      | inl e => inl e
                      end
      | e => inl e
      end
  end.

(* compute_marginal(y_obs, y_pred = models, X, feature_name, predict_function, weights, n_bins, bin_method,
   n_max, rng); pd = None: predict_function is None *)
Definition compute_marginal (rule : pool_rule) (ys : list Q) (models : list (list Q)) (ft : mfeat)
    (n_bins : nat) (weights : option (list Q)) (pd : option pdin) : mres :=
  let ws := match weights with Some w => w | None => map (fun _ => 1) ys end in       (* line 665 *)
  match all_models (map (fun zs => table_of ft n_bins ys zs ws) models) with
  | inl TTruncated => MTruncated
  | inl TNanEdges => MNanEdges
  | inl (TErr e) => MErr e
  | inl (TOk _) => MTruncated                  (* unreachable *)
  | inr tabs =>
      match pd with
      | Some p =>
          if has_feature ft then                                                       (* line 864 *)
            match with_pd rule (is_str ft) p weights tabs with
            | inr l =>
                MOk l (match tabs with
                       | t :: _ => match pd_column rule (is_str ft) p weights t with
                                   | PCOk _ seen => Some seen
                                   | _ => None
                                   end
                       | [] => None
                       end)
            | inl PCNullLabel => MNullLabel
            | inl (PCErr e) => MPdErr e
            | inl (PCOk _ _) => MNullLabel     (* unreachable *)
            end
          else MOk (map (fun t => (t, None)) tabs) None
      | None => MOk (map (fun t => (t, None)) tabs) None
      end
  end.

End WithPredictor.
