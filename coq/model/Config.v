(* Executable model of src/model_diagnostics/_config.py: the global
   configuration (one key, "plot_backend"), get_config / set_config /
   config_context, as a state machine over flat histories.  Definitions only. *)
From Coq Require Import List Bool.
Import ListNotations.

(* a value that can be stored in the configuration *)
Inductive backend := Matplotlib | Plotly.
(* what a caller may pass as plot_backend *)
Inductive arg := ANone | AVal (b : backend) | AInvalid.

Inductive op :=
  | SetC (a : arg)           (* set_config(plot_backend=a), exceptions caught by the caller *)
  | Enter (a : arg)          (* cm = config_context(plot_backend=a); cm.__enter__() *)
  | Leave (exc : bool)       (* cm.__exit__(...) of the innermost open context, normally or by exception *)
  | ReadMutate (b : backend) (* d = get_config(); d["plot_backend"] = b *)
.

Inductive outcome := Done | ValueError | ModuleNotFound | NoOpenContext.

Record state := mkst { cfg : backend; saved : list backend }.
Definition init : state := mkst Matplotlib [].

Section WithPlotly.
Variable plotly_available : bool.       (* find_spec("plotly") *)

(* set_config, lines 62-74: validate first, then assign *)
Definition set_config (c : backend) (a : arg) : backend * outcome :=
  match a with
  | AInvalid => (c, ValueError)
  | AVal Plotly => if plotly_available then (Plotly, Done) else (c, ModuleNotFound)
  | AVal Matplotlib => (Matplotlib, Done)
  | ANone => (c, Done)
  end.

Definition step (s : state) (o : op) : state * outcome :=
  match o with
  | SetC a => let '(c, r) := set_config (cfg s) a in (mkst c (saved s), r)
  | Enter a =>
      let old := cfg s in                                  (* old_config = get_config(): a copy *)
      let '(c, r) := set_config (cfg s) a in
      match r with
      | Done => (mkst c (old :: saved s), Done)           (* reached `yield` *)
      | _ => (mkst c (saved s), r)                        (* raised before try: no finally *)
      end
  | Leave _ =>
      match saved s with
      | [] => (s, NoOpenContext)
      | old :: rest =>                                     (* finally: set_config with the saved dict *)
          let '(c, r) := set_config (cfg s) (AVal old) in (mkst c rest, r)
      end
  | ReadMutate _ => (s, Done)                              (* the returned dict is a copy *)
  end.

Fixpoint run (s : state) (h : list op) : state :=
  match h with [] => s | o :: h' => run (fst (step s o)) h' end.

(* the observable trace: get_config()["plot_backend"] and the outcome after every operation *)
Fixpoint trace (s : state) (h : list op) : list (backend * outcome) :=
  match h with
  | [] => []
  | o :: h' => let '(s', r) := step s o in (cfg s', r) :: trace s' h'
  end.

Definition enter_ok (a : arg) : bool :=
  match a with AInvalid => false | AVal Plotly => plotly_available | _ => true end.
End WithPlotly.
