(* Executable model of `decompose` (src/model_diagnostics/scoring/scoring.py,
   lines 699-944) over exact rationals.  Definitions only.

   Generic in
     S : Q -> Q -> option Q   the per-observation score `score_per_obs(y, z)`,
                              None = the ValueError of its domain check;
     sf_fun, sf_level         the attributes `scoring_function.functional` / `.level`
                              (None = attribute absent);
     functional, level        the explicit keyword arguments (None = not given).
   `scoring_function(y, z, w)` is `np.average(score_per_obs(y, z), weights=w)`
   (scoring.py line 63): it raises ValueError iff some observation is outside the
   domain (the checks are `np.all(...)` over the arrays), else returns
   sum w_i s_i / sum w_i  ([avg_score] below).

   The REPAIR PATH is modelled as the Python does it, on the recalibrated vector in the
   caller's row order: by value with a mask ([repair_val], the current code) and, for the
   record of the old behaviour, by array position ([repair], lines 888-910 before 04732ba).

   What is outside the model (explicit constructor [DEUnmodelled], never a silent
   totalisation): an empty data set (the code raises IndexError or
   ZeroDivisionError depending on the functional), a forecast matrix without
   columns, and weights that are not strictly positive (scikit-learn silently drops
   zero-weight rows, numpy raises ZeroDivisionError when w[0] = 0, ...; the
   property text quantifies over positive weights only).

   CODE VARIANTS.  Three behaviours of the code were FOUND BY THIS WORK AND REPAIRED in /repo:
     d3b9226  functional = "median" raised UnboundLocalError (`marginal` was never
              assigned: lines 843-853 had no branch for it); now an alias of
              ("quantile", 0.5);
     e52a7ce  a data set with ONE row raised ValueError (`np.squeeze` turned the
              recalibrated vector into a 0-d array); now `np.atleast_1d(np.squeeze(..))`;
     04732ba  the domain repair indexed the recalibrated vector BY POSITION, i.e. it
              assumed rows sorted by forecast, so the result depended on the row order
              (ValueError or different numbers); now the two lowest blocks are
              located BY VALUE with a mask.
   The model takes a record [variant] of three booleans.  [fixed] (all true) is the
   CURRENT code and the variant the property theorems are required for; [current]
   (all false - the name is historical) is the code BEFORE the three commits and is kept
   only for the labelled record of the old behaviour (decomp_median_alias_refuted,
   repair_not_perm_invariant_refuted, single_row_rejected in proofs/DecomposeProps.v).
   Most theorems are proved for an arbitrary variant.  The correspondence harness
   probes the three behaviours on the implementation (it reports `fixed` on the current
   tree) and writes the variant into every case.
   Line numbers in the comments refer to the source BEFORE the three commits; after them
   everything from line 838 on is shifted by +4 and the repair block is lines 899-920.

   External oracle.  For functional = "mean" the code fits scikit-learn's
   `IsotonicRegression` (line 844), for the others the library's class.  Both are
   modelled by [recalibrate]: rows sorted by (forecast ascending, observation
   descending) - isotonic.py line 519 - , `isotonic_regression` on the sorted
   observations, the fitted value of every row carried back to the caller's row
   order.  Justification that `iso.predict(x)` AT THE TRAINING POINTS is the fitted
   value of the row:
     (i) rows with equal forecast are adjacent after the sort with observations
         descending, so the pooling loop (violation test `>=`) puts them into ONE
         block (mean: a pooled value is >= the smallest pooled observation, which
         is >= the next observation of the tie group; the same for expectile and
         lower quantile); hence the forecast value at the end of a block differs
         from the one at the start of the next block;
    (ii) the thresholds (isotonic.py 531-546) are first and last row of every
         block, and `interp1d`(linear) -> `np.interp` returns fp[j] exactly at a
         threshold and interpolates between two EQUAL values inside a block;
   (iii) scikit-learn first replaces every tie group by its weighted mean
         (`_make_unique`) and then runs PAVA: in exact arithmetic the same fit as
         PAVA on the rows ordered as above (a tie group is pooled anyway), and its
         `predict` interpolates the same way.
   (i)-(ii) are theorems for the library's class (proofs/IsoFitProps.v, predict_at_training;
   bridged to [recalibrate] by DecomposeProps.recal_bridge); (i)-(iii) are checked on every
   correspondence case: the comparator compares [recalibrate]'s output with the array the
   recording scoring function received. *)
From Coq Require Import QArith Qreduction List Bool ZArith.
Import ListNotations.
Open Scope Q_scope.
From MD Require Import lib.QLists model.Functionals model.Isotonic.

Inductive derr := DEValue | DENotImplemented | DEUnbound | DEUnmodelled.
Inductive dres (A : Type) := DOk (a : A) | DErr (e : derr).
Arguments DOk {A} a.
Arguments DErr {A} e.

(* one row of the returned frame *)
Record drow := mkrow { mcb : Q; dsc : Q; unc : Q; sco : Q }.

(* which of the three reported behaviours have been fixed in the code under test *)
Record variant := mkvariant {
  v_median : bool;    (* functional "median" is an alias of ("quantile", 0.5)              *)
  v_repair : bool;    (* the domain repair locates the two lowest blocks by VALUE          *)
  v_squeeze : bool }. (* a one-row data set keeps a 1-d recalibrated vector                *)
Definition current : variant := mkvariant false false false.
Definition fixed : variant := mkvariant true true true.

(* ------------------------------------------------------------------ *)
(* lines 797-827: functional / level inference and validation          *)
(* ------------------------------------------------------------------ *)
Definition has_level (f : ifun) : bool :=
  match f with IFexpectile | IFquantile => true | _ => false end.

Definition infer (sf_fun : option ifun) (sf_level : option Q)
    (functional : option ifun) (level : option Q) : dres (ifun * Q) :=
  match (match functional with Some f => Some f | None => sf_fun end) with     (* 797-799 *)
  | None => DErr DEValue                                                        (* 800-805 *)
  | Some f =>
      match (match level with
             | Some a => Some a
             | None => if has_level f then sf_level else Some (1#2)             (* 807-810 *)
             end) with
      | None => DErr DEValue                                                    (* 811-816 *)
      | Some a =>
          match f with
          | IFother => DErr DEValue                                             (* 818-824 *)
          | _ => if has_level f && (Qle_bool a 0 || Qle_bool 1 a)
                 then DErr DEValue                                              (* 825-827 *)
                 else DOk (f, a)
          end
      end
  end.

(* ------------------------------------------------------------------ *)
(* The library scores that are rational functions (score_per_obs,      *)
(* scoring.py 185-238 and 504-533); levels 0 < a < 1.                  *)
(* ------------------------------------------------------------------ *)
(* SquaredError: np.square(z - y) *)
Definition sq_score (y z : Q) : Q := Qred ((z - y) * (z - y)).
(* HomogeneousExpectileScore(degree=2, level=a): 2 |1{z >= y} - a| (z - y)^2
   (for a = 1/2 the code returns (z - y)^2, the same number) *)
Definition asq_score (a y z : Q) : Q :=
  Qred (2 * (if Qle_bool y z then 1 - a else a) * ((z - y) * (z - y))).
(* PinballLoss(level=a): (1{z >= y} - a) (z - y)   (for a = 1/2 the code returns
   |z - y| / 2, the same number) *)
Definition pin_score (a y z : Q) : Q :=
  Qred (((if Qle_bool y z then 1 else 0) - a) * (z - y)).
(* HomogeneousQuantileScore(degree=3, level=a): (1{z >= y} - a) (z^3 - y^3) / 3 *)
Definition hqs3_score (a y z : Q) : Q :=
  Qred (((if Qle_bool y z then 1 else 0) - a) * ((z * z * z - y * y * y) / 3)).
(* a total score as a score with (empty) domain check *)
Definition total (T : Q -> Q -> Q) (y z : Q) : option Q := Some (T y z).

(* ------------------------------------------------------------------ *)
(* `scoring_function(y, z, w)`                                         *)
(* ------------------------------------------------------------------ *)
Section Score.
Variable S : Q -> Q -> option Q.

Fixpoint scores (y x : list Q) : option (list Q) :=
  match y, x with
  | [], [] => Some []
  | a :: y', b :: x' =>
      match S a b, scores y' x' with
      | Some s, Some ss => Some (s :: ss)
      | _, _ => None
      end
  | _, _ => None
  end.

(* np.average(score_per_obs, weights = w):  wmean of the pairs (s_i, w_i) *)
Definition avg_score (y x wl : list Q) : option Q :=
  match scores y x with
  | None => None
  | Some ss => Some (wmean (combine ss wl))
  end.
End Score.

Definition weights_or_ones (n : nat) (w : option (list Q)) : list Q :=
  match w with Some wl => wl | None => repeat 1 n end.

(* ------------------------------------------------------------------ *)
(* lines 843-853: the marginal forecast                                *)
(* ------------------------------------------------------------------ *)
Definition midq (a : Q) (l : list elt) : Q := Qred ((1#2) * (qlow a l + qupp a l)).

Definition marginal (f : ifun) (a : Q) (y wl : list Q) : option Q :=
  let l := combine y wl in
  match f with
  | IFmean => Some (wmean l)                       (* 845 np.average(y_o, weights=w) *)
  | IFexpectile => Some (expectile_Q a l)          (* 849 *)
  | IFquantile => Some (midq a l)                  (* 851-853, the weights are not used *)
  | _ => None                                      (* "median": no branch, name unbound *)
  end.

(* ------------------------------------------------------------------ *)
(* lines 885-887: iso.fit(x, y_o, sample_weight=w); iso.predict(x)     *)
(* ------------------------------------------------------------------ *)
Record srow := mksrow { r_idx : nat; r_x : Q; r_y : Q; r_w : Q }.

Fixpoint mkrows (i : nat) (x y wl : list Q) : list srow :=
  match x, y, wl with
  | a :: x', b :: y', c :: w' => mksrow i a b c :: mkrows (S i) x' y' w'
  | _, _, _ => []
  end.

Section Sort.
Variable A : Type.
Variable le : A -> A -> bool.
Fixpoint insert (a : A) (l : list A) : list A :=
  match l with
  | [] => [a]
  | b :: l' => if le a b then a :: l else b :: insert a l'
  end.
(* stable: an element is inserted in front of the first one it is <= to *)
Fixpoint isort (l : list A) : list A :=
  match l with [] => [] | a :: l' => insert a (isort l') end.
End Sort.
Arguments insert {A} le a l.
Arguments isort {A} le l.

(* isotonic.py 519: sort(by=["_X", "_target_y"], descending=[False, True]).  polars'
   sort is not promised to be stable; rows equal in both keys are pooled into one
   block with one value, so their mutual order does not change any fitted value. *)
Definition row_le (a b : srow) : bool :=
  if Qeq_bool (r_x a) (r_x b) then Qle_bool (r_y b) (r_y a) else Qle_bool (r_x a) (r_x b).
Definition idx_le (a b : nat * Q) : bool := Nat.leb (fst a) (fst b).

Definition conv_err (e : ierr) : derr :=
  match e with EValue => DEValue | ENotImplemented => DENotImplemented | EIndex => DEUnmodelled end.

Definition sorted_rows (x y : list Q) (w : option (list Q)) : list srow :=
  isort row_le (mkrows 0 x y (weights_or_ones (length y) w)).

Definition recalibrate (f : ifun) (a : Q) (x y : list Q) (w : option (list Q)) : dres (list Q) :=
  let srt := sorted_rows x y w in
  let ws := match w with None => None | Some _ => Some (map r_w srt) end in
  match isotonic_regression (map r_y srt) ws true f a with
  | IErr e => DErr (conv_err e)               (* quantile with weights: NotImplementedError *)
  | IOk (v, _) => DOk (map snd (isort idx_le (combine (map r_idx srt) v)))
  end.

(* ------------------------------------------------------------------ *)
(* lines 888-910: the domain repair, by position                       *)
(* ------------------------------------------------------------------ *)
(* np.argmax(r > t): first index with r[i] > t, 0 if there is none *)
Fixpoint first_gt (t : Q) (r : list Q) (i : nat) : option nat :=
  match r with
  | [] => None
  | v :: r' => if Qle_bool v t then first_gt t r' (S i) else Some i
  end.
Definition argmax_gt (t : Q) (r : list Q) : nat :=
  match first_gt t r 0 with Some i => i | None => 0%nat end.

Definition repair (f : ifun) (a : Q) (wl : list Q) (ymin : Q) (r : list Q) : list Q :=
  let idx1 := argmax_gt ymin r in                                   (* 891 *)
  let val1 := nth idx1 r 0 in                                       (* 892 *)
  let k := argmax_gt val1 r in                                      (* 894 *)
  let idx2 := if Nat.eqb k 0 then length r else k in                (* 896-897 *)
  let l2 := combine (firstn idx2 r) (firstn idx2 wl) in             (* 900-901 *)
  let v := match f with
           | IFmean => wmean l2                                     (* 903 *)
           | IFexpectile => expectile_Q a l2                        (* 905 *)
           | IFquantile => midq a l2                                (* 908-910 *)
           | _ => 0
           end in
  repeat v idx2 ++ skipn idx2 r.

(* the repaired repair ([v_repair]): the entries <= the smallest value above ymin, i.e. the
   two lowest blocks wherever their rows are, are replaced by the functional of these
   entries (with their weights) *)
Fixpoint min_above (t : Q) (r : list Q) : option Q :=
  match r with
  | [] => None
  | q :: r' =>
      match min_above t r' with
      | None => if Qle_bool q t then None else Some q
      | Some m => if Qle_bool q t then Some m else Some (if Qle_bool q m then q else m)
      end
  end.
Fixpoint select (mask : list bool) (l : list Q) : list Q :=
  match mask, l with
  | b :: mask', q :: l' => if b then q :: select mask' l' else select mask' l'
  | _, _ => []
  end.
Definition repair_val (f : ifun) (a : Q) (wl : list Q) (ymin : Q) (r : list Q) : list Q :=
  let val1 := match min_above ymin r with Some m => m | None => ymin end in
  let mask := map (fun q => Qle_bool q val1) r in
  let l2 := combine (select mask r) (select mask wl) in
  let v := match f with
           | IFmean => wmean l2
           | IFexpectile => expectile_Q a l2
           | IFquantile => midq a l2
           | _ => 0
           end in
  map (fun q => if Qle_bool q val1 then v else q) r.
Definition min_list (r : list Q) : Q := match r with [] => 0 | q :: r' => minQ q r' end.

(* "median" as an alias, when fixed *)
Definition alias (v : variant) (fa : ifun * Q) : ifun * Q :=
  match fa with
  | (IFmedian, _) => if v_median v then (IFquantile, 1#2) else fa
  | _ => fa
  end.

(* ------------------------------------------------------------------ *)
(* lines 882-932: one forecast column                                  *)
(* ------------------------------------------------------------------ *)
Section Decompose.
Variable v : variant.
Variable S : Q -> Q -> option Q.

Definition allowed (a b : Q) : bool := match S a b with Some _ => true | None => false end.

(* the vector that is scored as "recalibrated" *)
Definition recal_final (f : ifun) (a : Q) (y : list Q) (w : option (list Q))
    (ymin : Q) (ymin_ok : bool) (x : list Q) : dres (list Q) :=
  match recalibrate f a x y w with
  | DErr e => DErr e
  | DOk r0 =>
      if negb ymin_ok &&
         (if v_repair v then Qle_bool (min_list r0) ymin else Qle_bool (hd 0 r0) ymin)   (* 888 *)
      then DOk ((if v_repair v then repair_val else repair)
                  f a (weights_or_ones (length y) w) ymin r0)
      else DOk r0
  end.

Definition column (f : ifun) (a : Q) (y : list Q) (w : option (list Q))
    (ymin : Q) (ymin_ok : bool) (sm : Q) (x : list Q) : dres drow :=
  let wl := weights_or_ones (length y) w in
  match recal_final f a y w ymin ymin_ok x with
  | DErr e => DErr e
  | DOk r =>
      match avg_score S y x wl with                                     (* 912 *)
      | None => DErr DEValue
      | Some s =>
          (* one row: np.squeeze made the recalibrated vector 0-d, line 914 raises *)
          if Nat.eqb (length y) 1 && negb (v_squeeze v) then DErr DEValue else
          match avg_score S y r wl with                                 (* 913-921 *)
          | None => DErr DEValue
          | Some sr => DOk (mkrow (s - sr) (sm - sr) sm s)              (* 923-931 *)
          end
      end
  end.

Fixpoint columns (f : ifun) (a : Q) (y : list Q) (w : option (list Q))
    (ymin : Q) (ymin_ok : bool) (sm : Q) (cols : list (list Q)) : dres (list drow) :=
  match cols with
  | [] => DOk []
  | x :: cols' =>
      match column f a y w ymin ymin_ok sm x with
      | DErr e => DErr e
      | DOk row =>
          match columns f a y w ymin ymin_ok sm cols' with
          | DErr e => DErr e
          | DOk rows => DOk (row :: rows)
          end
      end
  end.

(* lines 843-880: everything that does not depend on the forecasts.
   Returns (marginal, min y, y_min_allowed, score of the marginal). *)
Definition prelude (f : ifun) (a : Q) (y : list Q) (w : option (list Q)) : dres (Q * Q * bool * Q) :=
  let wl := weights_or_ones (length y) w in
  match y with
  | [] => DErr DEUnmodelled
  | y0 :: ytl =>
      match marginal f a y wl with
      | None => DErr DEUnbound                                          (* 855 *)
      | Some m =>
          let ylast := last y y0 in
          if Qeq_bool y0 m && Qeq_bool m ylast && negb (allowed y0 m)   (* 855-867 *)
          then DErr DEValue
          else
            let ymin := minQ y0 ytl in                                  (* 872 *)
            let ok := allowed y0 ymin in                                (* 873-877 *)
            match avg_score S y (repeat m (length y)) wl with           (* 879-880 *)
            | None => DErr DEValue
            | Some sm => DOk (m, ymin, ok, sm)
            end
      end
  end.

Definition all_pos_w (w : option (list Q)) : bool :=
  match w with None => true | Some wl => all_pos wl end.

(* decompose(y_obs, y_pred, weights, scoring_function=, functional=, level=);
   `cols` are the columns of y_pred (a 1-d y_pred is one column) *)
Definition decompose (sf_fun : option ifun) (sf_level : option Q)
    (y : list Q) (cols : list (list Q)) (w : option (list Q))
    (functional : option ifun) (level : option Q) : dres (list drow) :=
  match infer sf_fun sf_level functional level with
  | DErr e => DErr e
  | DOk fa =>
      let '(f, a) := alias v fa in
      if negb (forallb (fun c => Nat.eqb (length c) (length y)) cols)
      then DErr DEValue                                                 (* 829 *)
      else if negb (match w with None => true | Some wl => Nat.eqb (length wl) (length y) end)
      then DErr DEValue                                                 (* 837 *)
      else if negb (all_pos_w w) then DErr DEUnmodelled
      else match cols with
      | [] => DErr DEUnmodelled
      | _ =>
          match prelude f a y w with
          | DErr e => DErr e
          | DOk (m, ymin, ok, sm) => columns f a y w ymin ok sm cols
          end
      end
  end.

(* the uncertainty component as a function of everything but the forecasts *)
Definition uncertainty (sf_fun : option ifun) (sf_level : option Q)
    (y : list Q) (w : option (list Q)) (functional : option ifun) (level : option Q) : option Q :=
  match infer sf_fun sf_level functional level with
  | DErr _ => None
  | DOk fa =>
      let '(f, a) := alias v fa in
      match prelude f a y w with
      | DOk (_, _, _, sm) => Some sm
      | DErr _ => None
      end
  end.
End Decompose.
