(* Executable rational model of what `plot_marginal` DRAWS with the matplotlib backend
   (src/model_diagnostics/calibration/plots.py, lines 746-1295).  Compositions over
   model/Marginal.v (compute_marginal); definitions only, lemmas in proofs/PlotMarginalProps.v.

   What the code does (line numbers of plots.py):
   * 990-994   show_lines not in ("always", "numerical")            -> ValueError
   * 997-1003  y_pred with more than one column                     -> ValueError  (ONE model only)
   * 1005-1016 df = compute_marginal(y_obs, y_pred, X, feature_name, predict_function, weights,
               n_bins, bin_method, n_max, rng): every argument is passed through as given
   * 1017      feature_name = df.columns[0].  For a y_pred of shape (n_obs, 1) - which the message
               of line 1000 calls allowed - compute_marginal puts the column "model" FIRST: the code then
               treats the model name as the feature (constructor PMModelColumn; polars ComputeError for a
               numerical feature, matplotlib ValueError or a plot of the wrong column for a string one)
   * 1019-1024 feature_has_nulls, n_bins_eff = rows - nulls, is_categorical = no column bin_edges,
               n_x = number of DISTINCT values of the feature column (null counts as one)
   * 1027-1030 categorical with nulls: null row moved to the end; df_no_nulls
   * 1033-1045 num_as_cat: every non-null bin is degenerate (lower = upper edge, or bin mean on an edge,
               or standard deviation 0)
   * 1053-1087 bars on the twin axis, heights weights / total weights:
               categorical           x = 0 .. n_x - nulls - 1, matplotlib's default width
               numerical, as cat     x = bin means,            matplotlib's default width
               numerical             x = (upper + lower) / 2,  width = (upper - lower) * (1 if n_bins_eff > 2 else 0.8)
   * 1118-1146 the null group: x_null = n_x - 1 (categorical, width 0.8), or for a numerical feature
               0 if n_x = 1, 2 * x_max if n_x = 2, x_max + (x_max - x_min) / n_x otherwise, with
               width = x_null - largest upper edge, replaced by (x_max - x_min) / n_x / 2 when <= 0.
               With n_x = 1 (the feature is entirely null / NaN) there is no upper edge: `x_null - None`
               raises TypeError (constructor PMTypeError).
   * 1157-1234 the series "mean y_obs", "mean y_pred" and - when a predict_function is given -
               "partial dependence": markers "o"; categorical: the non-null rows at x = 0, 1, ..;
               numerical: ALL rows of the table in table order at x = bin mean (the null row comes first
               and has x = NaN, so that it is not visible); the null row again as a diamond at x_null.
               A null partial dependence (pooled category) and the mean of a zero-weight group are NaN.
   * 1236-1284 tick labels (categorical), x label, title, legend.

   NOT modelled: colours, z-order, the plotly backend, add_marginal_subplot, feature_name = None
   (df.columns[0] is then "y_obs_mean": constructor PMNoFeature), infinite bin edges (PMUnmodelled). *)
From Coq Require Import ZArith QArith Qabs Qreduction List Bool Arith String Ascii.
Import ListNotations.
Open Scope Q_scope.
From MD Require Import lib.QLists model.Functionals model.Binning model.PartialDep model.Bias model.Marginal.

(* ------------------------------------------------------------------ *)
(* the frame: rows of compute_marginal with their partial_dependence cell *)

Definition prow := (mrow * option Q)%type.      (* snd = None: no column / null *)

Fixpoint attach (t : list mrow) (col : list (option Q)) : list prow :=
  match t with
  | [] => []
  | r :: t' => match col with
               | c :: col' => (r, c) :: attach t' col'
               | [] => (r, None) :: attach t' []
               end
  end.

Definition frame (t : list mrow) (pdcol : option (list (option Q))) : list prow :=
  attach t (match pdcol with Some c => c | None => [] end).

Definition is_null_row (r : mrow) : bool := match o_cell r with FCNull => true | _ => false end.
Definition is_null_prow (p : prow) : bool := is_null_row (fst p).

(* line 1019 *)
Definition has_null_rows (fr : list prow) : bool := existsb is_null_prow fr.
(* line 1030 *)
Definition no_nulls (fr : list prow) : list prow := filter (fun p => negb (is_null_prow p)) fr.
(* line 1119; compute_marginal has at most one null row (MarginalProps.marg_null_group) *)
Definition null_row (fr : list prow) : option prow := find is_null_prow fr.
(* line 1029: sort(feature_name, nulls_last=True) of a frame that is sorted with nulls first *)
Definition nulls_last (fr : list prow) : list prow := no_nulls fr ++ filter is_null_prow fr.

(* line 1024: df[feature_name].n_unique() *)
Definition cell_eqb (a b : fcell) : bool :=
  match a, b with
  | FCNone, FCNone | FCNull, FCNull | FCPooled, FCPooled => true
  | FCNum x, FCNum y => Qeq_bool x y
  | FCCat c, FCCat d => Nat.eqb c d
  | _, _ => false
  end.
Fixpoint n_unique (cells : list fcell) : nat :=
  match cells with
  | [] => 0%nat
  | c :: l => if existsb (cell_eqb c) l then n_unique l else S (n_unique l)
  end.
Definition n_x (fr : list prow) : nat := n_unique (map (fun p => o_cell (fst p)) fr).

(* ------------------------------------------------------------------ *)
(* the three plotted columns, lines 1157-1164 *)

Inductive item := IObs | IPred | IPD.

Definition plot_items (with_pd : bool) : list item := if with_pd then [IObs; IPred; IPD] else [IObs; IPred].

Definition item_label (i : item) : string :=
  match i with
  | IObs => "mean y_obs"
  | IPred => "mean y_pred"
  | IPD => "partial dependence"
  end.

(* df[m] of one row; None = NaN / null *)
Definition value_of (i : item) (p : prow) : option Q :=
  match i with
  | IObs => if g_defined (m_obs (o_stat (fst p))) then Some (y_obs_mean (o_stat (fst p))) else None
  | IPred => if g_defined (m_pred (o_stat (fst p))) then Some (y_pred_mean (o_stat (fst p))) else None
  | IPD => snd p
  end.

Inductive lstyle := LSNone | LSSolid | LSDashed.
Inductive show_lines := SLNumerical | SLAlways | SLInvalid.

(* line 1168 *)
Definition item_style (i : item) : lstyle := match i with IPD => LSDashed | _ => LSSolid end.
(* lines 1182 / 1199 *)
Definition main_style (is_cat : bool) (sl : show_lines) (i : item) : lstyle :=
  if is_cat then (match sl with SLAlways => item_style i | _ => LSNone end) else item_style i.

(* ------------------------------------------------------------------ *)
(* geometry *)

Definition cell_x (r : mrow) : option Q := match o_cell r with FCNum m => Some m | _ => None end.

Definition positions (k : nat) : list Q := map Qnat (seq 0 k).       (* np.arange(k) *)

Definition fin_edges (r : mrow) : option (Q * Q * Q) :=               (* (lower, std^2, upper) *)
  match o_edges r with
  | Some (Fin lo, v, Fin hi) => Some (lo, v, hi)
  | _ => None
  end.

Fixpoint all_some {A} (l : list (option A)) : option (list A) :=
  match l with
  | [] => Some []
  | Some a :: l' => match all_some l' with Some r => Some (a :: r) | None => None end
  | None :: _ => None
  end.

(* lines 1036-1045, one bin *)
Definition degenerate (m : Q) (e : Q * Q * Q) : bool :=
  let '(lo, v, hi) := e in
  Qeq_bool lo hi || Qeq_bool lo m || Qeq_bool hi m || Qeq_bool v 0.
Definition num_as_cat (xs : list Q) (es : list (Q * Q * Q)) : bool :=
  forallb (fun me => degenerate (fst me) (snd me)) (combine xs es).

Definition total_weight (fr : list prow) : Q :=                       (* df["weights"].sum() *)
  Qred (qsum (map (fun p => m_weights (o_stat (fst p))) fr)).
Definition row_weight (p : prow) : Q := m_weights (o_stat (fst p)).

(* weights / total; None: the total is 0 and the float is NaN or infinite *)
Definition height (tot w : Q) : option Q := if Qeq_bool tot 0 then None else Some (Qred (w / tot)).

Record bar := mkbar {
  b_x : Q;
  b_width : option Q;        (* None: not passed, matplotlib's default (0.8) *)
  b_height : option Q }.

Definition default_bars (tot : Q) (xs : list Q) (rows : list prow) : list bar :=
  map (fun xp => mkbar (fst xp) None (height tot (row_weight (snd xp)))) (combine xs rows).

Definition eight_tenths : Q := 4 # 5.

(* lines 1077-1084 *)
Definition hist_bars (tot : Q) (n_bins_eff : nat) (es : list (Q * Q * Q)) (rows : list prow) : list bar :=
  map (fun ep => let '(lo, _, hi) := fst ep in
                 mkbar (Qred ((1 # 2) * (hi + lo)))
                       (Some (Qred ((hi - lo) * (if (2 <? n_bins_eff)%nat then 1 else eight_tenths))))
                       (height tot (row_weight (snd ep))))
      (combine es rows).

Definition qlist_min (l : list Q) : option Q := match l with [] => None | x :: l' => Some (minQ x l') end.
Definition qlist_max (l : list Q) : option Q := match l with [] => None | x :: l' => Some (maxQ x l') end.

(* lines 1126-1137: (x_null, width) for a numerical feature; None: TypeError of line 1135 *)
Definition null_geometry (nx : nat) (xs : list Q) (uppers : list Q) : option (Q * Q) :=
  match qlist_min xs, qlist_max xs, qlist_max uppers with
  | Some xmin, Some xmax, Some umax =>
      let xnull := match nx with
                   | 1%nat => 0
                   | 2%nat => Qred (2 * xmax)
                   | _ => Qred (xmax + (xmax - xmin) / Qnat nx)
                   end in
      let w := Qred (xnull - umax) in
      Some (xnull, if Qle_bool w 0 then Qred ((xmax - xmin) / Qnat nx / 2) else w)
  | _, _, _ => None
  end.

(* ------------------------------------------------------------------ *)
(* what is on the axes *)

Record series := mkser {
  s_item : item;
  s_label : string;                            (* legend label of the "o" line *)
  s_style : lstyle;
  s_main : list (option Q * option Q);         (* (x, y) of the "o" line; None = NaN *)
  s_null : option (Q * option Q) }.            (* the diamond, no legend label *)

Record pmplot := mkpm {
  pm_series : list series;
  pm_bars : list bar;                          (* first bar container of the twin axis *)
  pm_null_bar : option bar;                    (* second container *)
  pm_hist : bool;                              (* the histogram branch of lines 1077-1084 *)
  pm_xticks : option (list string);            (* categorical: tick labels at 0 .. n_x - 1 *)
  pm_xlabel : string;
  pm_title : string;
  pm_legend : list string }.

Inductive pmres :=
  | PMOk (p : pmplot)
  | PMValueError              (* lines 990-1003 *)
  | PMMarg (r : mres)         (* compute_marginal did not return a table: the exception propagates *)
  | PMModelColumn             (* y_pred of shape (n_obs, 1): df.columns[0] = "model" *)
  | PMNoFeature               (* feature_name None: df.columns[0] = "y_obs_mean"; not modelled *)
  | PMTypeError               (* numerical feature, only the null row: line 1135 *)
  | PMShapeError              (* categorical, n_x <> number of rows: matplotlib ValueError; never
                                 (PlotMarginalProps.pm_no_shape_error) *)
  | PMUnmodelled.             (* a non-null numerical row without finite bin edges *)

Definition tick_text (p : prow) : string :=
  match o_label (fst p) with Some s => s | None => "Null" end.          (* line 1241 *)

Definition legend_of (with_pd has_nulls : bool) : list string :=
  map item_label (plot_items with_pd) ++ (if has_nulls then ["Null values"%string] else []).

Definition title_of (mname : string) : string :=                          (* lines 1260-1262 *)
  match mname with
  | EmptyString => "Marginal Plot"
  | _ => "Marginal Plot " ++ mname
  end.

(* categorical branch *)
Definition draw_cat (fr : list prow) (with_pd : bool) (sl : show_lines) (fname mname : string) : pmres :=
  let nx := n_x fr in
  if negb (Nat.eqb nx (List.length fr)) then PMShapeError else
  let hn := has_null_rows fr in
  let nn := no_nulls fr in
  let k := (nx - (if hn then 1 else 0))%nat in
  let tot := total_weight fr in
  let xs := positions k in
  let xnull := Qnat (nx - 1) in
  PMOk (mkpm
    (map (fun i => mkser i (item_label i) (main_style true sl i)
                     (map (fun xp => (Some (fst xp), value_of i (snd xp))) (combine xs nn))
                     (option_map (fun p => (xnull, value_of i p)) (null_row fr)))
         (plot_items with_pd))
    (default_bars tot xs nn)
    (option_map (fun p => mkbar xnull (Some eight_tenths) (height tot (row_weight p))) (null_row fr))
    false
    (Some (map tick_text (if hn then nulls_last fr else fr)))
    fname (title_of mname) (legend_of with_pd hn)).

(* numerical branch.  A non-null row without finite edges or without a bin mean is outside the model
   (never for a table of compute_marginal on finite data: Marginal.num_row) *)
Definition draw_num (fr : list prow) (with_pd : bool) (sl : show_lines) (fname mname : string) : pmres :=
  let hn := has_null_rows fr in
  let nn := no_nulls fr in
  match all_some (map (fun p => fin_edges (fst p)) nn), all_some (map (fun p => cell_x (fst p)) nn) with
  | Some es, Some xs =>
      let nx := n_x fr in
      let tot := total_weight fr in
      let nac := num_as_cat xs es in
      let n_bins_eff := List.length nn in
      let bars := if nac then default_bars tot xs nn else hist_bars tot n_bins_eff es nn in
      let mk := fun (g : option (Q * Q)) =>
        PMOk (mkpm
          (map (fun i => mkser i (item_label i) (main_style false sl i)
                           (map (fun p => (cell_x (fst p), value_of i p)) fr)
                           (match g, null_row fr with
                            | Some (xnull, _), Some p => Some (xnull, value_of i p)
                            | _, _ => None
                            end))
               (plot_items with_pd))
          bars
          (match g, null_row fr with
           | Some (xnull, w), Some p => Some (mkbar xnull (Some w) (height tot (row_weight p)))
           | _, _ => None
           end)
          (negb nac) None ("binned " ++ fname) (title_of mname) (legend_of with_pd hn)) in
      if hn then
        match null_geometry nx xs (map (fun e => snd e) es) with
        | Some g => mk (Some g)
        | None => PMTypeError
        end
      else mk None
  | _, _ => PMUnmodelled
  end.

(* `with_pd`: predict_function is not None (line 1158) *)
Definition draw (is_cat with_pd : bool) (t : list mrow) (pdcol : option (list (option Q))) (sl : show_lines)
    (fname mname : string) : pmres :=
  let fr := frame t pdcol in
  if is_cat then draw_cat fr with_pd sl fname mname else draw_num fr with_pd sl fname mname.

(* ------------------------------------------------------------------ *)
(* the whole call.  `two_d`: y_pred has two dimensions; `fname`: the name compute_marginal gives the feature
   column; `mname`: array_name(y_pred, default "") *)
Section WithPredictor.
Variable f : xrow -> Q.

Definition plot_marginal (ys : list Q) (models : list (list Q)) (two_d : bool) (ft : mfeat) (n_bins : nat)
    (weights : option (list Q)) (pd : option pdin) (sl : show_lines) (fname mname : string) : pmres :=
  match sl with
  | SLInvalid => PMValueError                                                       (* lines 990-994 *)
  | _ =>
      if two_d && (2 <=? List.length models)%nat then PMValueError                  (* lines 997-1003 *)
      else
        match compute_marginal f ByBin ys models ft n_bins weights pd with          (* lines 1005-1016 *)
        | MOk [(t, pdcol)] _ =>
            if two_d then PMModelColumn                                             (* line 1017 *)
            else if negb (has_feature ft) then PMNoFeature
            else draw (is_str ft) (match pd with Some _ => true | None => false end) t pdcol sl fname mname
        | r => PMMarg r
        end
  end.

End WithPredictor.
