(* Executable model of class `IsotonicRegression`
   (src/model_diagnostics/_utils/isotonic.py, lines 426-567): `fit` and `predict`.
   Definitions only; proofs are in proofs/IsoFitProps.v.

   Inputs are exact rationals (every float is one).  `X` is one-dimensional
   (the reshaping of an (n,1) array, lines 502-506, is not modelled; two or more
   columns raise ValueError before anything else happens).

   What is modelled, line by line:
     507-509  polars DataFrame of the columns: a length mismatch of X / y /
              sample_weight raises polars.exceptions.ShapeError        -> [FShape]
     512      df.sort(by=[_X, _target_y], descending=[False, increasing])
              -> [isort (row_le inc)], a STABLE insertion sort on (X asc, then
              y desc for an increasing fit / y asc for a decreasing fit).
              polars' sort is not guaranteed stable (maintain_order=False); rows it
              may permute have equal X and equal y, and differ in their weight only.
     516-522  isotonic_regression on the sorted y (and weights) -> model/Isotonic.v
     524-537  the index list of the thresholds                  -> [thr_idx]
     545-546  X_thresholds_ = X_sorted[idx] (as float64), y_thresholds_ = y_iso[idx]
     545-551  interp1d(kind="linear", bounds_error=False,
                       fill_value=(y_thr[0], y_thr[-1]))         -> [interp_np] / [interp_generic]
     567      predict = self.f_(X)                                -> [predict]

   Since /repo fix 7007a15 line 545 reads
       self.X_thresholds_ = X_sorted[idx].to_numpy().astype(np.float64)
   so interp1d always receives float64 thresholds and evaluates with numpy.interp:
   [predict] is the model of `predict` for EVERY dtype of X.  [interp_generic] /
   [predict_generic] are kept only as the documented record of the behaviour BEFORE
   that fix (NaN predictions for float32 / int32 / ... X, see
   the examples predict_generic_nan_dup and predict_generic_nan_single of IsoFitProps); the text
   below describes both paths.

   scipy's interp1d (1.x) sorts its x by a stable argsort (the thresholds are
   already in non-decreasing order, see IsoFitProps.fit_thresholds, so this is the
   identity) and then evaluates, for kind="linear", along one of two code paths:
     * x.dtype in (float64, int64) and y.dtype float64: numpy.interp
       (`_call_linear_np`), which tolerates repeated x values and a single point;
     * any other dtype of X (float32, int32, uint8, polars Float32, ...):
       `_call_linear`, whose slope is 0/0 = NaN when the two bracketing
       thresholds coincide.
   In both paths a query below x[0] / above x[-1] is then overwritten by the fill
   value.  y_thresholds_ is always float64 (pava/gpava cast to float). *)
From Coq Require Import QArith Qreduction List Bool ZArith.
Import ListNotations.
Open Scope Q_scope.
From MD Require Import lib.QLists model.Functionals model.Isotonic.

(* ------------------------------------------------------------------ *)
(* rows and the sort of line 512                                       *)
(* ------------------------------------------------------------------ *)

Record row := mkrow { rX : Q; rY : Q; rW : Q }.

Definition Qltb (a b : Q) : bool := negb (Qle_bool b a).

(* [row_le inc a b]: row a may stand before row b in the sorted frame:
   X ascending; among equal X, y descending if increasing else ascending *)
Definition row_le (inc : bool) (a b : row) : bool :=
  Qltb (rX a) (rX b) ||
  (Qeq_bool (rX a) (rX b) &&
   (if inc then Qle_bool (rY b) (rY a) else Qle_bool (rY a) (rY b))).

(* stable insertion sort, parametrised by a boolean comparison *)
Fixpoint insert {A : Type} (le : A -> A -> bool) (x : A) (l : list A) : list A :=
  match l with
  | [] => [x]
  | h :: t => if le x h then x :: h :: t else h :: insert le x t
  end.
Definition isort {A : Type} (le : A -> A -> bool) (l : list A) : list A :=
  fold_right (insert le) [] l.

Definition mk_rows (X y w : list Q) : list row :=
  map (fun p => mkrow (fst (fst p)) (snd (fst p)) (snd p)) (combine (combine X y) w).

(* the frame after line 512; without sample_weight the weight column does not
   exist (a column of ones stands in for it and is never read) *)
Definition sorted_rows (X y : list Q) (w : option (list Q)) (inc : bool) : list row :=
  isort (row_le inc)
        (mk_rows X y (match w with Some w' => w' | None => map (fun _ => 1) y end)).

(* ------------------------------------------------------------------ *)
(* lines 524-537: the indices of the thresholds                        *)
(* ------------------------------------------------------------------ *)

(* [idx_from Xs allsame prev rs]: `prev` = r[i-1], `rs` = r[i:].
     - an interior r[i] (i in range(1, len(r)-1), lines 526-530) contributes
       r[i]-1 if the previous block has more than one element, and r[i];
     - the last entry r[-1] (prev = r[-2]) contributes r[-1]-1 under the condition
       of lines 532-536:
         X_sorted[r[-1]-1] != X_sorted[r[-2]] and
         (y_iso[0] == y_iso[-1] or r[-1]-1-r[-2] >= 1).
   Truncated subtraction on nat agrees with the integer comparison `... >= 1`. *)
Fixpoint idx_from (Xs : list Q) (allsame : bool) (prev : nat) (rs : list nat) : list nat :=
  match rs with
  | [] => []
  | ri :: rs' =>
      match rs' with
      | [] =>
          if negb (Qeq_bool (nth (ri - 1) Xs 0) (nth prev Xs 0))
             && (allsame || Nat.leb 1 (ri - 1 - prev))
          then [(ri - 1)%nat] else []
      | _ :: _ =>
          (if Nat.leb 1 (ri - 1 - prev) then [(ri - 1)%nat] else [])
            ++ ri :: idx_from Xs allsame ri rs'
      end
  end.

(* idx_list of line 525-537; r[-2] on a block vector with fewer than two entries
   raises IndexError (never happens on the output of isotonic_regression) *)
Definition thr_idx (Xs yiso : list Q) (r : list nat) : option (list nat) :=
  match r with
  | r0 :: ((_ :: _) as rs) =>
      let allsame := Qeq_bool (nth 0 yiso 0) (nth (length yiso - 1) yiso 0) in
      Some (r0 :: idx_from Xs allsame r0 rs)
  | _ => None
  end.

(* ------------------------------------------------------------------ *)
(* fit                                                                  *)
(* ------------------------------------------------------------------ *)

Inductive ferr :=
  | FShape                 (* polars.exceptions.ShapeError, lines 507-509 *)
  | FIso (e : ierr).       (* whatever isotonic_regression raises *)
Inductive fres (A : Type) := FOk (a : A) | FErr (e : ferr).
Arguments FOk {A} a.
Arguments FErr {A} e.

Record fitted := mkfitted { X_thresholds : list Q; y_thresholds : list Q }.

Definition pick (l : list Q) (idx : list nat) : list Q := map (fun i => nth i l 0) idx.

Definition fit (X y : list Q) (w : option (list Q)) (inc : bool) (f : ifun) (lvl : Q)
  : fres fitted :=
  if negb (Nat.eqb (length X) (length y)) then FErr FShape                     (* 507 *)
  else if (match w with Some w' => negb (Nat.eqb (length w') (length y)) | None => false end)
  then FErr FShape                                                             (* 509 *)
  else
    let rows := sorted_rows X y w inc in                                       (* 512 *)
    let Xs := map rX rows in                                                   (* 524 *)
    let ys := map rY rows in                                                   (* 513 *)
    let ws := match w with Some _ => Some (map rW rows) | None => None end in  (* 514 *)
    match isotonic_regression ys ws inc f lvl with                             (* 516-522 *)
    | IErr e => FErr (FIso e)
    | IOk (yiso, r) =>
        match thr_idx Xs yiso r with                                           (* 525-537 *)
        | None => FErr (FIso EIndex)
        | Some idx => FOk (mkfitted (pick Xs idx) (pick yiso idx))             (* 542 *)
        end
    end.

(* ------------------------------------------------------------------ *)
(* interp1d, kind="linear", bounds_error=False, fill_value=(y[0],y[-1]) *)
(* ------------------------------------------------------------------ *)

(* numpy.interp on a query q >= x0: j = the last index with xp[j] <= q (binary
   search; on non-decreasing xp the scan below finds the same j);
     j = last index        -> fp[j]
     xp[j] == q            -> fp[j]     ("avoid potential non-finite interpolation")
     otherwise             -> slope * (q - xp[j]) + fp[j],
                              slope = (fp[j+1]-fp[j]) / (xp[j+1]-xp[j]),
   where xp[j] < q < xp[j+1], so the denominator is not zero. *)
Fixpoint interp_from (x0 y0 : Q) (rest : list (Q * Q)) (q : Q) : Q :=
  match rest with
  | [] => y0
  | (x1, y1) :: rest' =>
      if Qle_bool x1 q then interp_from x1 y1 rest' q
      else if Qeq_bool x0 q then y0
      else Qred ((y1 - y0) / (x1 - x0) * (q - x0) + y0)
  end.

(* the float64 / int64 path: np.interp, then the out-of-bounds fill of
   interp1d._evaluate.  None: no threshold at all (interp1d raises ValueError). *)
Definition interp_np (ps : list (Q * Q)) (q : Q) : option Q :=
  match ps with
  | [] => None
  | (x0, y0) :: rest =>
      let last_p := last rest (x0, y0) in
      Some (if Qltb q x0 then y0
            else if Qltb (fst last_p) q then snd last_p
            else interp_from x0 y0 rest q)
  end.

(* BEFORE /repo fix 7007a15 only - the path of every other dtype of X: interp1d._call_linear
     k  = searchsorted(x, q)            (number of x_i < q)
     k  = clip(k, 1, len(x)-1)          (min(max(k,1), len-1); 0 when len = 1)
     lo = k-1 (index -1 = last when k = 0), hi = k
     ((q-x_lo)/(x_hi-x_lo))*y_hi + ((x_hi-q)/(x_hi-x_lo))*y_lo
   [Some None]: the result is not finite (0/0 or c/0), i.e. x_hi = x_lo. *)
Definition interp_generic (ps : list (Q * Q)) (q : Q) : option (option Q) :=
  match ps with
  | [] => None
  | (x0, y0) :: rest =>
      let last_p := last rest (x0, y0) in
      if Qltb q x0 then Some (Some y0)
      else if Qltb (fst last_p) q then Some (Some (snd last_p))
      else
        let n := length ps in
        let k := length (filter (fun p => Qltb (fst p) q) ps) in
        let k' := Nat.min (Nat.max k 1) (n - 1) in
        let lo := match k' with O => (n - 1)%nat | S j => j end in
        let plo := nth lo ps (0, 0) in
        let phi := nth k' ps (0, 0) in
        if Qeq_bool (fst phi) (fst plo) then Some None
        else Some (Some (Qred (((q - fst plo) / (fst phi - fst plo)) * snd phi
                               + ((fst phi - q) / (fst phi - fst plo)) * snd plo)))
  end.

Definition thr_points (ft : fitted) : list (Q * Q) :=
  combine (X_thresholds ft) (y_thresholds ft).

(* predict(q), for every dtype of X (thresholds are float64 since fix 7007a15;
   before it: only when X had dtype float64 / int64) *)
Definition predict (ft : fitted) (q : Q) : option Q := interp_np (thr_points ft) q.

(* record of the old behaviour (before fix 7007a15): predict(q) when X had any
   other numeric dtype *)
Definition predict_generic (ft : fitted) (q : Q) : option (option Q) :=
  interp_generic (thr_points ft) q.
