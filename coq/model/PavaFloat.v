(* BIT-EXACT binary64 twin of the mean PAVA `pava` (src/model_diagnostics/_utils/
   isotonic.py, lines 71-136) and of the mean path of `isotonic_regression`
   (lines 370-391, 420-423), written with Coq's primitive floats (IEEE-754
   binary64, round to nearest even: the arithmetic of numpy's float64 scalars).
   Definitions only.

   Every arithmetic leaf is written in the operand order of the Python source
   (numpy evaluates `a * b + c * d` as two roundings of the products followed by
   one rounding of the sum, there is no fused multiply-add; `wb += v` is
   `wb = wb + v`; `sb += w[i] * x[i]` is `sb = sb + (w[i] * x[i])`).
   Comparisons `a >= b` are IEEE comparisons: false as soon as one side is NaN.

   Data layout.  The Python keeps, for the block with index k <= b, its value in
   x[k], its weight in w[k] and its extent in r[k], r[k+1]; the entries x[i+1..],
   w[i+1..] are still the original data.  Here the blocks 0..b are a stack (top =
   block b = (xb_prev, wb_prev) of lines 123-124) and the untouched data is the
   list `rest`. *)
From Coq Require Import PrimFloat Uint63 ZArith List Bool.
Import ListNotations.

Record fblk := mkfb { fv : float; fw : float; fn : nat }.

(* `a >= b` on float64 *)
Definition fge (a b : float) : bool := PrimFloat.leb b a.

Definition felt := (float * float)%type.          (* (y[i], w[i]) *)

(* lines 112-116:  while i < n - 1 and xb >= x[i + 1]:
                       i += 1; sb += w[i] * x[i]; wb += w[i]; xb = sb / wb      *)
Fixpoint fup (sb wb xb : float) (n : nat) (rest : list felt)
  : float * float * float * nat * list felt :=
  match rest with
  | (y1, w1) :: rest' =>
      if fge xb y1 then
        let sb' := PrimFloat.add sb (PrimFloat.mul w1 y1) in       (* 114 *)
        let wb' := PrimFloat.add wb w1 in                           (* 115 *)
        fup sb' wb' (PrimFloat.div sb' wb') (S n) rest'             (* 116 *)
      else (sb, wb, xb, n, rest)
  | [] => (sb, wb, xb, n, rest)
  end.

(* lines 117-121:  while b >= 1 and x[b - 1] >= xb:
                       b -= 1; sb += w[b] * x[b]; wb += w[b]; xb = sb / wb      *)
Fixpoint fdown (sb wb xb : float) (n : nat) (stk : list fblk)
  : float * float * float * nat * list fblk :=
  match stk with
  | p :: stk' =>
      if fge (fv p) xb then
        let sb' := PrimFloat.add sb (PrimFloat.mul (fw p) (fv p)) in   (* 119 *)
        let wb' := PrimFloat.add wb (fw p) in                           (* 120 *)
        fdown sb' wb' (PrimFloat.div sb' wb') (n + fn p) stk'           (* 121 *)
      else (sb, wb, xb, n, stk)
  | [] => (sb, wb, xb, n, stk)
  end.

(* one pass of the outer loop, lines 103-126 (and lines 95-99 for element 0) *)
Definition fstep (stk : list fblk) (e : felt) (rest : list felt) : list fblk * list felt :=
  let '(y1, w1) := e in
  match stk with
  | [] => ([mkfb y1 w1 1], rest)                          (* 95-99: xb_prev = y[0], wb_prev = w[0] *)
  | p :: stk' =>
      if fge (fv p) y1 then                                 (* 107: xb_prev >= xb *)
        let sb := PrimFloat.add (PrimFloat.mul (fw p) (fv p)) (PrimFloat.mul w1 y1) in   (* 109 *)
        let wb := PrimFloat.add w1 (fw p) in                                              (* 110 *)
        let xb := PrimFloat.div sb wb in                                                  (* 111 *)
        let '(sb1, wb1, xb1, n1, rest1) := fup sb wb xb (S (fn p)) rest in
        let '(sb2, wb2, xb2, n2, stk2) := fdown sb1 wb1 xb1 n1 stk' in
        (mkfb xb2 wb2 n2 :: stk2, rest1)                    (* 123-125 *)
      else (mkfb y1 w1 1 :: stk, rest)                      (* 104-105, 123-125 *)
  end.

(* the outer `while i < n` (line 102).  Every pass consumes at least one element
   of `rest`, so fuel = length of the data is enough
   (proofs/PavaFloatProps.v, floop_fuel). *)
Fixpoint floop (fuel : nat) (stk : list fblk) (rest : list felt) : option (list fblk) :=
  match rest with
  | [] => Some stk
  | e :: rest' =>
      match fuel with
      | O => None
      | S fuel' => let '(stk1, rest1) := fstep stk e rest' in floop fuel' stk1 rest1
      end
  end.

(* lines 128-134: every block value is written over the extent of its block *)
Definition fexpand (stk : list fblk) : list float :=
  flat_map (fun b => repeat (fv b) (fn b)) (rev stk).
Fixpoint fstarts (from : nat) (bs : list fblk) : list nat :=
  match bs with [] => [from] | b :: bs' => from :: fstarts (from + fn b) bs' end.
(* r[: b + 2] *)
Definition frvec (stk : list fblk) : list nat := fstarts 0 (rev stk).

Definition pava_blocks_f (l : list felt) : option (list fblk) := floop (length l) [] l.

(* `pava(y, w)` for arrays of the same length n >= 1 (for n = 0 the Python raises
   IndexError at line 96 and for different lengths ValueError at line 75: both are
   handled in `isotonic_mean_f`; here the data is `combine y w`).  The `None`
   branch (fuel exhausted) is dead code: PavaFloatProps.pava_f_fuel. *)
Definition pava_f (y w : list float) : list float * list nat :=
  match pava_blocks_f (combine y w) with
  | Some stk => (fexpand stk, frvec stk)
  | None => ([], [])
  end.

(* --- the public path: isotonic_regression(y, weights, increasing=, functional="mean") --- *)
Inductive ferr := FEValue | FEIndex.
Inductive fres (A : Type) := FOk (a : A) | FErr (e : ferr).
Arguments FOk {A} a.
Arguments FErr {A} e.

Definition fone : float := PrimFloat.one.
Definition fzero : float := PrimFloat.zero.

(* line 382 `np.any(weights <= 0)` (IEEE: a NaN weight is not `<= 0`) *)
Definition any_nonpos (w : list float) : bool := existsb (fun v => PrimFloat.leb v fzero) w.

(* line 422 `r[-1] - r[::-1]` *)
Definition mirror_r (r : list nat) : list nat := map (fun k => (last r 0 - k)%nat) (rev r).

Definition isotonic_mean_f (y : list float) (weights : option (list float)) (increasing : bool)
  : fres (list float * list nat) :=
  let wres :=
    match weights with
    | None => FOk (map (fun _ => fone) y)                                   (* 372 np.ones_like(y) *)
    | Some w =>
        if negb (Nat.eqb (length y) (length w)) then FErr FEValue          (* 379-381 *)
        else if any_nonpos w then FErr FEValue                             (* 382-384 *)
        else FOk w
    end in
  match wres with
  | FErr e => FErr e
  | FOk w =>
      match y with
      | [] => FErr FEIndex                                                  (* pava line 96: r[1] = 1 *)
      | _ =>
        let y' := if increasing then y else rev y in                        (* 386-387 *)
        let w' := if increasing then w else rev w in                        (* 388 *)
        let '(x, r) := pava_f y' w' in                                      (* 391 *)
        if increasing then FOk (x, r)
        else FOk (rev x, mirror_r r)                                        (* 420-422 *)
      end
  end.

(* bit equality of two float64: +0 and -0 differ, NaN equals NaN (Coq has a single NaN) *)
Definition fbit_eqb (a b : float) : bool := PrimFloat.Leibniz.eqb a b.
