(* Executable model of
     src/model_diagnostics/_utils/partial_dependence.py  compute_partial_dependence (l.17-99)
   and of the helpers it uses from src/model_diagnostics/_utils/array.py
     length_of_first_dimension (l.15-29), safe_index_rows (l.325-354),
     safe_assign_column (l.209-322).
   Definitions only.

   Abstraction.  A feature matrix is a list of rows, a row is a list of rationals, the
   predictor is ANY row-wise function  f : list Q -> Q  (pred_fun applied to a matrix is
   `map f`: one prediction per row, depending on that row only).  Containers (ndarray,
   list of rows, polars frame) do not exist here; the harness applies the abstraction
   "container |-> list of rows".  The only container attribute that changes a number is the
   storage type of the feature column that is overwritten: assignment into an int64
   ndarray column (array.py l.321 `x[:, column_index] = values`) and into an integer
   polars column (l.317-319 `pl.Series(values, dtype=dtype)`) CASTS the grid value to an
   integer (truncation toward zero).  That is what the code does, so it is in the model
   (`coltype`, `cast`); the property text asks for the grid value itself, see
   proofs/PartialDepProps.v (`pd_stacked_eq_def` carries the guard, `pd_int_column_refuted`
   the witness).

   numpy's Generator.choice is an oracle: the index vector `idx` drawn at l.61-62 is an
   input of the model. *)
From Coq Require Import ZArith QArith Qreduction List Bool.
Import ListNotations.
Open Scope Q_scope.
From MD Require Import lib.QLists.

Definition row := list Q.
Definition matrix := list row.

(* storage type of the overwritten column in the caller's container *)
Inductive coltype := CFloat | CInt.

(* C cast double -> int64 (values in range): truncation toward zero *)
Definition qtrunc (q : Q) : Q := inject_Z (Z.quot (Qnum q) (Zpos (Qden q))).
Definition cast (ct : coltype) (v : Q) : Q :=
  match ct with CFloat => v | CInt => qtrunc v end.

(* row[column_index] = v   (array.py l.256 / one row of l.321 / l.319) *)
Fixpoint set_col (j : nat) (v : Q) (r : row) : row :=
  match r, j with
  | [], _ => []                       (* IndexError in the code: excluded by col_in_range below *)
  | _ :: r', O => v :: r'
  | x :: r', S j' => x :: set_col j' v r'
  end.

(* safe_index_rows (array.py l.325-354): x[indices] / [x[idx] for idx in indices] *)
Definition index_rows (X : matrix) (idx : list nat) : matrix := map (fun i => nth i X []) idx.
Definition index_q (v : list Q) (idx : list nat) : list Q := map (fun i => nth i v 0) idx.
Definition idx_in_range (len : nat) (idx : list nat) : bool := forallb (fun i => i <? len)%nat idx.

(* np.tile(np.arange(n), m)   (l.77) *)
Definition tile_idx (n m : nat) : list nat := concat (repeat (seq 0 n) m).
(* np.repeat(np.arange(m), n) (l.78) *)
Definition repeat_idx (m n : nat) : list nat := flat_map (fun g => repeat g n) (seq 0 m).

(* l.77-85: the matrix handed to pred_fun, for the (sub)sampled rows Xs *)
Definition stacked_rows (ct : coltype) (Xs : matrix) (j : nat) (grid : list Q) : matrix :=
  let n := length Xs in
  let m := length grid in
  let X_stacked := index_rows Xs (tile_idx n m) in                    (* l.77 *)
  let grid_stacked := index_q grid (repeat_idx m n) in                (* l.78 *)
  map (fun rv => set_col j (cast ct (snd rv)) (fst rv))               (* l.83-85 *)
      (combine X_stacked grid_stacked).

(* y_pred.reshape(m, c)  (l.94), row-major *)
Fixpoint reshape (m c : nat) (l : list Q) : list (list Q) :=
  match m with
  | O => []
  | S m' => firstn c l :: reshape m' c (skipn c l)
  end.

Fixpoint dot (a b : list Q) : Q :=
  match a, b with
  | x :: a', y :: b' => x * y + dot a' b'
  | _, _ => 0
  end.

(* np.average(block, weights=w) for one row of the reshaped predictions (l.93-97):
   mean if weights is None, else sum(w*a)/sum(w) *)
Definition average (vals : list Q) (w : option (list Q)) : Q :=
  match w with
  | None => Qred (qsum vals / inject_Z (Z.of_nat (length vals)))
  | Some ws => Qred (dot ws vals / qsum ws)
  end.

Inductive pd_error :=
  | EIndex          (* IndexError: feature_index out of range; weights shorter than an index *)
  | EValue          (* ValueError: np.average, length of weights not compatible *)
  | EZeroDivision   (* ZeroDivisionError: np.average, weights sum to zero *)
  | EEmptyGrid      (* n_grid = 0: ZeroDivisionError at l.94 (ndarray, polars) or IndexError at
                       array.py l.231 (list): container dependent, some exception *)
  | EEmptyX         (* no rows: nan with a RuntimeWarning (ndarray) or IndexError (list):
                       container dependent, not compared *)
  | EOracle.        (* the index vector does not satisfy Generator.choice's contract
                       (length n_max, entries < n): unreachable with numpy *)

Inductive pd_result := PDOk (v : list Q) | PDErr (e : pd_error).

(* l.60: `n_max is not None and n > n_max` *)
Definition subsampling (n0 : nat) (n_max : option nat) : option nat :=
  match n_max with
  | Some k => if (k <? n0)%nat then Some k else None
  | None => None
  end.

(* l.60-74: the rows and weights that are used; the copies of the else-branches are the
   identity here (no aliasing in a functional model; purity is a harness observation) *)
Definition sample_rows (X : matrix) (n_max : option nat) (idx : list nat) : matrix :=
  match subsampling (length X) n_max with
  | Some _ => index_rows X idx                                        (* l.63 *)
  | None => X
  end.
Definition sample_weights (n0 : nat) (w : option (list Q)) (n_max : option nat) (idx : list nat)
  : option (list Q) :=
  match subsampling n0 n_max with
  | Some _ => option_map (fun ws => index_q ws idx) w                 (* l.64-65 *)
  | None => w
  end.

Definition col_in_range (j : nat) (Xs : matrix) : bool := forallb (fun r => j <? length r)%nat Xs.

(* the matrix pred_fun receives (l.87) *)
Definition pred_input (ct : coltype) (X : matrix) (j : nat) (grid : list Q)
           (n_max : option nat) (idx : list nat) : matrix :=
  stacked_rows ct (sample_rows X n_max idx) j grid.

Section WithPredictor.
Variable f : row -> Q.                 (* row-wise predictor *)

(* l.76-97 on the rows Xs and weights ws that are used *)
Definition pd_core (ct : coltype) (Xs : matrix) (j : nat) (grid : list Q) (ws : option (list Q))
  : pd_result :=
  let n := length Xs in
  let m := length grid in
  if (n =? 0)%nat then PDErr EEmptyX
  else if negb (col_in_range j Xs) then PDErr EIndex                  (* array.py l.256/321/317 *)
  else if (m =? 0)%nat then PDErr EEmptyGrid                          (* l.94  // n_grid *)
  else
    let y_pred := map f (stacked_rows ct Xs j grid) in                (* l.87 *)
    let blocks := reshape m (length y_pred / m) y_pred in             (* l.94 *)
    match ws with
    | None => PDOk (map (fun b => average b None) blocks)
    | Some w =>
        if negb (length w =? n)%nat then PDErr EValue
        else if Qeq_bool (qsum w) 0 then PDErr EZeroDivision
        else PDOk (map (fun b => average b (Some w)) blocks)          (* l.93-97 *)
    end.

(* compute_partial_dependence(pred_fun, X, feature_index=j, grid, weights, n_max, rng) with
   idx = default_rng(rng).choice(n, size=n_max, replace=False) *)
Definition compute_pd (ct : coltype) (X : matrix) (j : nat) (grid : list Q) (w : option (list Q))
           (n_max : option nat) (idx : list nat) : pd_result :=
  let n0 := length X in
  match subsampling n0 n_max with
  | Some k =>
      if negb ((length idx =? k)%nat && idx_in_range n0 idx) then PDErr EOracle
      else if negb (match w with Some ws => idx_in_range (length ws) idx | None => true end)
           then PDErr EIndex                                          (* l.65 on too short weights *)
      else pd_core ct (index_rows X idx) j grid (option_map (fun ws => index_q ws idx) w)
  | None => pd_core ct X j grid w
  end.

(* The DEFINITION of partial dependence the property text gives: for each grid value g the
   weighted average, over the rows, of the prediction for the row with column j
   overwritten by g (weights None = all ones).  Written with the library's wmean over
   (prediction, weight) pairs; nothing of the stacking above is used. *)
Definition pd_def (X : matrix) (j : nat) (grid : list Q) (w : option (list Q)) : list Q :=
  let ws := match w with Some ws => ws | None => repeat 1 (length X) end in
  map (fun g => wmean (combine (map (fun r => f (set_col j g r)) X) ws)) grid.

End WithPredictor.
