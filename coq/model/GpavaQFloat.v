(* BIT-EXACT binary64 twin of the QUANTILE / MEDIAN path of `isotonic_regression`
   (src/model_diagnostics/_utils/isotonic.py):
     quantile_lower (14-15), quantile_upper (18-23), gpava (139-277) instantiated with
     quantile_lower, and the quantile branch of isotonic_regression (356-376, 386-388,
     398-423),
   written with Coq's primitive floats (IEEE-754 binary64, round to nearest even: the
   arithmetic of numpy's float64).  Definitions only.

   np.quantile(x, q, method="inverted_cdf") is modelled after numpy 2.5.3,
   numpy/lib/_function_base_impl.py (line numbers `np NNNN` below):
     _quantile (np 4726-4792), _inverted_cdf (np 4645-4648),
     _discrete_interpolation_to_boundaries (np 4623-4634).
   The virtual index is computed IN FLOAT ARITHMETIC:  index = n * q - 1  (two roundings),
   previous = floor(index), next = previous + 1, gamma = index - previous, the order
   statistic taken is `previous` if gamma == 0 and `next` otherwise, cast to intp, negative
   values clipped to 0.

   WHAT THE REAL CODE DOES in the quantile branch (it is NOT "gpava with quantile_upper"):
     xl, rl = gpava(quantile_lower(level), y)                                   (399)
     q[j]   = quantile_upper(level)(y[rl[j] : rl[j+1]])  on the blocks of rl     (403-409)
     q      = minimum-accumulate from the right                                   (411)
     xu     = np.repeat(q, np.diff(rl))                                           (412)
     x      = 0.5 * (xl + xu)                                                     (415)
     r      = [0] ++ [i + 1 | x[i+1] - x[i] != 0] ++ [len(x)]                    (417-418)

   SCOPE.  Data without NaN (numpy sorts NaN to the end and returns NaN for such a slice:
   not modelled).  Everything else is modelled: infinities, subnormals, ties, overflow of
   xl + xu, NaN *produced* by inf + -inf or inf - inf.
   One thing is NOT determined by the Python/numpy source: when a sample contains zeros of
   BOTH signs, the sign of a zero order statistic depends on numpy's selection algorithm
   (x86-simd-sort AVX512 / AVX2 networks, or introselect: `partition` is not stable and -0.0,
   +0.0 compare equal).  The twin uses a stable sort; for such inputs it agrees with numpy
   up to the sign of zero values of x (r and every comparison in the loops do not depend on
   the sign of a zero).  The comparator (corr/CmpGpavaQFloat.v) recognises these cases from
   y itself and compares them modulo the sign of zero; all other cases are compared bit for
   bit.

   Data layout as in model/PavaFloat.v: the blocks 0..b are a stack (top = block b), the
   untouched data is the list `rest`.  A block carries its value (x[k] of the Python) and its
   data y[r[k] : r[k+1]] (in order), because `fun` is re-evaluated on slices of y. *)
From Coq Require Import PrimFloat Uint63 ZArith List Bool FloatOps SpecFloat.
Import ListNotations.
From MD Require Import model.PavaFloat.

(* ------------------------------------------------------------------ *)
(* numpy helpers on float64                                            *)
(* ------------------------------------------------------------------ *)
(* stable insertion sort by `<` (numpy's order on non-NaN float64; -0.0 and +0.0 are equal) *)
Fixpoint finsert (a : float) (l : list float) : list float :=
  match l with
  | [] => [a]
  | b :: t => if PrimFloat.ltb a b then a :: l else b :: finsert a t
  end.
Definition fsort (l : list float) : list float := fold_left (fun acc a => finsert a acc) l [].

(* a small integer as float64 (exact below 2^53) *)
Definition Z2F (z : Z) : float :=
  match z with
  | Z0 => PrimFloat.zero
  | Zpos _ => PrimFloat.of_uint63 (Uint63.of_Z z)
  | Zneg p => PrimFloat.opp (PrimFloat.of_uint63 (Uint63.of_Z (Zpos p)))
  end.
Definition nat2F (n : nat) : float := Z2F (Z.of_nat n).

(* floor of  (-1)^s * m * 2^e  for e < 0 *)
Definition floor_frac (s : bool) (m : positive) (e : positive) : Z :=
  let d := Z.pow_pos 2 e in
  let fl := Z.div (Zpos m) d in
  if s then (if Z.eqb (Z.modulo (Zpos m) d) 0 then Z.opp fl else Z.opp (fl + 1))%Z else fl.

(* np.floor on float64 (C `floor`): zeros, infinities, NaN and integers are unchanged; a value
   with a fractional part has |value| < 2^52, so its floor converts back exactly *)
Definition ffloor (x : float) : float :=
  match Prim2SF x with
  | S754_finite s m (Zneg e) => Z2F (floor_frac s m e)
  | _ => x
  end.

(* `.astype(np.intp)` (np 4631), C cast double -> int64 on x86-64 (cvttsd2si): truncation;
   NaN, infinities and values outside the int64 range give INT64_MIN.  Only integer-valued
   arguments in [-1, n] occur when 0 <= q <= 1. *)
Definition int64_min : Z := (- 2 ^ 63)%Z.
Definition f2intp (x : float) : Z :=
  match Prim2SF x with
  | S754_zero _ => 0%Z
  | S754_finite s m e =>
      let a := match e with
               | Z0 => Zpos m
               | Zpos p => (Zpos m * Z.pow_pos 2 p)%Z
               | Zneg p => Z.div (Zpos m) (Z.pow_pos 2 p)
               end in
      let v := if s then Z.opp a else a in
      if (Z.leb int64_min v && Z.ltb v (2 ^ 63))%bool then v else int64_min
  | _ => int64_min
  end.

(* the order statistic selected by method="inverted_cdf" for a sample of size n (np 4645-4648,
   4623-4634) *)
Definition inverted_cdf_index (n : nat) (q : float) : nat :=
  let index := PrimFloat.sub (PrimFloat.mul (nat2F n) q) PrimFloat.one in   (* np 4647: (n * quantiles) - 1 *)
  let previous := ffloor index in                                           (* np 4624 *)
  let next := PrimFloat.add previous PrimFloat.one in                       (* np 4625 *)
  let gamma := PrimFloat.sub index previous in                              (* np 4626 *)
  let res := if PrimFloat.eqb gamma PrimFloat.zero then previous else next in   (* np 4627-4630, gamma == 0 *)
  let k := f2intp res in                                                    (* np 4631 *)
  Z.to_nat (if Z.ltb k 0 then 0%Z else k).                                  (* np 4633 res[res < 0] = 0 *)

(* np.quantile(x, q, method="inverted_cdf") for a 1-d float64 sample without NaN and 0 <= q <= 1
   (np 4784-4792: partition, take).  For 0 <= q <= 1 the index is < n (so the default `nan` of
   `nth` is never returned; not proved: float reasoning, checked exhaustively for n <= 64 by the
   harness `search` mode); for other q numpy raises ValueError (np 4494), see `q_invalid`. *)
Definition np_quantile_icdf (x : list float) (q : float) : float :=
  nth (inverted_cdf_index (length x) q) (fsort x) PrimFloat.nan.

(* line 15 *)
Definition quantile_lower_f (x : list float) (level : float) : float := np_quantile_icdf x level.

(* line 23:  -np.quantile(-x, float(1 - Decimal(str(level))), method="inverted_cdf").
   `level_upper` = float(1 - Decimal(str(level))) is decimal arithmetic, computed outside Coq and
   passed in. *)
Definition quantile_upper_f (x : list float) (level_upper : float) : float :=
  PrimFloat.opp (np_quantile_icdf (map PrimFloat.opp x) level_upper).

(* ------------------------------------------------------------------ *)
(* gpava (139-277) for an arbitrary `fun` of the data slice            *)
(* ------------------------------------------------------------------ *)
Record qblk := mkqb { qv : float; qd : list float }.     (* x[k] ; y[r[k] : r[k+1]] *)

(* lines 251-256:  while i < n - 1 and xb >= x[i + 1]:
                       i += 1; xb = fun(y[r[b] : i + 1])                                  *)
Fixpoint gup (f : list float -> float) (xb : float) (d : list float) (rest : list float)
  : float * list float * list float :=
  match rest with
  | y1 :: rest' =>
      if fge xb y1 then                                  (* 251 *)
        let d' := d ++ [y1] in                           (* 252, 256: y[r[b] : i + 1] *)
        gup f (f d') d' rest'
      else (xb, d, rest)
  | [] => (xb, d, rest)
  end.

(* lines 257-262:  while b >= 1 and x[b - 1] >= xb:
                       b -= 1; xb = fun(y[r[b] : i + 1])                                  *)
Fixpoint gdown (f : list float -> float) (xb : float) (d : list float) (stk : list qblk)
  : float * list float * list qblk :=
  match stk with
  | p :: stk' =>
      if fge (qv p) xb then                              (* 257 *)
        let d' := qd p ++ d in                           (* 258, 262: y[r[b] : i + 1] *)
        gdown f (f d') d' stk'
      else (xb, d, stk)
  | [] => (xb, d, stk)
  end.

(* one pass of the outer loop, lines 241-267 (and 233-236 for element 0) *)
Definition gstep (f : list float -> float) (stk : list qblk) (y1 : float) (rest : list float)
  : list qblk * list float :=
  match stk with
  | [] => ([mkqb y1 [y1]], rest)                         (* 233-236: xb_prev = y[0], r = [0, 1] *)
  | p :: stk' =>
      if fge (qv p) y1 then                              (* 245: xb_prev >= xb *)
        let d := qd p ++ [y1] in                         (* 250: y[r[b] : r[b + 1] + 1] *)
        let xb := f d in
        let '(xb1, d1, rest1) := gup f xb d rest in
        let '(xb2, d2, stk2) := gdown f xb1 d1 stk' in
        (mkqb xb2 d2 :: stk2, rest1)                     (* 264-266 *)
      else (mkqb y1 [y1] :: stk, rest)                   (* 242, 264-266 *)
  end.

(* the outer `while i < n` (line 240); every pass consumes at least one element of `rest`, so
   fuel = length of the data suffices (proofs/GpavaQFloatProps.v, gloop_spec) *)
Fixpoint gloop (f : list float -> float) (fuel : nat) (stk : list qblk) (rest : list float)
  : option (list qblk) :=
  match rest with
  | [] => Some stk
  | e :: rest' =>
      match fuel with
      | O => None
      | S fuel' => let '(stk1, rest1) := gstep f stk e rest' in gloop f fuel' stk1 rest1
      end
  end.

Definition gpava_blocks_f (f : list float -> float) (y : list float) : option (list qblk) :=
  gloop f (length y) [] y.

(* a block as a PavaFloat block (value, weight 1, extent): reuse of fexpand / frvec / block_form *)
Definition qfb (b : qblk) : fblk := mkfb (qv b) fone (length (qd b)).

(* `gpava(fun, y, w)` (w is only sliced and handed to `fun`, which ignores it here) for n >= 1;
   lines 269-277: block values written over their extents, r[: b + 2].  The `None` branch is dead
   code (GpavaQFloatProps.gpava_f_fuel). *)
Definition gpava_f (f : list float -> float) (y : list float) : list float * list nat :=
  match gpava_blocks_f f y with
  | Some stk => (fexpand (map qfb stk), frvec (map qfb stk))
  | None => ([], [])
  end.

(* ------------------------------------------------------------------ *)
(* the quantile branch of isotonic_regression                          *)
(* ------------------------------------------------------------------ *)
(* np.minimum (NaN propagating; of two equal values, e.g. -0.0 and +0.0, the SECOND one) *)
Definition fmin2 (a b : float) : float :=
  if (PrimFloat.ltb a b || PrimFloat.is_nan a)%bool then a else b.
(* np.minimum.accumulate *)
Fixpoint fminacc_from (acc : float) (l : list float) : list float :=
  match l with
  | [] => []
  | v :: t => let m := fmin2 acc v in m :: fminacc_from m t
  end.
Definition fminacc (l : list float) : list float :=
  match l with [] => [] | v :: t => v :: fminacc_from v t end.

Fixpoint fmap2 (g : float -> float -> float) (a b : list float) : list float :=
  match a, b with
  | u :: a', v :: b' => g u v :: fmap2 g a' b'
  | _, _ => []
  end.

Definition fhalf : float := 0x1p-1%float.

(* line 417: np.nonzero(np.diff(x))[0] + 1, shifted by `pos`:  the positions pos + i + 1 with
   x[i + 1] - x[i] != 0  (a NaN difference, e.g. inf - inf, IS nonzero) *)
Fixpoint fdiffpos (pos : nat) (x : list float) : list nat :=
  match x with
  | a :: ((b :: _) as t) =>
      if PrimFloat.eqb (PrimFloat.sub b a) PrimFloat.zero then fdiffpos (S pos) t
      else S pos :: fdiffpos (S pos) t
  | _ => []
  end.
(* line 418: np.r_[0, r, len(x)] *)
Definition frecompute (x : list float) : list nat := 0 :: fdiffpos 0 x ++ [length x].

(* the lower solution xl written out from its blocks in data order (269-275) *)
Definition qexpand (bs : list qblk) : list float :=
  flat_map (fun b => repeat (qv b) (length (qd b))) bs.

(* lines 399-418 on the ordered data, from the blocks of the lower solution (data order) *)
Definition quantile_from_blocks (bs : list qblk) (level_upper : float) : list float * list nat :=
  let xl := qexpand bs in                                                     (* 399 *)
  let q := map (fun b => quantile_upper_f (qd b) level_upper) bs in           (* 403-409 *)
  let q' := rev (fminacc (rev q)) in                                          (* 411 *)
  let xu := flat_map (fun bq => repeat (snd bq) (length (qd (fst bq)))) (combine bs q') in   (* 412 *)
  let x := fmap2 (fun a b => PrimFloat.mul fhalf (PrimFloat.add a b)) xl xu in   (* 415 *)
  (x, frecompute x).                                                          (* 417-418 *)

Definition quantile_core_f (y : list float) (level level_upper : float) : list float * list nat :=
  match gpava_blocks_f (fun d => quantile_lower_f d level) y with
  | Some stk => quantile_from_blocks (rev stk) level_upper
  | None => ([], [])                                       (* dead code: gpava_blocks_f_total *)
  end.

(* line 363 `level <= 0 or level >= 1` (IEEE: a NaN level passes) *)
Definition level_bad (level : float) : bool :=
  (PrimFloat.leb level PrimFloat.zero || PrimFloat.leb PrimFloat.one level)%bool.
(* np.quantile: `if not _quantile_is_valid(q): raise ValueError` (np 4494, 4540: q >= 0 and q <= 1) *)
Definition q_invalid (q : float) : bool :=
  negb (PrimFloat.leb PrimFloat.zero q && PrimFloat.leb q PrimFloat.one)%bool.

(* isotonic_regression(y, None, increasing=inc, functional="quantile", level=level),
   level_upper = float(1 - Decimal(str(level))) *)
Definition isotonic_quantile_f (y : list float) (level level_upper : float) (increasing : bool)
  : fres (list float * list nat) :=
  if level_bad level then FErr FEValue                                       (* 363-365 *)
  else
    match y with
    | [] => FErr FEIndex                                                      (* gpava 234: r[1] = 1, n = 0 *)
    | _ =>
      (* a level / level_upper outside [0, 1] (after 363: NaN only) makes np.quantile raise
         ValueError, at the latest in line 405 which is executed for every non-empty y *)
      if (q_invalid level || q_invalid level_upper)%bool then FErr FEValue
      else
        let y' := if increasing then y else rev y in                          (* 386-387 *)
        let '(x, r) := quantile_core_f y' level level_upper in                (* 399-418 *)
        if increasing then FOk (x, r)
        else FOk (rev x, mirror_r r)                                          (* 420-422 *)
    end.

(* functional="median": lines 366-368, level = 0.5 whatever was passed (the guard 363 does not
   apply), float(1 - Decimal("0.5")) = 0.5 *)
Definition isotonic_median_f (y : list float) (increasing : bool) : fres (list float * list nat) :=
  isotonic_quantile_f y fhalf fhalf increasing.

(* the public entry with the `weights` argument: lines 363-365 first, then 371-376 *)
Inductive qpub := QRes (r : fres (list float * list nat)) | QNotImplemented.
Definition isotonic_quantile_pub_f (median : bool) (y : list float) (weights : option (list float))
  (level level_upper : float) (increasing : bool) : qpub :=
  if (negb median && level_bad level)%bool then QRes (FErr FEValue)           (* 363-365 *)
  else match weights with
       | Some _ => QNotImplemented                                            (* 374-376 *)
       | None => QRes (if median then isotonic_median_f y increasing
                       else isotonic_quantile_f y level level_upper increasing)
       end.

(* equality modulo the sign of zero (used only for inputs containing both +0.0 and -0.0) *)
Definition fzero_eqb (a b : float) : bool :=
  (fbit_eqb a b || (PrimFloat.eqb a PrimFloat.zero && PrimFloat.eqb b PrimFloat.zero))%bool.
