(* Executable rational models of the three functionals the library pools
   blocks with.  Definitions only.

   - wmean (lib/QLists.v): weighted mean, `np.average` / the running sums of pava.
   - qlow: `np.quantile(x, level, method="inverted_cdf")` by its definition: the
     least data value whose empirical distribution function reaches the level
     (isotonic.py line 15, `quantile_lower`).  Weights are ignored, as the code
     ignores `wx`.
   - qupp: isotonic.py line 23, `quantile_upper`:
     -quantile(-x, 1 - level, "inverted_cdf") with the exact decimal 1 - level.
   - expectile_Q: `scipy.stats.expectile(x, alpha, weights)`, the root t of
     sum_i w_i |1{y_i <= t} - alpha| (t - y_i) = 0, found exactly by trying every
     data value c as the split {y_i <= c} | {y_i > c}: the candidate
     t_c = (sum_i w_i k_i y_i) / (sum_i w_i k_i) with k_i = 1-alpha on the low side
     and alpha on the high side is the root iff it induces the same split. *)
From Coq Require Import QArith Qreduction List Bool ZArith.
Import ListNotations.
Open Scope Q_scope.
From MD Require Import lib.QLists.

Definition leb (a b : Q) : bool := Qle_bool a b.
Definition Qnat (n : nat) : Q := inject_Z (Z.of_nat n).

Definition count_le (l : list elt) (t : Q) : nat :=
  length (filter (fun e => leb (ey e) t) l).
Definition count_lt (l : list elt) (t : Q) : nat :=
  length (filter (fun e => negb (leb t (ey e))) l).

(* does the empirical cdf at t reach level a:  a * n <= #{y_i <= t} *)
Definition reaches (a : Q) (l : list elt) (t : Q) : bool :=
  leb (a * Qnat (length l)) (Qnat (count_le l t)).

Definition qlow (a : Q) (l : list elt) : Q :=
  match map ey (filter (fun e => reaches a l (ey e)) l) with
  | [] => 0
  | x :: xs => minQ x xs
  end.

Definition negy (e : elt) : elt := (- ey e, ew e).
Definition qupp (a : Q) (l : list elt) : Q := - qlow (1 - a) (map negy l).

(* asymmetry factor |1{y <= t} - a| *)
Definition kfac (a : Q) (y t : Q) : Q := if leb y t then 1 - a else a.

Definition ecand (a : Q) (l : list elt) (c : Q) : Q :=
  let num := fold_right (fun e s => Qred (ew e * kfac a (ey e) c * ey e + s)) 0 l in
  let den := fold_right (fun e s => Qred (ew e * kfac a (ey e) c + s)) 0 l in
  Qred (num / den).

Definition evalid (l : list elt) (c t : Q) : bool :=
  forallb (fun e => Bool.eqb (leb (ey e) c) (leb (ey e) t)) l.

Fixpoint efirst (a : Q) (l : list elt) (cands : list Q) : Q :=
  match cands with
  | [] => 0
  | c :: cs => let t := ecand a l c in if evalid l c t then t else efirst a l cs
  end.

Definition expectile_Q (a : Q) (l : list elt) : Q := efirst a l (map ey l).

(* identification functions, as calibration/identification.py, times the weight *)
Definition V_mean (e : elt) (t : Q) : Q := ew e * (t - ey e).
Definition V_expectile (a : Q) (e : elt) (t : Q) : Q :=
  ew e * (2 * kfac a (ey e) t * (t - ey e)).
Definition Vp_quantile (a : Q) (e : elt) (t : Q) : Q := (if leb (ey e) t then 1 else 0) - a.
Definition Vm_quantile (a : Q) (e : elt) (t : Q) : Q := (if leb t (ey e) then 0 else 1) - a.
