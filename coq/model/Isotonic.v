(* Executable model of `isotonic_regression` (isotonic.py lines 356-423).
   Definitions only.  Inputs are exact rationals (every float is one). *)
From Coq Require Import QArith Qreduction List Bool ZArith.
Import ListNotations.
Open Scope Q_scope.
From MD Require Import lib.QLists model.Functionals model.Gpava model.Pava.

(* the `functional` argument: one of the four names, or any other string *)
Inductive ifun := IFmean | IFmedian | IFexpectile | IFquantile | IFother.
Inductive ierr := EValue | ENotImplemented | EIndex.
Inductive ires (A : Type) := IOk (a : A) | IErr (e : ierr).
Arguments IOk {A} a.
Arguments IErr {A} e.

Definition of_opt {A} (o : option A) : ires A :=
  match o with Some a => IOk a | None => IErr EIndex end.

(* --- the quantile path, lines 399-418 ------------------------------- *)
(* running minimum from the right: np.minimum.accumulate(q[::-1])[::-1] *)
Fixpoint cummin_right (q : list Q) : list Q :=
  match q with
  | [] => []
  | x :: q' =>
      match cummin_right q' with
      | [] => [x]
      | (m :: _) as r => (if Qle_bool x m then x else m) :: r
      end
  end.

(* r = np.r_[0, np.nonzero(np.diff(x))[0] + 1, len(x)] *)
Fixpoint changes (i : nat) (x : list Q) : list nat :=
  match x with
  | a :: ((b :: _) as x') => if Qeq_bool a b then changes (S i) x' else S i :: changes (S i) x'
  | _ => []
  end.
Definition rvec_of_values (x : list Q) : list nat := 0%nat :: changes 0 x ++ [length x].

Definition quantile_path (a : Q) (l : list elt) : option (list Q * list nat) :=
  match l with
  | [] => None
  | _ =>
    match gpava_blocks elt ey (qlow a) l with
    | None => None
    | Some stk =>
        let bs := rev stk in                                   (* blocks in data order *)
        let q := cummin_right (map (fun b => qupp a (bel b)) bs) in          (* lines 403-411 *)
        let mid := map (fun bq => Qred ((1#2) * (bv (fst bq) + snd bq))) (combine bs q) in  (* 415 *)
        let x := flat_map (fun bm => repeat (snd bm) (length (bel (fst bm)))) (combine bs mid) in
        Some (x, rvec_of_values x)                             (* lines 417-418 *)
    end
  end.

(* --- dispatch on the functional, increasing fit on already ordered data --- *)
Definition iso_core (f : ifun) (a : Q) (l : list elt) : option (list Q * list nat) :=
  match f with
  | IFmean => pava l                                           (* line 391 *)
  | IFexpectile => gpava elt ey (expectile_Q a) l              (* lines 394-397 *)
  | IFquantile => quantile_path a l
  | _ => None
  end.

Definition all_pos (w : list Q) : bool := forallb (fun x => negb (Qle_bool x 0)) w.

(* isotonic_regression(y, weights, increasing=, functional=, level=) *)
Definition isotonic_regression (y : list Q) (weights : option (list Q))
    (increasing : bool) (functional : ifun) (level : Q) : ires (list Q * list nat) :=
  match functional with
  | IFother => IErr EValue                                                     (* 357-362 *)
  | _ =>
  if (match functional with IFexpectile | IFquantile => true | _ => false end)
       && (Qle_bool level 0 || Qle_bool 1 level) then IErr EValue              (* 363-365 *)
  else
  let '(f, a) := match functional with IFmedian => (IFquantile, 1#2) | _ => (functional, level) end in  (* 366-368 *)
  let wres :=
    match weights with
    | None => IOk (map (fun _ => 1) y)                                         (* 372 *)
    | Some w =>
        match f with
        | IFquantile => IErr ENotImplemented                                   (* 374-376 *)
        | _ =>
          if negb (Nat.eqb (length y) (length w)) then IErr EValue             (* 379-381 *)
          else if negb (all_pos w) then IErr EValue                            (* 382-384 *)
          else IOk w
        end
    end in
  match wres with
  | IErr e => IErr e
  | IOk w =>
      let l := combine y w in
      let l' := if increasing then l else rev l in                             (* 386-388 *)
      match iso_core f a l' with
      | None => IErr EIndex
      | Some (x, r) =>
          if increasing then IOk (x, r)
          else IOk (rev x, map (fun k => (length x - k)%nat) (rev r))          (* 420-422 *)
      end
  end
  end.
