(* Executable model of `gpava` (src/model_diagnostics/_utils/isotonic.py,
   lines 206-277): Busing's O(n) pool-adjacent-violators loop with the block
   value recomputed by a functional `T` on the raw observations of the pooled
   range.  Definitions only; proofs are in theory/GpavaCert.v.

   Correspondence with the Python text (0-based indices as in the code):
     stack of blocks (top first)  ~  x[0..b], r[0..b+1]   (block values, starts)
     rest                         ~  x[i+1 ..]             (unread raw observations)
     bel B                        ~  y[r[b] : i+1]         (raw observations of a block)
   one call of [step] = one iteration of `while i < n` (lines 240-267). *)
From Coq Require Import QArith List Bool.
Import ListNotations.
Open Scope Q_scope.

Section Model.
Variable elt : Type.
Variable yv : elt -> Q.
Variable T : list elt -> Q.

Record blk := mkblk { bel : list elt; bv : Q }.

(* `xb >= x[i + 1]`  and  `x[b - 1] >= xb`, `xb_prev >= xb` *)
Definition geb (a b : Q) : bool := Qle_bool b a.

(* lines 251-256: repair up violations *)
Fixpoint up (B : list elt) (v : Q) (rest : list elt) : list elt * Q * list elt :=
  match rest with
  | e :: rest' =>
      if geb v (yv e) then let B' := B ++ [e] in up B' (T B') rest'
      else (B, v, rest)
  | [] => (B, v, rest)
  end.

(* lines 257-262: repair down violations *)
Fixpoint down (B : list elt) (v : Q) (stk : list blk) : list elt * Q * list blk :=
  match stk with
  | b :: stk' =>
      if geb (bv b) v then let B' := bel b ++ B in down B' (T B') stk'
      else (B, v, stk)
  | [] => (B, v, stk)
  end.

(* one iteration of the outer loop, having read element e; returns the new
   stack and the still unread elements *)
Definition step (stk : list blk) (e : elt) (rest : list elt) : list blk * list elt :=
  match stk with
  | [] => ([mkblk [e] (yv e)], rest)                       (* lines 233-236 *)
  | p :: stk' =>
      if geb (bv p) (yv e) then                            (* line 245 *)
        let B0 := bel p ++ [e] in                          (* line 250 *)
        let '(B1, v1, rest1) := up B0 (T B0) rest in
        let '(B2, v2, stk2) := down B1 v1 stk' in
        (mkblk B2 v2 :: stk2, rest1)                       (* lines 264-266 *)
      else (mkblk [e] (yv e) :: stk, rest)
  end.

Fixpoint loop (fuel : nat) (stk : list blk) (rest : list elt) : option (list blk) :=
  match rest with
  | [] => Some stk
  | e :: rest' =>
      match fuel with
      | O => None
      | S fuel' => let '(stk1, rest1) := step stk e rest' in loop fuel' stk1 rest1
      end
  end.

(* lines 269-275: write the block value to every position of the block *)
Definition expand (stk : list blk) : list Q :=
  flat_map (fun b => repeat (bv b) (length (bel b))) (rev stk).

(* r[: b + 2]: start index of every block, then n *)
Fixpoint starts (from : nat) (bs : list blk) : list nat :=
  match bs with
  | [] => [from]
  | b :: bs' => from :: starts (from + length (bel b)) bs'
  end.
Definition rvec (stk : list blk) : list nat := starts 0 (rev stk).

Definition flat (stk : list blk) : list elt := concat (map bel (rev stk)).

Definition gpava_blocks (l : list elt) : option (list blk) := loop (length l) [] l.
Definition gpava (l : list elt) : option (list Q * list nat) :=
  match l with
  | [] => None                                              (* y[0] raises IndexError *)
  | _ => option_map (fun stk => (expand stk, rvec stk)) (gpava_blocks l)
  end.

End Model.

Arguments mkblk {elt}.
Arguments bel {elt}.
Arguments bv {elt}.
