(* Executable model of `np.histogram_bin_edges(a, bins=rule)` for the three histogram
   rules whose number of bins is an integer root / logarithm of the sample size:

     'sturges'  width = ptp / (log2(n) + 1)          bins = ceil(log2 n) + 1
     'sqrt'     width = ptp / sqrt(n)                bins = ceil(sqrt n)
     'rice'     width = ptp / (2 n^(1/3))            bins = ceil(2 n^(1/3)) = ceil((8n)^(1/3))

   numpy 2.5.3, numpy/lib/_histograms_impl.py: `_hist_bin_sqrt` (l. 32-50), `_hist_bin_sturges`
   (l. 53-73), `_hist_bin_rice` (l. 76-97), `_get_outer_edges` (l. 298-325), `_unsigned_subtract`
   (l. 328-353), `_get_bin_edges` (l. 356-454), and numpy/_core/function_base.py `linspace`
   (l. 123-186).  Used by `bin_feature` (src/model_diagnostics/_utils/binning.py l. 284-288:
   `a = feature.filter(is_finite & is_not_null)`, `np.histogram_bin_edges(a, bins=m)[1:-1]`,
   `n_bins_ef = len + 1`); 'sturges' is the library's default `bin_method`.

   The model needs only the summary (dtype kind, n, min, max) of the array `a`.  Definitions only;
   the lemmas are in proofs/NumpyRulesProps.v.  All sizes are binary numbers (N, Z).

   TWO LAYERS.
   (1) `bins_exact` / `rule_edges_exact`: the mathematical value (exact integer root, rational
       linspace).
   (2) `np_edges`: what numpy computes in IEEE binary64 (`rnd` = round to nearest even with
       subnormals, over Q), bit for bit.  The two layers differ as follows, and the model says so:
       * numpy turns the WIDTH back into a number of bins, `int(ceil(delta / width))` with
         `width = ptp / c`, c = log2(n)+1 | sqrt(n) | 2 n^(1/3) in floating point.  When c is not
         an integer it is at a distance > 2^-31 (n < 2^40) from the next integer while the three
         roundings perturb delta / (ptp / c) by < 2^-50 c: the ceiling is that of the exact c.
         This is NOT proved here (log2, sqrt, cbrt are not rational); the harness checks it
         exhaustively for every n <= 3000 and several ranges, `exact_point` below is the
         complement.
       * when c IS an integer K as a float (n = 2^k: np.log2 exact; n = k^2: sqrt correctly
         rounded; n = 8, 27: `n ** (1.0/3)` = 2.0, 3.0), `delta / (delta / K)` rounds to K or to the
         float just above K, and numpy then returns K + 1 bins.  Which one depends on the RANGE of
         the data (e.g. n = 64, range [3.6509682605834275, 5.683774335864077]: 8 bins, not 7).
         The model computes the two roundings exactly (proved: the result is K or K + 1,
         NumpyRulesProps.bins_at_exact_point_range / np_nbins_bound).
       * n = k^3, k >= 4: Python's `n ** (1.0/3)` is STRICTLY below k (1.0/3 < 1/3; checked in the
         harness for every k < 200000), c <= pred(2k), and then delta / rnd(delta / c) <= 2k + ulp/4
         rounds to at most 2k: numpy returns 2k = the exact value for every range.
       * integer dtypes (numpy >= 2.1, l. 407-408): `if width < 1: width = 1`, i.e. one bin per
         integer when max - min < bins.
       * the edges are `linspace` in binary64, and numpy raises ValueError ('Too many bins for data
         range') unless they come out strictly increasing (l. 448-451).
   Out of the model (explicit constructors): n >= 2^40; a positive float range below 2^-1000 (the
   width is subnormal and delta / width is no longer close to c). *)
From Coq Require Import ZArith NArith QArith Qabs Qreduction List Bool.
Import ListNotations.
Open Scope Q_scope.

Inductive rule := Sturges | Sqrt | Rice.
Inductive dkind := DFloat | DInt.       (* float64 | any integer dtype (int64, uint8, ...) *)

(* ------------------------------------------------------------------ *)
(* integer roots and logarithm, binary                                  *)

(* least k with n <= 2^k (0 for n <= 1) *)
Definition clog2 (n : N) : N := N.log2_up n.
(* least k with n <= k^2 *)
Definition csqrt (n : N) : N := N.sqrt_up n.

Definition cube (k : N) : N := (k * k * k)%N.

(* floor cube root, built bit by bit from bit b-1 down to bit 0 *)
Fixpoint icbrt_aux (b : nat) (m r : N) : N :=
  match b with
  | O => r
  | S b' => let r' := (r + 2 ^ N.of_nat b')%N in
            icbrt_aux b' m (if (cube r' <=? m)%N then r' else r)
  end.
Definition icbrt_bits (m : N) : nat := S (N.to_nat (N.log2 m) / 3).
Definition icbrt (m : N) : N := icbrt_aux (icbrt_bits m) m 0.
(* least k with m <= k^3 *)
Definition ccbrt (m : N) : N :=
  let r := icbrt m in if (cube r =? m)%N then r else (r + 1)%N.

(* the mathematical number of bins of a non-constant sample of size n *)
Definition bins_exact (r : rule) (n : N) : N :=
  match r with
  | Sturges => (clog2 n + 1)%N             (* ceil(log2 n + 1) *)
  | Sqrt => csqrt n                        (* ceil(sqrt n) *)
  | Rice => ccbrt (8 * n)                  (* ceil(2 n^(1/3)) = ceil((8 n)^(1/3)) *)
  end.

(* the sample sizes at which the float c is exactly the integer `bins_exact`: there numpy's
   count is `bins_exact` or `bins_exact + 1`, depending on the range *)
Definition exact_point (r : rule) (n : N) : bool :=
  match r with
  | Sturges => (2 ^ clog2 n =? n)%N
  | Sqrt => (csqrt n * csqrt n =? n)%N
  | Rice => (n =? 1)%N || (n =? 8)%N || (n =? 27)%N
  end.

(* ------------------------------------------------------------------ *)
(* IEEE binary64, round to nearest, ties to even, with subnormals, no overflow
   (an overflowing result is >= 2^1024 and is detected by `is_inf`)      *)

Definition pow2Q (e : Z) : Q :=
  match e with
  | Z0 => 1
  | Zpos p => inject_Z (Z.pow_pos 2 p)
  | Zneg p => 1 # (Pos.pow 2 p)
  end.

Definition floorQ (x : Q) : Z := (Qnum x / Zpos (Qden x))%Z.
Definition ceilQ (x : Q) : Z := (- ((- Qnum x) / Zpos (Qden x)))%Z.

(* The numbers at hand have up to 2100 binary digits (2^-1074, 1e300): everything is done with
   shifts, and a division by a power of two is a shift (Z.div is quadratic). *)

(* number of trailing zero bits *)
Fixpoint tz (p : positive) : N :=
  match p with xO p' => N.succ (tz p') | _ => 0%N end.
Definition is_pow2 (p : positive) : bool := Pos.eqb (Pos.shiftr p (tz p)) 1.

(* floor(log2 (n / d)), n, d > 0 *)
Definition ilog2_frac (n d : positive) : Z :=
  let e := (Z.log2 (Zpos n) - Z.log2 (Zpos d))%Z in
  let ge :=            (* 2^e <= n / d *)
    match e with
    | Zneg p => (d <=? Pos.shiftl n (Npos p))%positive
    | Z0 => (d <=? n)%positive
    | Zpos p => (Pos.shiftl d (Npos p) <=? n)%positive
    end in
  if ge then e else (e - 1)%Z.

(* quotient and remainder of a >= 0 by b *)
Definition div_eucl_fast (a : Z) (b : positive) : Z * Z :=
  if is_pow2 b then
    let k := Z.of_N (tz b) in
    let f := Z.shiftr a k in (f, (a - Z.shiftl f k)%Z)
  else Z.div_eucl a (Zpos b).

(* the integer nearest to a / b, ties to even (a >= 0) *)
Definition rne_div (a : Z) (b : positive) : Z :=
  let '(f, r) := div_eucl_fast a b in
  match (2 * r ?= Zpos b)%Z with
  | Lt => f
  | Gt => (f + 1)%Z
  | Eq => if Z.even f then f else (f + 1)%Z
  end.

(* f * 2^qe in lowest terms, f >= 0 *)
Definition dyadic (f : Z) (qe : Z) : Q :=
  match f with
  | Zpos p =>
      match qe with
      | Zneg k => let t := N.min (tz p) (Npos k) in
                  Zpos (Pos.shiftr p t) # Pos.shiftl 1 (Npos k - t)
      | _ => inject_Z (Z.shiftl f qe)
      end
  | _ => 0
  end.

(* the exponent of the last place of n / d > 0: binary64 has 53 digits, subnormals end at 2^-1074 *)
Definition ulp_exp (n d : positive) : Z := Z.max (ilog2_frac n d - 52) (-1074).

(* common trailing zeros of numerator and denominator removed (cheap; Q values here are sums and
   products of dyadic numbers, never reduced otherwise) *)
Definition rnd_pos (n d : positive) : Q :=
  let t := N.min (tz n) (tz d) in
  let n := Pos.shiftr n t in
  let d := Pos.shiftr d t in
  let qe := ulp_exp n d in
  let f := match qe with
           | Zneg k => rne_div (Zpos (Pos.shiftl n (Npos k))) d
           | Z0 => rne_div (Zpos n) d
           | Zpos k => rne_div (Zpos n) (Pos.shiftl d (Npos k))
           end in
  dyadic f qe.

Definition rnd (x : Q) : Q :=
  match Qnum x with
  | Z0 => 0
  | Zpos n => rnd_pos n (Qden x)
  | Zneg n => - rnd_pos n (Qden x)
  end.

Definition is_inf (y : Q) : bool := Qle_bool (pow2Q 1024) (Qabs y).

(* ------------------------------------------------------------------ *)
(* linspace                                                             *)

Fixpoint nseq (len : nat) (start : N) : list N :=
  match len with O => [] | S l => start :: nseq l (N.succ start) end.
Definition NQ (i : N) : Q := inject_Z (Z.of_N i).

(* exact: first + (last - first) * i / K, i = 0..K *)
Definition linspaceQ (first last : Q) (K : N) : list Q :=
  map (fun i => Qred (first + (last - first) * NQ i / NQ K)) (nseq (S (N.to_nat K)) 0).

(* function_base.py l. 141-177 in binary64, for K = num - 1 >= 1: delta = stop - start,
   step = delta / div, y = arange(0, num) * step + start (two roundings per element; when the
   step underflows to 0: y = (arange / div) * delta + start), y[-1] = stop *)
Definition linspace_fl (first last : Q) (K : N) : list Q :=
  let delta := rnd (last - first) in
  let step := rnd (delta / NQ K) in
  let y (i : N) : Q :=
    if Qeq_bool step 0 && negb (Qeq_bool delta 0)
    then rnd (rnd (NQ i / NQ K) * delta)
    else rnd (NQ i * step) in
  map (fun i => rnd (y i + first)) (nseq (N.to_nat K) 0) ++ [last].

Fixpoint strictly_increasing_b (l : list Q) : bool :=
  match l with
  | x :: l' => match l' with
               | y :: _ => negb (Qle_bool y x) && strictly_increasing_b l'
               | [] => true
               end
  | [] => true
  end.

(* ------------------------------------------------------------------ *)
(* the number of bins, l. 401-414                                       *)

Inductive nperr :=
  | EOverflow      (* max - min overflows: inf / inf = nan, int(nan): ValueError *)
  | ETooMany.      (* l. 448-451: ValueError 'Too many bins for data range' *)

Inductive npres :=
  | NpOk (nbins : N) (edges : list Q)      (* List.length edges = nbins + 1 *)
  | NpErr (e : nperr)
  | NpUnmodelled.                          (* n >= 2^40, or 0 < float range < 2^-1000 *)

Definition n_limit : N := (2 ^ 40)%N.
Definition tiny_range : Q := pow2Q (-1000).

(* int(ceil(delta / (ptp / K))) for the float d = delta = ptp and an integer-valued float c = K *)
Definition bins_at_exact_point (d : Q) (K : N) : N :=
  Z.to_N (ceilQ (rnd (d / rnd (d / NQ K)))).

(* the exact width rule: the number of bins of a sample with min < max *)
Definition nbins_exact (r : rule) (k : dkind) (n : N) (lo hi : Q) : N :=
  let Kx := bins_exact r n in
  match k with
  | DInt => if Qle_bool (NQ Kx) (hi - lo) then Kx else Z.to_N (ceilQ (hi - lo))
  | DFloat => Kx
  end.

(* numpy's: None = outside the model.  lo < hi; d = the float `_unsigned_subtract(last, first)`
   (for integers the exact difference, converted to float64 by the division) *)
Definition nbins_np (r : rule) (k : dkind) (n : N) (lo hi : Q) (d : Q) : option N :=
  let Kx := bins_exact r n in
  let general :=
    if exact_point r n then Some (bins_at_exact_point d Kx) else Some Kx in
  match k with
  | DInt =>
      if Qle_bool (NQ Kx) (hi - lo) then general
      else Some (Z.to_N (ceilQ (hi - lo)))     (* width < 1 -> width = 1: int(ceil(delta / 1)); the
                                                  integer delta < bins_exact < 2^42 is a float64 *)
  | DFloat =>
      if Qle_bool tiny_range d then general else None
  end.

(* `_get_outer_edges` + `_get_bin_edges`: (first_edge, last_edge, n_equal_bins) *)
Inductive outer := Outer (first last : Q) (nbins : N) | OuterErr (e : nperr) | OuterUnmodelled.

Definition outer_np (r : rule) (k : dkind) (n : N) (lo hi : Q) : outer :=
  if (n =? 0)%N then Outer 0 1 1                            (* l. 311-313, 401-402 *)
  else if (n_limit <=? n)%N then OuterUnmodelled
  else if Qeq_bool lo hi then                               (* l. 321-323; width = 0: l. 411-414 *)
    (* an integer scalar is converted to float64 before 0.5 is subtracted / added *)
    Outer (rnd (rnd lo - (1 # 2))) (rnd (rnd hi + (1 # 2))) 1
  else
    let d := rnd (hi - lo) in
    if is_inf d then OuterErr EOverflow
    else match nbins_np r k n lo hi d with
         | Some K => Outer lo hi K
         | None => OuterUnmodelled
         end.

Definition np_edges (r : rule) (k : dkind) (n : N) (lo hi : Q) : npres :=
  match outer_np r k n lo hi with
  | Outer first last K =>
      (* linspace converts integer end points to float64 *)
      let f := rnd first in
      let l := rnd last in
      if is_inf (rnd (l - f)) then NpErr EOverflow
      else
        let es := linspace_fl f l K in
        if strictly_increasing_b es then NpOk K es else NpErr ETooMany
  | OuterErr e => NpErr e
  | OuterUnmodelled => NpUnmodelled
  end.

(* `[1:-1]` *)
Definition middle {A} (l : list A) : list A := removelast (tl l).

(* what `bin_feature` digitises against: Some interior edges | None (numpy raises / unmodelled) *)
Definition np_interior (r : rule) (k : dkind) (n : N) (lo hi : Q) : option (list Q) :=
  match np_edges r k n lo hi with
  | NpOk _ es => Some (middle es)
  | _ => None
  end.

(* ------------------------------------------------------------------ *)
(* the mathematical edges (layer 1)                                     *)
Definition rule_outer_exact (r : rule) (k : dkind) (n : N) (lo hi : Q) : Q * Q * N :=
  if (n =? 0)%N then (0, 1, 1%N)
  else if Qeq_bool lo hi then (lo - (1 # 2), hi + (1 # 2), 1%N)
  else (lo, hi, nbins_exact r k n lo hi).

Definition rule_edges_exact (r : rule) (k : dkind) (n : N) (lo hi : Q) : list Q :=
  let '(f, l, K) := rule_outer_exact r k n lo hi in linspaceQ f l K.
