(* Executable model of `pava` (src/model_diagnostics/_utils/isotonic.py, lines
   71-136): Busing's O(n) PAVA for the weighted mean with running block sums.
   Definitions only.  A block keeps what the code keeps in x[b], w[b] and in
   r[b+1]-r[b]: its value, its weight and its length.  The leaves (right-hand
   sides and comparisons) are parameters `L_*` so that the generated leaf file
   gen/Gen_pava_leaves.v can be plugged in; `Pava.pava` below instantiates them
   with the expressions the theorems are about, and bridge/Bridge_isotonic.v
   proves the generated ones equal to these. *)
From Coq Require Import QArith Qreduction List Bool.
Import ListNotations.
Open Scope Q_scope.
From MD Require Import lib.QLists.

Record pblk := mkp { pv : Q; pw : Q; pn : nat }.

Definition qdiv (a b : Q) : Q := Qred (a / b).
Definition pgeb (a b : Q) : bool := Qle_bool b a.         (* a >= b *)

Section Leaves.
(* line 107 `xb_prev >= xb`, line 112 `xb >= x[i + 1]`, line 117 `x[b - 1] >= xb` *)
Variables L_viol L_up L_down : Q -> Q -> bool.
(* line 109 `wb_prev * xb_prev + wb * xb` *)
Variable L_sb0 : Q -> Q -> Q -> Q -> Q.    (* wb_prev xb_prev wb xb *)
(* line 110 `wb += wb_prev`,  lines 115, 120 `wb += w[i]` *)
Variable L_wadd : Q -> Q -> Q.
(* lines 114, 119 `sb += w[i] * x[i]` *)
Variable L_sadd : Q -> Q -> Q -> Q.        (* sb w x *)
(* lines 111, 116, 121 `xb = sb / wb` *)
Variable L_div : Q -> Q -> Q.

Fixpoint pup (sb wb : Q) (n : nat) (rest : list elt) : Q * Q * nat * list elt :=
  match rest with
  | e :: rest' =>
      if L_up (L_div sb wb) (ey e)
      then pup (L_sadd sb (ew e) (ey e)) (L_wadd wb (ew e)) (S n) rest'
      else (sb, wb, n, rest)
  | [] => (sb, wb, n, rest)
  end.

Fixpoint pdown (sb wb : Q) (n : nat) (stk : list pblk) : Q * Q * nat * list pblk :=
  match stk with
  | b :: stk' =>
      if L_down (pv b) (L_div sb wb)
      then pdown (L_sadd sb (pw b) (pv b)) (L_wadd wb (pw b)) (n + pn b) stk'
      else (sb, wb, n, stk)
  | [] => (sb, wb, n, stk)
  end.

Definition pstep (stk : list pblk) (e : elt) (rest : list elt) : list pblk * list elt :=
  match stk with
  | [] => ([mkp (ey e) (ew e) 1], rest)
  | p :: stk' =>
      if L_viol (pv p) (ey e) then
        let sb := L_sb0 (pw p) (pv p) (ew e) (ey e) in
        let wb := L_wadd (ew e) (pw p) in
        let '(sb1, wb1, n1, rest1) := pup sb wb (S (pn p)) rest in
        let '(sb2, wb2, n2, stk2) := pdown sb1 wb1 n1 stk' in
        (mkp (L_div sb2 wb2) wb2 n2 :: stk2, rest1)
      else (mkp (ey e) (ew e) 1 :: stk, rest)
  end.

Fixpoint ploop (fuel : nat) (stk : list pblk) (rest : list elt) : option (list pblk) :=
  match rest with
  | [] => Some stk
  | e :: rest' =>
      match fuel with
      | O => None
      | S fuel' => let '(stk1, rest1) := pstep stk e rest' in ploop fuel' stk1 rest1
      end
  end.
End Leaves.

Definition pexpand (stk : list pblk) : list Q :=
  flat_map (fun b => repeat (pv b) (pn b)) (rev stk).
Fixpoint pstarts (from : nat) (bs : list pblk) : list nat :=
  match bs with [] => [from] | b :: bs' => from :: pstarts (from + pn b) bs' end.
Definition prvec (stk : list pblk) : list nat := pstarts 0 (rev stk).

(* the leaves the theorems are about *)
Definition l_sb0 (wp xp wb xb : Q) : Q := Qred (wp * xp + wb * xb).
Definition l_wadd (a b : Q) : Q := Qred (a + b).
Definition l_sadd (sb w x : Q) : Q := Qred (sb + w * x).

Definition pava_blocks (l : list elt) : option (list pblk) :=
  ploop pgeb pgeb pgeb l_sb0 l_wadd l_sadd qdiv (length l) [] l.
Definition pava (l : list elt) : option (list Q * list nat) :=
  match l with
  | [] => None
  | _ => option_map (fun stk => (pexpand stk, prvec stk)) (pava_blocks l)
  end.
