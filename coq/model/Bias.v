(* Executable rational model of `compute_bias`
   (src/model_diagnostics/calibration/identification.py, lines 124-479).
   Definitions only; lemmas in proofs/BiasProps.v.

   A row is (y_obs, y_pred, key, weight); `key : option nat` is the group the
   binning helper put the row into (None = the null bin), already mapped to its
   rank in the final `.sort(feature_name)` order - see `numeric_keys` /
   `string_keys` below for how the keys come out of model/Binning.v.

   Not rational, hence exposed as pieces: bias_stderr = sqrt(g_stderr2) and
   p_value = 2 * stdtr(df, -sqrt(t2)) for `PStudent t2 df` (lines 441-453). *)
From Coq Require Import QArith Qabs Qreduction List Bool Arith String.
Import ListNotations.
Open Scope Q_scope.
From MD Require Import lib.QLists model.Functionals model.Binning.

Inductive functional := FMean | FMedian | FExpectile | FQuantile.

(* np.greater_equal(y_pred, y_obs), lines 110-114 *)
Definition ge_indq (z y : Q) : Q := if leb y z then 1 else 0.

(* identification_function, lines 107-114, per observation *)
Definition Vq (f : functional) (level y z : Q) : Q :=
  match f with
  | FMean => z - y
  | FMedian => ge_indq z y - (1 # 2)
  | FExpectile => 2 * Qabs (ge_indq z y - level) * (z - y)
  | FQuantile => ge_indq z y - level
  end.

(* line 103 *)
Definition level_bad (f : functional) (level : Q) : bool :=
  match f with
  | FExpectile | FQuantile => leb level 0 || leb 1 level
  | _ => false
  end.

Definition row := (Q * Q * option nat * Q)%type.
Definition r_y (r : row) : Q := fst (fst (fst r)).
Definition r_z (r : row) : Q := snd (fst (fst r)).
Definition r_key (r : row) : option nat := snd (fst r).
Definition r_w (r : row) : Q := snd r.

Definition okey_eqb (a b : option nat) : bool :=
  match a, b with
  | None, None => true
  | Some x, Some y => Nat.eqb x y
  | _, _ => false
  end.

(* the rows of one group, as (V, weight) pairs *)
Definition members (f : functional) (level : Q) (g : option nat) (rows : list row) : list elt :=
  map (fun r => (Vq f level (r_y r) (r_z r), r_w r)) (filter (fun r => okey_eqb (r_key r) g) rows).

(* sum_i w_i (v_i - m)^2 *)
Fixpoint wssq (m : Q) (l : list elt) : Q :=
  match l with [] => 0 | e :: l' => ew e * ((ey e - m) * (ey e - m)) + wssq m l' end.

Inductive pclass :=
  | PNaN                          (* count <= 1 (or stderr is NaN) *)
  | PZero                         (* count > 1 and stderr = 0: line 444 *)
  | PStudent (t2 : Q) (df : nat). (* p = 2 * stdtr(df, -sqrt(t2)), line 450 *)

Record gstat := mkg {
  g_key : option nat;
  g_defined : bool;       (* total weight <> 0; otherwise the floats are NaN *)
  g_mean : Q;             (* bias_mean: sum w V / sum w                        lines 341 / 389-394 *)
  g_count : nat;          (* bias_count                                        lines 343 / 369 *)
  g_weights : Q;          (* bias_weights                                      lines 342 / 370 *)
  g_stderr2 : Q;          (* bias_stderr^2: sum w (V-mean)^2 / sum w / max(1, count-1)
                                                                               lines 345-347 / 371-404 *)
  g_p : pclass }.

Definition stat_of (g : option nat) (l : list elt) : gstat :=
  let m := wmean l in
  let n := List.length l in
  let var := Qred (wssq m l / wtot l) in
  let se2 := if (1 <? n)%nat then Qred (var / Qnat (n - 1)) else var in
  let p := if Qeq_bool se2 0
           then (if (1 <? n)%nat then PZero else PNaN)
           else if Qle_bool 0 se2 then PStudent (Qred (m * m / se2)) (n - 1) else PNaN in
  mkg g (negb (Qeq_bool (wtot l) 0)) m n (Qred (wtot l)) se2 p.

(* group_by("bin") ... .sort(feature_name): null first, then ascending *)
Definition max_key (rows : list row) : nat :=
  list_max (map (fun r => match r_key r with Some k => k | None => 0%nat end) rows).
Definition key_universe (rows : list row) : list (option nat) :=
  None :: map Some (seq 0 (S (max_key rows))).
Definition present (g : option nat) (rows : list row) : bool :=
  existsb (fun r => okey_eqb (r_key r) g) rows.

Definition bias_groups (f : functional) (level : Q) (rows : list row) : list gstat :=
  map (fun g => stat_of g (members f level g rows))
      (filter (fun g => present g rows) (key_universe rows)).

(* the ungrouped path, lines 340-355: one row over all observations *)
Definition bias_all (f : functional) (level : Q) (rows : list row) : gstat :=
  stat_of None (map (fun r => (Vq f level (r_y r) (r_z r), r_w r)) rows).

Inductive bres :=
  | BOk (per_model : list (list gstat))
  | BTruncated                 (* more groups than n_bins: `.head(n_bins)` would drop one (never
                                  happens with the n_bins the binning helper returns:
                                  BiasProps.bias_no_truncation) *)
  | BErr (e : berr).

Fixpoint zip4 (ys zs : list Q) (ks : list (option nat)) (ws : list Q) : list row :=
  match ys, zs, ks, ws with
  | y :: ys', z :: zs', k :: ks', w :: ws' => (y, z, k, w) :: zip4 ys' zs' ks' ws'
  | _, _, _, _ => []
  end.

(* one model column; `grouping = None`: no feature; `Some (keys, n_bins)`: keys of the rows and
   the n_bins returned by bin_feature (line 314) *)
Definition bias_one (f : functional) (level : Q) (ys zs : list Q)
    (grouping : option (list (option nat) * nat)) (ws : list Q) : option (list gstat) :=
  match grouping with
  | None => Some [bias_all f level (zip4 ys zs (map (fun _ => None) ys) ws)]
  | Some (keys, n_bins) =>
      let gs := bias_groups f level (zip4 ys zs keys ws) in
      if (List.length gs <=? n_bins)%nat then Some gs else None       (* line 425 *)
  end.

Fixpoint all_some {A} (l : list (option A)) : option (list A) :=
  match l with
  | [] => Some []
  | None :: _ => None
  | Some x :: l' => match all_some l' with Some r => Some (x :: r) | None => None end
  end.

(* compute_bias: loop over the columns of y_pred (line 329), pl.concat (line 478) *)
Definition compute_bias (f : functional) (level : Q) (ys : list Q) (models : list (list Q))
    (grouping : option (list (option nat) * nat)) (weights : option (list Q)) : bres :=
  if level_bad f level then BErr EValueError else
  let ws := match weights with Some w => w | None => map (fun _ => 1) ys end in   (* line 307 *)
  match all_some (map (fun zs => bias_one f level ys zs grouping ws) models) with
  | Some r => BOk r
  | None => BTruncated
  end.

(* ------------------------------------------------------------------ *)
(* keys from the binning model *)

(* numeric feature: the group is the stored bin number; the output is sorted by the mean of the
   feature inside the bin, which increases with the bin number *)
Definition numeric_keys (rows : list nrow) : list (option nat) := map (option_map fst) rows.

(* string-like feature: the output is sorted by the label - byte order for String and
   Categorical (lexical), declaration order for Enum *)
Definition sleb (a b : string) : bool := String.leb a b.
Fixpoint sdedup (l : list string) : list string :=
  match l with
  | [] => []
  | x :: l' => match l' with
               | [] => [x]
               | y :: _ => if String.eqb x y then sdedup l' else x :: sdedup l'
               end
  end.
Fixpoint index_of (s : string) (l : list string) : nat :=
  match l with [] => 0%nat | x :: l' => if String.eqb s x then 0%nat else S (index_of s l') end.

Definition string_keys (kind : skind) (names : list string) (label : option string)
    (bins : list sbin) : list (option nat) :=
  match kind with
  | SEnum => map (fun b => match b with SBNull => None | SBKeep c => Some c | SBOther => Some (List.length names) end) bins
  | _ =>
      let labels := nonnull (map (render names label) bins) in
      let sorted := sdedup (isort sleb labels) in
      map (fun b => match render names label b with
                    | None => None
                    | Some s => Some (index_of s sorted)
                    end) bins
  end.
