(* Executable rational model of what the diagnostic plots DRAW (matplotlib backend):
     plot_reliability_diagram  (src/model_diagnostics/calibration/plots.py, lines 30-315)
     plot_bias                 (same file, lines 318-743)
     plot_murphy_diagram       (src/model_diagnostics/scoring/plots.py, lines 21-176)
   Compositions only: the statistics come from model/IsoFit.v (IsotonicRegression.fit),
   model/Bias.v (compute_bias) and the Q twin [elem_q] of ElementaryScore.score_per_obs
   (scoring.py lines 668-705).  Definitions only; lemmas in proofs/PlotsProps.v.

   Inputs are exact rationals (every float is one).  A prediction array with n_models
   columns is a `list (list Q)` of its columns, in column order; a one-dimensional
   y_pred is the one-element list.

   NOT modelled: the plotly backend, n_bootstrap (confidence bands of the reliability
   diagram), colours / line styles / titles / axis labels, plot_marginal, the x positions
   of the bias plot (bin means / category ranks), an unknown `functional` string.

   For functional = "mean" plot_reliability_diagram fits scikit-learn's
   IsotonicRegression (lines 207-212), not the library's; model/IsoFit.v is used for it
   all the same (both compute the weighted least squares isotonic fit of y_obs on the
   distinct prediction values; scikit-learn drops the interior vertices of constant runs,
   the library keeps the last one of every block - the same polyline).  The comparator
   therefore compares curves as functions.  scikit-learn also accepts zero weights
   (it drops those rows) where the model, like the library's class, raises ValueError. *)
From Coq Require Import QArith Qabs Qreduction List Bool Arith String.
Import ListNotations.
Open Scope Q_scope.
From MD Require Import lib.QLists model.Functionals model.Isotonic model.IsoFit model.Binning model.Bias.

(* ------------------------------------------------------------------ *)
(* get_array_min_max (_utils/array.py lines 122-141): over ALL elements, *)
(* i.e. over all columns of a two-dimensional array                      *)
(* ------------------------------------------------------------------ *)
Definition arr_min_max (vals : list Q) : option (Q * Q) :=
  match vals with
  | [] => None                                   (* min of an empty array raises ValueError *)
  | x :: l => Some (minQ x l, maxQ x l)
  end.

Definition all_values (cols : list (list Q)) : list Q := List.concat cols.

(* ------------------------------------------------------------------ *)
(* plot_reliability_diagram                                            *)
(* ------------------------------------------------------------------ *)
Inductive diagram := Reliability | BiasDiagram.      (* diagram_type, lines 139-144 *)

Definition segment := ((Q * Q) * (Q * Q))%type.     (* two end points (x, y) *)

(* line 159 + 162: ax.plot([y_min, y_max], [y_min, y_max]) with the min / max over
   ALL prediction columns *)
Definition diagonal (preds : list (list Q)) : option segment :=
  match arr_min_max (all_values preds) with
  | None => None
  | Some (lo, hi) => Some ((lo, lo), (hi, hi))
  end.

(* line 177: ax.hlines(0, xmin=y_min, xmax=y_max) for diagram_type = "bias" *)
Definition zero_line (preds : list (list Q)) : option segment :=
  match arr_min_max (all_values preds) with
  | None => None
  | Some (lo, hi) => Some ((lo, 0), (hi, 0))
  end.

Definition reference_line (dt : diagram) (preds : list (list Q)) : option segment :=
  match dt with Reliability => diagonal preds | BiasDiagram => zero_line preds end.

Definition ifun_of (f : functional) : ifun :=
  match f with
  | FMean => IFmean | FMedian => IFmedian | FExpectile => IFexpectile | FQuantile => IFquantile
  end.

(* lines 266-272: x = iso.X_thresholds_, y = iso.y_thresholds_  or  X_thresholds_ - y_thresholds_ *)
Definition curve_points (dt : diagram) (ft : fitted) : list (Q * Q) :=
  match dt with
  | Reliability => thr_points ft
  | BiasDiagram => map (fun p => (fst p, fst p - snd p)) (thr_points ft)
  end.

(* lines 204-216 + 263-272, one column: the isotonic fit (increasing, the default of both
   classes) of y_obs on the column y_pred_i with the case weights *)
Definition reliability_curve (dt : diagram) (f : functional) (lvl : Q)
    (y_obs : list Q) (w : option (list Q)) (col : list Q) : fres (list (Q * Q)) :=
  match fit col y_obs w true (ifun_of f) lvl with
  | FOk ft => FOk (curve_points dt ft)
  | FErr e => FErr e
  end.

(* the loop of line 204 over the columns, in column order (get_sorted_array_names returns the
   names in column order; its second component, the sorting permutation, is not used).
   The first FErr of the list is the exception the call raises. *)
Definition reliability_curves (dt : diagram) (f : functional) (lvl : Q)
    (y_obs : list Q) (w : option (list Q)) (preds : list (list Q)) : list (fres (list (Q * Q))) :=
  map (reliability_curve dt f lvl y_obs w) preds.

(* the whole call.  Lines 155-157 (since /repo fix 872bdaf): validate_same_first_dimension of
   y_obs against y_pred and of the weights against y_obs -> ValueError, before anything is drawn
   (all columns of an array have the same length; the model asks it of every column). *)
Inductive rdres :=
  | RDOk (refline : option segment) (curves : list (fres (list (Q * Q))))
  | RDValueError.

Definition reliability_diagram (dt : diagram) (f : functional) (lvl : Q)
    (y_obs : list Q) (w : option (list Q)) (preds : list (list Q)) : rdres :=
  if negb (forallb (fun col => (List.length col =? List.length y_obs)%nat) preds) then RDValueError
  else if (match w with Some w' => negb (List.length w' =? List.length y_obs)%nat | None => false end)
  then RDValueError
  else RDOk (reference_line dt preds) (reliability_curves dt f lvl y_obs w preds).

(* line 264 / scoring/plots.py line 148: label = pred_names[i] if n_pred >= 2 else None.
   `names`: the column names in column order ("0", "1", ... for an ndarray) *)
Definition curve_labels (names : list string) : list (option string) :=
  if (2 <=? List.length names)%nat then map Some names else map (fun _ => None) names.

(* ------------------------------------------------------------------ *)
(* ElementaryScore.score_per_obs over Q (scoring.py lines 692-705)     *)
(* ------------------------------------------------------------------ *)
Definition ind_le (a b : Q) : Q := if Qle_bool a b then 1 else 0.      (* np.less_equal(a, b) *)
Definition ind_lt (a b : Q) : Q := if Qltb a b then 1 else 0.          (* np.less(a, b) *)

(* eta_term * identification_function(y_obs, y_pred = eta):
   non-strict threshold indicators for mean / expectile (line 699), strict ones for
   median / quantile (line 697, since /repo fix 42d574f); V(y, eta) is Bias.Vq with the
   prediction argument eta *)
Definition elem_q (f : functional) (lvl eta y z : Q) : Q :=
  (match f with
   | FMedian | FQuantile => ind_lt eta z - ind_lt eta y
   | FMean | FExpectile => ind_le eta z - ind_le eta y
   end) * Vq f lvl y eta.

Inductive merr := MValueError | MTypeError | MZeroDivision.
Inductive mres (A : Type) := MOk (a : A) | MErr (e : merr).
Arguments MOk {A} a.
Arguments MErr {A} e.

Definition ones_like (y : list Q) : list Q := map (fun _ => 1) y.

(* elementary_score(y_obs, y_pred_i, weights, eta) of scoring/plots.py lines 134-136:
     ElementaryScore(eta, functional, level)      level <= 0 or level >= 1 -> ValueError (scoring.py 659)
     validate_2_arrays                            different lengths -> ValueError
     np.average(score_per_obs, weights=weights)   different length of weights -> TypeError,
                                                  weights summing to zero -> ZeroDivisionError *)
Definition murphy_point (f : functional) (lvl : Q) (y_obs : list Q) (w : option (list Q))
    (col : list Q) (eta : Q) : mres Q :=
  if Qle_bool lvl 0 || Qle_bool 1 lvl then MErr MValueError
  else if negb (List.length y_obs =? List.length col)%nat then MErr MValueError
  else if (match w with Some w' => negb (List.length w' =? List.length y_obs)%nat | None => false end)
  then MErr MTypeError
  else
    let scores := map (fun yz => elem_q f lvl eta (fst yz) (snd yz)) (combine y_obs col) in
    let l := combine scores (match w with Some w' => w' | None => ones_like y_obs end) in
    if Qeq_bool (wtot l) 0 then MErr MZeroDivision else MOk (wmean l).

Fixpoint mall {A} (l : list (mres A)) : mres (list A) :=
  match l with
  | [] => MOk []
  | MErr e :: _ => MErr e
  | MOk a :: l' => match mall l' with MOk r => MOk (a :: r) | MErr e => MErr e end
  end.

(* lines 144-150: the curve of one column: (eta, average elementary score) for eta in etas *)
Definition murphy_curve (f : functional) (lvl : Q) (y_obs : list Q) (w : option (list Q))
    (etas : list Q) (col : list Q) : mres (list (Q * Q)) :=
  mall (map (fun eta => match murphy_point f lvl y_obs w col eta with
                        | MOk s => MOk (eta, s) | MErr e => MErr e end) etas).

(* np.linspace(lo, hi, num=k, endpoint=True) *)
Definition linspace (lo hi : Q) (k : nat) : list Q :=
  match k with
  | O => []
  | S O => [lo]
  | S (S _) => map (fun i => Qred (lo + Qnat i * ((hi - lo) / Qnat (k - 1)))) (seq 0 k)
  end.

(* lines 120-122: y_min = min(y_pred_min, y_obs_min), y_max = max(y_pred_max, y_obs_max),
   the minima / maxima over all predictions columns and over the observations *)
Definition murphy_range (y_obs : list Q) (preds : list (list Q)) : option (Q * Q) :=
  match arr_min_max (all_values preds), arr_min_max y_obs with
  | Some (plo, phi), Some (olo, ohi) =>
      Some (if Qle_bool plo olo then plo else olo, if Qle_bool ohi phi then phi else ohi)
  | _, _ => None
  end.

Inductive eta_spec :=
  | EtaCount (k : nat)           (* etas is an int >= 0 (the default is 100) *)
  | EtaList (etas : list Q).     (* etas is array-like *)

(* lines 124-132 *)
Definition murphy_etas (spec : eta_spec) (y_obs : list Q) (preds : list (list Q)) : mres (list Q) :=
  match murphy_range y_obs preds with
  | None => MErr MValueError
  | Some (lo, hi) =>
      if Qeq_bool lo hi then MErr MValueError                              (* lines 124-126 *)
      else MOk (match spec with EtaCount k => linspace lo hi k | EtaList e => e end)
  end.

(* the x data shared by all curves, and one curve per column in column order *)
Definition murphy_diagram (f : functional) (lvl : Q) (y_obs : list Q) (w : option (list Q))
    (spec : eta_spec) (preds : list (list Q)) : mres (list Q * list (list (Q * Q))) :=
  match murphy_etas spec y_obs preds with
  | MErr e => MErr e
  | MOk etas =>
      match mall (map (murphy_curve f lvl y_obs w etas) preds) with
      | MErr e => MErr e
      | MOk curves => MOk (etas, curves)
      end
  end.

(* ------------------------------------------------------------------ *)
(* plot_bias: which rows of compute_bias are drawn, in which series     *)
(* ------------------------------------------------------------------ *)
(* one drawn series: the non-null groups in the order of the frame (markers "o"; error bars /
   band of half length bias_stderr * t-quantile), and the null group (marker "D") *)
Record bias_series := mkbs { bs_main : list gstat; bs_null : option gstat }.

Definition is_null_group (g : gstat) : bool :=
  match g_key g with None => true | Some _ => false end.

Definition series_of (gs : list gstat) : bias_series :=
  mkbs (filter (fun g => negb (is_null_group g)) gs)
       (match filter is_null_group gs with g :: _ => Some g | [] => None end).

Inductive bpres :=
  | BPOk (series : list bias_series)
  | BPNameError            (* lines 494-511: y_pred one-dimensional and feature = None: compute_bias
                              returns no "model" column, feature_name = None and
                              df.get_column(None) raises TypeError *)
  | BPBias (r : bres).     (* whatever compute_bias did instead of returning rows *)

(* `two_d`: y_pred has two dimensions (n_pred > 0), so that compute_bias adds the column "model".
   feature = None  (lines 501-504, 526-527): the models ARE the feature; one series with one
                   point per model, in column order.
   feature given   (lines 528-540): one series per model, in column order, each with the
                   rows of that model in the order of compute_bias. *)
Definition bias_plot (f : functional) (lvl : Q) (ys : list Q) (models : list (list Q)) (two_d : bool)
    (grouping : option (list (option nat) * nat)) (weights : option (list Q)) : bpres :=
  match compute_bias f lvl ys models grouping weights with
  | BOk per_model =>
      match grouping with
      | None => if two_d then BPOk [mkbs (List.concat per_model) None] else BPNameError
      | Some _ => BPOk (map series_of per_model)
      end
  | r => BPBias r
  end.

(* lines 526-532 + 541: pred_names = [None] without feature or without the column "model";
   with_label = feature is not None and (n_models >= 2 or feature_has_nulls) *)
Definition bias_labels (names : list string) (two_d has_feature has_nulls : bool) : list (option string) :=
  if has_feature && two_d then
    (if (2 <=? List.length names)%nat || has_nulls then map Some names else map (fun _ => None) names)
  else [None].
