(* Executable model of src/model_diagnostics/_utils/binning.py
   (`_format_integer`, lines 15-25, and `bin_feature`, lines 28-331; line numbers as of commit b2b5cba).
   Definitions only; the lemmas are in proofs/BinningProps.v.

   Numeric features.  A cell of the feature column is `option ext`:
   None = polars null or NaN (line 158, `fill_nan(None)`), `Fin q` a finite
   value, `MInf` / `PInf` the two float infinities (the code has explicit
   branches for them, lines 261-268).  The ten bin methods collapse to three
   paths: "quantile", "uniform", and the eight numpy histogram rules, whose
   interior edges `np.histogram_bin_edges(a, bins=rule)[1:-1]` are an INPUT of
   the model (cube roots, IQR, skewness: not rational).

   String-like features (Utf8 / Categorical / Enum).  A cell is `option nat`:
   None = null, `Some c` the category with rank c in the natural sort order of
   the column (byte order for strings and categoricals, declaration order for
   enums).  `names` is the table rank -> category name; it is only needed to
   build the pooled label.

   Inputs the real code rejects return the exception class it raises. *)
From Coq Require Import QArith Qreduction List Bool Arith String Ascii DecimalString.
Import ListNotations.
Open Scope Q_scope.
From MD Require Import lib.QLists model.Functionals.

(* ------------------------------------------------------------------ *)
(* extended rationals: float values including the two infinities        *)
Inductive ext := MInf | Fin (q : Q) | PInf.

Definition xleb (a b : ext) : bool :=
  match a, b with
  | MInf, _ => true
  | _, PInf => true
  | Fin x, Fin y => Qle_bool x y
  | _, _ => false
  end.
Definition xltb (a b : ext) : bool := negb (xleb b a).
Definition xeqb (a b : ext) : bool := xleb a b && xleb b a.

(* generic insertion sort (polars `sort`, `np.unique`): any correct sort of a
   total order without ties gives the same list *)
Fixpoint insert_by {A} (le : A -> A -> bool) (x : A) (l : list A) : list A :=
  match l with
  | [] => [x]
  | y :: l' => if le x y then x :: l else y :: insert_by le x l'
  end.
Definition isort {A} (le : A -> A -> bool) (l : list A) : list A :=
  fold_right (insert_by le) [] l.

(* min / max of a non-empty list, same shape as lib.QLists.minQ *)
Fixpoint xminl (x : ext) (l : list ext) : ext :=
  match l with [] => x | y :: l' => xminl (if xleb y x then y else x) l' end.
Fixpoint xmaxl (x : ext) (l : list ext) : ext :=
  match l with [] => x | y :: l' => xmaxl (if xleb x y then y else x) l' end.
Definition xmin_opt (l : list ext) : option ext :=
  match l with [] => None | x :: xs => Some (xminl x xs) end.
Definition xmax_opt (l : list ext) : option ext :=
  match l with [] => None | x :: xs => Some (xmaxl x xs) end.

(* `np.nanquantile(feature, q, method="inverted_cdf")`, line 273: the least value
   whose empirical distribution function reaches q - the definition of
   Functionals.qlow, here over `ext` because the column may hold infinities
   (proofs/BinningProps.xqlow_fin: on finite data it IS `qlow` with unit weights) *)
Definition xcount_le (l : list ext) (t : ext) : nat :=
  List.length (filter (fun e => xleb e t) l).
Definition xreaches (a : Q) (l : list ext) (t : ext) : bool :=
  leb (a * Qnat (List.length l)) (Qnat (xcount_le l t)).
Definition xqlow (a : Q) (l : list ext) : ext :=
  match filter (xreaches a l) l with
  | [] => Fin 0
  | x :: xs => xminl x xs
  end.

(* `np.unique`, line 280: sorted, duplicates removed *)
Fixpoint dedup (l : list ext) : list ext :=
  match l with
  | [] => []
  | x :: l' => match l' with
               | [] => [x]
               | y :: _ => if xeqb x y then dedup l' else x :: dedup l'
               end
  end.
Definition xuniq (l : list ext) : list ext := dedup (isort xleb l).

(* `np.digitize(x, bins, right=True)`, line 294: i with bins[i-1] < x <= bins[i],
   i.e. searchsorted(bins, x, side="left") = the number of edges strictly below x *)
Definition digitize (edges : list ext) (v : ext) : nat :=
  List.length (filter (fun e => xltb e v) edges).

(* lines 296-304: full edge vector and the table of consecutive pairs *)
Fixpoint pairs (l : list ext) : list (ext * ext) :=
  match l with
  | x :: l' => match l' with [] => [] | y :: _ => (x, y) :: pairs l' end
  | [] => []
  end.
Definition full_edges (fmin fmax : ext) (edges : list ext) : list ext :=
  fmin :: edges ++ [fmax].
Definition edge_table (fmin fmax : ext) (edges : list ext) : list (ext * ext) :=
  pairs (full_edges fmin fmax edges).

(* ------------------------------------------------------------------ *)
Inductive bmethod := Quantile | Uniform | NumpyRule.
Inductive nkind := KNum | KBool.      (* KNum: any float or integer dtype *)
Inductive berr := ETypeError | EInvalidOp | EValueError.

Definition nonnull {A} (l : list (option A)) : list A :=
  flat_map (fun o => match o with Some x => [x] | None => [] end) l.
Definition has_nulls {A} (l : list (option A)) : bool :=
  existsb (fun o => match o with None => true | Some _ => false end) l.
Definition b2n (b : bool) : nat := if b then 1%nat else 0%nat.

(* line 165 *)
Definition n_bins_ef0 {A} (n_bins : nat) (feature : list (option A)) : nat :=
  Nat.max 1 (n_bins - b2n (has_nulls feature)).

(* a row of the returned frame: bin number (as stored: line 311 casts the
   numbers to the feature's dtype, so a Boolean feature stores bin <> 0) and the
   pair of edges of the bin the row was digitised into; None = null row *)
Definition nrow := option (nat * (ext * ext)).

Inductive nres :=
  | NOk (n_bins_out : nat) (edges : list ext) (table : list (ext * ext)) (rows : list nrow)
  | NNanEdges            (* NaN edges; old record: before /repo commit b2b5cba "uniform" on a column with
                            only -inf and +inf got here; no input reaches it any more *)
  | NErr (e : berr).

(* lines 261-268 *)
Definition finite_min (vals : list ext) (fmin : ext) : option ext :=
  match fmin with
  | MInf => xmin_opt (filter (fun v => xltb MInf v) vals)
  | _ => Some fmin
  end.
Definition finite_max (vals : list ext) (fmax : ext) : option ext :=
  match fmax with
  | PInf => xmax_opt (filter (fun v => xltb v PInf) vals)
  | _ => Some fmax
  end.

Definition seq1 (m : nat) : list nat := seq 1 (m - 1).     (* np.arange(1, m) *)

(* lines 273-280 *)
Definition quantile_edges (vals : list ext) (m : nat) : list ext :=
  xuniq (map (fun k => xqlow (Qred (Qnat k / Qnat m)) vals) (seq1 m)).
(* line 287 *)
Definition uniform_edges (lo range : Q) (m : nat) : list ext :=
  map (fun k => Fin (Qred (lo + range * Qnat k / Qnat m))) (seq1 m).

Definition stored_bin (kind : nkind) (b : nat) : nat :=
  match kind with KNum => b | KBool => Nat.min b 1 end.

Definition digitize_rows (kind : nkind) (fmin fmax : ext) (edges : list ext)
    (feature : list (option ext)) : list nrow :=
  let table := edge_table fmin fmax edges in
  map (fun o => match o with
                | None => None
                | Some v => let b := digitize edges v in
                            Some (stored_bin kind b, nth b table (fmin, fmax))
                end) feature.

Definition bin_numeric (kind : nkind) (feature : list (option ext)) (n_bins : nat)
    (m : bmethod) (interior : list Q) : nres :=
  if (n_bins <? 2)%nat then NErr EValueError else                    (* line 113 *)
  let vals := nonnull feature in
  let hn := has_nulls feature in
  match xmin_opt vals, xmax_opt vals with                            (* line 249 *)
  | Some fmin, Some fmax =>
      let lo := finite_min vals fmin in                              (* lines 261-268 *)
      let hi := finite_max vals fmax in
      let m_ef := n_bins_ef0 n_bins feature in
      let finish (m_out : nat) (edges : list ext) :=
        NOk (m_out + b2n hn) edges (edge_table fmin fmax edges)
            (digitize_rows kind fmin fmax edges feature) in
      match m with
      | Quantile =>
          match kind, hn with
          | KBool, true => NErr ETypeError       (* np.nanquantile on an object array *)
          | _, _ => finish m_ef (quantile_edges vals m_ef)
          end
      | Uniform =>
          match kind, hn with
          | KBool, true => NErr ETypeError
          | _, _ =>
              match lo, hi with
              | Some l, Some h =>
                  (* line 282: finite_min > finite_max (only -inf and +inf): a single bin *)
                  if xltb h l then finish m_ef []
                  else match l, h with
                       | Fin a, Fin b => finish m_ef (uniform_edges a (b - a) m_ef)   (* lines 286-287 *)
                       | _, _ => NNanEdges   (* inf arithmetic; unreachable: BinningProps.bin_numeric_accepts *)
                       end
              | _, _ => finish m_ef []         (* line 282: no value below +inf / above -inf *)
              end
          end
      | NumpyRule =>
          match kind with
          | KBool => NErr EInvalidOp             (* line 290: is_finite on Boolean *)
          | KNum => finish (S (List.length interior)) (map Fin interior)      (* line 292 *)
          end
      end
  | _, _ =>                          (* lines 250-260: only null / NaN values (`feature_min is None`): every row
                                        goes into the null bin, n_bins = int(has_nulls) *)
      NOk (b2n hn) [] [] (map (fun _ => None) feature)
  end.

(* ------------------------------------------------------------------ *)
(* `_format_integer`, lines 15-25, for a natural number (exact below 2^53) *)
Definition nat_str (n : nat) : string := NilZero.string_of_uint (Nat.to_uint n).

Fixpoint ndigits_fuel (fuel n : nat) : nat :=
  match fuel with
  | O => 1
  | S f => if (n <? 10)%nat then 1%nat else S (ndigits_fuel f (n / 10))
  end.
Definition ndigits (n : nat) : nat := ndigits_fuel n n.

(* round to three significant digits, ties to even: float(f"{x:.3g}") *)
Definition round3 (k : nat) : nat * nat :=       (* (mantissa q, exponent e): value q * 10^e *)
  let e := (ndigits k - 3)%nat in
  let sc := (10 ^ e)%nat in
  let q := (k / sc)%nat in
  let r := (k mod sc)%nat in
  let up := orb (sc <? 2 * r)%nat (andb (2 * r =? sc)%nat (Nat.odd q)) in
  (if up then S q else q, e).

Fixpoint strip_zeros_rev (l : list nat) : list nat :=     (* digits, least significant first *)
  match l with 0%nat :: l' => strip_zeros_rev l' | _ => l end.
Fixpoint frac_digits (width n : nat) : list nat :=         (* least significant first *)
  match width with O => [] | S w => (n mod 10)%nat :: frac_digits w (n / 10) end.
Definition digit_str (d : nat) : string := nat_str d.

Definition suffix_of (mag : nat) : string :=
  match mag with 0 => "" | 1 => "k" | 2 => "M" | 3 => "G" | _ => "T" end%nat%string.

Definition format_mantissa (q e mag : nat) : string :=
  let down := (3 * mag)%nat in                          (* x / 1000^mag = q * 10^(e - down) *)
  if (down <=? e)%nat then nat_str (q * 10 ^ (e - down))
  else let w := (down - e)%nat in
       let ip := (q / 10 ^ w)%nat in
       let fp := (q mod 10 ^ w)%nat in
       let ds := rev (strip_zeros_rev (frac_digits w fp)) in
       match ds with
       | [] => nat_str ip
       | _ => (nat_str ip ++ "." ++ String.concat "" (map digit_str ds))%string
       end.

Definition format_integer (k : nat) : string :=
  if (k <? 1000)%nat then nat_str k else
  let '(q, e) := round3 k in
  let x := (q * 10 ^ e)%nat in
  let mag := Nat.min 4 ((ndigits x - 1) / 3) in        (* the while loop, line 20 *)
  (format_mantissa q e mag ++ suffix_of mag)%string.

(* ------------------------------------------------------------------ *)
(* string-like features, lines 167-245 *)
Inductive skind := SString | SCategorical | SEnum.
Inductive sbin := SBNull | SBKeep (c : nat) | SBOther.
Inductive sres :=
  | SOk (n_bins_out : nat) (kept : list nat) (label : option string) (k : nat) (bins : list sbin)
        (* label = None, k = 0: nothing pooled *)
  | SErr (e : berr).

Definition count_code (c : nat) (feature : list (option nat)) : nat :=
  count_occ Nat.eq_dec (nonnull feature) c.
Definition cats (feature : list (option nat)) : list nat := nodup Nat.eq_dec (nonnull feature).

(* .value_counts().sort(by=["count", name], descending=[True, False]), lines 183-187 *)
Definition freq_le (a b : nat * nat) : bool :=       (* (category, count) *)
  orb (snd b <? snd a)%nat (andb (snd a =? snd b)%nat (fst a <=? fst b)%nat).
Definition freq_table (feature : list (option nat)) : list (nat * nat) :=
  isort freq_le (map (fun c => (c, count_code c feature)) (cats feature)).

Definition name_of (names : list string) (c : nat) : string := nth c names ""%string.
Definition str_mem (s : string) (l : list string) : bool := existsb (String.eqb s) l.

(* lines 217-218: while remaining_name in taken: remaining_name = "_" + remaining_name *)
Fixpoint fresh_loop (fuel : nat) (taken : list string) (s : string) : string :=
  match fuel with
  | O => s
  | S f => if str_mem s taken then fresh_loop f taken ("_" ++ s)%string else s
  end.
Definition pooled_label (taken : list string) (k : nat) : string :=
  fresh_loop (S (List.length taken)) taken ("other " ++ format_integer k)%string.

Definition memn (c : nat) (l : list nat) : bool := existsb (Nat.eqb c) l.

(* lines 214-216, `taken`: every value of the feature (kept or merged) and, for an Enum, every declared
   category *)
Definition taken_names (kind : skind) (names : list string) (table : list (nat * nat)) : list string :=
  map (name_of names) (map fst table) ++ match kind with SEnum => names | _ => [] end.

Definition bin_string (kind : skind) (names : list string) (feature : list (option nat))
    (n_bins : nat) : sres :=
  if (n_bins <? 2)%nat then SErr EValueError else
  let hn := has_nulls feature in
  let m_ef := n_bins_ef0 n_bins feature in
  let table := freq_table feature in
  let ncat := List.length table in
  if (ncat <=? m_ef)%nat then                                               (* line 189 *)
    SOk (ncat + b2n hn) (map fst table) None 0
        (map (fun o => match o with None => SBNull | Some c => SBKeep c end) feature)
  else
    let kept := firstn (m_ef - 1) (map fst table) in                        (* lines 196-207 *)
    let k := (ncat - (m_ef - 1))%nat in                                     (* line 210 *)
    let label := pooled_label (taken_names kind names table) k in
    (* lines 224-244; an Enum is replaced as strings and cast to the enum enlarged by the label *)
    SOk (m_ef + b2n hn) kept (Some label) k
        (map (fun o => match o with
                       | None => SBNull
                       | Some c => if memn c kept then SBKeep c else SBOther
                       end) feature).

(* what the caller sees in the "bin" column *)
Definition render (names : list string) (label : option string) (b : sbin) : option string :=
  match b with
  | SBNull => None
  | SBKeep c => Some (name_of names c)
  | SBOther => match label with Some s => Some s | None => Some ""%string end
  end.
