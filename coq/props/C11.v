(* C11 - Fitted isotonic model predicts a monotone, tie-consistent, clipped function.

   Theorems about the executable model model/IsoFit.v (`fit`, `predict`) of class
   IsotonicRegression (isotonic.py lines 426-567), for EVERY input on which the fit
   succeeds: any X (unsorted, with duplicates), any y, with or without weights, both
   directions, all four functionals.  The only hypothesis is `fit ... = FOk ft`.

   Notation of the statements: the frame after the sort of line 512 is
   `sorted_rows X y w inc` (a permutation of the input rows, C11_rows_perm);
   fit_Xs / fit_ys / fit_ws are its columns; (yiso, r) is what isotonic_regression
   returns on them; `dle inc a b` is a <= b for an increasing fit, b <= a otherwise.

   clause of the property text                          theorem
   ------------------------------------------------------------------------------
   rows are sorted by (X, y desc|asc), stably           C11_rows_perm, C11_rows_sorted,
                                                        C11_rows_stable
   predictions at the training points equal the fit     C11_predict_at_training
   ... which is a function of X (equal X, equal         C11_tie_consistent  (all 4 functionals)
       prediction)
   ... and optimal among monotone functions of X        C11_optimal_fX_mean (with Pythagorean gap),
                                                        C11_optimal_fX_expectile,
                                                        C11_optimal_fX_quantile, C11_optimal_fX_median
   regardless of row order                              C11_optimal_rows_mean (mean: the loss is over
                                                        the rows as given), C11_perm_partial (PARTIAL)
   predictions at new points are finite                 C11_predict_total  (every dtype of X: the
                                                        thresholds are float64 since fix 7007a15)
   monotone in X in the fitted direction                C11_predict_monotone
   lie between neighbouring fitted values               C11_between_neighbours (training points),
                                                        C11_between_thresholds (threshold vertices)
   constant beyond the training range                   C11_predict_clipped (= fitted value of the
                                                        first / last sorted row), C11_predict_fill
                                                        (= first / last y threshold)
   thresholds: X non-decreasing, y monotone             C11_thresholds

   NOT proved / partial
   * C11_perm_partial: invariance under a permutation of the rows is proved when rows
     that tie in the sort order are identical (always so without sample_weight when the
     numbers have one representation).  Full statement in proofs/IsoFitProps.v: missing
     is the invariance of isotonic_regression under a swap of two observations with
     equal y and different weights inside one block (C07).
   * "coincide with scikit-learn's clipped isotonic regression" (mean): scikit-learn is
     not modelled; it is the harness oracle on every mean case (harness/run_isofit.py).
     What is proved instead pins the same function down at the training points
     (C11_predict_at_training + uniqueness C01_unique) and by linear interpolation with
     constant fill between / beyond the thresholds (interp_np is in the trusted base as
     the model of scipy.interpolate.interp1d + numpy.interp).
   * the optimality theorems C11_optimal_fX_* are stated on the sorted frame (a permutation
     of the rows); for the mean C11_optimal_rows_mean restates it on the rows in their
     ORIGINAL order with the prediction function itself as the minimiser.

   FOUND AND REPAIRED (/repo commit 7007a15)
   * Before the fix, X_thresholds_ kept the dtype of X.  For a dtype other than float64 /
     int64 (float32, int32, uint8, polars Float32, ...) interp1d took its generic linear
     path, whose slope is 0/0 when two bracketing thresholds coincide, and the prediction at
     the smallest training X was NaN whenever the first block consists of >= 2 rows with
     that X, or all X are equal (one row suffices):
       fit(np.array([1,1,2], np.float32), [5,5,7]).predict([1.0]) = [nan]   (required 5.0)
       fit(np.array([3], np.float32), [5.]).predict([3.0])        = [nan]   (required 5.0)
     The fix stores the thresholds as float64, so interp1d always evaluates with
     numpy.interp: `predict` (interp_np) is now the model for EVERY dtype of X and
     C11_predict_total (finite predictions) applies to all of them.  The old behaviour is
     kept on record as model/IsoFit.v interp_generic / predict_generic and the examples
     predict_generic_nan_dup / predict_generic_nan_single of proofs/IsoFitProps.v; the
     harness counts any non-finite prediction as a correspondence and a property failure.
   Still true on the current code (documented in a comment of the fix, harmless for
   numpy.interp): thr_strictly_increasing_refuted - X_thresholds_ is NOT duplicate-free
   (fit [1;1;2] [5;5;7] gives X_thresholds_ = [1;1;2]; the class docstring says "Unique
   ascending X values"); C11_thresholds proves non-decreasing X thresholds instead. *)
From Coq Require Import QArith Qreals Reals List Sorted Permutation.
Import ListNotations.
From MD Require Import lib.QLists model.Isotonic model.IsoFit theory.Optimal theory.IsoOptimal
  proofs.IsoProps proofs.IsoQuantProps proofs.IsoFitProps.
Open Scope Q_scope.

Theorem C11_rows_perm : forall X y w inc,
  Permutation (sorted_rows X y w inc)
    (mk_rows X y (match w with Some w' => w' | None => map (fun _ => 1) y end)).
Proof. exact fit_rows_perm. Qed.
Print Assumptions C11_rows_perm.

Theorem C11_rows_sorted : forall X y w inc,
  StronglySorted (fun a b => row_le inc a b = true) (sorted_rows X y w inc).
Proof. exact sorted_rows_sorted. Qed.
Print Assumptions C11_rows_sorted.

Theorem C11_rows_stable : forall X y w inc a,
  filter (eqv row (row_le inc) a) (sorted_rows X y w inc) =
  filter (eqv row (row_le inc) a)
    (mk_rows X y (match w with Some w' => w' | None => map (fun _ => 1) y end)).
Proof. exact sorted_rows_stable. Qed.
Print Assumptions C11_rows_stable.

Theorem C11_thresholds : forall X y w inc f lvl ft, fit X y w inc f lvl = FOk ft ->
  length (X_thresholds ft) = length (y_thresholds ft) /\ X_thresholds ft <> [] /\
  mono_pts inc (thr_points ft) /\
  StronglySorted Qle (X_thresholds ft).
Proof. exact fit_thresholds. Qed.
Print Assumptions C11_thresholds.

Theorem C11_predict_total : forall X y w inc f lvl ft q, fit X y w inc f lvl = FOk ft ->
  exists v, predict ft q = Some v.
Proof. exact predict_total. Qed.
Print Assumptions C11_predict_total.

Theorem C11_predict_at_training : forall X y w inc f lvl ft, fit X y w inc f lvl = FOk ft ->
  exists yiso r,
    isotonic_regression (fit_ys X y w inc) (fit_ws X y w inc) inc f lvl = IOk (yiso, r) /\
    forall k, (k < length X)%nat ->
      exists v, predict ft (nth k (fit_Xs X y w inc) 0) = Some v /\ v == nth k yiso 0.
Proof. exact predict_at_training. Qed.
Print Assumptions C11_predict_at_training.

Theorem C11_tie_consistent : forall X y w inc f lvl ft, fit X y w inc f lvl = FOk ft ->
  exists yiso r,
    isotonic_regression (fit_ys X y w inc) (fit_ws X y w inc) inc f lvl = IOk (yiso, r) /\
    forall i j, (i < length X)%nat -> (j < length X)%nat ->
      nth i (fit_Xs X y w inc) 0 == nth j (fit_Xs X y w inc) 0 -> nth i yiso 0 == nth j yiso 0.
Proof. exact fit_tie_consistent. Qed.
Print Assumptions C11_tie_consistent.

Theorem C11_predict_monotone : forall X y w inc f lvl ft q1 q2 v1 v2,
  fit X y w inc f lvl = FOk ft ->
  q1 <= q2 -> predict ft q1 = Some v1 -> predict ft q2 = Some v2 -> dle inc v1 v2.
Proof. exact predict_monotone. Qed.
Print Assumptions C11_predict_monotone.

Theorem C11_between_neighbours : forall X y w inc f lvl ft, fit X y w inc f lvl = FOk ft ->
  exists yiso r,
    isotonic_regression (fit_ys X y w inc) (fit_ws X y w inc) inc f lvl = IOk (yiso, r) /\
    forall k q v, (S k < length X)%nat ->
      nth k (fit_Xs X y w inc) 0 <= q -> q <= nth (S k) (fit_Xs X y w inc) 0 ->
      predict ft q = Some v ->
      dle inc (nth k yiso 0) v /\ dle inc v (nth (S k) yiso 0).
Proof. exact predict_between_neighbours. Qed.
Print Assumptions C11_between_neighbours.

Theorem C11_between_thresholds : forall X y w inc f lvl ft q v, fit X y w inc f lvl = FOk ft ->
  hd 0 (X_thresholds ft) <= q -> predict ft q = Some v ->
  let ps := thr_points ft in
  (exists i, (S i < length ps)%nat /\
     fst (nth i ps (0, 0)) <= q /\ q < fst (nth (S i) ps (0, 0)) /\
     betw (snd (nth i ps (0, 0))) v (snd (nth (S i) ps (0, 0)))) \/
  (fst (last ps (0, 0)) <= q /\ v = snd (last ps (0, 0))).
Proof. exact predict_between_thresholds. Qed.
Print Assumptions C11_between_thresholds.

Theorem C11_predict_clipped : forall X y w inc f lvl ft, fit X y w inc f lvl = FOk ft ->
  exists yiso r,
    isotonic_regression (fit_ys X y w inc) (fit_ws X y w inc) inc f lvl = IOk (yiso, r) /\
    forall q v, predict ft q = Some v ->
      (q <= nth 0 (fit_Xs X y w inc) 0 -> v == nth 0 yiso 0) /\
      (nth (length X - 1) (fit_Xs X y w inc) 0 <= q -> v == nth (length X - 1) yiso 0).
Proof. exact predict_clipped. Qed.
Print Assumptions C11_predict_clipped.

Theorem C11_predict_fill : forall X y w inc f lvl ft q, fit X y w inc f lvl = FOk ft ->
  (q < hd 0 (X_thresholds ft) -> predict ft q = Some (hd 0 (y_thresholds ft))) /\
  (last (X_thresholds ft) 0 < q -> predict ft q = Some (last (y_thresholds ft) 0)).
Proof. exact predict_fill. Qed.
Print Assumptions C11_predict_fill.

(* optimal among ALL real monotone functions g of X (world R) *)
Theorem C11_optimal_fX_mean : forall X y w inc lvl ft, fit X y w inc IFmean lvl = FOk ft ->
  exists yiso r,
    isotonic_regression (fit_ys X y w inc) (fit_ws X y w inc) inc IFmean lvl = IOk (yiso, r) /\
    forall g : Q -> R, dmonoR inc g ->
      let d := data (fit_ys X y w inc) (fit_ws X y w inc) in
      let u := map g (fit_Xs X y w inc) in
      (lossSq d u >= lossSq d (map Q2R yiso) + wdist d u (map Q2R yiso))%R.
Proof. exact fit_optimal_fX_mean. Qed.
Print Assumptions C11_optimal_fX_mean.

Theorem C11_optimal_fX_expectile : forall X y w inc lvl ft,
  fit X y w inc IFexpectile lvl = FOk ft ->
  exists yiso r,
    isotonic_regression (fit_ys X y w inc) (fit_ws X y w inc) inc IFexpectile lvl = IOk (yiso, r) /\
    forall g : Q -> R, dmonoR inc g ->
      let d := data (fit_ys X y w inc) (fit_ws X y w inc) in
      let u := map g (fit_Xs X y w inc) in
      (lossAs lvl d u >= lossAs lvl d (map Q2R yiso)
         + Rmin (Q2R lvl) (1 - Q2R lvl) * wdist d u (map Q2R yiso))%R.
Proof. exact fit_optimal_fX_expectile. Qed.
Print Assumptions C11_optimal_fX_expectile.

Theorem C11_optimal_fX_quantile : forall X y inc lvl ft,
  fit X y None inc IFquantile lvl = FOk ft ->
  exists yiso r,
    isotonic_regression (fit_ys X y None inc) None inc IFquantile lvl = IOk (yiso, r) /\
    forall g : Q -> R, dmonoR inc g ->
      let d := udata (fit_ys X y None inc) in
      (lossPin lvl d (map g (fit_Xs X y None inc)) >= lossPin lvl d (map Q2R yiso))%R.
Proof. exact fit_optimal_fX_quantile. Qed.
Print Assumptions C11_optimal_fX_quantile.

Theorem C11_optimal_fX_median : forall X y inc lvl ft,
  fit X y None inc IFmedian lvl = FOk ft ->
  exists yiso r,
    isotonic_regression (fit_ys X y None inc) None inc IFmedian lvl = IOk (yiso, r) /\
    forall g : Q -> R, dmonoR inc g ->
      let d := udata (fit_ys X y None inc) in
      (lossPin (1#2) d (map g (fit_Xs X y None inc)) >= lossPin (1#2) d (map Q2R yiso))%R.
Proof. exact fit_optimal_fX_median. Qed.
Print Assumptions C11_optimal_fX_median.

(* mean, on the rows in their original order: the prediction function minimises the
   weighted squared error among all monotone real functions of X *)
Theorem C11_optimal_rows_mean : forall X y w inc lvl ft, fit X y w inc IFmean lvl = FOk ft ->
  forall g : Q -> R, dmonoR inc g ->
    let P := fun q => Q2R (predict_val ft q) in
    (rsum (row_sq g) (rows_of X y w) >=
     rsum (row_sq P) (rows_of X y w) + rsum (row_gap g P) (rows_of X y w))%R.
Proof. exact fit_predict_optimal_rows_mean. Qed.
Print Assumptions C11_optimal_rows_mean.

Theorem C11_perm_partial : forall X y X' y' (w w' : option (list Q)) inc f lvl,
  length X = length y -> length X' = length y' ->
  match w, w' with
  | Some a, Some b => length a = length y /\ length b = length y'
  | None, None => True
  | _, _ => False
  end ->
  Permutation (rows_of X y w) (rows_of X' y' w') ->
  (forall a b, In a (rows_of X y w) -> In b (rows_of X y w) ->
     row_le inc a b = true -> row_le inc b a = true -> a = b) ->
  fit X y w inc f lvl = fit X' y' w' inc f lvl.
Proof. exact fit_perm_partial. Qed.
Print Assumptions C11_perm_partial.


(* ====================================================================================== *)
(* TEXT TO APPEND TO props/C11.v   (needs proofs/IsoFitPerm.vo; compile order below)       *)
(* replaces the PARTIAL entry C11_perm_partial in the header table:                        *)
(*   regardless of row order   C11_perm_all (every functional, both directions, with or    *)
(*                             without weights: thresholds == and predictions == at EVERY  *)
(*                             query point), C11_perm_predict (same, on `predict`),         *)
(*                             C11_perm_training_mean / _expectile (training points,       *)
(*                             the clause of the property text), C11_sorted_frames_equiv,   *)
(*                             C11_perm_quantile / C11_perm_median (closed, no axioms)      *)
(* Axioms: the mean / expectile statements go through the real-number uniqueness of C01/C03 *)
(* (sig_forall_dec, functional_extensionality_dep); quantile / median / frames are closed.  *)
(* ====================================================================================== *)
From MD Require Import model.Functionals proofs.IsoReplicate proofs.IsoFitPerm.

(* predictions at the training points do not depend on the row order: mean *)
Theorem C11_perm_training_mean : forall X y w X' y' w' inc lvl lvl' ft ft',
  fit X y w inc IFmean lvl = FOk ft -> fit X' y' w' inc IFmean lvl' = FOk ft' ->
  Permutation (rows_of X y w) (rows_of X' y' w') ->
  forall rw, In rw (rows_of X y w) -> predict_val ft (rX rw) == predict_val ft' (rX rw).
Proof. exact fit_perm_mean. Qed.
Print Assumptions C11_perm_training_mean.

(* ... expectile *)
Theorem C11_perm_training_expectile : forall X y w X' y' w' inc lvl ft ft',
  fit X y w inc IFexpectile lvl = FOk ft -> fit X' y' w' inc IFexpectile lvl = FOk ft' ->
  Permutation (rows_of X y w) (rows_of X' y' w') ->
  forall rw, In rw (rows_of X y w) -> predict_val ft (rX rw) == predict_val ft' (rX rw).
Proof. exact fit_perm_expectile. Qed.
Print Assumptions C11_perm_training_expectile.

(* the frames after the sort of line 512 of two row orders agree position by position up to == *)
Theorem C11_sorted_frames_equiv : forall X y w X' y' w' inc,
  Permutation (rows_of X y w) (rows_of X' y' w') ->
  Forall2 Qeq (fit_Xs X y w inc) (fit_Xs X' y' w' inc) /\
  Forall2 Qeq (fit_ys X y w inc) (fit_ys X' y' w' inc).
Proof. exact sorted_frames_equiv. Qed.
Print Assumptions C11_sorted_frames_equiv.

(* quantile: the fitted models of two row orders agree up to == (no axioms) *)
Theorem C11_perm_quantile : forall X y w X' y' w' inc lvl ft ft',
  fit X y w inc IFquantile lvl = FOk ft -> fit X' y' w' inc IFquantile lvl = FOk ft' ->
  Permutation (rows_of X y w) (rows_of X' y' w') ->
  Forall2 Qeq (X_thresholds ft) (X_thresholds ft') /\
  Forall2 Qeq (y_thresholds ft) (y_thresholds ft') /\
  forall q q', q == q' -> predict_val ft q == predict_val ft' q'.
Proof. exact fit_perm_quantile. Qed.
Print Assumptions C11_perm_quantile.

Theorem C11_perm_median : forall X y w X' y' w' inc lvl lvl' ft ft',
  fit X y w inc IFmedian lvl = FOk ft -> fit X' y' w' inc IFmedian lvl' = FOk ft' ->
  Permutation (rows_of X y w) (rows_of X' y' w') ->
  Forall2 Qeq (X_thresholds ft) (X_thresholds ft') /\
  Forall2 Qeq (y_thresholds ft) (y_thresholds ft') /\
  forall q q', q == q' -> predict_val ft q == predict_val ft' q'.
Proof. exact fit_perm_median. Qed.
Print Assumptions C11_perm_median.

(* REGARDLESS OF ROW ORDER, in full: every functional, both directions, with or without
   weights; the only hypotheses are that both fits succeed on the same multiset of rows *)
Theorem C11_perm_all : forall X y w X' y' w' inc f lvl ft ft',
  fit X y w inc f lvl = FOk ft -> fit X' y' w' inc f lvl = FOk ft' ->
  Permutation (rows_of X y w) (rows_of X' y' w') ->
  Forall2 Qeq (X_thresholds ft) (X_thresholds ft') /\
  Forall2 Qeq (y_thresholds ft) (y_thresholds ft') /\
  forall q q', q == q' -> predict_val ft q == predict_val ft' q'.
Proof. exact fit_perm_all. Qed.
Print Assumptions C11_perm_all.

Theorem C11_perm_predict : forall X y w X' y' w' inc f lvl ft ft' q,
  fit X y w inc f lvl = FOk ft -> fit X' y' w' inc f lvl = FOk ft' ->
  Permutation (rows_of X y w) (rows_of X' y' w') ->
  exists v v', predict ft q = Some v /\ predict ft' q = Some v' /\ v == v'.
Proof. exact fit_perm_predict. Qed.
Print Assumptions C11_perm_predict.

(* integer sample weights = physically repeated rows (mean, expectile): same predictions at
   the training points (used by C07_replication) *)
Theorem C11_replication : forall X y ks inc, length X = length y -> length ks = length y ->
  forall f lvl ft ft', f = IFmean \/ f = IFexpectile ->
  fit X y (Some (map Qnat ks)) inc f lvl = FOk ft ->
  fit (repl X ks) (repl y ks) None inc f lvl = FOk ft' ->
  (forall rw, In rw (rows_of X y (Some (map Qnat ks))) ->
     predict_val ft (rX rw) == predict_val ft' (rX rw)) /\
  (forall rw, In rw (rows_of (repl X ks) (repl y ks) None) ->
     predict_val ft (rX rw) == predict_val ft' (rX rw)).
Proof. exact fit_replication. Qed.
Print Assumptions C11_replication.


