(* C20 - Documented argument constraints are enforced before any result is produced.

   Theorems about the executable validation model model/Validate.v (`validate e d`: the
   outcome class of entry point e on a call abstracted to descriptor d, guards in the
   order of the Python preludes), for EVERY entry point, every rational level, every
   integer n_bins, all lengths, both weight ranks, all weight sign classes and all
   scoring classes.  `violates e d` (proofs/ValidateProps.v) is the text of the
   property clause by clause; `extra e d` the rejections no clause asks for.

   Clause of the text                                   theorem
   ---------------------------------------------------------------------------------------
   "an exception is raised and no table, fit or score   C20_constraint_enforced
    is returned" in all cases, incl. mis-shaped         (Ok is the only outcome with a result)
    weights handed to a scoring function
   level outside the open unit interval                  C20_level_outside
   unknown functional / bin method, fewer than 2 bins    C20_constraint_enforced via v_functional, v_bin,
                                                         v_nbins; C20_few_bins
   vectors of different length                           C20_length_mismatch
   "... raise ValueError"                                C20_value_error
   "(unimplemented weighted quantile regression raises   C20_weighted_quantile
     NotImplementedError)"
   not vacuous: what violates nothing is accepted        C20_valid_accepted, C20_exact

   Nothing of the text is left unproved ON THE MODEL.  Reading of the text fixed in `violates`
   (see the comments in proofs/ValidateProps.v): the level counts where it is documented as used
   (expectile / quantile; "mean / median: level is neglected"); bin method and bin number count
   where a feature is binned; a constructor that stores an unknown functional returns no score
   and is exempt (score_per_obs / __call__ raise); "isotonic regression" is the function
   isotonic_regression and the public routes into it (decompose, plot_reliability_diagram); the
   class IsotonicRegression of the private package _utils is outside the class clause (in_scope:
   it raises polars' ShapeError for vectors of different length, every public route validates
   before it is reached - that is part of the model and of C20_value_error).
   What ties the model to the code: corr/CmpValidate.v + harness/run_validate.py, the whole
   descriptor space enumerated per entry point against the real functions, and
   translate/gen_guards.py (every `if ...: raise` of the preludes against a committed list).
   History: before commit 872bdaf of /repo plot_reliability_diagram had no length check and raised
   ShapeError for a non-mean functional (found by this correspondence run; see
   plot_reliability_shape_error_old_refuted in proofs/ValidateProps.v). *)
From Coq Require Import QArith ZArith List.
Import ListNotations.
From MD Require Import model.Validate proofs.ValidateProps.

Theorem C20_constraint_enforced : forall e d, violates e d = true -> validate e d <> Ok.
Proof. exact constraint_enforced. Qed.
Print Assumptions C20_constraint_enforced.

Theorem C20_valid_accepted : forall e d, violates e d = false -> extra e d = false -> validate e d = Ok.
Proof. exact valid_accepted. Qed.
Print Assumptions C20_valid_accepted.

(* the exact set of accepted calls *)
Theorem C20_exact : forall e d, validate e d = Ok <-> violates e d = false /\ extra e d = false.
Proof. exact validate_ok_iff. Qed.
Print Assumptions C20_exact.

Theorem C20_value_error : forall e d,
  ve_violates e d = true -> in_scope e = true ->
  validate e d = ValueError \/ (v_wq e d = true /\ validate e d = NotImplementedError).
Proof. exact constraint_value_error. Qed.
Print Assumptions C20_value_error.

Theorem C20_weighted_quantile : forall e d,
  v_wq e d = true -> ve_violates e d = false -> v_weights_any e d = false -> extra e d = false ->
  validate e d = NotImplementedError.
Proof. exact weighted_quantile_not_implemented. Qed.
Print Assumptions C20_weighted_quantile.

Theorem C20_level_outside : forall e d,
  level_relevant e d = true -> ~ (0 < d_level d /\ d_level d < 1)%Q -> validate e d <> Ok.
Proof. exact level_outside_rejected. Qed.
Print Assumptions C20_level_outside.

Theorem C20_few_bins : forall e d, binned e d = true -> (d_n_bins d < 2)%Z -> validate e d <> Ok.
Proof. exact few_bins_rejected. Qed.
Print Assumptions C20_few_bins.

Theorem C20_length_mismatch : forall e d, has_pred e = true -> d_n_obs d <> d_n_pred d -> validate e d <> Ok.
Proof. exact length_mismatch_rejected. Qed.
Print Assumptions C20_length_mismatch.
