(* C06 - Score decomposition: exact additive identity and non-negative components.
   Theorems about the executable model model/Decompose.v (`decompose`), which is
   generic in the per-observation score S : Q -> Q -> option Q (None = ValueError),
   takes the forecast matrix as a list of columns, and models the repair path as the Python
   does.  The theorems are stated for an ARBITRARY code variant v (record `variant` of
   model/Decompose.v), hence in particular for `fixed`, the code as it is now.

   FOUND AND REPAIRED (this property's work found it; /repo commit e52a7ce): a data set with a
   single row raised ValueError (np.squeeze made the recalibrated vector 0-d), so the identity
   did not hold "for every data set".  Now accepted (DecomposeProps.single_row_fixed_example);
   `single_row_rejected` in proofs/DecomposeProps.v is kept only as the labelled record of the
   behaviour BEFORE e52a7ce.  See C07.v for d3b9226 (median alias) and 04732ba (repair by value).

   property clause                                              theorem
   -----------------------------------------------------------------------------------
   score = miscalibration - discrimination + uncertainty        C06_identity   (every S, every input
     for every data set and every library score                                 the model accepts)
   score is the plain average score of the forecast             C06_score_is_avg
   uncertainty does not depend on the forecasts                 C06_unc_indep, C06_unc_indep2
   uncertainty is the score of the constant marginal forecast   C06_unc_is_marginal_score
   ... of the BEST constant forecast                            C06_unc_is_best_constant_sq (squared error;
                                                                 the other families are C05: proofs/Consistency.v)
   miscalibration >= 0 and discrimination >= 0                  C06_mcb_nonneg, C06_dsc_nonneg (squared error),
     (smallest observation admissible)                          C06_sign_expectile2 (HomogeneousExpectileScore
                                                                 degree 2, any level), C06_sign_pinball (PinballLoss,
                                                                 any level) - exact arithmetic, competitors: ALL
                                                                 monotone sequences via C01/C03/C02 optimality
   discrimination = 0 for constant forecasts                    C06_dsc_zero_if_constant (mean and expectile
                                                                 functional, EVERY score S that does not distinguish
                                                                 equal rationals, min y admissible)
   miscalibration = 0 for recalibrated forecasts                C06_mcb_zero_if_recalibrated_partial

   ... for ALL Bregman-type scores of the mean (world R)         C06_recal_bregman_sign: squared error (h = 2), Poisson
                                                                 deviance (h = 1), Gamma deviance (h = 0), every
                                                                 HomogeneousExpectileScore(h, 1/2): the model's
                                                                 recalibrated forecast has total real score
                                                                 breg h <= that of the forecast and of every
                                                                 admissible constant (so mcb >= 0, dsc >= 0 in R)

   NOT proved (kept as commented full statements in proofs/DecomposeProps.v):
   - signs for the log loss, for asymmetric homogeneous scores of degree <> 2 and for quantile scores of
     degree <> 1: the model's recalibrated forecast is the same for every score of the functional, and
     the judge of harness/run_decompose.py checks the signs (-1e-12 relative) on the implementation for all
     12 configurations;
   - discrimination = 0 for constant forecasts with a quantile score (mid-quantile path);
   - miscalibration = 0 for the OUTPUT of a recalibration (only for fixed points: _partial).
   Axioms: the sign theorems go through the real-number optimality theorems of C01/C02/C03 and inherit
   ClassicalDedekindReals.sig_forall_dec and functional_extensionality_dep; C06_recal_bregman_sign is a
   world-R theorem (the four permitted axioms); all others are closed. *)
From Coq Require Import QArith List.
Import ListNotations.
From Coq Require Import Qreals Reals.
From MD Require Import lib.QLists model.Functionals model.Isotonic model.Decompose spec.Scores
  proofs.DecomposeProps.
Open Scope Q_scope.

Theorem C06_identity : forall v S sf_fun sf_level y cols w functional level rows,
  decompose v S sf_fun sf_level y cols w functional level = DOk rows ->
  Forall (fun r => sco r == mcb r - dsc r + unc r) rows.
Proof. exact decomp_identity. Qed.
Print Assumptions C06_identity.

Theorem C06_score_is_avg : forall v S sf_fun sf_level y cols w functional level rows,
  decompose v S sf_fun sf_level y cols w functional level = DOk rows ->
  Forall2 (fun x r =>
     exists ss, scores S y x = Some ss /\
       sco r == wsum (combine ss (weights_or_ones (length y) w))
                / wtot (combine ss (weights_or_ones (length y) w))) cols rows.
Proof. exact decomp_score_is_avg. Qed.
Print Assumptions C06_score_is_avg.

(* [uncertainty] has no forecast argument *)
Theorem C06_unc_indep : forall v S sf_fun sf_level y cols w functional level rows,
  decompose v S sf_fun sf_level y cols w functional level = DOk rows ->
  exists u, uncertainty v S sf_fun sf_level y w functional level = Some u /\
            Forall (fun r => unc r = u) rows.
Proof. exact decomp_unc_indep. Qed.
Print Assumptions C06_unc_indep.

Theorem C06_unc_indep2 : forall v S sf_fun sf_level y cols cols' w functional level rows rows' r r',
  decompose v S sf_fun sf_level y cols w functional level = DOk rows ->
  decompose v S sf_fun sf_level y cols' w functional level = DOk rows' ->
  In r rows -> In r' rows' -> unc r = unc r'.
Proof. exact decomp_unc_indep2. Qed.
Print Assumptions C06_unc_indep2.

Theorem C06_unc_is_marginal_score : forall v S sf_fun sf_level y cols w functional level rows,
  decompose v S sf_fun sf_level y cols w functional level = DOk rows ->
  exists fa f a m, infer sf_fun sf_level functional level = DOk fa /\ alias v fa = (f, a) /\
    marginal f a y (weights_or_ones (length y) w) = Some m /\
    Forall (fun r => avg_score S y (repeat m (length y)) (weights_or_ones (length y) w)
                     = Some (unc r)) rows.
Proof. exact decomp_unc_is_marginal_score. Qed.
Print Assumptions C06_unc_is_marginal_score.

Theorem C06_unc_is_best_constant_sq : forall v sf_fun sf_level y cols w functional level a rows,
  infer sf_fun sf_level functional level = DOk (IFmean, a) ->
  decompose v (total sq_score) sf_fun sf_level y cols w functional level = DOk rows ->
  forall c sc, avg_score (total sq_score) y (repeat c (length y)) (weights_or_ones (length y) w) = Some sc ->
  Forall (fun r => unc r <= sc) rows.
Proof. exact decomp_unc_is_best_constant_sq. Qed.
Print Assumptions C06_unc_is_best_constant_sq.

Theorem C06_mcb_nonneg : forall v sf_fun sf_level y cols w functional level a rows,
  infer sf_fun sf_level functional level = DOk (IFmean, a) ->
  decompose v (total sq_score) sf_fun sf_level y cols w functional level = DOk rows ->
  Forall (fun r => 0 <= mcb r) rows.
Proof. exact decomp_mcb_nonneg. Qed.
Print Assumptions C06_mcb_nonneg.

Theorem C06_dsc_nonneg : forall v sf_fun sf_level y cols w functional level a rows,
  infer sf_fun sf_level functional level = DOk (IFmean, a) ->
  decompose v (total sq_score) sf_fun sf_level y cols w functional level = DOk rows ->
  Forall (fun r => 0 <= dsc r) rows.
Proof. exact decomp_dsc_nonneg. Qed.
Print Assumptions C06_dsc_nonneg.

Theorem C06_sign_expectile2 : forall v sf_fun sf_level y cols w functional level a rows,
  infer sf_fun sf_level functional level = DOk (IFexpectile, a) ->
  decompose v (total (asq_score a)) sf_fun sf_level y cols w functional level = DOk rows ->
  Forall (fun r => 0 <= mcb r /\ 0 <= dsc r) rows.
Proof. exact decomp_sign_expectile2. Qed.
Print Assumptions C06_sign_expectile2.

Theorem C06_sign_pinball : forall v sf_fun sf_level y cols w functional level a rows,
  infer sf_fun sf_level functional level = DOk (IFquantile, a) ->
  decompose v (total (pin_score a)) sf_fun sf_level y cols w functional level = DOk rows ->
  Forall (fun r => 0 <= mcb r /\ 0 <= dsc r) rows.
Proof. exact decomp_sign_pinball. Qed.
Print Assumptions C06_sign_pinball.

Theorem C06_dsc_zero_if_constant : forall (v : variant) (S : Q -> Q -> option Q),
  (forall y z z', z == z' -> S y z = S y z') ->
  forall sf_fun sf_level y cols w functional level rows f a,
  infer sf_fun sf_level functional level = DOk (f, a) ->
  f = IFmean \/ f = IFexpectile ->
  allowed S (hd 0 y) (minQ (hd 0 y) (tl y)) = true ->
  decompose v S sf_fun sf_level y cols w functional level = DOk rows ->
  Forall2 (fun x r => (exists c, x = repeat c (length y)) -> dsc r == 0) cols rows.
Proof. exact decomp_dsc_zero_if_constant. Qed.
Print Assumptions C06_dsc_zero_if_constant.

Theorem C06_mcb_zero_if_recalibrated_partial :
  forall v (S : Q -> Q -> option Q), (forall y z z', z == z' -> S y z = S y z') ->
  forall sf_fun sf_level y cols w functional level rows f a m ymin ok sm,
  run_ok v S sf_fun sf_level y cols w functional level f a m ymin ok sm rows ->
  Forall2 (fun x r => (exists r0, recal_final v f a y w ymin ok x = DOk r0 /\ Forall2 Qeq r0 x) ->
                      mcb r == 0) cols rows.
Proof. exact decomp_mcb_zero_if_recalibrated_partial. Qed.
Print Assumptions C06_mcb_zero_if_recalibrated_partial.

(* world R: `breg h y z` is the per-observation score of spec/Scores.v (2 x Bregman divergence of
   degree h; = HomogeneousExpectileScore(h, 1/2), proofs/Consistency.v hes_val_half), `domZ h` its
   admissible predictions; tlossR sums w_i * breg h y_i z_i over the rows *)
Theorem C06_recal_bregman_sign : forall (h : R) a x y w r,
  y <> [] -> length x = length y ->
  (match w with None => True | Some wl => length wl = length y end) ->
  all_pos_w w = true ->
  recalibrate IFmean a x y w = DOk r ->
  domZ h (Q2R (minQ (hd 0 y) (tl y))) ->
  Forall (fun c => domZ h (Q2R c)) x ->
  let wl := weights_or_ones (length y) w in
  (tlossR (breg h) (combine y wl) r <= tlossR (breg h) (combine y wl) x)%R /\
  forall c, domZ h (Q2R c) ->
    (tlossR (breg h) (combine y wl) r <= tlossR (breg h) (combine y wl) (repeat c (length y)))%R.
Proof. exact recal_bregman_sign. Qed.
Print Assumptions C06_recal_bregman_sign.
