(* C06 - Score decomposition: exact additive identity and non-negative components.
   Theorems about the executable model model/Decompose.v (`decompose`), which is
   generic in the per-observation score S : Q -> Q -> option Q (None = ValueError),
   takes the forecast matrix as a list of columns, and models the repair path as the Python
   does.  The theorems are stated for an ARBITRARY code variant v (record `variant` of
   model/Decompose.v), hence in particular for `fixed`, the code as it is now.

   FOUND AND REPAIRED (this property's work found it; /repo commit e52a7ce): a data set with a
   single row raised ValueError (np.squeeze made the recalibrated vector 0-d), so the identity
   did not hold "for every data set".  Now accepted (DecomposeProps.single_row_fixed_example);
   `single_row_rejected` in proofs/DecomposeProps.v is kept only as the labelled record of the
   behaviour BEFORE e52a7ce.  See C07.v for d3b9226 (median alias) and 04732ba (repair by value).

   property clause                                              theorem
   -----------------------------------------------------------------------------------
   score = miscalibration - discrimination + uncertainty        C06_identity   (every S, every input
     for every data set and every library score                                 the model accepts)
   score is the plain average score of the forecast             C06_score_is_avg
   uncertainty does not depend on the forecasts                 C06_unc_indep, C06_unc_indep2
   uncertainty is the score of the constant marginal forecast   C06_unc_is_marginal_score
   ... of the BEST constant forecast                            C06_unc_is_best_constant_sq (squared error;
                                                                 the other families are C05: proofs/Consistency.v)
   miscalibration >= 0 and discrimination >= 0                  C06_mcb_nonneg, C06_dsc_nonneg (squared error),
     (smallest observation admissible)                          C06_sign_expectile2 (HomogeneousExpectileScore
                                                                 degree 2, any level), C06_sign_pinball (PinballLoss,
                                                                 any level) - exact arithmetic, competitors: ALL
                                                                 monotone sequences via C01/C03/C02 optimality
   discrimination = 0 for constant forecasts                    C06_dsc_zero_if_constant (mean and expectile
                                                                 functional, EVERY score S that does not distinguish
                                                                 equal rationals, min y admissible)
   miscalibration = 0 for recalibrated forecasts                C06_mcb_zero_if_recalibrated_partial

   ... for ALL Bregman-type scores of the mean (world R)         C06_recal_bregman_sign: squared error (h = 2), Poisson
                                                                 deviance (h = 1), Gamma deviance (h = 0), every
                                                                 HomogeneousExpectileScore(h, 1/2): the model's
                                                                 recalibrated forecast has total real score
                                                                 breg h <= that of the forecast and of every
                                                                 admissible constant (so mcb >= 0, dsc >= 0 in R)

   ... for EVERY library score (world R, proofs/DecomposeSigns.v, appended at the end of this file):
   C06_recal_expectile_sign (every degree, every level: asymmetric homogeneous scores), C06_recal_quantile_sign
   (every degree, every level: quantile scores incl. pinball), C06_recal_logloss_sign (recalibrated values in (0,1));
   discrimination = 0 for constant forecasts with quantile scores: C06_dsc_zero_if_constant_quantile;
   miscalibration = 0 for the OUTPUT of a recalibration (idempotence of the recalibration, all functionals):
   C06_mcb_zero_if_recalibrated.

   NOT proved: log loss when a block of all-0 / all-1 observations is recalibrated to exactly 0 or 1 (the real-valued
   specification of the log loss does not cover predictions 0 and 1; C04 excludes them too) - judged on the
   implementation by harness/run_decompose.py.
   Axioms: the sign theorems go through the real-number optimality theorems of C01/C02/C03 and inherit
   ClassicalDedekindReals.sig_forall_dec and functional_extensionality_dep; C06_recal_bregman_sign is a
   world-R theorem (the four permitted axioms); all others are closed. *)
From Coq Require Import QArith List.
Import ListNotations.
From Coq Require Import Qreals Reals.
From MD Require Import lib.QLists model.Functionals model.Isotonic model.Decompose spec.Scores
  proofs.DecomposeProps.
Open Scope Q_scope.

Theorem C06_identity : forall v S sf_fun sf_level y cols w functional level rows,
  decompose v S sf_fun sf_level y cols w functional level = DOk rows ->
  Forall (fun r => sco r == mcb r - dsc r + unc r) rows.
Proof. exact decomp_identity. Qed.
Print Assumptions C06_identity.

Theorem C06_score_is_avg : forall v S sf_fun sf_level y cols w functional level rows,
  decompose v S sf_fun sf_level y cols w functional level = DOk rows ->
  Forall2 (fun x r =>
     exists ss, scores S y x = Some ss /\
       sco r == wsum (combine ss (weights_or_ones (length y) w))
                / wtot (combine ss (weights_or_ones (length y) w))) cols rows.
Proof. exact decomp_score_is_avg. Qed.
Print Assumptions C06_score_is_avg.

(* [uncertainty] has no forecast argument *)
Theorem C06_unc_indep : forall v S sf_fun sf_level y cols w functional level rows,
  decompose v S sf_fun sf_level y cols w functional level = DOk rows ->
  exists u, uncertainty v S sf_fun sf_level y w functional level = Some u /\
            Forall (fun r => unc r = u) rows.
Proof. exact decomp_unc_indep. Qed.
Print Assumptions C06_unc_indep.

Theorem C06_unc_indep2 : forall v S sf_fun sf_level y cols cols' w functional level rows rows' r r',
  decompose v S sf_fun sf_level y cols w functional level = DOk rows ->
  decompose v S sf_fun sf_level y cols' w functional level = DOk rows' ->
  In r rows -> In r' rows' -> unc r = unc r'.
Proof. exact decomp_unc_indep2. Qed.
Print Assumptions C06_unc_indep2.

Theorem C06_unc_is_marginal_score : forall v S sf_fun sf_level y cols w functional level rows,
  decompose v S sf_fun sf_level y cols w functional level = DOk rows ->
  exists fa f a m, infer sf_fun sf_level functional level = DOk fa /\ alias v fa = (f, a) /\
    marginal f a y (weights_or_ones (length y) w) = Some m /\
    Forall (fun r => avg_score S y (repeat m (length y)) (weights_or_ones (length y) w)
                     = Some (unc r)) rows.
Proof. exact decomp_unc_is_marginal_score. Qed.
Print Assumptions C06_unc_is_marginal_score.

Theorem C06_unc_is_best_constant_sq : forall v sf_fun sf_level y cols w functional level a rows,
  infer sf_fun sf_level functional level = DOk (IFmean, a) ->
  decompose v (total sq_score) sf_fun sf_level y cols w functional level = DOk rows ->
  forall c sc, avg_score (total sq_score) y (repeat c (length y)) (weights_or_ones (length y) w) = Some sc ->
  Forall (fun r => unc r <= sc) rows.
Proof. exact decomp_unc_is_best_constant_sq. Qed.
Print Assumptions C06_unc_is_best_constant_sq.

Theorem C06_mcb_nonneg : forall v sf_fun sf_level y cols w functional level a rows,
  infer sf_fun sf_level functional level = DOk (IFmean, a) ->
  decompose v (total sq_score) sf_fun sf_level y cols w functional level = DOk rows ->
  Forall (fun r => 0 <= mcb r) rows.
Proof. exact decomp_mcb_nonneg. Qed.
Print Assumptions C06_mcb_nonneg.

Theorem C06_dsc_nonneg : forall v sf_fun sf_level y cols w functional level a rows,
  infer sf_fun sf_level functional level = DOk (IFmean, a) ->
  decompose v (total sq_score) sf_fun sf_level y cols w functional level = DOk rows ->
  Forall (fun r => 0 <= dsc r) rows.
Proof. exact decomp_dsc_nonneg. Qed.
Print Assumptions C06_dsc_nonneg.

Theorem C06_sign_expectile2 : forall v sf_fun sf_level y cols w functional level a rows,
  infer sf_fun sf_level functional level = DOk (IFexpectile, a) ->
  decompose v (total (asq_score a)) sf_fun sf_level y cols w functional level = DOk rows ->
  Forall (fun r => 0 <= mcb r /\ 0 <= dsc r) rows.
Proof. exact decomp_sign_expectile2. Qed.
Print Assumptions C06_sign_expectile2.

Theorem C06_sign_pinball : forall v sf_fun sf_level y cols w functional level a rows,
  infer sf_fun sf_level functional level = DOk (IFquantile, a) ->
  decompose v (total (pin_score a)) sf_fun sf_level y cols w functional level = DOk rows ->
  Forall (fun r => 0 <= mcb r /\ 0 <= dsc r) rows.
Proof. exact decomp_sign_pinball. Qed.
Print Assumptions C06_sign_pinball.

Theorem C06_dsc_zero_if_constant : forall (v : variant) (S : Q -> Q -> option Q),
  (forall y z z', z == z' -> S y z = S y z') ->
  forall sf_fun sf_level y cols w functional level rows f a,
  infer sf_fun sf_level functional level = DOk (f, a) ->
  f = IFmean \/ f = IFexpectile ->
  allowed S (hd 0 y) (minQ (hd 0 y) (tl y)) = true ->
  decompose v S sf_fun sf_level y cols w functional level = DOk rows ->
  Forall2 (fun x r => (exists c, x = repeat c (length y)) -> dsc r == 0) cols rows.
Proof. exact decomp_dsc_zero_if_constant. Qed.
Print Assumptions C06_dsc_zero_if_constant.

Theorem C06_mcb_zero_if_recalibrated_partial :
  forall v (S : Q -> Q -> option Q), (forall y z z', z == z' -> S y z = S y z') ->
  forall sf_fun sf_level y cols w functional level rows f a m ymin ok sm,
  run_ok v S sf_fun sf_level y cols w functional level f a m ymin ok sm rows ->
  Forall2 (fun x r => (exists r0, recal_final v f a y w ymin ok x = DOk r0 /\ Forall2 Qeq r0 x) ->
                      mcb r == 0) cols rows.
Proof. exact decomp_mcb_zero_if_recalibrated_partial. Qed.
Print Assumptions C06_mcb_zero_if_recalibrated_partial.

(* world R: `breg h y z` is the per-observation score of spec/Scores.v (2 x Bregman divergence of
   degree h; = HomogeneousExpectileScore(h, 1/2), proofs/Consistency.v hes_val_half), `domZ h` its
   admissible predictions; tlossR sums w_i * breg h y_i z_i over the rows *)
Theorem C06_recal_bregman_sign : forall (h : R) a x y w r,
  y <> [] -> length x = length y ->
  (match w with None => True | Some wl => length wl = length y end) ->
  all_pos_w w = true ->
  recalibrate IFmean a x y w = DOk r ->
  domZ h (Q2R (minQ (hd 0 y) (tl y))) ->
  Forall (fun c => domZ h (Q2R c)) x ->
  let wl := weights_or_ones (length y) w in
  (tlossR (breg h) (combine y wl) r <= tlossR (breg h) (combine y wl) x)%R /\
  forall c, domZ h (Q2R c) ->
    (tlossR (breg h) (combine y wl) r <= tlossR (breg h) (combine y wl) (repeat c (length y)))%R.
Proof. exact recal_bregman_sign. Qed.
Print Assumptions C06_recal_bregman_sign.

(* ---- to append to props/C06.v (after the existing theorems) -------------------------------
   additional import line: *)
From MD Require Import proofs.ScoreProps proofs.Consistency proofs.DecomposeSigns.
Open Scope Q_scope.

(* C06 signs, world R, every HomogeneousExpectileScore(degree h, level a), 0 < a < 1, expectile
   functional, optional positive weights: hes_val h (Q2R a) is the per-observation score
   (Consistency.hes_val_is_spec / hes_val_is_gen), domZ h its admissible predictions.  The
   recalibrated values are admissible; their total score is <= that of the forecast (mcb >= 0)
   and <= that of every admissible constant (dsc >= 0; the marginal is one: C06_marginal_ge_min). *)
Theorem C06_recal_expectile_sign : forall (h : R) (a : Q) x y w r,
  0 < a /\ a < 1 ->
  y <> [] -> length x = length y ->
  (match w with None => True | Some wl => length wl = length y end) ->
  all_pos_w w = true ->
  recalibrate IFexpectile a x y w = DOk r ->
  domZ h (Q2R (minQ (hd 0 y) (tl y))) ->
  Forall (fun c => domZ h (Q2R c)) x ->
  let wl := weights_or_ones (length y) w in
  Forall (fun q => domZ h (Q2R q)) r /\
  (tlossR (hes_val h (Q2R a)) (combine y wl) r <= tlossR (hes_val h (Q2R a)) (combine y wl) x)%R /\
  forall c, domZ h (Q2R c) ->
    (tlossR (hes_val h (Q2R a)) (combine y wl) r
     <= tlossR (hes_val h (Q2R a)) (combine y wl) (repeat c (length y)))%R.
Proof. exact recal_expectile_sign. Qed.
Print Assumptions C06_recal_expectile_sign.

(* every HomogeneousQuantileScore(degree h, level a) including PinballLoss (h = 1), quantile
   functional (a successful recalibration has no weights): hqs_val h (Q2R a) is the per-observation
   score (Consistency.hqs_val_is_spec / hqs_val_is_gen), dQ_h h its admissible values *)
Theorem C06_recal_quantile_sign : forall (h : R) (a : Q) x y w r,
  0 < a /\ a < 1 ->
  y <> [] -> length x = length y ->
  (match w with None => True | Some wl => length wl = length y end) ->
  all_pos_w w = true ->
  recalibrate IFquantile a x y w = DOk r ->
  dQ_h h (Q2R (minQ (hd 0 y) (tl y))) ->
  Forall (fun c => dQ_h h (Q2R c)) x ->
  let wl := weights_or_ones (length y) w in
  Forall (fun q => dQ_h h (Q2R q)) r /\
  (tlossR (hqs_val h (Q2R a)) (combine y wl) r <= tlossR (hqs_val h (Q2R a)) (combine y wl) x)%R /\
  forall c, dQ_h h (Q2R c) ->
    (tlossR (hqs_val h (Q2R a)) (combine y wl) r
     <= tlossR (hqs_val h (Q2R a)) (combine y wl) (repeat c (length y)))%R.
Proof. exact recal_quantile_sign. Qed.
Print Assumptions C06_recal_quantile_sign.

(* LogLoss, mean functional.  HYPOTHESIS: the recalibrated values are in (0,1) - not implied by
   "min y admissible": a block of observations that are all 1 (all 0) is recalibrated to 1 (0),
   where the real-valued specification spec_logloss does not represent the library's value
   (the library itself has no domain check and returns xlogy(0,0) = 0 for such a row). *)
Theorem C06_recal_logloss_sign : forall (a : Q) x y w r,
  y <> [] -> length x = length y ->
  (match w with None => True | Some wl => length wl = length y end) ->
  all_pos_w w = true ->
  recalibrate IFmean a x y w = DOk r ->
  Forall (fun q => (0 < Q2R q < 1)%R) r ->
  Forall (fun c => (0 < Q2R c < 1)%R) x ->
  let wl := weights_or_ones (length y) w in
  (tlossR spec_logloss (combine y wl) r <= tlossR spec_logloss (combine y wl) x)%R /\
  forall c, (0 < Q2R c < 1)%R ->
    (tlossR spec_logloss (combine y wl) r <= tlossR spec_logloss (combine y wl) (repeat c (length y)))%R.
Proof. exact recal_logloss_sign. Qed.
Print Assumptions C06_recal_logloss_sign.

(* every recalibrated value and the marginal are >= the smallest observation: "min y admissible"
   makes them admissible for every score whose admissible predictions are an up-set *)
Theorem C06_recal_ge_min : forall f a x y w r,
  length x = length y ->
  (match w with None => True | Some wl => length wl = length y end) ->
  recalibrate f a x y w = DOk r ->
  Forall (fun q => minQ (hd 0 y) (tl y) <= q) r.
Proof. exact recal_ge_min. Qed.
Print Assumptions C06_recal_ge_min.

Theorem C06_marginal_ge_min : forall f a y w m,
  (has_level f = true -> 0 < a /\ a < 1) ->
  y <> [] -> (match w with None => True | Some wl => length wl = length y end) ->
  all_pos_w w = true ->
  marginal f a y (weights_or_ones (length y) w) = Some m ->
  minQ (hd 0 y) (tl y) <= m.
Proof. exact marginal_ge_min. Qed.
Print Assumptions C06_marginal_ge_min.

(* Parts B and D with the model's own marginal as the constant competitor: under "min y admissible"
   (and admissible forecasts) alone, mcb >= 0 and dsc >= 0 in R *)
Theorem C06_recal_expectile_sign_marginal : forall (h : R) (a : Q) x y w r m,
  0 < a /\ a < 1 ->
  y <> [] -> length x = length y ->
  (match w with None => True | Some wl => length wl = length y end) ->
  all_pos_w w = true ->
  recalibrate IFexpectile a x y w = DOk r ->
  marginal IFexpectile a y (weights_or_ones (length y) w) = Some m ->
  domZ h (Q2R (minQ (hd 0 y) (tl y))) ->
  Forall (fun c => domZ h (Q2R c)) x ->
  let wl := weights_or_ones (length y) w in
  domZ h (Q2R m) /\
  (tlossR (hes_val h (Q2R a)) (combine y wl) r <= tlossR (hes_val h (Q2R a)) (combine y wl) x)%R /\
  (tlossR (hes_val h (Q2R a)) (combine y wl) r
   <= tlossR (hes_val h (Q2R a)) (combine y wl) (repeat m (length y)))%R.
Proof. exact recal_expectile_sign_marginal. Qed.
Print Assumptions C06_recal_expectile_sign_marginal.

Theorem C06_recal_quantile_sign_marginal : forall (h : R) (a : Q) x y w r m,
  0 < a /\ a < 1 ->
  y <> [] -> length x = length y ->
  (match w with None => True | Some wl => length wl = length y end) ->
  all_pos_w w = true ->
  recalibrate IFquantile a x y w = DOk r ->
  marginal IFquantile a y (weights_or_ones (length y) w) = Some m ->
  dQ_h h (Q2R (minQ (hd 0 y) (tl y))) ->
  Forall (fun c => dQ_h h (Q2R c)) x ->
  let wl := weights_or_ones (length y) w in
  dQ_h h (Q2R m) /\
  (tlossR (hqs_val h (Q2R a)) (combine y wl) r <= tlossR (hqs_val h (Q2R a)) (combine y wl) x)%R /\
  (tlossR (hqs_val h (Q2R a)) (combine y wl) r
   <= tlossR (hqs_val h (Q2R a)) (combine y wl) (repeat m (length y)))%R.
Proof. exact recal_quantile_sign_marginal. Qed.
Print Assumptions C06_recal_quantile_sign_marginal.

(* log loss with all observations strictly inside (0,1): no hypothesis on the recalibrated values *)
Theorem C06_recal_logloss_sign_interior : forall (a : Q) x y w r lo hi,
  0 < lo -> hi < 1 -> (forall q, In q y -> lo <= q /\ q <= hi) ->
  y <> [] -> length x = length y ->
  (match w with None => True | Some wl => length wl = length y end) ->
  all_pos_w w = true ->
  recalibrate IFmean a x y w = DOk r ->
  Forall (fun c => (0 < Q2R c < 1)%R) x ->
  let wl := weights_or_ones (length y) w in
  (tlossR spec_logloss (combine y wl) r <= tlossR spec_logloss (combine y wl) x)%R /\
  forall c, (0 < Q2R c < 1)%R ->
    (tlossR spec_logloss (combine y wl) r <= tlossR spec_logloss (combine y wl) (repeat c (length y)))%R.
Proof. exact recal_logloss_sign_interior. Qed.
Print Assumptions C06_recal_logloss_sign_interior.

(* discrimination = 0 for a constant forecast column, quantile functional ("quantile", or
   "median" as its alias), every score that does not distinguish equal rationals *)
Theorem C06_dsc_zero_if_constant_quantile :
  forall (vr : variant) (S : Q -> Q -> option Q),
  (forall y z z', z == z' -> S y z = S y z') ->
  forall sf_fun sf_level y cols w functional level rows fa a,
  infer sf_fun sf_level functional level = DOk fa ->
  alias vr fa = (IFquantile, a) ->
  allowed S (hd 0 y) (minQ (hd 0 y) (tl y)) = true ->
  decompose vr S sf_fun sf_level y cols w functional level = DOk rows ->
  Forall2 (fun x r => (exists c, x = repeat c (length y)) -> dsc r == 0) cols rows.
Proof. exact decomp_dsc_zero_if_constant_quantile. Qed.
Print Assumptions C06_dsc_zero_if_constant_quantile.

(* the recalibration is idempotent: x = recalibrate(x0) => recalibrate(x) == x.
   Quantile functional: exact arithmetic, no axioms (uniqueness of a certified pooling). *)
Theorem C06_recal_idempotent_quantile : forall a x0 x y w r',
  0 < a /\ a < 1 -> length x0 = length y ->
  recalibrate IFquantile a x0 y w = DOk x ->
  recalibrate IFquantile a x y w = DOk r' ->
  Forall2 Qeq r' x.
Proof. exact recal_idempotent_quantile. Qed.
Print Assumptions C06_recal_idempotent_quantile.

(* every functional (mean and expectile through the real-number uniqueness of the fit) *)
Theorem C06_recal_idempotent_all : forall f a x0 x y w r',
  f = IFmean \/ f = IFexpectile \/ (f = IFquantile /\ 0 < a /\ a < 1) ->
  length x0 = length y ->
  (match w with None => True | Some wl => length wl = length y end) ->
  recalibrate f a x0 y w = DOk x ->
  recalibrate f a x y w = DOk r' ->
  Forall2 Qeq r' x.
Proof. exact recal_idempotent_all. Qed.
Print Assumptions C06_recal_idempotent_all.

(* ... hence miscalibration = 0 for a forecast column that is the OUTPUT of a recalibration
   (replaces C06_mcb_zero_if_recalibrated_partial as the full clause): mean, expectile, quantile,
   and "median" as alias of quantile 1/2; every score that does not distinguish equal rationals *)
Theorem C06_mcb_zero_if_recalibrated : forall (v : variant) (S : Q -> Q -> option Q),
  (forall y z z', z == z' -> S y z = S y z') ->
  forall sf_fun sf_level y cols w functional level rows fa f a,
  infer sf_fun sf_level functional level = DOk fa ->
  alias v fa = (f, a) ->
  f = IFmean \/ f = IFexpectile \/ f = IFquantile ->
  allowed S (hd 0 y) (minQ (hd 0 y) (tl y)) = true ->
  decompose v S sf_fun sf_level y cols w functional level = DOk rows ->
  Forall2 (fun x r => (exists x0, length x0 = length y /\ recalibrate f a x0 y w = DOk x) -> mcb r == 0)
          cols rows.
Proof. exact decomp_mcb_zero_if_recalibrated. Qed.
Print Assumptions C06_mcb_zero_if_recalibrated.

(* the quantile functional alone: closed under the global context *)
Theorem C06_mcb_zero_if_recalibrated_quantile : forall (v : variant) (S : Q -> Q -> option Q),
  (forall y z z', z == z' -> S y z = S y z') ->
  forall sf_fun sf_level y cols w functional level rows fa a,
  infer sf_fun sf_level functional level = DOk fa ->
  alias v fa = (IFquantile, a) ->
  allowed S (hd 0 y) (minQ (hd 0 y) (tl y)) = true ->
  decompose v S sf_fun sf_level y cols w functional level = DOk rows ->
  Forall2 (fun x r => (exists x0, length x0 = length y /\ recalibrate IFquantile a x0 y w = DOk x) -> mcb r == 0)
          cols rows.
Proof. exact decomp_mcb_zero_if_recalibrated_quantile. Qed.
Print Assumptions C06_mcb_zero_if_recalibrated_quantile.

