(* C03 - Isotonic expectile regression is the unique optimal monotone expectile fit. *)
From Coq Require Import QArith Qreals Reals List.
Import ListNotations.
From MD Require Import lib.QLists model.Functionals model.Isotonic theory.Optimal theory.IsoOptimal theory.GpavaMerge
  theory.InstExpectile proofs.IsoProps theory.MaxMin proofs.IsoMaxMin.

Theorem C03_total : forall y weights inc lvl, y <> [] -> valid_w y weights -> (0 < lvl /\ lvl < 1)%Q ->
  exists x r, isotonic_regression y weights inc IFexpectile lvl = IOk (x, r).
Proof. exact iso_expectile_total. Qed.
Print Assumptions C03_total.

Theorem C03_optimal : forall y weights inc lvl x r, y <> [] -> valid_w y weights -> (0 < lvl /\ lvl < 1)%Q ->
  isotonic_regression y weights inc IFexpectile lvl = IOk (x, r) ->
  length x = length y /\ monoQ inc x /\
  forall u : list R, length u = length y -> monoR inc u ->
    (lossAs lvl (data y weights) u >= lossAs lvl (data y weights) (map Q2R x)
       + Rmin (Q2R lvl) (1 - Q2R lvl) * wdist (data y weights) u (map Q2R x))%R.
Proof. exact iso_expectile_optimal. Qed.
Print Assumptions C03_optimal.

Theorem C03_unique : forall y weights inc lvl x r, y <> [] -> valid_w y weights -> (0 < lvl /\ lvl < 1)%Q ->
  isotonic_regression y weights inc IFexpectile lvl = IOk (x, r) ->
  forall u : list R, length u = length y -> monoR inc u ->
    (lossAs lvl (data y weights) u <= lossAs lvl (data y weights) (map Q2R x))%R -> u = map Q2R x.
Proof. exact iso_expectile_unique. Qed.
Print Assumptions C03_unique.

(* at level one half the expectile fit is the mean fit *)
Theorem C03_half_is_mean : forall y weights inc x r x' r', y <> [] -> valid_w y weights ->
  isotonic_regression y weights inc IFexpectile (1#2) = IOk (x, r) ->
  isotonic_regression y weights inc IFmean (1#2) = IOk (x', r') ->
  Forall2 Qeq x x'.
Proof. exact iso_expectile_half_is_mean. Qed.
Print Assumptions C03_half_is_mean.

(* the functional the blocks are pooled with is an exact root of the weighted
   expectile identification function: it sums to zero over every pooled block *)
Theorem C03_block_identification : forall a, (0 < a /\ a < 1)%Q -> forall S, S <> [] -> Forall posw S ->
  (hi elt (V_expectile a) S (expectile_Q a S) == 0)%Q.
Proof. exact expectile_Q_root. Qed.
Print Assumptions C03_block_identification.

(* the fit is max over a<=i of min over b>=i of the weighted level-expectile of y[a..b] *)
Theorem C03_maxmin : forall y weights lvl x r, y <> [] -> valid_w y weights ->
  (0 < lvl /\ lvl < 1)%Q ->
  isotonic_regression y weights true IFexpectile lvl = IOk (x, r) ->
  forall i, (i < length y)%nat ->
    ((forall a, (a <= i)%nat -> exists b, (i <= b < length y)%nat /\
         (expectile_Q lvl (seg (data y weights) a b) <= nth i x 0)%Q) /\
     (exists a, (a <= i)%nat /\ forall b, (i <= b < length y)%nat ->
         (nth i x 0 <= expectile_Q lvl (seg (data y weights) a b))%Q)) /\
    (nth i x 0 == maxmin (expectile_Q lvl) (data y weights) i)%Q /\
    (nth i x 0 == minmax (expectile_Q lvl) (data y weights) i)%Q.
Proof. exact iso_expectile_maxmin. Qed.
Print Assumptions C03_maxmin.

Theorem C03_maxmin_decreasing : forall y weights lvl x r, y <> [] -> valid_w y weights ->
  (0 < lvl /\ lvl < 1)%Q ->
  isotonic_regression y weights false IFexpectile lvl = IOk (x, r) ->
  forall i, (i < length y)%nat ->
    ((exists a, (a <= i)%nat /\ forall b, (i <= b < length y)%nat ->
         (expectile_Q lvl (seg (data y weights) a b) <= nth i x 0)%Q) /\
     (forall a, (a <= i)%nat -> exists b, (i <= b < length y)%nat /\
         (nth i x 0 <= expectile_Q lvl (seg (data y weights) a b))%Q)) /\
    (nth i x 0 == minmax_dec (expectile_Q lvl) (data y weights) i)%Q /\
    (nth i x 0 == maxmin_dec (expectile_Q lvl) (data y weights) i)%Q.
Proof. exact iso_expectile_maxmin_dec. Qed.
Print Assumptions C03_maxmin_decreasing.

(* non-vacuity *)
From MD Require Import proofs.Examples.
Theorem C03_example :
  exists x r, isotonic_regression [3; 1; 2; 5; 4]%Q (Some [3#2; 5#2; 1; 5#4; 15#4]%Q) true IFexpectile (3#10) = IOk (x, r) /\ length r = 4%nat.
Proof. exact ex_iso_expectile. Qed.
Print Assumptions C03_example.
