(* C04 - Scoring functions are non-negative, zero at perfect forecasts, order-sensitive.
   World R.  Every theorem is about the GENERATED functions gen_*_spo of gen/Gen_scoring.v, which
   translate/gen_r.py regenerates from scoring.py on every run; they are connected to the hand
   specifications (spec/Scores.v) by the bridge lemmas of bridge/Bridge_scoring.v.
   h = degree, a = level, result = Ok s | ValueErr; *_ok is the definedness predicate
   (no division by zero, no log of a non-positive number, no power outside its real domain),
   so `defined` = never NaN / finite.  hes_dom / hqs_dom are the documented domains. *)
From Coq Require Import Reals List Bool.
Import ListNotations.
From MD Require Import lib.NumpyR spec.Scores gen.Gen_ident gen.Gen_scoring proofs.ScoreProps proofs.ScoreGen.
Open Scope R_scope.

(* homogeneous expectile scores (squared error, Poisson, Gamma deviance are members): rejected with ValueError exactly outside the documented domain *)
Theorem C04_hes_domain :
  forall h a y z : R, gen_hes_spo h a y z = ValueErr <-> ~ hes_dom h y z.
Proof. exact g_hes_domain. Qed.
Print Assumptions C04_hes_domain.

Theorem C04_hes_defined :
  forall h a y z : R, hes_dom h y z -> gen_hes_spo_ok h a y z.
Proof. exact g_hes_defined. Qed.
Print Assumptions C04_hes_defined.

Theorem C04_hes_nonneg :
  forall h a y z s : R, 0 < a < 1 -> gen_hes_spo h a y z = Ok s -> 0 <= s.
Proof. exact g_hes_nonneg. Qed.
Print Assumptions C04_hes_nonneg.

Theorem C04_hes_zero :
  forall h a z : R, hes_dom h z z -> gen_hes_spo h a z z = Ok 0.
Proof. exact g_hes_zero. Qed.
Print Assumptions C04_hes_zero.

(* moving the prediction further away on the same side never lowers the score *)
Theorem C04_hes_order :
  forall h a y z1 z2 s1 s2 : R,
       0 < a < 1 ->
       y <= z1 <= z2 \/ z2 <= z1 <= y ->
       gen_hes_spo h a y z1 = Ok s1 -> gen_hes_spo h a y z2 = Ok s2 -> s1 <= s2.
Proof. exact g_hes_order. Qed.
Print Assumptions C04_hes_order.

(* homogeneous quantile scores (pinball loss is the member of degree 1) *)
Theorem C04_hqs_domain :
  forall h a y z : R, gen_hqs_spo h a y z = ValueErr <-> ~ hqs_dom h y z.
Proof. exact g_hqs_domain. Qed.
Print Assumptions C04_hqs_domain.

Theorem C04_hqs_defined :
  forall h a y z : R, hqs_dom h y z -> gen_hqs_spo_ok h a y z.
Proof. exact g_hqs_defined. Qed.
Print Assumptions C04_hqs_defined.

Theorem C04_hqs_nonneg :
  forall h a y z s : R, 0 < a < 1 -> gen_hqs_spo h a y z = Ok s -> 0 <= s.
Proof. exact g_hqs_nonneg. Qed.
Print Assumptions C04_hqs_nonneg.

Theorem C04_hqs_zero :
  forall h a z : R, hqs_dom h z z -> gen_hqs_spo h a z z = Ok 0.
Proof. exact g_hqs_zero. Qed.
Print Assumptions C04_hqs_zero.

Theorem C04_hqs_order :
  forall h a y z1 z2 s1 s2 : R,
       0 < a < 1 ->
       y <= z1 <= z2 \/ z2 <= z1 <= y ->
       gen_hqs_spo h a y z1 = Ok s1 -> gen_hqs_spo h a y z2 = Ok s2 -> s1 <= s2.
Proof. exact g_hqs_order. Qed.
Print Assumptions C04_hqs_order.

(* log loss for y in [0,1], z in (0,1); any1 is the sample-wide np.any flag, flag_ok says it is set whenever this observation sets it *)
Theorem C04_logloss_defined :
  forall (y z : R) (any1 : bool), 0 <= y <= 1 -> 0 < z < 1 -> gen_logloss_spo_ok y z any1.
Proof. exact g_ll_defined. Qed.
Print Assumptions C04_logloss_defined.

Theorem C04_logloss_nonneg :
  forall (y z : R) (any1 : bool) (s : R),
       0 <= y <= 1 -> 0 < z < 1 -> flag_ok y z any1 -> gen_logloss_spo y z any1 = Ok s -> 0 <= s.
Proof. exact g_ll_nonneg. Qed.
Print Assumptions C04_logloss_nonneg.

Theorem C04_logloss_zero :
  forall (z : R) (any1 : bool), 0 < z < 1 -> flag_ok z z any1 -> gen_logloss_spo z z any1 = Ok 0.
Proof. exact g_ll_zero. Qed.
Print Assumptions C04_logloss_zero.

Theorem C04_logloss_order :
  forall (y z1 z2 : R) (f1 f2 : bool) (s1 s2 : R),
       0 <= y <= 1 ->
       0 < z1 < 1 ->
       0 < z2 < 1 ->
       flag_ok y z1 f1 ->
       flag_ok y z2 f2 ->
       y <= z1 <= z2 \/ z2 <= z1 <= y ->
       gen_logloss_spo y z1 f1 = Ok s1 -> gen_logloss_spo y z2 f2 = Ok s2 -> s1 <= s2.
Proof. exact g_ll_order. Qed.
Print Assumptions C04_logloss_order.

(* SquaredError, PoissonDeviance, GammaDeviance, PinballLoss inherit all of the above *)
Theorem C04_named_members :
  gen_SquaredError_spo = gen_hes_spo 2 (1 / 2) /\
       gen_PoissonDeviance_spo = gen_hes_spo 1 (1 / 2) /\
       gen_GammaDeviance_spo = gen_hes_spo 0 (1 / 2) /\
       (forall a : R, gen_PinballLoss_spo a = gen_hqs_spo 1 a).
Proof. exact g_named_members. Qed.
Print Assumptions C04_named_members.

(* constructors reject levels outside (0,1) *)
Theorem C04_hes_level_guard :
  forall h a : R, gen_hes_init h a = ValueErr <-> ~ 0 < a < 1.
Proof. exact g_hes_init_guard. Qed.
Print Assumptions C04_hes_level_guard.

Theorem C04_hqs_level_guard :
  forall h a : R, gen_hqs_init h a = ValueErr <-> ~ 0 < a < 1.
Proof. exact g_hqs_init_guard. Qed.
Print Assumptions C04_hqs_level_guard.

(* arrays: the call on vectors returns the per-observation values, and raises iff some observation is out of domain *)
Theorem C04_array_ok :
  forall (f : R -> R -> result R) (ys zs ss : list R),
       lift2 f ys zs = Ok ss ->
       length ys = length zs ->
       Forall2 (fun (yz : R * R) (s : R) => f (fst yz) (snd yz) = Ok s) (combine ys zs) ss.
Proof. exact lift2_ok. Qed.
Print Assumptions C04_array_ok.

Theorem C04_array_err :
  forall (f : R -> R -> result R) (ys zs : list R),
       length ys = length zs ->
       lift2 f ys zs = ValueErr <-> Exists (fun yz : R * R => f (fst yz) (snd yz) = ValueErr) (combine ys zs).
Proof. exact lift2_err. Qed.
Print Assumptions C04_array_err.

(* non-vacuity: admissible pairs exist in every degree range, are accepted with a non-negative score, and
   inadmissible ones are rejected *)
From MD Require Import proofs.Examples.
Theorem C04_example_domain : hes_dom 1 0 3 /\ hes_dom 0 2 3 /\ hes_dom 2 (-1) (-3).
Proof. exact ex_hes_dom. Qed.
Print Assumptions C04_example_domain.
Theorem C04_example_accepts : exists s, gen_PoissonDeviance_spo 0 3 = Ok s /\ 0 <= s.
Proof. exact ex_poisson_accepts. Qed.
Print Assumptions C04_example_accepts.
Theorem C04_example_rejects : gen_PoissonDeviance_spo 1 0 = ValueErr.
Proof. exact ex_poisson_rejects. Qed.
Print Assumptions C04_example_rejects.

(* ---- the SAME source, regenerated on every run by translate/gen_f.py as a function over PRIMITIVE BINARY64 floats (coq/gen/Gen_*_f.v): what numpy computes, one rounding per operation in source order; compared bit for bit with the implementation on arbitrary doubles (harness/run_genfloat.py).  Print Assumptions lists Coq's primitive float / integer operations only. ---- *)
From Coq Require Import PrimFloat Bool.
From MD Require Import lib.NumpyF gen.Gen_ident_f gen.Gen_scoring_f proofs.GenFloatProps.
Open Scope float_scope.

Theorem C04_float_squared_error :
  forall y z : float, gen_SquaredError_spo_f y z = FVal ((z - y) * (z - y)).
Proof. exact gen_SquaredError_spo_f_eq. Qed.
Print Assumptions C04_float_squared_error.

Theorem C04_float_hes_degree2 :
  forall level y z : float,
       gen_hes_spo_f 2 level y z =
       (if f_eqb level 0.5
        then FVal ((z - y) * (z - y))
        else FVal (2 * np_abs_f (ge_ind_f z y - level) * ((z - y) * (z - y)))).
Proof. exact gen_hes_spo_f_degree2. Qed.
Print Assumptions C04_float_hes_degree2.

Theorem C04_float_hes_degree2_total :
  forall level y z : float, is_val (gen_hes_spo_f 2 level y z) = true.
Proof. exact gen_hes_spo_f_degree2_total. Qed.
Print Assumptions C04_float_hes_degree2_total.

Theorem C04_float_pinball_is_hqs1 :
  forall level : float, gen_PinballLoss_spo_f level = gen_hqs_spo_f 1 level.
Proof. exact gen_PinballLoss_spo_f_is_hqs1. Qed.
Print Assumptions C04_float_pinball_is_hqs1.

Theorem C04_float_hqs_degree1 :
  forall level y z : float,
       gen_hqs_spo_f 1 level y z =
       (if f_eqb level 0.5 then FVal (0.5 * np_abs_f (z - y)) else FVal ((ge_ind_f z y - level) * (z - y))).
Proof. exact gen_hqs_spo_f_degree1. Qed.
Print Assumptions C04_float_hqs_degree1.

Theorem C04_float_hqs_degree1_total :
  forall level y z : float, is_val (gen_hqs_spo_f 1 level y z) = true.
Proof. exact gen_hqs_spo_f_degree1_total. Qed.
Print Assumptions C04_float_hqs_degree1_total.
