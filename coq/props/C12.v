(* C12 - Isotonic regression output contract: blocks, purity and equivariances.
   Theorems about the executable model model/Isotonic.v (isotonic_regression), for all
   rational sequences y, all weight vectors (or none), the functionals mean, median,
   quantile, expectile, all levels and both directions.  All closed under the global
   context (world Q, no axioms) except C12_replication (see below).

   Clause of the property text                          Theorem
   ---------------------------------------------------------------------------------
   result has the input's length                        C12_contract (1st conjunct)
   lies within [min(y), max(y)]                         C12_contract (last conjunct: every
                                                          value is between two elements of y)
   r starts at 0, ends at n, strictly increasing        C12_contract (conjuncts 2-4)
   values constant inside a block                       C12_contract (5th)
   values differ between adjacent blocks                C12_contract (6th)
     ... the same, in the shape of IsoProps.iso_contract
         for mean/expectile and for quantile/median     C12_contract_mean_expectile,
                                                        C12_contract_quantile_median
   r is determined by the values (maximal constant runs) C12_blocks_determined
   fit is monotone in the requested direction           C12_fit_monotone
   leaves already-monotone input unchanged              C12_monotone_identity
   idempotent (values and block vector)                 C12_idempotent
   commutes with reversing data + weights + direction   C12_rev_commutes (exact equality,
                                                          exceptions included)
   commutes with positive affine maps of y              C12_affine_equivariant, C12_affine_error
   unchanged by rescaling all weights                   C12_weight_scale_invariant,
                                                        C12_weight_scale_error,
                                                        C12_none_is_unit_weights
   integer weights act like repeated observations       C12_replication (mean, expectile;
                                                          WORLD R: proved through the real
                                                          optimality certificate, depends on
                                                          the standard real-number axioms)
   a successful call had admissible arguments           C12_ok_nonempty

   Hypotheses: NONE beyond "the call returned IOk (x, r)" (and a > 0 / c > 0).  That a call
   with admissible arguments does return IOk is C01_total / iso_expectile_total /
   iso_quantile_total.

   NOT proved here:
   * "inputs are never modified" is not expressible in a pure functional model; the
     harness byte-compares the caller's arrays before and after each call (observation).
   * Replication: proved for the fitted VALUES (C12_replication) and for the BLOCK VECTOR
     (C12_replication_blocks: rr = image of r under the cumulative counts).  Quantile and median reject every weights argument
     (NotImplementedError in the code, IErr ENotImplemented in the model), so the clause
     does not apply to them.
   * Equalities of fitted values are pointwise Qeq (==) on rationals, not Leibniz equality of
     the fraction representations; block vectors and exceptions are Leibniz-equal. *)
From Coq Require Import QArith List Sorted.
Import ListNotations.
From MD Require Import lib.QLists model.Functionals model.Isotonic proofs.IsoProps proofs.IsoContract
  proofs.IsoEquiv proofs.IsoReplicate proofs.IsoReplicateBlocks.
Open Scope Q_scope.

(* every successful call, whatever the arguments: the full contract *)
Theorem C12_contract : forall y w inc f lvl x r,
  isotonic_regression y w inc f lvl = IOk (x, r) ->
  length x = length y /\
  hd 0%nat r = 0%nat /\ last r 0%nat = length y /\ StronglySorted lt r /\
  (forall j i, (S j < length r)%nat -> (nth j r 0 <= i < nth (S j) r 0)%nat ->
     nth i x 0 == nth (nth j r 0%nat) x 0) /\
  (forall j, (S (S j) < length r)%nat ->
     ~ nth (nth j r 0%nat) x 0 == nth (nth (S j) r 0%nat) x 0) /\
  (forall v, In v x -> exists lo hi, In lo y /\ In hi y /\ lo <= v /\ v <= hi).
Proof. exact iso_contract_all. Qed.
Print Assumptions C12_contract.

Theorem C12_contract_mean_expectile : forall f y weights inc lvl x r,
  (f = IFmean \/ (f = IFexpectile /\ (0 < lvl /\ lvl < 1))) ->
  y <> [] -> valid_w y weights -> isotonic_regression y weights inc f lvl = IOk (x, r) ->
  length x = length y /\
  hd 0%nat r = 0%nat /\ last r 0%nat = length y /\ StronglySorted lt r /\
  (forall j i, (S j < length r)%nat -> (nth j r 0 <= i < nth (S j) r 0)%nat ->
     nth i x 0 == nth (nth j r 0%nat) x 0) /\
  (forall j, (S (S j) < length r)%nat ->
     ~ nth (nth j r 0%nat) x 0 == nth (nth (S j) r 0%nat) x 0) /\
  (forall v, In v x -> exists lo hi, In lo y /\ In hi y /\ (lo <= v /\ v <= hi)).
Proof. exact iso_contract. Qed.
Print Assumptions C12_contract_mean_expectile.

Theorem C12_contract_quantile_median : forall f y inc lvl x r,
  (f = IFquantile \/ f = IFmedian) ->
  isotonic_regression y None inc f lvl = IOk (x, r) ->
  length x = length y /\
  hd 0%nat r = 0%nat /\ last r 0%nat = length y /\ StronglySorted lt r /\
  (forall j i, (S j < length r)%nat -> (nth j r 0 <= i < nth (S j) r 0)%nat ->
     nth i x 0 == nth (nth j r 0%nat) x 0) /\
  (forall j, (S (S j) < length r)%nat ->
     ~ nth (nth j r 0%nat) x 0 == nth (nth (S j) r 0%nat) x 0) /\
  (forall v, In v x -> exists lo hi, In lo y /\ In hi y /\ lo <= v /\ v <= hi).
Proof. exact iso_contract_quantile. Qed.
Print Assumptions C12_contract_quantile_median.

(* the contract pins the block vector down: k is in r iff k = 0, k = n, or x changes at k *)
Theorem C12_blocks_determined : forall y x r, contract y x r -> x <> [] -> forall k,
  In k r <-> (k = 0%nat \/ k = length x \/
              ((0 < k < length x)%nat /\ ~ nth (k - 1) x 0 == nth k x 0)).
Proof. exact contract_r_mem. Qed.
Print Assumptions C12_blocks_determined.

Theorem C12_ok_nonempty : forall y w inc f lvl x r,
  isotonic_regression y w inc f lvl = IOk (x, r) -> y <> [].
Proof. exact iso_ok_nonempty. Qed.
Print Assumptions C12_ok_nonempty.

Theorem C12_fit_monotone : forall y w inc f lvl x r,
  isotonic_regression y w inc f lvl = IOk (x, r) -> monoQ inc x.
Proof. exact iso_fit_monotone. Qed.
Print Assumptions C12_fit_monotone.

(* y non-decreasing (inc = true) or non-increasing (inc = false) is returned unchanged *)
Theorem C12_monotone_identity : forall y w inc f lvl x r,
  isotonic_regression y w inc f lvl = IOk (x, r) -> monoQ inc y -> Forall2 Qeq x y.
Proof. exact iso_monotone_identity. Qed.
Print Assumptions C12_monotone_identity.

Theorem C12_idempotent : forall y w inc f lvl x r,
  isotonic_regression y w inc f lvl = IOk (x, r) ->
  exists x', isotonic_regression x w inc f lvl = IOk (x', r) /\ Forall2 Qeq x' x.
Proof. exact iso_idempotent. Qed.
Print Assumptions C12_idempotent.

(* isotonic_regression(y[::-1], w[::-1], increasing = not inc) = (x[::-1], n - r[::-1]) *)
Theorem C12_rev_commutes : forall y w inc f lvl,
  isotonic_regression (rev y) (option_map (@rev Q) w) (negb inc) f lvl =
  match isotonic_regression y w inc f lvl with
  | IOk (x, r) => IOk (rev x, map (fun k => (length x - k)%nat) (rev r))
  | IErr e => IErr e
  end.
Proof. exact iso_rev_commutes. Qed.
Print Assumptions C12_rev_commutes.

Theorem C12_affine_equivariant : forall y w inc f lvl a b x r, 0 < a ->
  isotonic_regression y w inc f lvl = IOk (x, r) ->
  exists x', isotonic_regression (map (fun v => a * v + b) y) w inc f lvl = IOk (x', r) /\
             Forall2 Qeq x' (map (fun v => a * v + b) x).
Proof. exact iso_affine_equivariant. Qed.
Print Assumptions C12_affine_equivariant.

Theorem C12_affine_error : forall y w inc f lvl a b e,
  isotonic_regression y w inc f lvl = IErr e ->
  isotonic_regression (map (fun v => a * v + b) y) w inc f lvl = IErr e.
Proof. exact iso_affine_error. Qed.
Print Assumptions C12_affine_error.

Theorem C12_weight_scale_invariant : forall y w inc f lvl c x r, 0 < c ->
  isotonic_regression y (Some w) inc f lvl = IOk (x, r) ->
  exists x', isotonic_regression y (Some (map (Qmult c) w)) inc f lvl = IOk (x', r) /\
             Forall2 Qeq x' x.
Proof. exact iso_weight_scale_invariant. Qed.
Print Assumptions C12_weight_scale_invariant.

Theorem C12_weight_scale_error : forall y w inc f lvl c e, 0 < c ->
  isotonic_regression y (Some w) inc f lvl = IErr e ->
  isotonic_regression y (Some (map (Qmult c) w)) inc f lvl = IErr e.
Proof. exact iso_weight_scale_error. Qed.
Print Assumptions C12_weight_scale_error.

(* no weights = all weights one (mean, expectile), so C12_weight_scale_invariant also covers
   "None versus a constant weight vector" *)
Theorem C12_none_is_unit_weights : forall y inc f lvl, (f = IFmean \/ f = IFexpectile) ->
  isotonic_regression y None inc f lvl =
  isotonic_regression y (Some (map (fun _ => 1) y)) inc f lvl.
Proof. exact iso_none_is_ones. Qed.
Print Assumptions C12_none_is_unit_weights.

(* weights k_i in {1, 2, ...} (as rationals) = y_i repeated k_i times, no weights;
   repl v ks = v_i repeated ks_i times *)
Theorem C12_replication : forall y ks inc f lvl x r,
  length ks = length y -> (f = IFmean \/ f = IFexpectile) ->
  isotonic_regression y (Some (map Qnat ks)) inc f lvl = IOk (x, r) ->
  exists xx rr, isotonic_regression (repl y ks) None inc f lvl = IOk (xx, rr) /\
                Forall2 Qeq xx (repl x ks).
Proof. exact iso_replication. Qed.
Print Assumptions C12_replication.

(* the BLOCK VECTOR of the replicated call: rr is the image of r under the cumulative counts
   cum ks j = ks_0 + ... + ks_(j-1)  (proofs/IsoReplicateBlocks.v; every count positive) *)
Theorem C12_replication_blocks : forall y ks inc f lvl x r,
  length ks = length y -> (f = IFmean \/ f = IFexpectile) ->
  Forall (fun k => 0 < k)%nat ks ->
  isotonic_regression y (Some (map Qnat ks)) inc f lvl = IOk (x, r) ->
  exists xx rr, isotonic_regression (repl y ks) None inc f lvl = IOk (xx, rr) /\
                Forall2 Qeq xx (repl x ks) /\
                forall k, In k rr <-> exists j, In j r /\ k = cum ks j.
Proof. exact iso_replication_blocks. Qed.
Print Assumptions C12_replication_blocks.

(* shape of a replicated list: at an interior position k either k = cum ks j and the two neighbours are x_(j-1), x_j,
   or k is no cumulative count and the two neighbours are equal *)
Theorem C12_replication_shape : forall x ks, length ks = length x -> Forall (fun k => 0 < k)%nat ks ->
  forall k, (0 < k < length (repl x ks))%nat ->
    (exists j, (0 < j < length x)%nat /\ k = cum ks j /\
               nth (k - 1) (repl x ks) 0 = nth (j - 1) x 0 /\ nth k (repl x ks) 0 = nth j x 0)
    \/ ((forall j, k <> cum ks j) /\ nth (k - 1) (repl x ks) 0 = nth k (repl x ks) 0).
Proof. exact repl_interior. Qed.
Print Assumptions C12_replication_shape.

(* ---- float twin (primitive floats; the names listed by Print Assumptions are Coq's primitive float operations, not axioms) ---- *)
From Coq Require Import PrimFloat QArith List Bool.
Import ListNotations.
From MD Require Import model.Pava model.PavaFloat proofs.PavaFloatProps proofs.PavaFloatExact.

(* BIT-EXACT binary64 twin of the mean path (model/PavaFloat.v, compared bit for bit with the implementation on arbitrary doubles): the structural contract holds for EVERY float input - lengths, r from 0 to n strictly increasing, bit-equal values inside a block, and the code's own >= comparison is false at every inner block boundary (so NaN-free outputs are strictly increasing across blocks whatever the rounding) *)
Theorem C12_float_contract :
  forall (y : list float) (w : option (list float)) (inc : bool) (x : list float) (r : list nat),
       isotonic_mean_f y w inc = FOk (x, r) ->
       length x = length y /\
       hd 0%nat r = 0%nat /\
       last r 0%nat = length y /\
       (2 <= length r)%nat /\
       (forall j : nat, (S j < length r)%nat -> (nth j r 0 < nth (S j) r 0)%nat) /\
       (forall (j i : nat) (d : float),
        (S j < length r)%nat ->
        (nth j r 0 <= i)%nat -> (i < nth (S j) r 0)%nat -> nth i x d = nth (nth j r 0%nat) x d) /\
       (forall (j : nat) (d : float),
        (1 <= j)%nat ->
        (S j < length r)%nat ->
        if inc
        then (nth (nth j r 0%nat) x d <=? nth (nth j r 0%nat - 1) x d)%float = false
        else (nth (nth j r 0%nat - 1) x d <=? nth (nth j r 0%nat) x d)%float = false).
Proof. exact isotonic_mean_f_contract. Qed.
Print Assumptions C12_float_contract.

Theorem C12_float_boundary :
  forall (y w : list float) (j : nat) (d : float),
       (1 <= j)%nat ->
       (S j < length (snd (pava_f y w)))%nat ->
       (nth (nth j (snd (pava_f y w)) 0%nat) (fst (pava_f y w)) d <=?
        nth (nth j (snd (pava_f y w)) 0%nat - 1) (fst (pava_f y w)) d)%float = false.
Proof. exact pava_f_boundary. Qed.
Print Assumptions C12_float_boundary.

Theorem C12_float_ok_iff :
  forall (y : list float) (w : option (list float)) (inc : bool),
       (exists xr : list float * list nat, isotonic_mean_f y w inc = FOk xr) <->
       y <> [] /\ match w with
                  | Some w0 => length y = length w0 /\ any_nonpos w0 = false
                  | None => True
                  end.
Proof. exact isotonic_mean_f_ok_iff. Qed.
Print Assumptions C12_float_ok_iff.

Theorem C12_float_decreasing_is_mirror :
  forall (y : list float) (w : option (list float)),
       isotonic_mean_f y w false =
       match isotonic_mean_f (rev y) (option_map (rev (A:=float)) w) true with
       | FOk (x, r) => FOk (rev x, mirror_r r)
       | FErr e => FErr e
       end.
Proof. exact isotonic_mean_f_decreasing. Qed.
Print Assumptions C12_float_decreasing_is_mirror.

(* ---- monotonicity of the binary64 twin when no NaN occurs (proofs/PavaFloatMonotone.v).  These three theorems - and
   only these - rest on the standard library's specification axioms of the comparison primitives
   (FloatAxioms.eqb_spec / ltb_spec / leb_spec), listed by Print Assumptions next to the primitive operations. ---- *)
From MD Require Import proofs.PavaFloatMonotone.

(* for EVERY binary64 input: if the result contains no NaN it is non-decreasing (non-increasing for increasing=False) as
   floats, whatever the rounding errors of the block means were *)
Theorem C12_float_monotone :
  forall (y : list float) (w : option (list float)) (inc : bool) (x : list float) (r : list nat),
    isotonic_mean_f y w inc = FOk (x, r) -> no_nan x ->
    forall (i : nat) (d : float), (S i < length x)%nat ->
      if inc then (nth i x d <=? nth (S i) x d)%float = true else (nth (S i) x d <=? nth i x d)%float = true.
Proof. exact isotonic_mean_f_monotone. Qed.
Print Assumptions C12_float_monotone.

Theorem C12_float_monotone_pava :
  forall y w : list float, no_nan (fst (pava_f y w)) ->
    forall (i : nat) (d : float), (S i < length (fst (pava_f y w)))%nat ->
      (nth i (fst (pava_f y w)) d <=? nth (S i) (fst (pava_f y w)) d)%float = true.
Proof. exact pava_f_monotone. Qed.
Print Assumptions C12_float_monotone_pava.

(* ... and the values on both sides of every inner block boundary differ: strictly increasing as floats *)
Theorem C12_float_boundary_strict :
  forall y w : list float, no_nan (fst (pava_f y w)) ->
    forall (j : nat) (d : float), (1 <= j)%nat -> (S j < length (snd (pava_f y w)))%nat ->
      (nth (nth j (snd (pava_f y w)) 0%nat - 1) (fst (pava_f y w)) d <?
       nth (nth j (snd (pava_f y w)) 0%nat) (fst (pava_f y w)) d)%float = true.
Proof. exact pava_f_boundary_strict. Qed.
Print Assumptions C12_float_boundary_strict.

(* the hypothesis no_nan is needed: opposite huge values give inf - inf = NaN blocks and a non-monotone result *)
Theorem C12_float_nan_breaks_monotonicity :
  let x := fst (pava_f [3; 0x1.8p+664; -0x1.8p+664; 0; 4]%float [1; 0x1.8p+664; 0x1.8p+664; 2; 1]%float) in
  existsb is_nan x = true /\ (nth 0 x 0 <=? nth 1 x 0)%float = false.
Proof. exact nan_breaks_monotonicity. Qed.
Print Assumptions C12_float_nan_breaks_monotonicity.

(* ---- float twin of the quantile / median path (primitive floats; the names listed by Print Assumptions are Coq's primitive float / integer operations, not axioms; nothing from FloatAxioms) ---- *)
From Coq Require Import PrimFloat List Bool.
Import ListNotations.
From MD Require Import model.PavaFloat model.GpavaQFloat proofs.PavaFloatProps proofs.GpavaQFloatProps.

(* BIT-EXACT binary64 twin of the quantile / median path (model/GpavaQFloat.v): the structural contract for EVERY float input and level - (1) length, (2-5) r from 0 to n strictly increasing with at least one block, (6) k is a block start exactly when the code's own test x[k] - x[k-1] == 0 (line 417, read in the direction of the fit) is false, (7) x is bitwise constant on the blocks rl of the lower solution xl, whose adjacent block values never satisfy the pooling test *)
Theorem C12_float_quantile_contract :
  forall (y : list float) (level lu : float) (inc : bool) (x : list float) (r : list nat),
       isotonic_quantile_f y level lu inc = FOk (x, r) ->
       length x = length y /\
       hd 0%nat r = 0%nat /\
       last r 0%nat = length y /\
       (2 <= length r)%nat /\
       (forall j : nat, (S j < length r)%nat -> (nth j r 0 < nth (S j) r 0)%nat) /\
       (forall (k : nat) (d : float), (0 < k < length y)%nat -> In k r <-> qdiff_nz inc x d k = true) /\
       (exists (xl : list float) (rl : list nat),
          block_form_rel (boundary_rel inc) xl rl /\ block_form x rl /\ length xl = length y).
Proof. exact isotonic_quantile_f_contract. Qed.
Print Assumptions C12_float_quantile_contract.

(* the recomputed block vector in isolation *)
Theorem C12_float_quantile_recomputed_r :
  forall x : list float, x <> [] ->
       hd 0%nat (frecompute x) = 0%nat /\
       last (frecompute x) 0%nat = length x /\
       (2 <= length (frecompute x))%nat /\
       Sorted.StronglySorted lt (frecompute x) /\
       (forall (k : nat) (d : float), (0 < k < length x)%nat -> In k (frecompute x) <-> fdiff_nz x d (k - 1) = true).
Proof. exact frecompute_spec. Qed.
Print Assumptions C12_float_quantile_recomputed_r.

(* success exactly when 0 < level < 1 (IEEE), y is non-empty and level, level_upper are acceptable to np.quantile (not NaN) *)
Theorem C12_float_quantile_ok_iff :
  forall (y : list float) (level lu : float) (inc : bool),
       (exists xr : list float * list nat, isotonic_quantile_f y level lu inc = FOk xr) <->
       level_bad level = false /\ y <> [] /\ q_invalid level = false /\ q_invalid lu = false.
Proof. exact isotonic_quantile_f_ok_iff. Qed.
Print Assumptions C12_float_quantile_ok_iff.

Theorem C12_float_quantile_decreasing_is_mirror :
  forall (y : list float) (level lu : float),
       isotonic_quantile_f y level lu false =
       match isotonic_quantile_f (rev y) level lu true with
       | FOk (x, r) => FOk (rev x, mirror_r r)
       | FErr e => FErr e
       end.
Proof. exact isotonic_quantile_f_decreasing. Qed.
Print Assumptions C12_float_quantile_decreasing_is_mirror.

(* what the contract does NOT give, on the implementation itself (both runs are in the correspondence set): the midpoint 0.5 * (xl + xu) overflows, the equal values inf, inf land in two blocks (inf - inf = NaN is "nonzero"); and a block of r whose values are == but not bit-equal *)
Theorem C12_float_quantile_example_overflow :
  isotonic_median_f [0x1.e42d130773b76p+1023; 0x1.e42d130773b76p+1023]%float true
  = FOk ([infinity; infinity]%float, [0; 1; 2]%nat).
Proof. exact isotonic_median_f_example_overflow. Qed.
Print Assumptions C12_float_quantile_example_overflow.

Theorem C12_float_quantile_example_signed_zero :
  isotonic_median_f [0; (-0x0.0000000000001p-1022); 0]%float true
  = FOk ([(-0); (-0); 0]%float, [0; 3]%nat).
Proof. exact isotonic_median_f_example_signed_zero. Qed.
Print Assumptions C12_float_quantile_example_signed_zero.
