(* C13 - Binning is a total, order-preserving partition into at most n_bins groups.
   Theorems about the executable model model/Binning.v of `bin_feature`
   (src/model_diagnostics/_utils/binning.py as of /repo commit b2b5cba), tied to the code by the
   correspondence run harness/run_binning.py + corr/CmpBinning.v (every feature type, all 10
   methods).

   Clause of the property text                         theorem
   --------------------------------------------------  ------------------------------------
   every row is assigned to exactly one bin;           C13_bin_total (numeric, including the
   null and NaN values get the separate null bin       all-null / all-NaN column),
                                                       C13_sbin_total (string-like)
   numeric bins are intervals whose reported edges     C13_bin_contains; C13_table_contains (ANY
   contain the value, left-open except the first       non-decreasing edge vector);
                                                       C13_quantile_edges_strict,
                                                       C13_uniform_edges_sorted; the quantile is
                                                       Functionals.qlow: C13_quantile_is_qlow
   bin numbers non-decreasing in the feature value     C13_bin_monotone
   equal values share a bin                            C13_bin_equal_values
   'quantile'/'uniform': at most n_bins groups         C13_groups_le_n_bins (numeric),
   including the null bin                              C13_sgroups_le_n_bins (string-like);
                                                       every method: C13_groups_le_returned
   most frequent categories are kept                   C13_kept_are_most_frequent
   ties in natural order                               C13_tie_natural_order
   pooled under 'other k', k = number of pooled        C13_pooled_k_ge_2, C13_label_is_count
   categories, k >= 2                                  (k < 1000; above `_format_integer` rounds to
                                                       three digits by design)
   every documented feature type is accepted           C13_numeric_accepted (float / integer columns with
                                                       nulls, NaN, infinities, only nulls, only
                                                       infinities), C13_string_accepted (String,
                                                       Categorical, Enum)
   never colliding with a real category                C13_pooled_label_fresh (every category of the
                                                       feature, kept or merged),
                                                       C13_pooled_label_fresh_enum (every declared
                                                       category of an Enum)

   FOUND AND REPAIRED while building this check (each was first reproduced by the model, the
   correspondence and the judge on the then-unchanged tree):
   * 3ff5ebb - the freshness loop only looked at the kept categories, so
     ["a","a","other 3","b","c"], n_bins=2 pooled under the real category "other 3".
     C13_old_loop_label_collides keeps the refutation of the OLD loop
     (BinningProps.old_pooled_label); the current loop is C13_pooled_label_fresh.
   * f02e33e - a pl.Enum feature with more categories than bins raised InvalidOperationError
     (or ValueError when the label equalled a declared category); now pooled
     (BinningProps.enum_pooling_example).
   * 9ce4ae5 - a numeric column with only null / NaN values raised TypeError; now every row
     goes to the null bin and n_bins = int(has_nulls) (BinningProps.all_null_example; covered
     by C13_bin_total, C13_groups_le_returned, C13_groups_le_n_bins).
   * b2b5cba - a numeric column whose only non-null values are +inf / -inf raised TypeError
     (one sign) or, with both signs and "uniform", got NaN edges; now one bin [min, max]
     (for "quantile" with both signs: the bins [-inf,-inf], (-inf, inf]).  The model has no
     rejecting branch left for float / integer columns: C13_numeric_accepted,
     C13_string_accepted ("every documented feature type is accepted").  The constructor
     NNanEdges of the model is an old record that no input reaches any more.

   NOT proved / outside the model:
   * Boolean columns are not a documented feature type (out of scope of the property).  The
     model still reproduces what the code does with them (KBool: rejected by the eight numpy
     rules and with nulls; bin numbers stored as Booleans) so that the correspondence stream
     may contain them; the judge does not judge them.
   * For the eight numpy histogram rules the interior edges are an input of the model
     (cube roots, IQR, skewness: not rational).  C13_bin_contains needs them non-decreasing,
     which is an observation about numpy's linspace, checked on every correspondence case.
   * Float rounding of the "uniform" edges (lo + range*k/m) is not modelled: the model is
     exact; the correspondence compares edges with tolerance 1e-9 and bin numbers exactly on
     dyadic inputs. *)
From Coq Require Import QArith List String.
Import ListNotations.
From MD Require Import lib.QLists model.Functionals model.Binning proofs.BinningProps.

Theorem C13_bin_total : forall kind feature n_bins m interior n edges table rows,
  bin_numeric kind feature n_bins m interior = NOk n edges table rows ->
  List.length rows = List.length feature /\
  forall i, match nth_error feature i with
            | None => nth_error rows i = None
            | Some None => nth_error rows i = Some None
            | Some (Some v) => exists e, nth_error rows i = Some (Some (stored_bin kind (digitize edges v), e))
            end.
Proof. exact bin_total. Qed.
Print Assumptions C13_bin_total.

Theorem C13_sbin_total : forall kind names feature n_bins n kept label k bins,
  bin_string kind names feature n_bins = SOk n kept label k bins ->
  List.length bins = List.length feature /\
  forall i, match nth_error feature i with
            | None => nth_error bins i = None
            | Some None => nth_error bins i = Some SBNull
            | Some (Some c) =>
                (nth_error bins i = Some (SBKeep c) /\ In c kept) \/
                (nth_error bins i = Some SBOther /\ ~ In c kept /\ label <> None)
            end.
Proof. exact sbin_total. Qed.
Print Assumptions C13_sbin_total.

(* for ANY non-decreasing (in particular any strictly increasing) edge vector *)
Theorem C13_table_contains : forall fmin fmax edges v,
  xsorted edges -> xleb fmin v = true -> xleb v fmax = true ->
  let b := digitize edges v in
  let '(lo, hi) := nth b (edge_table fmin fmax edges) (fmin, fmax) in
  (if (b =? 0)%nat then xleb lo v else xltb lo v) = true /\ xleb v hi = true /\
  lo = nth b (full_edges fmin fmax edges) fmin /\
  hi = nth (S b) (full_edges fmin fmax edges) fmax.
Proof. exact table_contains. Qed.
Print Assumptions C13_table_contains.

Theorem C13_bin_contains : forall kind feature n_bins m interior n edges table rows,
  bin_numeric kind feature n_bins m interior = NOk n edges table rows ->
  (m = NumpyRule -> xsorted (map Fin interior)) ->
  forall i v, nth_error feature i = Some (Some v) ->
  exists lo hi,
    nth_error rows i = Some (Some (stored_bin kind (digitize edges v), (lo, hi))) /\
    nth (digitize edges v) table (lo, hi) = (lo, hi) /\
    (if (digitize edges v =? 0)%nat then xleb lo v else xltb lo v) = true /\ xleb v hi = true.
Proof. exact bin_contains. Qed.
Print Assumptions C13_bin_contains.

Theorem C13_quantile_edges_strict : forall vals m, xstrict (quantile_edges vals m).
Proof. exact quantile_edges_strict. Qed.
Print Assumptions C13_quantile_edges_strict.

Theorem C13_uniform_edges_sorted : forall a r m, (0 <= r)%Q -> xsorted (uniform_edges a r m).
Proof. exact uniform_edges_sorted. Qed.
Print Assumptions C13_uniform_edges_sorted.

Theorem C13_quantile_is_qlow : forall a ys, xqlow a (map Fin ys) = Fin (qlow a (unit_w ys)).
Proof. exact xqlow_fin. Qed.
Print Assumptions C13_quantile_is_qlow.

Theorem C13_bin_monotone : forall kind feature n_bins m interior n edges table rows,
  bin_numeric kind feature n_bins m interior = NOk n edges table rows ->
  forall i j v1 v2 b1 b2 e1 e2,
    nth_error feature i = Some (Some v1) -> nth_error feature j = Some (Some v2) ->
    nth_error rows i = Some (Some (b1, e1)) -> nth_error rows j = Some (Some (b2, e2)) ->
    xleb v1 v2 = true -> (b1 <= b2)%nat.
Proof. exact bin_monotone. Qed.
Print Assumptions C13_bin_monotone.

Theorem C13_bin_equal_values : forall kind feature n_bins m interior n edges table rows,
  bin_numeric kind feature n_bins m interior = NOk n edges table rows ->
  forall i j v1 v2, nth_error feature i = Some (Some v1) -> nth_error feature j = Some (Some v2) ->
    xeqb v1 v2 = true -> nth_error rows i = nth_error rows j.
Proof. exact bin_equal_values. Qed.
Print Assumptions C13_bin_equal_values.

Theorem C13_groups_le_n_bins : forall kind feature n_bins m interior n edges table rows,
  bin_numeric kind feature n_bins m interior = NOk n edges table rows ->
  m <> NumpyRule -> (ngroups rows <= n_bins)%nat /\ (n <= n_bins)%nat.
Proof. exact groups_le_n_bins. Qed.
Print Assumptions C13_groups_le_n_bins.

Theorem C13_groups_le_returned : forall kind feature n_bins m interior n edges table rows,
  bin_numeric kind feature n_bins m interior = NOk n edges table rows -> (ngroups rows <= n)%nat.
Proof. exact groups_le_returned. Qed.
Print Assumptions C13_groups_le_returned.

Theorem C13_sgroups_le_n_bins : forall kind names feature n_bins n kept label k bins,
  bin_string kind names feature n_bins = SOk n kept label k bins ->
  (sgroups bins <= n)%nat /\ (n <= n_bins)%nat.
Proof. exact sgroups_le_n_bins. Qed.
Print Assumptions C13_sgroups_le_n_bins.

Theorem C13_kept_are_most_frequent : forall kind names feature n_bins n kept label k bins c d,
  bin_string kind names feature n_bins = SOk n kept (Some label) k bins ->
  In c kept -> In d (cats feature) -> ~ In d kept ->
  (count_code d feature <= count_code c feature)%nat.
Proof. exact kept_are_most_frequent. Qed.
Print Assumptions C13_kept_are_most_frequent.

Theorem C13_tie_natural_order : forall kind names feature n_bins n kept label k bins c d,
  bin_string kind names feature n_bins = SOk n kept (Some label) k bins ->
  In c kept -> In d (cats feature) -> ~ In d kept ->
  count_code d feature = count_code c feature -> (c < d)%nat.
Proof. exact tie_natural_order. Qed.
Print Assumptions C13_tie_natural_order.

Theorem C13_pooled_k_ge_2 : forall kind names feature n_bins n kept label k bins,
  bin_string kind names feature n_bins = SOk n kept (Some label) k bins ->
  (2 <= k)%nat /\
  exists pooled, NoDup pooled /\ List.length pooled = k /\
    forall d, In d pooled <-> (In d (cats feature) /\ ~ In d kept).
Proof. exact pooled_k_ge_2. Qed.
Print Assumptions C13_pooled_k_ge_2.

Theorem C13_label_is_count : forall k, (k < 1000)%nat -> format_integer k = nat_str k.
Proof. exact label_is_count. Qed.
Print Assumptions C13_label_is_count.

Theorem C13_pooled_label_fresh : forall kind names feature n_bins n kept label k bins,
  bin_string kind names feature n_bins = SOk n kept (Some label) k bins ->
  forall c, In c (cats feature) -> name_of names c <> label.
Proof. exact pooled_label_fresh. Qed.
Print Assumptions C13_pooled_label_fresh.

Theorem C13_pooled_label_fresh_enum : forall names feature n_bins n kept label k bins,
  bin_string SEnum names feature n_bins = SOk n kept (Some label) k bins -> ~ In label names.
Proof. exact pooled_label_fresh_enum. Qed.
Print Assumptions C13_pooled_label_fresh_enum.

(* about the loop as it was before commit 3ff5ebb (kept categories only) *)
Theorem C13_old_loop_label_collides :
  exists names feature n_bins c,
    NoDup names /\ In c (cats feature) /\ name_of names c = old_pooled_label names feature n_bins.
Proof. exact old_loop_label_collides. Qed.
Print Assumptions C13_old_loop_label_collides.

(* "every documented feature type is accepted" *)
Theorem C13_numeric_accepted : forall feature n_bins m interior,
  (2 <= n_bins)%nat ->
  exists n edges table rows, bin_numeric KNum feature n_bins m interior = NOk n edges table rows.
Proof. exact bin_numeric_accepts. Qed.
Print Assumptions C13_numeric_accepted.

Theorem C13_string_accepted : forall kind names feature n_bins,
  (2 <= n_bins)%nat ->
  exists n kept label k bins, bin_string kind names feature n_bins = SOk n kept label k bins.
Proof. exact bin_string_accepts. Qed.
Print Assumptions C13_string_accepted.

(* ---- numpy's histogram rules sturges / sqrt / rice modelled exactly (proofs/NumpyRulesProps.v) ---- *)
From Coq Require Import NArith QArith List Bool.
Import ListNotations.
From MD Require Import lib.QLists model.Functionals model.Binning model.NumpyRules proofs.BinningProps proofs.NumpyRulesProps.
Open Scope Q_scope.

(* numpy's rules sturges / sqrt / rice are computed inside Coq (model/NumpyRules.v): the exact number of bins ... *)
Theorem C13_rule_bins_sturges :
  forall n : N,
       (0 < n)%N ->
       (n <= 2 ^ (bins_exact Sturges n - 1))%N /\
       (forall k : N, (1 <= k)%N -> (n <= 2 ^ (k - 1))%N -> (bins_exact Sturges n <= k)%N).
Proof. exact bins_exact_sturges. Qed.
Print Assumptions C13_rule_bins_sturges.

Theorem C13_rule_bins_sqrt :
  forall n : N,
       (n <= bins_exact Sqrt n * bins_exact Sqrt n)%N /\
       (forall k : N, (n <= k * k)%N -> (bins_exact Sqrt n <= k)%N).
Proof. exact bins_exact_sqrt. Qed.
Print Assumptions C13_rule_bins_sqrt.

Theorem C13_rule_bins_rice :
  forall n : N,
       (8 * n <= cube (bins_exact Rice n))%N /\
       (forall k : N, (8 * n <= cube k)%N -> (bins_exact Rice n <= k)%N).
Proof. exact bins_exact_rice. Qed.
Print Assumptions C13_rule_bins_rice.

(* ... numpy's float computation gives the exact rule's count, or one more and then only at an exact point (n = 2^k, k^2) *)
Theorem C13_rule_nbins_bound :
  forall (r : rule) (k : dkind) (n : N) (lo hi : Q) (K : N) (es : list Q),
       np_edges r k n lo hi = NpOk K es ->
       (0 < n)%N ->
       lo < hi ->
       K = nbins_exact r k n lo hi \/ exact_point r n = true /\ K = (nbins_exact r k n lo hi + 1)%N.
Proof. exact np_nbins_bound. Qed.
Print Assumptions C13_rule_nbins_bound.

Theorem C13_rule_edges_exact :
  forall (r : rule) (k : dkind) (n : N) (lo hi : Q),
       lo <= hi ->
       let es := rule_edges_exact r k n lo hi in
       let
       '(f, l, K) := rule_outer_exact r k n lo hi in
        (1 <= K)%N /\ length es = S (N.to_nat K) /\ hd 0 es == f /\ last es 0 == l /\ f < l /\ strictQ es.
Proof. exact rule_edges_exact_props. Qed.
Print Assumptions C13_rule_edges_exact.

(* the interior edges of these rules are sorted: the hypothesis of C13_bin_contains is discharged for them *)
Theorem C13_rule_edges_sorted :
  forall (r : rule) (k : dkind) (n : N) (lo hi : Q) (l : list Q),
       np_interior r k n lo hi = Some l -> xsorted (map Fin l).
Proof. exact rule_edges_sorted. Qed.
Print Assumptions C13_rule_edges_sorted.

Theorem C13_bin_contains_rule :
  forall (r : rule) (dk : dkind) (na : N) (lo hi : Q) (interior : list Q) (kind : nkind)
         (feature : list (option ext)) (n_bins n : nat) (edges : list ext) (table : list (ext * ext))
         (rows : list nrow),
       np_interior r dk na lo hi = Some interior ->
       bin_numeric kind feature n_bins NumpyRule interior = NOk n edges table rows ->
       forall (i : nat) (v : ext),
       nth_error feature i = Some (Some v) ->
       exists l h : ext,
         nth_error rows i = Some (Some (stored_bin kind (digitize edges v), (l, h))) /\
         nth (digitize edges v) table (l, h) = (l, h) /\
         (if digitize edges v =? 0 then xleb l v else xltb l v) = true /\ xleb v h = true.
Proof. exact bin_contains_rule. Qed.
Print Assumptions C13_bin_contains_rule.


(* ====================================================================================== *)
(* TEXT TO APPEND TO props/C13.v                                                           *)
(* header table entry:  "independent of the row order (equivariance)"                     *)
(*     C13_min_perm, C13_max_perm, C13_finite_min_perm, C13_finite_max_perm,               *)
(*     C13_quantile_perm, C13_unique_perm, C13_quantile_edges_perm, C13_uniform_edges_compat,*)
(*     C13_bin_numeric_perm (ALL inputs, edges up to xeq), C13_bin_numeric_perm_rows,       *)
(*     C13_bin_numeric_perm_canon (reduced fractions: Leibniz),                             *)
(*     C13_value_counts_perm, C13_freq_table_perm, C13_bin_string_perm (Leibniz)            *)
(* ====================================================================================== *)
From Coq Require Import QArith List Permutation String.
Import ListNotations.
From MD Require Import lib.QLists model.Functionals model.Binning proofs.BinningProps proofs.BinningPerm.

Theorem C13_min_perm : forall l l', Permutation l l' -> orel xeq (xmin_opt l) (xmin_opt l').
Proof. exact xmin_opt_perm. Qed.
Print Assumptions C13_min_perm.

Theorem C13_max_perm : forall l l', Permutation l l' -> orel xeq (xmax_opt l) (xmax_opt l').
Proof. exact xmax_opt_perm. Qed.
Print Assumptions C13_max_perm.

Theorem C13_finite_min_perm : forall l l' fmin fmin',
  Permutation l l' -> xeq fmin fmin' -> orel xeq (finite_min l fmin) (finite_min l' fmin').
Proof. exact finite_min_perm. Qed.
Print Assumptions C13_finite_min_perm.

Theorem C13_finite_max_perm : forall l l' fmax fmax',
  Permutation l l' -> xeq fmax fmax' -> orel xeq (finite_max l fmax) (finite_max l' fmax').
Proof. exact finite_max_perm. Qed.
Print Assumptions C13_finite_max_perm.

(* np.nanquantile(..., method="inverted_cdf") is a function of the multiset *)
Theorem C13_quantile_perm : forall a l l', Permutation l l' -> xeq (xqlow a l) (xqlow a l').
Proof. exact xqlow_perm. Qed.
Print Assumptions C13_quantile_perm.

(* np.unique *)
Theorem C13_unique_perm : forall l l', Permutation l l' -> Forall2 xeq (xuniq l) (xuniq l').
Proof. exact xuniq_perm. Qed.
Print Assumptions C13_unique_perm.

Theorem C13_quantile_edges_perm : forall l l' m,
  Permutation l l' -> Forall2 xeq (quantile_edges l m) (quantile_edges l' m).
Proof. exact quantile_edges_perm. Qed.
Print Assumptions C13_quantile_edges_perm.

Theorem C13_uniform_edges_compat : forall a a' b b' m,
  (a == a')%Q -> (b == b')%Q -> uniform_edges a (b - a) m = uniform_edges a' (b' - a') m.
Proof. exact uniform_edges_compat. Qed.
Print Assumptions C13_uniform_edges_compat.

(* bin_feature on a numeric / Boolean column, every method (numpy rule: same interior edges supplied):
   same outcome class, same returned n_bins, edges and edge table pointwise xeq, and the frames are
   `map g l`, `map g' l'` with g, g' agreeing on EVERY cell (same bin number, xeq edges) *)
Theorem C13_bin_numeric_perm : forall kind l l' n_bins m interior,
  Permutation l l' ->
  nres_eq l l' (bin_numeric kind l n_bins m interior) (bin_numeric kind l' n_bins m interior).
Proof. exact bin_numeric_perm. Qed.
Print Assumptions C13_bin_numeric_perm.

Theorem C13_bin_numeric_perm_rows : forall kind l l' n_bins m interior n e t rows n' e' t' rows',
  Permutation l l' ->
  bin_numeric kind l n_bins m interior = NOk n e t rows ->
  bin_numeric kind l' n_bins m interior = NOk n' e' t' rows' ->
  n = n' /\ List.length e = List.length e' /\ Forall2 xeq e e' /\ Forall2 xeq2 t t' /\
  forall i j o, nth_error l i = Some o -> nth_error l' j = Some o ->
    exists r r', nth_error rows i = Some r /\ nth_error rows' j = Some r' /\ nrow_eq r r'.
Proof. exact bin_numeric_perm_rows. Qed.
Print Assumptions C13_bin_numeric_perm_rows.

(* reduced fractions in the column: n_bins, edge vector, edge table EQUAL, frames `map g` of the SAME g *)
Theorem C13_bin_numeric_perm_canon : forall kind l l' n_bins m interior,
  Permutation l l' -> Forall ocanon l ->
  nres_eq_canon l l' (bin_numeric kind l n_bins m interior) (bin_numeric kind l' n_bins m interior).
Proof. exact bin_numeric_perm_canon. Qed.
Print Assumptions C13_bin_numeric_perm_canon.

(* .value_counts() *)
Theorem C13_value_counts_perm : forall c l l', Permutation l l' -> count_code c l = count_code c l'.
Proof. exact count_code_perm. Qed.
Print Assumptions C13_value_counts_perm.

(* ... .sort(by=["count", name], descending=[True, False]): the SAME table (no ties: categories are distinct) *)
Theorem C13_freq_table_perm : forall l l', Permutation l l' -> freq_table l = freq_table l'.
Proof. exact freq_table_perm_inv. Qed.
Print Assumptions C13_freq_table_perm.

(* string / categorical / enum: returned n_bins, kept categories, pooled label, k EQUAL; bins = map g of the SAME g *)
Theorem C13_bin_string_perm : forall kind names l l' n_bins,
  Permutation l l' ->
  sres_eq l l' (bin_string kind names l n_bins) (bin_string kind names l' n_bins).
Proof. exact bin_string_perm. Qed.
Print Assumptions C13_bin_string_perm.


