(* C17 - Results do not depend on the container or numeric dtype of the inputs.
   PARTIAL by nature: in a mathematical model a container does not exist.  What is proved is the second
   sentence of the property - the aggregate score (gen_call = the translation of
   _BaseScoringFunction.__call__, which no class overrides: checked by the translator on every run) is the
   weighted average of the per-observation scores and is unchanged by rescaling the weights - and that the
   vector call is the per-observation function lifted element-wise (so it cannot depend on anything but the
   numbers).  The first sentence (lists, tuples, int64/float64 ndarrays, polars Series give the same scores,
   identification values, decompositions, bias/marginal tables and isotonic fits) is decided by the
   correspondence harness harness/run_containers.py, which applies the abstraction 'container -> numbers'
   and compares every public result with the float64-ndarray result; pandas/pyarrow are not installed. *)
From Coq Require Import Reals List Bool.
Import ListNotations.
From MD Require Import lib.NumpyR gen.Gen_ident gen.Gen_scoring proofs.ScoreGen proofs.CallProps.
Open Scope R_scope.

(* aggregate = np.average(score_per_obs, weights) *)
Theorem C17_call_is_weighted_average :
  forall (spo : list R -> list R -> result (list R)) (y z : list R) (w : option (list R)) (s : list R),
       spo y z = Ok s -> gen_call spo y z w = Ok (np_average s w).
Proof. exact call_is_wavg. Qed.
Print Assumptions C17_call_is_weighted_average.

Theorem C17_call_weighted_value :
  forall (spo : list R -> list R -> result (list R)) (y z w s : list R),
       spo y z = Ok s -> gen_call spo y z (Some w) = Ok (dotR s w / sumR w).
Proof. exact call_weighted_value. Qed.
Print Assumptions C17_call_weighted_value.

Theorem C17_call_raises_iff :
  forall (spo : list R -> list R -> result (list R)) (y z : list R) (w : option (list R)),
       gen_call spo y z w = ValueErr <-> spo y z = ValueErr.
Proof. exact call_raises_iff_spo_raises. Qed.
Print Assumptions C17_call_raises_iff.

(* unchanged by rescaling all weights *)
Theorem C17_call_scale_invariant :
  forall (spo : list R -> list R -> result (list R)) (y z : list R) (c : R) (w : list R),
       c <> 0 -> sumR w <> 0 -> gen_call spo y z (Some (map (Rmult c) w)) = gen_call spo y z (Some w).
Proof. exact call_scale_invariant. Qed.
Print Assumptions C17_call_scale_invariant.

Theorem C17_unit_weights_are_plain_mean :
  forall s : list R, np_average s (Some (repeat 1 (length s))) = np_average s None.
Proof. exact wavg_unit_weights. Qed.
Print Assumptions C17_unit_weights_are_plain_mean.

(* the vector call is the per-observation function applied element-wise *)
Theorem C17_array_is_elementwise :
  forall (f : R -> R -> result R) (ys zs ss : list R),
       lift2 f ys zs = Ok ss ->
       length ys = length zs ->
       Forall2 (fun (yz : R * R) (s : R) => f (fst yz) (snd yz) = Ok s) (combine ys zs) ss.
Proof. exact lift2_ok. Qed.
Print Assumptions C17_array_is_elementwise.

Theorem C17_array_raises_iff :
  forall (f : R -> R -> result R) (ys zs : list R),
       length ys = length zs ->
       lift2 f ys zs = ValueErr <-> Exists (fun yz : R * R => f (fst yz) (snd yz) = ValueErr) (combine ys zs).
Proof. exact lift2_err. Qed.
Print Assumptions C17_array_raises_iff.
