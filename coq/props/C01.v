(* C01 - Isotonic mean regression is the exact weighted least-squares monotone fit.
   Theorems about the executable model model/Isotonic.v (isotonic_regression with
   functional = mean, i.e. model/Pava.v), for every non-empty rational response
   sequence, every strictly positive weight vector (or none), both directions,
   against ALL REAL monotone competitor sequences u. *)
From Coq Require Import QArith Qreals Reals List.
Import ListNotations.
From MD Require Import lib.QLists model.Isotonic theory.Optimal theory.IsoOptimal proofs.IsoProps.

Theorem C01_total : forall y weights inc lvl, y <> [] -> valid_w y weights ->
  exists x r, isotonic_regression y weights inc IFmean lvl = IOk (x, r).
Proof. exact iso_mean_total. Qed.
Print Assumptions C01_total.

(* monotone in the requested direction and optimal, with the Pythagorean gap *)
Theorem C01_optimal : forall y weights inc lvl x r, y <> [] -> valid_w y weights ->
  isotonic_regression y weights inc IFmean lvl = IOk (x, r) ->
  length x = length y /\ monoQ inc x /\
  forall u : list R, length u = length y -> monoR inc u ->
    (lossSq (data y weights) u >= lossSq (data y weights) (map Q2R x) + wdist (data y weights) u (map Q2R x))%R.
Proof. exact iso_mean_optimal. Qed.
Print Assumptions C01_optimal.

(* the unique minimiser *)
Theorem C01_unique : forall y weights inc lvl x r, y <> [] -> valid_w y weights ->
  isotonic_regression y weights inc IFmean lvl = IOk (x, r) ->
  forall u : list R, length u = length y -> monoR inc u ->
    (lossSq (data y weights) u <= lossSq (data y weights) (map Q2R x))%R -> u = map Q2R x.
Proof. exact iso_mean_unique. Qed.
Print Assumptions C01_unique.

(* weighted totals are preserved *)
Theorem C01_totals : forall y weights inc lvl x r, y <> [] -> valid_w y weights ->
  isotonic_regression y weights inc IFmean lvl = IOk (x, r) ->
  (wsum (combine x (weights_of y weights)) == wsum (data y weights))%Q.
Proof. exact iso_mean_totals. Qed.
Print Assumptions C01_totals.

(* Full statement of the max-min formula (kept visible; not proved - uniqueness above
   pins the same object down, and the search judge harness/judge.py evaluates the
   formula exactly on every disagreeing case):
     x_i == max_{a<=i} min_{b>=i} wmean (y[a..b])                                  *)
