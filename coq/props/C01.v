(* C01 - Isotonic mean regression is the exact weighted least-squares monotone fit.
   Theorems about the executable model model/Isotonic.v (isotonic_regression with
   functional = mean, i.e. model/Pava.v), for every non-empty rational response
   sequence, every strictly positive weight vector (or none), both directions,
   against ALL REAL monotone competitor sequences u. *)
From Coq Require Import QArith Qreals Reals List.
Import ListNotations.
From MD Require Import lib.QLists model.Isotonic theory.Optimal theory.IsoOptimal proofs.IsoProps
  theory.MaxMin proofs.IsoMaxMin.

Theorem C01_total : forall y weights inc lvl, y <> [] -> valid_w y weights ->
  exists x r, isotonic_regression y weights inc IFmean lvl = IOk (x, r).
Proof. exact iso_mean_total. Qed.
Print Assumptions C01_total.

(* monotone in the requested direction and optimal, with the Pythagorean gap *)
Theorem C01_optimal : forall y weights inc lvl x r, y <> [] -> valid_w y weights ->
  isotonic_regression y weights inc IFmean lvl = IOk (x, r) ->
  length x = length y /\ monoQ inc x /\
  forall u : list R, length u = length y -> monoR inc u ->
    (lossSq (data y weights) u >= lossSq (data y weights) (map Q2R x) + wdist (data y weights) u (map Q2R x))%R.
Proof. exact iso_mean_optimal. Qed.
Print Assumptions C01_optimal.

(* the unique minimiser *)
Theorem C01_unique : forall y weights inc lvl x r, y <> [] -> valid_w y weights ->
  isotonic_regression y weights inc IFmean lvl = IOk (x, r) ->
  forall u : list R, length u = length y -> monoR inc u ->
    (lossSq (data y weights) u <= lossSq (data y weights) (map Q2R x))%R -> u = map Q2R x.
Proof. exact iso_mean_unique. Qed.
Print Assumptions C01_unique.

(* weighted totals are preserved *)
Theorem C01_totals : forall y weights inc lvl x r, y <> [] -> valid_w y weights ->
  isotonic_regression y weights inc IFmean lvl = IOk (x, r) ->
  (wsum (combine x (weights_of y weights)) == wsum (data y weights))%Q.
Proof. exact iso_mean_totals. Qed.
Print Assumptions C01_totals.

(* the max-min formula: seg l a b = l[a..b] (both ends inclusive, 0-based; theory/MaxMin.v
   seg_nth, seg_length), data y weights = the (y_i, w_i) pairs.  First the formula spelled
   with quantifiers, then with the executable fold maxmin (and the equal min-max). *)
Theorem C01_maxmin : forall y weights lvl x r, y <> [] -> valid_w y weights ->
  isotonic_regression y weights true IFmean lvl = IOk (x, r) ->
  forall i, (i < length y)%nat ->
    ((forall a, (a <= i)%nat -> exists b, (i <= b < length y)%nat /\
         (wmean (seg (data y weights) a b) <= nth i x 0)%Q) /\
     (exists a, (a <= i)%nat /\ forall b, (i <= b < length y)%nat ->
         (nth i x 0 <= wmean (seg (data y weights) a b))%Q)) /\
    (nth i x 0 == maxmin wmean (data y weights) i)%Q /\
    (nth i x 0 == minmax wmean (data y weights) i)%Q.
Proof. exact iso_mean_maxmin. Qed.
Print Assumptions C01_maxmin.

(* decreasing fit: the mirrored formula  x_i == min_{a<=i} max_{b>=i} == max_{b>=i} min_{a<=i} *)
Theorem C01_maxmin_decreasing : forall y weights lvl x r, y <> [] -> valid_w y weights ->
  isotonic_regression y weights false IFmean lvl = IOk (x, r) ->
  forall i, (i < length y)%nat ->
    ((exists a, (a <= i)%nat /\ forall b, (i <= b < length y)%nat ->
         (wmean (seg (data y weights) a b) <= nth i x 0)%Q) /\
     (forall a, (a <= i)%nat -> exists b, (i <= b < length y)%nat /\
         (nth i x 0 <= wmean (seg (data y weights) a b))%Q)) /\
    (nth i x 0 == minmax_dec wmean (data y weights) i)%Q /\
    (nth i x 0 == maxmin_dec wmean (data y weights) i)%Q.
Proof. exact iso_mean_maxmin_dec. Qed.
Print Assumptions C01_maxmin_decreasing.

(* what the fold is *)
Theorem C01_maxmin_def : forall (A : Type) (T : list A -> Q) l i, maxmin T l i =
  lmax (map (fun a => lmin (map (fun b => T (seg l a b)) (seq i (length l - i)))) (seq 0 (S i))).
Proof. exact maxmin_def. Qed.
Print Assumptions C01_maxmin_def.
Theorem C01_lmax_spec : forall xs, xs <> [] ->
  (exists x, In x xs /\ (lmax xs == x)%Q) /\ forall x, In x xs -> (x <= lmax xs)%Q.
Proof. exact lmax_spec. Qed.
Print Assumptions C01_lmax_spec.
Theorem C01_lmin_spec : forall xs, xs <> [] ->
  (exists x, In x xs /\ (lmin xs == x)%Q) /\ forall x, In x xs -> (lmin xs <= x)%Q.
Proof. exact lmin_spec. Qed.
Print Assumptions C01_lmin_spec.
Theorem C01_seg_nth : forall (A : Type) (d : A) (l : list A) a b k, (a + k <= b)%nat ->
  nth k (seg l a b) d = nth (a + k) l d.
Proof. exact seg_nth. Qed.
Print Assumptions C01_seg_nth.

(* non-vacuity: a weighted instance that needs pooling (hypotheses of the theorems above are satisfiable) *)
From MD Require Import proofs.Examples.
Theorem C01_example : isotonic_regression [3; 1; 2; 5; 4]%Q (Some [1; 2; 1; 1; 3]%Q) true IFmean (1#2)
    = IOk ([5#3; 5#3; 2; 17#4; 17#4]%Q, [0; 2; 3; 5]%nat)
  /\ [3; 1; 2; 5; 4]%Q <> [] /\ valid_w [3; 1; 2; 5; 4]%Q (Some [1; 2; 1; 1; 3]%Q).
Proof. exact (conj ex_iso_mean ex_iso_mean_valid). Qed.
Print Assumptions C01_example.

(* ---- float twin (primitive floats; the names listed by Print Assumptions are Coq's primitive operations, not axioms) ---- *)
From Coq Require Import PrimFloat QArith List Bool.
Import ListNotations.
From MD Require Import model.Pava model.PavaFloat proofs.PavaFloatProps proofs.PavaFloatExact.

(* the binary64 twin of the mean PAVA (model/PavaFloat.v), which the correspondence run compares BIT FOR BIT with the implementation on arbitrary doubles, agrees with the rational model (block vector equal, values equal as rationals) whenever every operation of the run is exact (exact_run, a computable predicate; true e.g. on dyadic inputs with few significant bits) *)
Theorem C01_float_twin_agrees_with_rational_model :
  forall y w : list float,
       combine y w <> [] ->
       exact_run y w = true ->
       exists (qx : list Q) (qr : list nat),
         pava (combine (map val y) (map val w)) = Some (qx, qr) /\
         Forall2 rep (fst (pava_f y w)) qx /\ snd (pava_f y w) = qr.
Proof. exact pava_f_exact_agrees. Qed.
Print Assumptions C01_float_twin_agrees_with_rational_model.

Theorem C01_float_twin_total :
  forall y w : list float,
       exists stk : list fblk,
         pava_blocks_f (combine y w) = Some stk /\ pava_f y w = (fexpand stk, frvec stk).
Proof. exact pava_f_fuel. Qed.
Print Assumptions C01_float_twin_total.

(* monotone AS FLOATS: for every binary64 input whose result contains no NaN (proofs/PavaFloatMonotone.v; rests on the
   standard library's FloatAxioms.eqb_spec / ltb_spec / leb_spec, listed by Print Assumptions) *)
From MD Require Import proofs.PavaFloatMonotone.
Theorem C01_float_twin_monotone :
  forall (y : list float) (w : option (list float)) (inc : bool) (x : list float) (r : list nat),
    isotonic_mean_f y w inc = FOk (x, r) -> no_nan x ->
    forall (i : nat) (d : float), (S i < length x)%nat ->
      if inc then (nth i x d <=? nth (S i) x d)%float = true else (nth (S i) x d <=? nth i x d)%float = true.
Proof. exact isotonic_mean_f_monotone. Qed.
Print Assumptions C01_float_twin_monotone.
