(* C07 - Decomposition is invariant to row order, replication and monotone relabelling.
   Theorems about the executable model model/Decompose.v.  Unless a theorem names `fixed`, it is
   stated for an ARBITRARY code variant v (record `variant`), hence in particular for `fixed`,
   the code as it is now.

   FOUND AND REPAIRED by this property's work (/repo commits):
     d3b9226  decompose(..., functional="median") raised UnboundLocalError; now the documented
              alias of ("quantile", 0.5): C07_median_alias.
     04732ba  the domain repair (scores that reject min(y_obs), e.g. Poisson deviance with zero
              counts) located blocks by array POSITION, so unsorted rows raised ValueError or
              changed the numbers; now by VALUE (mask): DecomposeProps.repair_by_value_example.
     e52a7ce  one-row data sets raised ValueError (see C06.v).
   The statements C07_OLD_* at the end are the labelled RECORD OF THE BEHAVIOUR BEFORE these
   commits (variant `current`); they are not part of the property.

   property clause                                              theorem
   -----------------------------------------------------------------------------------
   rows permuted: decomposition unchanged                       C07_perm_mean: ALL FOUR columns, mean functional,
                                                                 every score that does not distinguish equal
                                                                 rationals, smallest observation admissible (no
                                                                 repair); C07_perm_squared_error (no side condition);
                                                                 C07_perm_score_unc: score and uncertainty for every
                                                                 S, functional, variant.
                                                                 PARTIAL: miscalibration / discrimination for the
                                                                 expectile and quantile functionals and on the
                                                                 repair path are not proved (full statements in
                                                                 proofs/DecomposeProps.v Part 7; judge: every case
                                                                 is re-run with shuffled rows)
   integer weights = repeated rows (mean, expectile)            NOT proved (judge: metamorphic test on every case)
   discrimination and uncertainty unchanged under a             C07_monotone_relabel (every S, every strictly
     strictly increasing transformation of the forecasts         increasing g : Q -> Q respecting ==)
   each column of a matrix gets the row it gets alone           C07_column_indep, C07_columns_assemble
   explicit = inferred functional / level                       C07_explicit_functional, C07_explicit_level,
                                                                 C07_mean_level_ignored
   median = quantile at 0.5                                     C07_median_alias (variant `fixed`, unconditional)

   Axioms: C07_perm_mean / C07_perm_squared_error go through the real-number optimality theorem of
   C01 (sig_forall_dec, functional_extensionality_dep); all others are closed. *)
From Coq Require Import QArith List Permutation.
Import ListNotations.
From MD Require Import lib.QLists model.Functionals model.Isotonic model.Decompose proofs.DecomposeProps.
Open Scope Q_scope.

Theorem C07_perm_score_unc : forall v S sf_fun sf_level functional level weighted rs rs' row row',
  Permutation rs rs' ->
  decompose v S sf_fun sf_level (map ty rs) [map tx rs] (wopt weighted rs) functional level = DOk [row] ->
  decompose v S sf_fun sf_level (map ty rs') [map tx rs'] (wopt weighted rs') functional level = DOk [row'] ->
  sco row = sco row' /\ unc row = unc row'.
Proof. exact decomp_perm_score_unc. Qed.
Print Assumptions C07_perm_score_unc.

Theorem C07_monotone_relabel : forall g : Q -> Q,
  (forall p q, p < q -> g p < g q) -> (forall p q, p == q -> g p == g q) ->
  forall v S sf_fun sf_level y cols w functional level rows rows',
  decompose v S sf_fun sf_level y cols w functional level = DOk rows ->
  decompose v S sf_fun sf_level y (map (map g) cols) w functional level = DOk rows' ->
  Forall2 (fun r r' => dsc r = dsc r' /\ unc r = unc r') rows rows'.
Proof. exact decomp_monotone_relabel. Qed.
Print Assumptions C07_monotone_relabel.

Theorem C07_column_indep : forall v S sf_fun sf_level y cols w functional level rows i,
  decompose v S sf_fun sf_level y cols w functional level = DOk rows ->
  (i < length cols)%nat ->
  decompose v S sf_fun sf_level y [nth i cols []] w functional level
    = DOk [nth i rows (mkrow 0 0 0 0)].
Proof. exact decomp_column_indep. Qed.
Print Assumptions C07_column_indep.

Theorem C07_columns_assemble : forall v S sf_fun sf_level y cols w functional level rows,
  cols <> [] ->
  Forall2 (fun x r => decompose v S sf_fun sf_level y [x] w functional level = DOk [r]) cols rows ->
  decompose v S sf_fun sf_level y cols w functional level = DOk rows.
Proof. exact decomp_columns_assemble. Qed.
Print Assumptions C07_columns_assemble.

Theorem C07_explicit_functional : forall v S f sl y cols w level,
  decompose v S (Some f) sl y cols w (Some f) level = decompose v S (Some f) sl y cols w None level.
Proof. exact decomp_explicit_functional. Qed.
Print Assumptions C07_explicit_functional.

Theorem C07_explicit_level : forall v S f a y cols w,
  has_level f = true ->
  decompose v S (Some f) (Some a) y cols w None (Some a) = decompose v S (Some f) (Some a) y cols w None None.
Proof. exact decomp_explicit_level. Qed.
Print Assumptions C07_explicit_level.

Theorem C07_mean_level_ignored : forall v S sl y cols w a,
  decompose v S (Some IFmean) sl y cols w None (Some a) = decompose v S (Some IFmean) sl y cols w None None.
Proof. exact decomp_mean_level_ignored. Qed.
Print Assumptions C07_mean_level_ignored.

Theorem C07_median_alias : forall S sf sl y cols w lvl,
  decompose fixed S sf sl y cols w (Some IFmedian) lvl
  = decompose fixed S sf sl y cols w (Some IFquantile) (Some (1#2)).
Proof. exact decomp_median_alias_fixed. Qed.
Print Assumptions C07_median_alias.

Theorem C07_perm_mean : forall v (S : Q -> Q -> option Q),
  (forall y z z', z == z' -> S y z = S y z') ->
  forall sf_fun sf_level functional level a weighted rs rs' row row',
  Permutation rs rs' ->
  infer sf_fun sf_level functional level = DOk (IFmean, a) ->
  allowed S (hd 0 (map ty rs)) (minQ (hd 0 (map ty rs)) (tl (map ty rs))) = true ->
  allowed S (hd 0 (map ty rs')) (minQ (hd 0 (map ty rs')) (tl (map ty rs'))) = true ->
  decompose v S sf_fun sf_level (map ty rs) [map tx rs] (wopt weighted rs) functional level = DOk [row] ->
  decompose v S sf_fun sf_level (map ty rs') [map tx rs'] (wopt weighted rs') functional level = DOk [row'] ->
  mcb row = mcb row' /\ dsc row = dsc row' /\ unc row = unc row' /\ sco row = sco row'.
Proof. exact decomp_perm_mean. Qed.
Print Assumptions C07_perm_mean.

Theorem C07_perm_squared_error : forall v sf_fun sf_level functional level a weighted rs rs' row row',
  Permutation rs rs' ->
  infer sf_fun sf_level functional level = DOk (IFmean, a) ->
  decompose v (total sq_score) sf_fun sf_level (map ty rs) [map tx rs] (wopt weighted rs) functional level
    = DOk [row] ->
  decompose v (total sq_score) sf_fun sf_level (map ty rs') [map tx rs'] (wopt weighted rs') functional level
    = DOk [row'] ->
  mcb row = mcb row' /\ dsc row = dsc row' /\ unc row = unc row' /\ sco row = sco row'.
Proof. exact decomp_perm_squared_error. Qed.
Print Assumptions C07_perm_squared_error.

(* ------------------------------------------------------------------------------------------- *)
(* RECORD OF THE OLD BEHAVIOUR: variant `current` = the code BEFORE /repo fixes d3b9226 and     *)
(* 04732ba.  Not part of the property; kept as the documented witnesses of the two defects.     *)
(* ------------------------------------------------------------------------------------------- *)
Theorem C07_OLD_median_alias_refuted :
  exists S y cols rows,
    decompose current S (Some IFquantile) (Some (1#2)) y cols None (Some IFmedian) None = DErr DEUnbound /\
    decompose current S (Some IFquantile) (Some (1#2)) y cols None (Some IFquantile) (Some (1#2)) = DOk rows.
Proof. exact decomp_median_alias_refuted. Qed.
Print Assumptions C07_OLD_median_alias_refuted.

Theorem C07_OLD_repair_not_perm_invariant_refuted :
  exists rows,
    decompose current sq_pos (Some IFmean) (Some (1#2)) [0; 0; 1; 2; 0; 3]
      [[1#2; 1#5; 3#2; 5#2; 1#10; 3]] None None None = DErr DEValue /\
    decompose current sq_pos (Some IFmean) (Some (1#2)) [0; 0; 0; 1; 2; 3]
      [[1#10; 1#5; 1#2; 3#2; 5#2; 3]] None None None = DOk rows.
Proof. exact repair_not_perm_invariant_refuted. Qed.
Print Assumptions C07_OLD_repair_not_perm_invariant_refuted.

(* the same rows under the repaired code: both orders succeed with the same decomposition *)
Theorem C07_repair_by_value_example :
  exists r r',
    decompose fixed sq_pos (Some IFmean) (Some (1#2)) [0; 0; 1; 2; 0; 3]
      [[1#2; 1#5; 3#2; 5#2; 1#10; 3]] None None None = DOk [r] /\
    decompose fixed sq_pos (Some IFmean) (Some (1#2)) [0; 0; 0; 1; 2; 3]
      [[1#10; 1#5; 1#2; 3#2; 5#2; 3]] None None None = DOk [r'] /\
    row_Qeqb r r' = true.
Proof. exact repair_by_value_example. Qed.
Print Assumptions C07_repair_by_value_example.
