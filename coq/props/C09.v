(* C09 - compute_bias reports the defined per-group statistics and conserves totals.
   Theorems about the executable model model/Bias.v of `compute_bias`
   (src/model_diagnostics/calibration/identification.py, lines 124-479) over Q, with the
   groups supplied by model/Binning.v (C13).  Tied to the code by the correspondence run
   harness/run_bias.py + corr/CmpBias.v (every feature type, 10 bin methods, 1-3 models,
   weights or none, four functionals).

   Clause of the property text                          theorem
   ---------------------------------------------------  -----------------------------------
   every output row equals the definition applied to    C09_row_is_definition, C09_group_exists
   exactly the rows of its group: weighted mean of V,   (true by construction of the model: all
   count, weight sum, Bessel-corrected weighted         assurance for this clause is the
   standard error, t-test with count-1 d.o.f.           correspondence with polars); the closed
                                                        forms: C09_stderr2, C09_p_student
   counts sum to the number of rows                     C09_counts_sum
   weights sum to the total weight                      C09_weights_sum
   weight-averaged group biases equal the overall bias  C09_means_sum, C09_means_average
                                                        (strictly positive weights)
   null feature values keep their own group             C09_null_group (and it comes first)
   independent of row order                             C09_perm, C09_perm_ungrouped (the whole
                                                        table is syntactically equal)
   `.head(n_bins)` (line 425) never drops a group       C09_no_truncation_numeric / _string
                                                        (uses C13 groups_le_returned)

   NOT proved / outside the model:
   * bias_stderr = sqrt(stderr2) and p_value = 2*stdtr(df, -sqrt(t2)) are not rational: the
     model exposes stderr2, t2 and df; the comparator squares the implementation's stderr and
     the harness evaluates scipy's stdtr on the model's pieces (stdtr is trusted).
   * "identical on repeated calls": a Gallina function is deterministic; on the
     implementation the judge calls twice and compares bit for bit (observation).
   * FOUND AND REPAIRED through this check (see props/C13.v): compute_bias used to raise for an
     all-null / all-NaN numeric feature (9ce4ae5: now one null group), for a pl.Enum feature
     with more categories than bins (f02e33e: now pooled, the pooled label sorts last), for a
     numeric feature whose only non-null values are +inf / -inf (b2b5cba: now one bin; before,
     TypeError or NaN edges), and pooled under a name that was a real category (3ff5ebb).
     All four are ordinary valid inputs of the correspondence and of the judge now; with
     C13_numeric_accepted / C13_string_accepted the grouping never fails for a documented
     feature type.  Boolean features are not a documented feature type: modelled, not judged.
   * C09_perm is stated on rows (y, z, key, w), i.e. AFTER binning.  That the binning itself
     is independent of the row order (quantile edges, frequency table) is not proved here;
     the judge shuffles the raw inputs of the implementation.
   * polars' group-by / window engine, float rounding of the sums. *)
From Coq Require Import QArith List Permutation.
Import ListNotations.
From MD Require Import lib.QLists model.Functionals model.Binning model.Bias
  proofs.BinningProps proofs.BiasProps.

Theorem C09_row_is_definition : forall f a rows g,
  In g (bias_groups f a rows) ->
  present (g_key g) rows = true /\ g = stat_of (g_key g) (members f a (g_key g) rows).
Proof. exact bias_row_is_definition. Qed.
Print Assumptions C09_row_is_definition.

Theorem C09_group_exists : forall f a rows r,
  In r rows -> exists g, In g (bias_groups f a rows) /\ g_key g = r_key r.
Proof. exact bias_group_exists. Qed.
Print Assumptions C09_group_exists.

(* bias_stderr^2 = sum w (V - mean)^2 / sum w / max(1, count - 1), as the code computes it *)
Theorem C09_stderr2 : forall g l,
  (g_stderr2 (stat_of g l) ==
   wssq (g_mean (stat_of g l)) l / wtot l / Qnat (Nat.max 1 (List.length l - 1)))%Q.
Proof. exact stat_stderr2. Qed.
Print Assumptions C09_stderr2.

(* the pieces of the p-value: t^2 = mean^2 / stderr^2 with count - 1 degrees of freedom *)
Theorem C09_p_student : forall g l t2 df,
  g_p (stat_of g l) = PStudent t2 df ->
  df = (List.length l - 1)%nat /\ (0 < g_stderr2 (stat_of g l))%Q /\
  (t2 == g_mean (stat_of g l) * g_mean (stat_of g l) / g_stderr2 (stat_of g l))%Q.
Proof. exact stat_p_student. Qed.
Print Assumptions C09_p_student.

Theorem C09_counts_sum : forall f a rows,
  nsum (map g_count (bias_groups f a rows)) = List.length rows.
Proof. exact bias_counts_sum. Qed.
Print Assumptions C09_counts_sum.

Theorem C09_weights_sum : forall f a rows,
  (qsum (map g_weights (bias_groups f a rows)) == qsum (map r_w rows))%Q.
Proof. exact bias_weights_sum. Qed.
Print Assumptions C09_weights_sum.

Theorem C09_means_sum : forall f a rows,
  (forall r, In r rows -> (0 < r_w r)%Q) ->
  (qsum (map (fun g => g_weights g * g_mean g) (bias_groups f a rows))
   == qsum (map (fun r => r_w r * Vq f a (r_y r) (r_z r)) rows))%Q.
Proof. exact bias_means_sum. Qed.
Print Assumptions C09_means_sum.

Theorem C09_means_average : forall f a rows,
  rows <> [] -> (forall r, In r rows -> (0 < r_w r)%Q) ->
  (qsum (map (fun g => g_weights g * g_mean g) (bias_groups f a rows))
     / qsum (map g_weights (bias_groups f a rows))
   == g_mean (bias_all f a rows))%Q.
Proof. exact bias_means_average. Qed.
Print Assumptions C09_means_average.

Theorem C09_null_group : forall f a rows,
  (present None rows = true ->
     exists rest, bias_groups f a rows = stat_of None (members f a None rows) :: rest /\
                  (forall g, In g rest -> g_key g <> None) /\
                  g_count (stat_of None (members f a None rows))
                    = List.length (filter (fun r => okey_eqb (r_key r) None) rows)) /\
  (present None rows = false -> forall g, In g (bias_groups f a rows) -> g_key g <> None).
Proof. exact bias_null_group. Qed.
Print Assumptions C09_null_group.

Theorem C09_perm : forall f a rows rows',
  Permutation rows rows' -> bias_groups f a rows = bias_groups f a rows'.
Proof. exact bias_perm. Qed.
Print Assumptions C09_perm.

Theorem C09_perm_ungrouped : forall f a rows rows',
  Permutation rows rows' -> bias_all f a rows = bias_all f a rows'.
Proof. exact bias_all_perm. Qed.
Print Assumptions C09_perm_ungrouped.

Theorem C09_no_truncation_numeric :
  forall kind feature n_bins m interior n edges table nrows f a ys zs ws,
  bin_numeric kind feature n_bins m interior = NOk n edges table nrows ->
  List.length ys = List.length feature -> List.length zs = List.length feature ->
  List.length ws = List.length feature ->
  bias_one f a ys zs (Some (numeric_keys nrows, n)) ws
  = Some (bias_groups f a (zip4 ys zs (numeric_keys nrows) ws)).
Proof. exact bias_no_truncation_numeric. Qed.
Print Assumptions C09_no_truncation_numeric.

Theorem C09_no_truncation_string :
  forall kind names feature n_bins n kept label k bins f a ys zs ws,
  bin_string kind names feature n_bins = SOk n kept label k bins ->
  List.length ys = List.length feature -> List.length zs = List.length feature ->
  List.length ws = List.length feature ->
  bias_one f a ys zs (Some (string_keys kind names label bins, n)) ws
  = Some (bias_groups f a (zip4 ys zs (string_keys kind names label bins) ws)).
Proof. exact bias_no_truncation_string. Qed.
Print Assumptions C09_no_truncation_string.

(* ---- tie of the model's identification function to the code translated from source ---- *)
From Coq Require Import Reals Qreals.
From MD Require Import lib.NumpyR gen.Gen_ident proofs.BiasBridge.

(* on rational arguments the identification function translated from identification.py
   (gen_V, regenerated on every run) IS the model's Vq ... *)
Theorem C09_V_is_generated : forall f a y z, level_bad f a = false ->
  gen_V (fnl_of f) (Q2R a) (Q2R y) (Q2R z) = Ok (Q2R (Vq f a y z)).
Proof. exact Vq_is_generated. Qed.
Print Assumptions C09_V_is_generated.

(* ... and raises ValueError exactly when the model's level guard fires *)
Theorem C09_level_guard_is_generated : forall f a y z, level_bad f a = true ->
  gen_V (fnl_of f) (Q2R a) (Q2R y) (Q2R z) = ValueErr.
Proof. exact level_guard_is_generated. Qed.
Print Assumptions C09_level_guard_is_generated.


(* ====================================================================================== *)
(* TEXT TO APPEND TO props/C09.v                                                           *)
(* replaces the NOT-proved bullet "C09_perm is stated on rows ... AFTER binning":           *)
(*   independent of row order, from the raw columns:  C09_perm_full  (CmpBias.run = the     *)
(*   whole model bin_feature -> keys -> compute_bias; ALL inputs with equally long columns;  *)
(*   Leibniz equality of the table / of the error class), C09_perm_keys, C09_perm_full_numeric,*)
(*   C09_perm_full_string                                                                   *)
(* ====================================================================================== *)
From Coq Require Import QArith List Permutation String.
Import ListNotations.
From MD Require Import lib.QLists model.Functionals model.Binning model.Bias
  proofs.BinningProps proofs.BiasProps proofs.BinningPerm proofs.BiasPerm corr.CmpBias.

(* bin_feature + key extraction is permutation-equivariant *)
Theorem C09_perm_keys : forall ft n_bins p n,
  feat_len n ft -> Permutation p (seq 0 n) ->
  grouping_rel n p (grouping_of ft n_bins) (grouping_of (permute_feat p ft) n_bins).
Proof. exact grouping_of_perm. Qed.
Print Assumptions C09_perm_keys.

(* the result is independent of row order: permuting the rows of (y_obs, y_pred columns, feature, weights)
   gives the same table, rows in the same order - every feature type, all ten bin methods, 1..k models *)
Theorem C09_perm_full : forall c p,
  wf_case c -> Permutation p (seq 0 (List.length (b_y c))) ->
  run (permute_case p c) = run c.
Proof. exact compute_bias_perm_full. Qed.
Print Assumptions C09_perm_full.

Theorem C09_perm_full_numeric : forall f level kind feature n_bins m interior ys models weights p,
  List.length feature = List.length ys -> cols_ok (List.length ys) models weights ->
  Permutation p (seq 0 (List.length ys)) ->
  match bin_numeric kind feature n_bins m interior,
        bin_numeric kind (permute None p feature) n_bins m interior with
  | NOk n _ _ rows, NOk n' _ _ rows' =>
      compute_bias f level (permute 0%Q p ys) (map (permute 0%Q p) models)
        (Some (numeric_keys rows', n')) (option_map (permute 0%Q p) weights)
      = compute_bias f level ys models (Some (numeric_keys rows, n)) weights
  | NNanEdges, NNanEdges => True
  | NErr e, NErr e' => e = e'
  | _, _ => False
  end.
Proof. exact compute_bias_perm_numeric. Qed.
Print Assumptions C09_perm_full_numeric.

Theorem C09_perm_full_string : forall f level kind names feature n_bins ys models weights p,
  List.length feature = List.length ys -> cols_ok (List.length ys) models weights ->
  Permutation p (seq 0 (List.length ys)) ->
  match bin_string kind names feature n_bins,
        bin_string kind names (permute None p feature) n_bins with
  | SOk n _ label _ bins, SOk n' _ label' _ bins' =>
      compute_bias f level (permute 0%Q p ys) (map (permute 0%Q p) models)
        (Some (string_keys kind names label' bins', n')) (option_map (permute 0%Q p) weights)
      = compute_bias f level ys models (Some (string_keys kind names label bins, n)) weights
  | SErr e, SErr e' => e = e'
  | _, _ => False
  end.
Proof. exact compute_bias_perm_string. Qed.
Print Assumptions C09_perm_full_string.


