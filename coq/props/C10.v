(* C10 - compute_marginal: correct group means, bin edges and partial dependence.
   Theorems about the executable model model/Marginal.v of `compute_marginal`
   (src/model_diagnostics/calibration/identification.py, lines 482-922, as of fix 7801489) over Q, built on
   model/Binning.v (bin_feature, C13), model/Bias.v (group machinery, C09) and model/PartialDep.v
   (compute_partial_dependence, C16), for an ARBITRARY row-wise predictor f.  Tied to the code by the
   correspondence run harness/run_marginal.py + corr/CmpMarginal.v (float / int / string / categorical / enum /
   all-null features with nulls and NaN, 10 bin methods, X as float or int ndarray, list of rows, polars frame,
   1-3 models, weights or none, with and without predict_function, sub-sampling incl. n_max < n <= 1000 and
   n > 1000 with n_max <> 1000; every output row, the bin_edges triple, the partial_dependence column and the
   whole matrix handed to the predictor are compared inside Coq) and by the whole-function skeleton pin
   skeleton/compute_marginal.tmpl.py.

   Clause of the property text                            theorem
   -----------------------------------------------------  ---------------------------------------------------
   every output row equals the weighted means and         C10_row_is_definition, C10_group_exists,
   Bessel-corrected standard errors of observations and   C10_ungrouped_is_definition (closed forms of mean,
   predictions over exactly the rows of its group         count, weight sum and SQUARED standard error; the rows
                                                          of the group are `filter key = g`); C10_structure
                                                          (what a returning run of the whole function consists of)
   counts and weights sum to the totals                   C10_counts_sum, C10_weights_sum
   null values kept as a group                            C10_null_group (it comes first), C10_null_edges
   numeric: bin_edges = (lower, std of the members'       C10_bin_edges: the triple is (lower, std^2, upper) of the
   feature values, upper); bins contain every member      bin the group stands for, std^2 = UNWEIGHTED POPULATION
                                                          variance (`std(ddof=0)`, line 766), the feature column
                                                          is the unweighted mean of the members, and every member
                                                          v satisfies lower < v <= upper (first bin closed)
   consecutive, non-overlapping, spanning the range       C10_bins_consecutive_span (upper edge of bin b = lower
                                                          edge of bin b+1; first lower = min, last upper = max
                                                          of the non-null values), C10_bins_disjoint_ordered,
                                                          C10_feature_means_increasing (so the row order
                                                          "sort by feature mean" is the bin order)
   y_pred_mean - y_obs_mean = compute_bias's bias_mean    C10_minus_obs_is_bias (row by row against model/Bias.v's
                                                          bias_groups for the mean functional: same keys, same
                                                          order, same counts and weights), C10_minus_obs_is_bias_ungrouped
   partial_dependence = directly computed partial         C10_pd_is_direct (string-like: every row that is not the
   dependence at each real feature value                  pooled row - every real category and null - holds pd_at =
                                                          the definition of model/PartialDep.v (pd_def, C10_pd_at_is_pd_def)
                                                          at the value of its feature column, over the (sub)sampled
                                                          rows and weights; the pooled row, and only it, holds null),
                                                          C10_pd_is_direct_numeric (all rows of a numerical feature),
                                                          C10_mask_code (the rows taken out of the grid are exactly
                                                          the pooled row), C10_pd_column_by_mask (general form)
   the artificial pooled category is never shown          C10_pooled_never_shown (every value the predictor finds in
                                                          the feature column is the code of a category the feature
                                                          really takes, or the null code and then the feature has a
                                                          null), C10_numeric_shown (numeric: only the reported
                                                          feature values)
   (row order independence)                               C10_perm, C10_perm_ungrouped (extra)
   `.head(n_bins)` never drops a row                      C10_no_truncation_numeric / _string (uses C13)

   FOUND AND REPAIRED through this check (/repo fix 7801489 "compute_marginal shows the pooled category to the
   model and drops the partial dependence of real categories").  The code used to recognise the pooled category by
   "the LAST row's label contains 'other '" (model rule `ByLastLabel`, kept as a record).  Consequences, all
   reproduced by the harness before the fix and now ordinary passing inputs of the correspondence / judge:
   * (former D4) the pooled label was shown to the predictor whenever a kept category sorted after "other n" /
     "_other n" (any label beginning with a letter after "o", e.g. "q", "yy", "zz"):
     C10_old_rule_pooled_shown_record;
   * (former D5) a real category whose label contains "other " (also "another one") and sorts last got a null
     partial dependence: C10_old_rule_real_other_lost_pd_record; if it was the only category the call raised
     ZeroDivisionError / IndexError: C10_old_rule_only_other_category_record;
   * an all-null string / categorical feature with a predict function raised TypeError (`"other " in None`):
     C10_old_rule_all_null_string_record.
   Each record also states what the CURRENT rule (ByBin) gives on the same input.  `MARG_RULE=ByLastLabel` makes
   the harness compare against the old rule (the former findings then show as correspondence failures).

   NOT proved / outside the model:
   * y_obs_stderr, y_pred_stderr and bin_edges[1] are square roots: the model exposes the SQUARES and the
     comparator squares the implementation's values.
   * infinite feature values (mean / std of a bin become inf / NaN) and Boolean features are outside the model's
     domain (cells are `option Q`); bin_feature itself is covered for them by C13.
   * the predictor is a Section variable assumed ROW-WISE (one prediction per row, depending on that row only);
     string-like cells, null and the pooled label reach it through the encoding rank / pi_nullq / pi_other,
     which the harness applies to the real container.  numpy's Generator.choice is an oracle (the index vector
     is an input), as in C16.
   * the model identifies "the value the feature never takes" (lines 868-879) with the pooled bin; that the pooled
     label is different from every real category is C13's pooled_label_fresh (not re-proved here), and it is
     compared on every run.
   * C10_pd_is_direct keeps the side conditions of C16 (rows of equal width, feature index in range, non-empty
     grid and sample, Generator.choice's contract, usable weights).
   * C10_perm is stated on rows (y_obs, y_pred, key, w), i.e. AFTER binning, as C09_perm.
   * "identical on repeated calls": a Gallina function is deterministic; the judge calls twice (observation).
   * polars' group-by / window engine, float rounding. *)
From Coq Require Import QArith List Permutation String.
Import ListNotations.
From MD Require Import lib.QLists model.Functionals model.Binning model.PartialDep model.Bias model.Marginal
  proofs.BinningProps proofs.PartialDepProps proofs.BiasProps proofs.MarginalProps.

Theorem C10_row_is_definition : forall rows s,
  In s (marg_groups rows) ->
  let g := m_key s in
  let members := grp_rows g rows in
  present g rows = true /\
  s = mstat_of g rows /\
  (y_obs_mean s == wsum (map obs_elt members) / wtot (map obs_elt members))%Q /\
  (y_pred_mean s == wsum (map pred_elt members) / wtot (map pred_elt members))%Q /\
  m_count s = List.length members /\
  (m_weights s == qsum (map r_w members))%Q /\
  (y_obs_stderr2 s == wssq (y_obs_mean s) (map obs_elt members) / wtot (map obs_elt members)
                      / Qnat (Nat.max 1 (m_count s - 1)))%Q /\
  (y_pred_stderr2 s == wssq (y_pred_mean s) (map pred_elt members) / wtot (map pred_elt members)
                       / Qnat (Nat.max 1 (m_count s - 1)))%Q.
Proof. exact marg_row_is_definition. Qed.
Print Assumptions C10_row_is_definition.

Theorem C10_group_exists : forall rows r,
  In r rows -> exists s, In s (marg_groups rows) /\ m_key s = r_key r.
Proof. exact marg_group_exists. Qed.
Print Assumptions C10_group_exists.

Theorem C10_ungrouped_is_definition : forall rows,
  let s := marg_all rows in
  (y_obs_mean s == wsum (map obs_elt rows) / wtot (map obs_elt rows))%Q /\
  (y_pred_mean s == wsum (map pred_elt rows) / wtot (map pred_elt rows))%Q /\
  m_count s = List.length rows /\
  (m_weights s == qsum (map r_w rows))%Q /\
  (y_obs_stderr2 s == wssq (y_obs_mean s) (map obs_elt rows) / wtot (map obs_elt rows)
                      / Qnat (Nat.max 1 (List.length rows - 1)))%Q /\
  (y_pred_stderr2 s == wssq (y_pred_mean s) (map pred_elt rows) / wtot (map pred_elt rows)
                       / Qnat (Nat.max 1 (List.length rows - 1)))%Q.
Proof. exact marg_all_is_definition. Qed.
Print Assumptions C10_ungrouped_is_definition.

Theorem C10_structure : forall f rule ys models ft n_bins weights pd l seen,
  compute_marginal f rule ys models ft n_bins weights pd = MOk l seen ->
  let ws := match weights with Some w => w | None => map (fun _ => 1%Q) ys end in
  Forall2 (fun zs t => table_of ft n_bins ys zs ws = TOk t) models (map fst l) /\
  match pd with
  | Some p =>
      if has_feature ft
      then Forall (fun tc => exists col seen', pd_column f rule (is_str ft) p weights (fst tc) = PCOk col seen' /\
                                               snd tc = Some col) l
      else Forall (fun tc => snd tc = None) l
  | None => Forall (fun tc => snd tc = None) l
  end.
Proof. exact marg_compute_structure. Qed.
Print Assumptions C10_structure.

Theorem C10_counts_sum : forall rows, nsum (map m_count (marg_groups rows)) = List.length rows.
Proof. exact marg_counts_sum. Qed.
Print Assumptions C10_counts_sum.

Theorem C10_weights_sum : forall rows, (qsum (map m_weights (marg_groups rows)) == qsum (map r_w rows))%Q.
Proof. exact marg_weights_sum. Qed.
Print Assumptions C10_weights_sum.

Theorem C10_null_group : forall rows,
  (present None rows = true ->
     exists rest, marg_groups rows = mstat_of None rows :: rest /\
                  (forall s, In s rest -> m_key s <> None) /\
                  m_count (mstat_of None rows)
                    = List.length (filter (fun r => okey_eqb (r_key r) None) rows)) /\
  (present None rows = false -> forall s, In s (marg_groups rows) -> m_key s <> None).
Proof. exact marg_null_group. Qed.
Print Assumptions C10_null_group.

Theorem C10_null_edges : forall feature nrows ys zs ws r,
  In r (num_table feature nrows ys zs ws) -> m_key (o_stat r) = None ->
  o_edges r = None /\ o_cell r = FCNull.
Proof. exact marg_null_edges. Qed.
Print Assumptions C10_null_edges.

Theorem C10_minus_obs_is_bias : forall a rows,
  map m_key (marg_groups rows) = map g_key (bias_groups FMean a rows) /\
  Forall2 (fun s g => (y_pred_mean s - y_obs_mean s == g_mean g)%Q /\
                      m_count s = g_count g /\ (m_weights s == g_weights g)%Q)
          (marg_groups rows) (bias_groups FMean a rows).
Proof. exact marg_minus_obs_is_bias. Qed.
Print Assumptions C10_minus_obs_is_bias.

Theorem C10_minus_obs_is_bias_ungrouped : forall a rows,
  (y_pred_mean (marg_all rows) - y_obs_mean (marg_all rows) == g_mean (bias_all FMean a rows))%Q.
Proof. exact marg_minus_obs_is_bias_ungrouped. Qed.
Print Assumptions C10_minus_obs_is_bias_ungrouped.

Theorem C10_bin_edges : forall feature n_bins m interior n edges table nrows ys zs ws r k,
  bin_numeric KNum (xfeature feature) n_bins m interior = NOk n edges table nrows ->
  (m = NumpyRule -> xsorted (map Fin interior)) ->
  In r (num_table feature nrows ys zs ws) -> m_key (o_stat r) = Some k ->
  let vals := fmembers (Some k) (numeric_keys nrows) feature in
  exists lo hi,
    (k < List.length table)%nat /\ nth k table (lo, hi) = (lo, hi) /\
    o_edges r = Some (lo, fvar0 vals, hi) /\
    o_cell r = FCNum (fmean vals) /\
    vals <> [] /\
    (forall v, In v vals <-> In (Some v) feature /\ digitize edges (Fin v) = k) /\
    (forall v, In v vals ->
       (if (k =? 0)%nat then xleb lo (Fin v) else xltb lo (Fin v)) = true /\ xleb (Fin v) hi = true).
Proof. exact marg_bin_edges. Qed.
Print Assumptions C10_bin_edges.

Theorem C10_bins_consecutive_span : forall feature n_bins m interior n edges table nrows,
  bin_numeric KNum (xfeature feature) n_bins m interior = NOk n edges table nrows ->
  nonnull feature <> [] ->
  exists fmin fmax,
    In (Some fmin) feature /\ In (Some fmax) feature /\
    (forall v, In (Some v) feature -> (fmin <= v /\ v <= fmax)%Q) /\
    List.length table = S (List.length edges) /\
    fst (nth 0 table (MInf, PInf)) = Fin fmin /\
    snd (nth (List.length edges) table (MInf, PInf)) = Fin fmax /\
    forall b, (S b < List.length table)%nat ->
      snd (nth b table (MInf, PInf)) = fst (nth (S b) table (MInf, PInf)).
Proof. exact marg_bins_consecutive_span. Qed.
Print Assumptions C10_bins_consecutive_span.

Theorem C10_bins_disjoint_ordered : forall fmin fmax edges feature k1 k2 v1 v2,
  let keys := numeric_keys (digitize_rows KNum fmin fmax edges (xfeature feature)) in
  In v1 (fmembers (Some k1) keys feature) -> In v2 (fmembers (Some k2) keys feature) ->
  (k1 < k2)%nat -> (v1 < v2)%Q.
Proof. exact marg_bins_disjoint_ordered. Qed.
Print Assumptions C10_bins_disjoint_ordered.

Theorem C10_feature_means_increasing : forall fmin fmax edges feature k1 k2,
  let keys := numeric_keys (digitize_rows KNum fmin fmax edges (xfeature feature)) in
  let vals1 := fmembers (Some k1) keys feature in
  let vals2 := fmembers (Some k2) keys feature in
  vals1 <> [] -> vals2 <> [] -> (k1 < k2)%nat -> (fmean vals1 < fmean vals2)%Q.
Proof. exact marg_feature_means_increasing. Qed.
Print Assumptions C10_feature_means_increasing.

Theorem C10_mask_code : forall rows, drop_mask ByBin true rows = Some (map is_pooled rows).
Proof. exact marg_mask_code. Qed.
Print Assumptions C10_mask_code.

Theorem C10_pd_is_direct : forall f p w rows width col seen i r,
  rows_of_width width (pi_X p) -> (pi_j p < width)%nat ->
  pd_grid p (map is_pooled rows) rows <> [] ->
  sample_rows (pi_X p) (pi_nmax p) (pi_idx p) <> [] ->
  oracle_ok (List.length (pi_X p)) (pi_nmax p) (pi_idx p) ->
  weights_ok (List.length (pi_X p)) w (pi_nmax p) (pi_idx p) ->
  pd_column f ByBin true p w rows = PCOk col seen ->
  nth_error rows i = Some r ->
  nth_error col i
  = Some (if is_pooled r then None
          else Some (pd_at f (sample_rows (pi_X p) (pi_nmax p) (pi_idx p)) (pi_j p)
                           (sample_weights (List.length (pi_X p)) w (pi_nmax p) (pi_idx p))
                           (enc_cell p (o_cell r)))).
Proof. exact marg_pd_is_direct. Qed.
Print Assumptions C10_pd_is_direct.

(* pd_at is the definitional partial dependence of C16 at one value *)
Theorem C10_pd_at_is_pd_def : forall f Xs j grid ws, pd_def f Xs j grid ws = map (pd_at f Xs j ws) grid.
Proof. exact pd_def_pd_at. Qed.
Print Assumptions C10_pd_at_is_pd_def.

Theorem C10_pd_is_direct_numeric : forall f rule p w rows width col seen i r,
  rows_of_width width (pi_X p) -> (pi_j p < width)%nat ->
  rows <> [] ->
  sample_rows (pi_X p) (pi_nmax p) (pi_idx p) <> [] ->
  oracle_ok (List.length (pi_X p)) (pi_nmax p) (pi_idx p) ->
  weights_ok (List.length (pi_X p)) w (pi_nmax p) (pi_idx p) ->
  pd_column f rule false p w rows = PCOk col seen ->
  nth_error rows i = Some r ->
  nth_error col i
  = Some (Some (pd_at f (sample_rows (pi_X p) (pi_nmax p) (pi_idx p)) (pi_j p)
                      (sample_weights (List.length (pi_X p)) w (pi_nmax p) (pi_idx p))
                      (enc_cell p (o_cell r)))).
Proof. exact marg_pd_is_direct_numeric. Qed.
Print Assumptions C10_pd_is_direct_numeric.

(* general form: for any way of taking rows out of the grid *)
Theorem C10_pd_column_by_mask : forall f rule str p w rows mask width,
  drop_mask rule str rows = Some mask ->
  rows_of_width width (pi_X p) -> (pi_j p < width)%nat ->
  pd_grid p mask rows <> [] ->
  sample_rows (pi_X p) (pi_nmax p) (pi_idx p) <> [] ->
  oracle_ok (List.length (pi_X p)) (pi_nmax p) (pi_idx p) ->
  weights_ok (List.length (pi_X p)) w (pi_nmax p) (pi_idx p) ->
  let Xs := sample_rows (pi_X p) (pi_nmax p) (pi_idx p) in
  let wsS := sample_weights (List.length (pi_X p)) w (pi_nmax p) (pi_idx p) in
  pd_column f rule str p w rows
  = PCOk (map (fun br : bool * mrow => if fst br then None
                         else Some (pd_at f Xs (pi_j p) wsS (enc_cell p (o_cell (snd br)))))
              (combine mask rows))
         (pred_input CFloat (pi_X p) (pi_j p) (pd_grid p mask rows) (pi_nmax p) (pi_idx p)).
Proof. exact marg_pd_column_by_mask. Qed.
Print Assumptions C10_pd_column_by_mask.

Theorem C10_pooled_never_shown :
  forall kind names feature n_bins n kept_ label k bins ys zs ws p width v,
  bin_string kind names feature n_bins = SOk n kept_ label k bins ->
  rows_of_width width (pi_X p) -> (pi_j p < width)%nat ->
  oracle_ok (List.length (pi_X p)) (pi_nmax p) (pi_idx p) ->
  let rows := str_table kind names label bins ys zs ws in
  In v (shown_values p (pd_grid p (map is_pooled rows) rows)) ->
  (v = pi_nullq p /\ In None feature) \/ (exists c, v = Qnat c /\ In (Some c) feature).
Proof. exact marg_pooled_never_shown. Qed.
Print Assumptions C10_pooled_never_shown.

Theorem C10_numeric_shown : forall rule p rows width v,
  rows_of_width width (pi_X p) -> (pi_j p < width)%nat ->
  oracle_ok (List.length (pi_X p)) (pi_nmax p) (pi_idx p) ->
  In v (shown_values p (pd_grid p (map (fun _ => false) rows) rows)) ->
  drop_mask rule false rows = Some (map (fun _ => false) rows) /\
  exists r, In r rows /\ v = enc_cell p (o_cell r).
Proof. exact marg_numeric_shown. Qed.
Print Assumptions C10_numeric_shown.

(* ---------------------------------------------------------------------------------------------------------
   RECORDS OF THE OLD RULE (ByLastLabel), before /repo fix 7801489 - not statements about the current code
   except through their ByBin parts *)
Theorem C10_old_rule_pooled_shown_record :
  labels_of (d4_run ByLastLabel) = [[Some "other 3"; Some "yy"; Some "zz"]]%string /\
  cells_of (d4_run ByLastLabel) = [[FCPooled; FCCat 3; FCCat 4]] /\
  pd_cols (d4_run ByLastLabel) = [Some [Some (205 # 2); Some (13 # 2); Some (15 # 2)]] /\
  existsb (Qeq_bool 99) (shown_of 0 (d4_run ByLastLabel)) = true /\
  forallb (fun o => match o with Some c => negb (Qeq_bool (Qnat c) 99) | None => true end) d4_feature = true /\
  pd_cols (d4_run ByBin) = [Some [None; Some (13 # 2); Some (15 # 2)]] /\
  existsb (Qeq_bool 99) (shown_of 0 (d4_run ByBin)) = false.
Proof. exact marg_pooled_never_shown_refuted. Qed.
Print Assumptions C10_old_rule_pooled_shown_record.

Theorem C10_old_rule_real_other_lost_pd_record :
  labels_of (d5_run ByLastLabel) = [[Some "a"; Some "b"; Some "other x"]]%string /\
  cells_of (d5_run ByLastLabel) = [[FCCat 0; FCCat 1; FCCat 2]] /\
  pd_cols (d5_run ByLastLabel) = [Some [Some (3 # 2); Some (5 # 2); None]] /\
  pd_cols (d5_run ByBin) = [Some [Some (3 # 2); Some (5 # 2); Some (7 # 2)]].
Proof. exact marg_real_other_lost_pd_refuted. Qed.
Print Assumptions C10_old_rule_real_other_lost_pd_record.

Theorem C10_old_rule_only_other_category_record :
  compute_marginal rowsum ByLastLabel [0; 1]%Q [[1; 2]%Q] (MFStr SString ["other x"%string] [Some 0%nat; Some 0%nat]) 3 None
    (Some (mkpdin [[0; 0]; [0; 1]]%Q 0 (-1)%Q 99%Q None [])) = MPdErr EEmptyGrid /\
  pd_cols (compute_marginal rowsum ByBin [0; 1]%Q [[1; 2]%Q] (MFStr SString ["other x"%string] [Some 0%nat; Some 0%nat]) 3 None
    (Some (mkpdin [[0; 0]; [0; 1]]%Q 0 (-1)%Q 99%Q None []))) = [Some [Some (1 # 2)]].
Proof. exact marg_only_other_category_raises. Qed.
Print Assumptions C10_old_rule_only_other_category_record.

Theorem C10_old_rule_all_null_string_record :
  compute_marginal rowsum ByLastLabel [0; 1]%Q [[1; 2]%Q] (MFStr SString [] [None; None]) 3 None
    (Some (mkpdin [[-1; 0]; [-1; 1]]%Q 0 (-1)%Q 99%Q None [])) = MNullLabel /\
  cells_of (compute_marginal rowsum ByBin [0; 1]%Q [[1; 2]%Q] (MFStr SString [] [None; None]) 3 None
    (Some (mkpdin [[-1; 0]; [-1; 1]]%Q 0 (-1)%Q 99%Q None []))) = [[FCNull]] /\
  pd_cols (compute_marginal rowsum ByBin [0; 1]%Q [[1; 2]%Q] (MFStr SString [] [None; None]) 3 None
    (Some (mkpdin [[-1; 0]; [-1; 1]]%Q 0 (-1)%Q 99%Q None []))) = [Some [Some (-1 # 2)]].
Proof. exact marg_all_null_string_raises. Qed.
Print Assumptions C10_old_rule_all_null_string_record.

Theorem C10_old_rule_mask : forall before lastr s,
  o_label lastr = Some s ->
  drop_mask ByLastLabel true (before ++ [lastr])
  = Some (map (fun _ => false) before ++ [contains_other s]).
Proof. exact marg_mask_old_rule_string. Qed.
Print Assumptions C10_old_rule_mask.

Theorem C10_perm : forall rows rows', Permutation rows rows' -> marg_groups rows = marg_groups rows'.
Proof. exact marg_perm. Qed.
Print Assumptions C10_perm.

Theorem C10_perm_ungrouped : forall rows rows', Permutation rows rows' -> marg_all rows = marg_all rows'.
Proof. exact marg_all_perm. Qed.
Print Assumptions C10_perm_ungrouped.

Theorem C10_no_truncation_numeric : forall feature n_bins m interior n edges table nrows ys zs ws,
  bin_numeric KNum (xfeature feature) n_bins m interior = NOk n edges table nrows ->
  List.length ys = List.length feature -> List.length zs = List.length feature ->
  List.length ws = List.length feature ->
  table_of (MFNum feature m interior) n_bins ys zs ws = TOk (num_table feature nrows ys zs ws).
Proof. exact marg_no_truncation_numeric. Qed.
Print Assumptions C10_no_truncation_numeric.

Theorem C10_no_truncation_string : forall kind names feature n_bins n kept_ label k bins ys zs ws,
  bin_string kind names feature n_bins = SOk n kept_ label k bins ->
  List.length ys = List.length feature -> List.length zs = List.length feature ->
  List.length ws = List.length feature ->
  table_of (MFStr kind names feature) n_bins ys zs ws = TOk (str_table kind names label bins ys zs ws).
Proof. exact marg_no_truncation_string. Qed.
Print Assumptions C10_no_truncation_string.


(* ====================================================================================== *)
(* TEXT TO APPEND TO props/C10.v                                                           *)
(* header: C10 (extra) "invariant under a permutation of the rows", now from the raw columns: *)
(*   C10_perm_full_numeric (ALL inputs; edges of the triple up to xeq), C10_perm_full_numeric_canon,*)
(*   C10_perm_full_string (under names_ok), C10_perm_table, C10_perm_full (predict_function None); *)
(*   C10_dup_names_order_dependent: without names_ok the MODEL is order dependent (artifact:  *)
(*   a real column has distinct category names).  NOT covered: the partial-dependence column. *)
(* ====================================================================================== *)
From Coq Require Import QArith List Permutation String.
Import ListNotations.
From MD Require Import lib.QLists model.Functionals model.Binning model.PartialDep model.Bias model.Marginal
  proofs.BinningProps proofs.BiasProps proofs.MarginalProps proofs.BinningPerm proofs.BiasPerm.

Theorem C10_perm_full_numeric : forall feature m interior n_bins p ys zs ws N,
  List.length feature = N -> List.length ys = N -> List.length zs = N -> List.length ws = N ->
  Permutation p (seq 0 N) ->
  tres_rel xeq2 (table_of (MFNum feature m interior) n_bins ys zs ws)
                (table_of (MFNum (permute None p feature) m interior) n_bins
                          (permute 0%Q p ys) (permute 0%Q p zs) (permute 0%Q p ws)).
Proof. exact table_of_perm_numeric. Qed.
Print Assumptions C10_perm_full_numeric.

Theorem C10_perm_full_numeric_canon : forall feature m interior n_bins p ys zs ws N,
  Forall qcanon feature ->
  List.length feature = N -> List.length ys = N -> List.length zs = N -> List.length ws = N ->
  Permutation p (seq 0 N) ->
  table_of (MFNum (permute None p feature) m interior) n_bins (permute 0%Q p ys) (permute 0%Q p zs) (permute 0%Q p ws)
  = table_of (MFNum feature m interior) n_bins ys zs ws.
Proof. exact table_of_perm_numeric_canon. Qed.
Print Assumptions C10_perm_full_numeric_canon.

Theorem C10_perm_full_string : forall kind names feature n_bins p ys zs ws N,
  names_ok names feature ->
  List.length feature = N -> List.length ys = N -> List.length zs = N -> List.length ws = N ->
  Permutation p (seq 0 N) ->
  table_of (MFStr kind names (permute None p feature)) n_bins (permute 0%Q p ys) (permute 0%Q p zs) (permute 0%Q p ws)
  = table_of (MFStr kind names feature) n_bins ys zs ws.
Proof. exact table_of_perm_string. Qed.
Print Assumptions C10_perm_full_string.

Theorem C10_perm_table : forall ft n_bins p ys zs ws N,
  mfeat_ok N ft -> List.length ys = N -> List.length zs = N -> List.length ws = N -> Permutation p (seq 0 N) ->
  table_of (permute_mfeat p ft) n_bins (permute 0%Q p ys) (permute 0%Q p zs) (permute 0%Q p ws)
  = table_of ft n_bins ys zs ws.
Proof. exact table_of_perm. Qed.
Print Assumptions C10_perm_table.

Theorem C10_perm_full : forall f rule ys models ft n_bins weights p,
  mfeat_ok (List.length ys) ft -> cols_ok (List.length ys) models weights ->
  Permutation p (seq 0 (List.length ys)) ->
  compute_marginal f rule (permute 0%Q p ys) (map (permute 0%Q p) models) (permute_mfeat p ft) n_bins
                   (option_map (permute 0%Q p) weights) None
  = compute_marginal f rule ys models ft n_bins weights None.
Proof. exact compute_marginal_perm_full. Qed.
Print Assumptions C10_perm_full.

Theorem C10_dup_names_order_dependent :
  table_of (MFStr SString ["a"; "a"]%string [Some 0; Some 1]%nat) 3 [0; 1]%Q [0; 1]%Q [1; 1]%Q
  <> table_of (MFStr SString ["a"; "a"]%string [Some 1; Some 0]%nat) 3 [1; 0]%Q [1; 0]%Q [1; 1]%Q.
Proof. exact str_table_dup_names_order_dependent. Qed.
Print Assumptions C10_dup_names_order_dependent.

