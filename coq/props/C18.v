(* C18 - Configuration contexts restore the previous configuration on every exit path.
   Theorems about model/Config.v; tie: skeleton of _config.py + correspondence of
   random and exhaustive histories driven through the real context manager. *)
From Coq Require Import List Bool.
Import ListNotations.
From MD Require Import model.Config proofs.ConfigProps.

(* leaving a block - normally or by exception, whatever well-bracketed history ran
   inside - gives back the configuration (and the stack of outer blocks) at entry *)
Theorem C18_restore : forall av s a body e, wf av s -> enter_ok av a = true -> balanced av body ->
  run av s (Enter a :: body ++ [Leave e]) = s.
Proof. exact restore. Qed.
Print Assumptions C18_restore.

(* ... after any history whatsoever from the initial configuration *)
Theorem C18_restore_reachable : forall av pre a body e, enter_ok av a = true -> balanced av body ->
  run av init (pre ++ Enter a :: body ++ [Leave e]) = run av init pre.
Proof. exact restore_reachable. Qed.
Print Assumptions C18_restore_reachable.

Theorem C18_invalid_raises_unchanged : forall av s,
  step av s (SetC AInvalid) = (s, ValueError) /\ step av s (Enter AInvalid) = (s, ValueError).
Proof. exact invalid_raises_unchanged. Qed.
Print Assumptions C18_invalid_raises_unchanged.

Theorem C18_get_is_snapshot : forall av s b, step av s (ReadMutate b) = (s, Done).
Proof. exact get_is_snapshot. Qed.
Print Assumptions C18_get_is_snapshot.

Theorem C18_failed_op_unchanged : forall av s o, wf av s -> snd (step av s o) <> Done ->
  cfg (fst (step av s o)) = cfg s.
Proof. exact failed_op_unchanged. Qed.
Print Assumptions C18_failed_op_unchanged.

Theorem C18_failed_enter_unchanged : forall av s a, enter_ok av a = false -> fst (step av s (Enter a)) = s.
Proof. exact failed_enter_unchanged. Qed.
Print Assumptions C18_failed_enter_unchanged.

(* the hypotheses are satisfiable by a non-trivial nested history *)
Theorem C18_nonvacuous :
  balanced true [SetC (AVal Plotly); Enter (AVal Matplotlib); SetC AInvalid; Leave true; ReadMutate Plotly; Enter AInvalid] /\
  run true init (Enter (AVal Plotly) :: [SetC (AVal Plotly); Enter (AVal Matplotlib); SetC AInvalid; Leave true; ReadMutate Plotly; Enter AInvalid] ++ [Leave false]) = init.
Proof. exact restore_example. Qed.
Print Assumptions C18_nonvacuous.
