(* C19 - Diagnostic plots draw exactly the statistics the library computes.

   "With the matplotlib backend, a reliability diagram contains the diagonal from the
    smallest to the largest prediction and, per model, a curve whose points are the isotonic
    fit of observations on predictions (monotone; prediction minus fit for the bias
    variant); a Murphy diagram's curves are the average elementary scores at the requested
    thresholds; a bias plot's points are compute_bias's means.  The function draws on and
    returns the axes it was given and leaves the configuration unchanged."

   STATUS: PARTIAL.  Most of C19 is a statement about matplotlib objects (which Line2D carries
   which numbers, which Axes object is returned, what get_config() says afterwards).  None of
   that can be a Coq theorem about Python; it is DECIDED BY CORRESPONDENCE on every run:
   harness/run_plots.py calls the real plot functions (Agg backend) on generated data, reads the
   Line2D / errorbar data back from the returned Axes and coq/corr/CmpPlots.v compares them inside
   Coq with the model model/Plots.v evaluated on the exact rational inputs; the harness itself
   observes `returned object is ax`, `ax=None -> a new current Axes`, `get_config()` unchanged,
   legend labels = column names in column order.

   What IS proved below concerns the model model/Plots.v (compositions of model/IsoFit.v =
   IsotonicRegression.fit (C11), model/Bias.v = compute_bias (C09) and the rational twin
   elem_q of ElementaryScore.score_per_obs), for ALL inputs:

   clause of the property text                     theorem
   ----------------------------------------------  -------------------------------------------
   diagonal from the smallest to the largest       C19_diagonal_spans_predictions  (min / max over
   prediction                                        ALL columns, both attained)
   per model a curve ... (one curve per column,     C19_curve_i_uses_column_i, C19_curves_one_per_column,
                                                     C19_reliability_diagram_spec
   curve i made from column i, y_obs, weights)
   points are the isotonic fit of observations     C19_reliability_vertex_on_fit (each vertex lies on
   on predictions                                    the fitted function), C19_reliability_curve_at_predictions
                                                     (the polyline takes the fitted value of the training rows
                                                     at every prediction), C19_reliability_curve_spans_column
                                                     (first / last vertex at the smallest / largest prediction
                                                     of that column); that the fitted values are THE optimal
                                                     isotonic fit is C11 / C01-C03 (IsoFitProps.fit_optimal_fX_mean etc.)
   monotone                                        C19_reliability_curve_monotone (vertices),
                                                     C19_reliability_polyline_monotone (as a function)
   prediction minus fit for the bias variant       C19_bias_variant_is_pred_minus_fit
   Murphy curves = average elementary scores at    C19_murphy_curve_xs (x data = the etas, in order),
   the requested thresholds                          C19_murphy_point_is_average (y = sum w*S_eta / sum w),
                                                     C19_murphy_curve_i_uses_column_i,
                                                     C19_murphy_curve_nonneg (sanity: every point >= 0, all four
                                                     functionals, ties included, weights >= 0),
                                                     C19_murphy_grid_endpoints (default grid: k points, strictly
                                                     increasing, from the min to the max of all observations
                                                     and predictions)
   a bias plot's points are compute_bias's means   C19_bias_plot_draws_compute_bias (every drawn point is a row of
                                                     compute_bias; one series per model with a feature, one series
                                                     over the models without), C19_bias_plot_complete

   NOT proved, decided by correspondence / harness observation only (partial):
     * that the Line2D objects of the returned Axes carry the model's numbers (all three plots);
       in particular for functional = "mean" the plotted fit is scikit-learn's IsotonicRegression
       (an oracle outside the development, as in C06): compared with model/IsoFit.v as FUNCTIONS
       (vertex on the model's fit, same span, same value at every prediction), tolerance 1e-9;
     * error bars / bands of plot_bias (bias_stderr times a Student t quantile - not rational):
       compared through their squares with the t quantile supplied by scipy;
     * "draws on and returns the axes it was given", "configuration unchanged", legend labels;
     * n_bootstrap bands, the plotly backend (not installed), plot_marginal's content.
   Model = code, known divergence from what one may expect (reported as a finding, not bent):
     plot_bias(y_obs, y_pred) with ONE-dimensional y_pred and feature=None (the default) raises
     TypeError (feature_name = None is looked up as a column): model/Plots.v BPNameError. *)
From Coq Require Import QArith List Bool String Sorted.
Import ListNotations.
From MD Require Import lib.QLists model.Functionals model.Isotonic model.IsoFit model.Binning model.Bias
  model.Plots proofs.IsoFitProps proofs.PlotsProps.
Open Scope Q_scope.

Theorem C19_diagonal_spans_predictions : forall preds s, diagonal preds = Some s ->
  exists lo hi, s = ((lo, lo), (hi, hi)) /\
    (forall col p, In col preds -> In p col -> lo <= p /\ p <= hi) /\
    (exists col, In col preds /\ In lo col) /\ (exists col, In col preds /\ In hi col).
Proof. exact diagonal_spans_predictions. Qed.
Print Assumptions C19_diagonal_spans_predictions.

Theorem C19_reliability_curve_monotone : forall f lvl y w col ps,
  reliability_curve Reliability f lvl y w col = FOk ps ->
  ps <> [] /\ StronglySorted (fun p p' => fst p <= fst p' /\ snd p <= snd p') ps.
Proof. exact reliability_curve_monotone. Qed.
Print Assumptions C19_reliability_curve_monotone.

Theorem C19_reliability_polyline_monotone : forall f lvl y w col ps q1 q2 v1 v2,
  reliability_curve Reliability f lvl y w col = FOk ps -> q1 <= q2 ->
  interp_np ps q1 = Some v1 -> interp_np ps q2 = Some v2 -> v1 <= v2.
Proof. exact reliability_polyline_monotone. Qed.
Print Assumptions C19_reliability_polyline_monotone.

Theorem C19_reliability_vertex_on_fit : forall f lvl y w col ps x yv,
  reliability_curve Reliability f lvl y w col = FOk ps -> In (x, yv) ps ->
  exists v, interp_np ps x = Some v /\ v == yv.
Proof. exact reliability_vertex_on_fit. Qed.
Print Assumptions C19_reliability_vertex_on_fit.

Theorem C19_reliability_curve_at_predictions : forall f lvl y w col ps,
  reliability_curve Reliability f lvl y w col = FOk ps ->
  exists yiso r,
    isotonic_regression (fit_ys col y w true) (fit_ws col y w true) true (ifun_of f) lvl = IOk (yiso, r) /\
    forall k, (k < List.length col)%nat ->
      exists v, interp_np ps (nth k (fit_Xs col y w true) 0) = Some v /\ v == nth k yiso 0.
Proof. exact reliability_curve_at_predictions. Qed.
Print Assumptions C19_reliability_curve_at_predictions.

Theorem C19_reliability_curve_spans_column : forall f lvl y w col ps,
  reliability_curve Reliability f lvl y w col = FOk ps ->
  let x_first := fst (hd (0, 0) ps) in
  let x_last := fst (last ps (0, 0)) in
  In x_first col /\ In x_last col /\ forall p, In p col -> x_first <= p /\ p <= x_last.
Proof. exact reliability_curve_spans_column. Qed.
Print Assumptions C19_reliability_curve_spans_column.

Theorem C19_bias_variant_is_pred_minus_fit : forall f lvl y w col,
  reliability_curve BiasDiagram f lvl y w col =
  match reliability_curve Reliability f lvl y w col with
  | FOk ps => FOk (map (fun p => (fst p, fst p - snd p)) ps)
  | FErr e => FErr e
  end.
Proof. exact bias_variant_is_pred_minus_fit. Qed.
Print Assumptions C19_bias_variant_is_pred_minus_fit.

Theorem C19_curve_i_uses_column_i : forall dt f lvl y w preds i, (i < List.length preds)%nat ->
  nth i (reliability_curves dt f lvl y w preds) (FErr FShape) =
  reliability_curve dt f lvl y w (nth i preds []).
Proof. exact curve_i_uses_column_i. Qed.
Print Assumptions C19_curve_i_uses_column_i.

Theorem C19_curves_one_per_column : forall dt f lvl y w preds,
  List.length (reliability_curves dt f lvl y w preds) = List.length preds.
Proof. exact curves_one_per_column. Qed.
Print Assumptions C19_curves_one_per_column.

Theorem C19_reliability_diagram_spec : forall dt f lvl y w preds,
  reliability_diagram dt f lvl y w preds = RDValueError \/
  reliability_diagram dt f lvl y w preds =
    RDOk (reference_line dt preds) (reliability_curves dt f lvl y w preds).
Proof. exact reliability_diagram_spec. Qed.
Print Assumptions C19_reliability_diagram_spec.

Theorem C19_murphy_curve_xs : forall f lvl y w etas col ps,
  murphy_curve f lvl y w etas col = MOk ps -> map fst ps = etas.
Proof. exact murphy_curve_xs. Qed.
Print Assumptions C19_murphy_curve_xs.

Theorem C19_murphy_point_is_average : forall f lvl y w col eta s,
  murphy_point f lvl y w col eta = MOk s ->
  let ws := match w with Some w' => w' | None => ones_like y end in
  let l := combine (map (fun yz => elem_q f lvl eta (fst yz) (snd yz)) (combine y col)) ws in
  s == wsum l / wtot l /\ ~ wtot l == 0.
Proof. exact murphy_point_is_average. Qed.
Print Assumptions C19_murphy_point_is_average.

Theorem C19_murphy_curve_nonneg : forall f lvl y w etas col ps, weights_nonneg w ->
  murphy_curve f lvl y w etas col = MOk ps -> Forall (fun p => 0 <= snd p) ps.
Proof. exact murphy_curve_nonneg. Qed.
Print Assumptions C19_murphy_curve_nonneg.

Theorem C19_murphy_grid_endpoints : forall y preds k g, murphy_etas (EtaCount k) y preds = MOk g ->
  exists lo hi, lo < hi /\
    (forall v, In v (y ++ all_values preds) -> lo <= v /\ v <= hi) /\
    In lo (y ++ all_values preds) /\ In hi (y ++ all_values preds) /\
    List.length g = k /\
    ((1 <= k)%nat -> hd 0 g == lo) /\ ((2 <= k)%nat -> last g 0 == hi) /\
    StronglySorted Qlt g /\ (forall v, In v g -> lo <= v /\ v <= hi).
Proof. exact murphy_grid_endpoints. Qed.
Print Assumptions C19_murphy_grid_endpoints.

Theorem C19_murphy_curve_i_uses_column_i : forall f lvl y w spec preds etas curves i,
  murphy_diagram f lvl y w spec preds = MOk (etas, curves) ->
  murphy_etas spec y preds = MOk etas /\ List.length curves = List.length preds /\
  ((i < List.length preds)%nat ->
   murphy_curve f lvl y w etas (nth i preds []) = MOk (nth i curves [])).
Proof. exact murphy_curve_i_uses_column_i. Qed.
Print Assumptions C19_murphy_curve_i_uses_column_i.

Theorem C19_bias_plot_draws_compute_bias : forall f lvl ys models two_d grouping weights series,
  bias_plot f lvl ys models two_d grouping weights = BPOk series ->
  exists per_model, compute_bias f lvl ys models grouping weights = BOk per_model /\
    match grouping with
    | None => two_d = true /\ series = [mkbs (List.concat per_model) None]
    | Some _ => series = map series_of per_model
    end /\
    forall s g, In s series -> (In g (bs_main s) \/ bs_null s = Some g) ->
      exists m, In m per_model /\ In g m.
Proof. exact bias_plot_draws_compute_bias. Qed.
Print Assumptions C19_bias_plot_draws_compute_bias.

Theorem C19_bias_plot_complete : forall f lvl ys models two_d gr weights series per_model i,
  bias_plot f lvl ys models two_d (Some gr) weights = BPOk series ->
  compute_bias f lvl ys models (Some gr) weights = BOk per_model ->
  (i < List.length per_model)%nat ->
  forall g, In g (nth i per_model []) -> is_null_group g = false ->
    In g (bs_main (nth i series (mkbs [] None))).
Proof. exact bias_plot_complete. Qed.
Print Assumptions C19_bias_plot_complete.

(* ---- plot_marginal (model/PlotMarginal.v, proofs/PlotMarginalProps.v) ---- *)
From Coq Require Import QArith List Bool.
Import ListNotations.
From MD Require Import lib.QLists model.Binning model.Bias model.Marginal model.PlotMarginal proofs.PlotMarginalProps.
Open Scope Q_scope.

(* EXTENSION beyond the three plots named by the property: plot_marginal draws the table compute_marginal returns for the same arguments *)
Theorem C19_marginal_plot_structure :
  forall (f : xrow -> Q) (ys : list Q) (models : list (list Q)) (two_d : bool) 
         (ft : mfeat) (n_bins : nat) (weights : option (list Q)) (pd : option pdin) 
         (sl : show_lines) (fname mname : String.string) (p : pmplot),
       plot_marginal f ys models two_d ft n_bins weights pd sl fname mname = PMOk p ->
       exists (t : list mrow) (pdcol : option (list (option Q))) (seen : option PartialDep.matrix),
         compute_marginal f ByBin ys models ft n_bins weights pd = MOk [(t, pdcol)] seen /\
         two_d = false /\
         has_feature ft = true /\
         sl <> SLInvalid /\
         draw (is_str ft) match pd with
                          | Some _ => true
                          | None => false
                          end t pdcol sl fname mname = PMOk p.
Proof. exact pm_plot_structure. Qed.
Print Assumptions C19_marginal_plot_structure.

Theorem C19_marginal_lines_are_table_means :
  forall (is_cat with_pd : bool) (t : list mrow) (pdcol : option (list (option Q))) 
         (sl : show_lines) (fname mname : String.string) (p : pmplot) (s : series),
       draw is_cat with_pd t pdcol sl fname mname = PMOk p ->
       In s (pm_series p) ->
       (s_item s = IObs -> map snd (s_main s) = map obs_cell (table_rows is_cat t)) /\
       (s_item s = IPred -> map snd (s_main s) = map pred_cell (table_rows is_cat t)).
Proof. exact pm_lines_are_table_means. Qed.
Print Assumptions C19_marginal_lines_are_table_means.

Theorem C19_marginal_pd_is_table_pd :
  forall (is_cat with_pd : bool) (t : list mrow) (col : list (option Q)) (sl : show_lines)
         (fname mname : String.string) (p : pmplot) (s : series),
       length col = length t ->
       draw is_cat with_pd t (Some col) sl fname mname = PMOk p ->
       In s (pm_series p) ->
       s_item s = IPD -> map snd (s_main s) = (if is_cat then kept (map is_null_row t) col else col).
Proof. exact pm_pd_is_table_pd. Qed.
Print Assumptions C19_marginal_pd_is_table_pd.

Theorem C19_marginal_points_per_group :
  forall (is_cat with_pd : bool) (t : list mrow) (pdcol : option (list (option Q))) 
         (sl : show_lines) (fname mname : String.string) (p : pmplot) (s : series),
       draw is_cat with_pd t pdcol sl fname mname = PMOk p ->
       In s (pm_series p) -> length (filter has_x (s_main s)) = length (table_no_nulls t).
Proof. exact pm_points_per_group. Qed.
Print Assumptions C19_marginal_points_per_group.

Theorem C19_marginal_bar_heights :
  forall (is_cat with_pd : bool) (t : list mrow) (pdcol : option (list (option Q))) 
         (sl : show_lines) (fname mname : String.string) (p : pmplot),
       draw is_cat with_pd t pdcol sl fname mname = PMOk p ->
       let fr := frame t pdcol in
       map b_height (pm_bars p) = map (fun q : prow => height (total_weight fr) (row_weight q)) (no_nulls fr) /\
       option_map b_height (pm_null_bar p) =
       option_map (fun q : prow => height (total_weight fr) (row_weight q)) (null_row fr).
Proof. exact pm_bar_heights. Qed.
Print Assumptions C19_marginal_bar_heights.

Theorem C19_marginal_bars_sum :
  forall (is_cat with_pd : bool) (t : list mrow) (pdcol : option (list (option Q))) 
         (sl : show_lines) (fname mname : String.string) (p : pmplot),
       draw is_cat with_pd t pdcol sl fname mname = PMOk p ->
       ~ total_weight (frame t pdcol) == 0 -> (length (filter is_null_row t) <= 1)%nat -> heights_sum p == 1.
Proof. exact pm_bars_sum. Qed.
Print Assumptions C19_marginal_bars_sum.

Theorem C19_marginal_plot_draws_means :
  forall (f : xrow -> Q) (ys : list Q) (models : list (list Q)) (two_d : bool) 
         (ft : mfeat) (n_bins : nat) (weights : option (list Q)) (pd : option pdin) 
         (sl : show_lines) (fname mname : String.string) (p : pmplot),
       plot_marginal f ys models two_d ft n_bins weights pd sl fname mname = PMOk p ->
       exists (t : list mrow) (pdcol : option (list (option Q))) (seen : option PartialDep.matrix),
         compute_marginal f ByBin ys models ft n_bins weights pd = MOk [(t, pdcol)] seen /\
         map s_item (pm_series p) = plot_items match pd with
                                               | Some _ => true
                                               | None => false
                                               end /\
         (forall s : series,
          In s (pm_series p) ->
          (s_item s = IObs -> map snd (s_main s) = map obs_cell (table_rows (is_str ft) t)) /\
          (s_item s = IPred -> map snd (s_main s) = map pred_cell (table_rows (is_str ft) t)) /\
          length (filter has_x (s_main s)) = length (table_no_nulls t)).
Proof. exact pm_plot_draws_marginal_means. Qed.
Print Assumptions C19_marginal_plot_draws_means.
