(* C05 - Scores are consistent: the empirical functional minimises the average score.
   World R.  A weighted sample is S : list (y, w) with w > 0; wtotal sc S c = sum_i w_i * sc y_i c is the
   total (= average times the positive weight sum) score of the constant forecast c.  The sample's own
   functional t is characterised by its first-order condition: wsumV V S t = sum_i w_i V(y_i,t) = 0 for
   the mean / expectile, and  sum_i w_i (1{t>y_i} - a) <= 0 <= sum_i w_i (1{t>=y_i} - a)  for every value
   between the lower and the upper empirical quantile.  hes_val / hqs_val are the values the GENERATED
   score_per_obs returns on its domain (first three theorems: tie to gen/Gen_scoring.v). *)
From Coq Require Import Reals List Bool.
Import ListNotations.
From MD Require Import lib.NumpyR spec.Scores theory.Bregman gen.Gen_ident gen.Gen_scoring proofs.ScoreProps proofs.ScoreGen proofs.Consistency.
Open Scope R_scope.

(* tie: on its domain the generated score_per_obs returns exactly the value the consistency theorems speak about *)
Theorem C05_hes_value_is_generated :
  forall h a y z : R, hes_dom h y z -> gen_hes_spo h a y z = Ok (hes_val h a y z).
Proof. exact hes_val_is_gen. Qed.
Print Assumptions C05_hes_value_is_generated.

Theorem C05_hqs_value_is_generated :
  forall h a y z : R, hqs_dom h y z -> gen_hqs_spo h a y z = Ok (hqs_val h a y z).
Proof. exact hqs_val_is_gen. Qed.
Print Assumptions C05_hqs_value_is_generated.

Theorem C05_logloss_value_is_generated :
  forall (y z : R) (any1 : bool),
       0 <= y <= 1 -> 0 < z < 1 -> flag_ok y z any1 -> gen_logloss_spo y z any1 = Ok (spec_logloss y z).
Proof. exact g_ll_value. Qed.
Print Assumptions C05_logloss_value_is_generated.

(* Bregman-type scores at level 1/2 (squared error, Poisson / Gamma deviance, every degree): the weighted sample mean beats every admissible constant *)
Theorem C05_mean_consistent :
  forall (h : R) (S : list (R * R)) (t c : R),
       S <> [] ->
       Forall (fun e : R * R => 0 < snd e) S ->
       Forall (fun e : R * R => domY h (fst e)) S ->
       domZ h t ->
       domZ h c -> wsumV V_mean S t = 0 -> wtotal (hes_val h (1 / 2)) S t <= wtotal (hes_val h (1 / 2)) S c.
Proof. exact mean_consistent. Qed.
Print Assumptions C05_mean_consistent.

(* asymmetric (level a) versions: the weighted sample expectile *)
Theorem C05_expectile_consistent :
  forall (h a : R) (S : list (R * R)) (t c : R),
       0 < a < 1 ->
       S <> [] ->
       Forall (fun e : R * R => 0 < snd e) S ->
       Forall (fun e : R * R => domY h (fst e)) S ->
       domZ h t ->
       domZ h c -> wsumV (V_expectile a) S t = 0 -> wtotal (hes_val h a) S t <= wtotal (hes_val h a) S c.
Proof. exact expectile_consistent. Qed.
Print Assumptions C05_expectile_consistent.

Theorem C05_logloss_consistent :
  forall (S : list (R * R)) (t c : R),
       S <> [] ->
       Forall (fun e : R * R => 0 < snd e) S ->
       Forall (fun e : R * R => 0 <= fst e <= 1) S ->
       0 < t < 1 -> 0 < c < 1 -> wsumV V_mean S t = 0 -> wtotal spec_logloss S t <= wtotal spec_logloss S c.
Proof. exact logloss_consistent. Qed.
Print Assumptions C05_logloss_consistent.

(* quantile-type scores (pinball loss, every degree): any value between lower and upper empirical quantile *)
Theorem C05_quantile_consistent :
  forall (h a : R) (S : list (R * R)) (t c : R),
       0 < a < 1 ->
       S <> [] ->
       Forall (fun e : R * R => 0 < snd e) S ->
       Forall (fun e : R * R => dQ_h h (fst e)) S ->
       dQ_h h t ->
       dQ_h h c ->
       wsumV (Vm_q a) S t <= 0 ->
       0 <= wsumV (Vp_q a) S t -> wtotal (hqs_val h a) S t <= wtotal (hqs_val h a) S c.
Proof. exact quantile_consistent. Qed.
Print Assumptions C05_quantile_consistent.
