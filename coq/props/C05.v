(* C05 - Scores are consistent: the empirical functional minimises the average score.
   World R.  A weighted sample is S : list (y, w) with w > 0; wtotal sc S c = sum_i w_i * sc y_i c is the
   total (= average times the positive weight sum) score of the constant forecast c.  The sample's own
   functional t is characterised by its first-order condition: wsumV V S t = sum_i w_i V(y_i,t) = 0 for
   the mean / expectile, and  sum_i w_i (1{t>y_i} - a) <= 0 <= sum_i w_i (1{t>=y_i} - a)  for every value
   between the lower and the upper empirical quantile.  hes_val / hqs_val are the values the GENERATED
   score_per_obs returns on its domain (first three theorems: tie to gen/Gen_scoring.v). *)
From Coq Require Import Reals List Bool.
Import ListNotations.
From MD Require Import lib.NumpyR spec.Scores theory.Bregman gen.Gen_ident gen.Gen_scoring proofs.ScoreProps proofs.ScoreGen proofs.Consistency.
Open Scope R_scope.

(* tie: on its domain the generated score_per_obs returns exactly the value the consistency theorems speak about *)
Theorem C05_hes_value_is_generated :
  forall h a y z : R, hes_dom h y z -> gen_hes_spo h a y z = Ok (hes_val h a y z).
Proof. exact hes_val_is_gen. Qed.
Print Assumptions C05_hes_value_is_generated.

Theorem C05_hqs_value_is_generated :
  forall h a y z : R, hqs_dom h y z -> gen_hqs_spo h a y z = Ok (hqs_val h a y z).
Proof. exact hqs_val_is_gen. Qed.
Print Assumptions C05_hqs_value_is_generated.

Theorem C05_logloss_value_is_generated :
  forall (y z : R) (any1 : bool),
       0 <= y <= 1 -> 0 < z < 1 -> flag_ok y z any1 -> gen_logloss_spo y z any1 = Ok (spec_logloss y z).
Proof. exact g_ll_value. Qed.
Print Assumptions C05_logloss_value_is_generated.

(* Bregman-type scores at level 1/2 (squared error, Poisson / Gamma deviance, every degree): the weighted sample mean beats every admissible constant *)
Theorem C05_mean_consistent :
  forall (h : R) (S : list (R * R)) (t c : R),
       S <> [] ->
       Forall (fun e : R * R => 0 < snd e) S ->
       Forall (fun e : R * R => domY h (fst e)) S ->
       domZ h t ->
       domZ h c -> wsumV V_mean S t = 0 -> wtotal (hes_val h (1 / 2)) S t <= wtotal (hes_val h (1 / 2)) S c.
Proof. exact mean_consistent. Qed.
Print Assumptions C05_mean_consistent.

(* asymmetric (level a) versions: the weighted sample expectile *)
Theorem C05_expectile_consistent :
  forall (h a : R) (S : list (R * R)) (t c : R),
       0 < a < 1 ->
       S <> [] ->
       Forall (fun e : R * R => 0 < snd e) S ->
       Forall (fun e : R * R => domY h (fst e)) S ->
       domZ h t ->
       domZ h c -> wsumV (V_expectile a) S t = 0 -> wtotal (hes_val h a) S t <= wtotal (hes_val h a) S c.
Proof. exact expectile_consistent. Qed.
Print Assumptions C05_expectile_consistent.

Theorem C05_logloss_consistent :
  forall (S : list (R * R)) (t c : R),
       S <> [] ->
       Forall (fun e : R * R => 0 < snd e) S ->
       Forall (fun e : R * R => 0 <= fst e <= 1) S ->
       0 < t < 1 -> 0 < c < 1 -> wsumV V_mean S t = 0 -> wtotal spec_logloss S t <= wtotal spec_logloss S c.
Proof. exact logloss_consistent. Qed.
Print Assumptions C05_logloss_consistent.

(* quantile-type scores (pinball loss, every degree): any value between lower and upper empirical quantile *)
Theorem C05_quantile_consistent :
  forall (h a : R) (S : list (R * R)) (t c : R),
       0 < a < 1 ->
       S <> [] ->
       Forall (fun e : R * R => 0 < snd e) S ->
       Forall (fun e : R * R => dQ_h h (fst e)) S ->
       dQ_h h t ->
       dQ_h h c ->
       wsumV (Vm_q a) S t <= 0 ->
       0 <= wsumV (Vp_q a) S t -> wtotal (hqs_val h a) S t <= wtotal (hqs_val h a) S c.
Proof. exact quantile_consistent. Qed.
Print Assumptions C05_quantile_consistent.


(* ======================================================================== *)
(* ==== APPEND TO props/C05.v (after the last existing theorem) ==== *)
(* END TO END (proofs/ConsistencyE2E.v): the first-order conditions above are discharged for the
   EXECUTABLE functionals of model/Functionals.v on a rational sample S : list elt (elt = (y, w) over Q),
   embedded into R as  map (fun e => (Q2R (ey e), Q2R (ew e))) S :
     wmean S (weighted mean), expectile_Q a S (weighted expectile), and every rational t with
     qlow a S <= t <= qupp a S (the library's quantile ignores weights: unit weights assumed).
   The *_data variants assume only facts about the data: the side condition "functional is an admissible
   forecast" is derived (degree h > 1, or one positive observation; for 0 < h <= 1 an all-zero sample has
   mean 0, which is NOT admissible, so the condition cannot be dropped). *)
From Coq Require Import QArith Qreals.
From MD Require Import lib.QLists model.Functionals proofs.ConsistencyE2E.
Open Scope R_scope.

(* first-order conditions hold at the executable functionals *)
Theorem C05_foc_sample_mean :
  forall S : list elt,
       S <> [] ->
       Forall (fun e : elt => (0 < ew e)%Q) S ->
       Consistency.wsumV Scores.V_mean (map (fun e : elt => (Q2R (ey e), Q2R (ew e))) S) (Q2R (wmean S)) = 0.
Proof. exact foc_wmean. Qed.
Print Assumptions C05_foc_sample_mean.

Theorem C05_foc_sample_expectile :
  forall (a : Q) (S : list elt),
       (0 < a /\ a < 1)%Q ->
       S <> [] ->
       Forall (fun e : elt => (0 < ew e)%Q) S ->
       Consistency.wsumV (Scores.V_expectile (Q2R a)) (map (fun e : elt => (Q2R (ey e), Q2R (ew e))) S)
         (Q2R (expectile_Q a S)) = 0.
Proof. exact foc_expectile. Qed.
Print Assumptions C05_foc_sample_expectile.

(* world Q: the values between lower and upper empirical quantile are exactly those with
   #{y_i < t} <= a n <= #{y_i <= t} *)
Theorem C05_between_quantiles_counts :
  forall (a : Q) (S : list elt) (t : Q),
       (0 < a /\ a < 1)%Q ->
       S <> [] ->
       (qlow a S <= t)%Q ->
       (t <= qupp a S)%Q ->
       (Qnat (count_lt S t) <= a * Qnat (length S))%Q /\ (a * Qnat (length S) <= Qnat (count_le S t))%Q.
Proof. exact between_quantiles_counts. Qed.
Print Assumptions C05_between_quantiles_counts.

Theorem C05_counts_between_quantiles :
  forall (a : Q) (S : list elt) (t : Q),
       (0 < a /\ a < 1)%Q ->
       S <> [] ->
       (Qnat (count_lt S t) <= a * Qnat (length S))%Q ->
       (a * Qnat (length S) <= Qnat (count_le S t))%Q -> (qlow a S <= t)%Q /\ (t <= qupp a S)%Q.
Proof. exact counts_between_quantiles. Qed.
Print Assumptions C05_counts_between_quantiles.

Theorem C05_foc_between_quantiles :
  forall (a : Q) (S : list elt) (t : Q),
       (0 < a /\ a < 1)%Q ->
       S <> [] ->
       (qlow a S <= t)%Q ->
       (t <= qupp a S)%Q ->
       Consistency.wsumV (Vm_q (Q2R a)) (map (fun e : elt => (Q2R (ey e), 1)) S) (Q2R t) <= 0 /\
       0 <= Consistency.wsumV (Vp_q (Q2R a)) (map (fun e : elt => (Q2R (ey e), 1)) S) (Q2R t).
Proof. exact foc_quantile. Qed.
Print Assumptions C05_foc_between_quantiles.

(* derived domain side condition: the weighted mean / expectile is an admissible forecast *)
Theorem C05_wmean_in_domain :
  forall (h : R) (S : list elt),
       S <> [] ->
       Forall (fun e : elt => (0 < ew e)%Q) S ->
       Forall (fun e : elt => domY h (Q2R (ey e))) S ->
       1 < h \/ Exists (fun e : elt => (0 < ey e)%Q) S -> domZ h (Q2R (wmean S)).
Proof. exact wmean_in_domain. Qed.
Print Assumptions C05_wmean_in_domain.

Theorem C05_expectile_in_domain :
  forall (h : R) (a : Q) (S : list elt),
       (0 < a /\ a < 1)%Q ->
       S <> [] ->
       Forall (fun e : elt => (0 < ew e)%Q) S ->
       Forall (fun e : elt => domY h (Q2R (ey e))) S ->
       1 < h \/ Exists (fun e : elt => (0 < ey e)%Q) S -> domZ h (Q2R (expectile_Q a S)).
Proof. exact expectile_in_domain. Qed.
Print Assumptions C05_expectile_in_domain.

(* mean: Bregman-type scores of every degree h *)
Theorem C05_mean_consistent_at_sample_mean :
  forall (h : R) (S : list elt) (c : R),
       S <> [] ->
       Forall (fun e : elt => (0 < ew e)%Q) S ->
       Forall (fun e : elt => domY h (Q2R (ey e))) S ->
       domZ h (Q2R (wmean S)) ->
       domZ h c ->
       wtotal (hes_val h (1 / 2)) (map (fun e : elt => (Q2R (ey e), Q2R (ew e))) S) (Q2R (wmean S)) <=
       wtotal (hes_val h (1 / 2)) (map (fun e : elt => (Q2R (ey e), Q2R (ew e))) S) c.
Proof. exact mean_consistent_at_sample_mean. Qed.
Print Assumptions C05_mean_consistent_at_sample_mean.

Theorem C05_mean_consistent_at_sample_mean_data :
  forall (h : R) (S : list elt) (c : R),
       S <> [] ->
       Forall (fun e : elt => (0 < ew e)%Q) S ->
       Forall (fun e : elt => domY h (Q2R (ey e))) S ->
       1 < h \/ Exists (fun e : elt => (0 < ey e)%Q) S ->
       domZ h c ->
       wtotal (hes_val h (1 / 2)) (map (fun e : elt => (Q2R (ey e), Q2R (ew e))) S) (Q2R (wmean S)) <=
       wtotal (hes_val h (1 / 2)) (map (fun e : elt => (Q2R (ey e), Q2R (ew e))) S) c.
Proof. exact mean_consistent_at_sample_mean_data. Qed.
Print Assumptions C05_mean_consistent_at_sample_mean_data.

(* the same comparison for the AVERAGE score (total / sum of weights) *)
Theorem C05_mean_avg_consistent_at_sample_mean_data :
  forall (h : R) (S : list elt) (c : R),
       S <> [] ->
       Forall (fun e : elt => (0 < ew e)%Q) S ->
       Forall (fun e : elt => domY h (Q2R (ey e))) S ->
       1 < h \/ Exists (fun e : elt => (0 < ey e)%Q) S ->
       domZ h c ->
       wtotal (hes_val h (1 / 2)) (map (fun e : elt => (Q2R (ey e), Q2R (ew e))) S) (Q2R (wmean S)) /
         wsumW (map (fun e : elt => (Q2R (ey e), Q2R (ew e))) S) <=
       wtotal (hes_val h (1 / 2)) (map (fun e : elt => (Q2R (ey e), Q2R (ew e))) S) c /
         wsumW (map (fun e : elt => (Q2R (ey e), Q2R (ew e))) S).
Proof. exact mean_avg_consistent_at_sample_mean_data. Qed.
Print Assumptions C05_mean_avg_consistent_at_sample_mean_data.

Theorem C05_avg_le_of_total_le :
  forall (sc : R -> R -> R) (S : list (R * R)) (t c : R),
       S <> [] ->
       Forall (fun e : R * R => 0 < snd e) S ->
       wtotal sc S t <= wtotal sc S c -> wtotal sc S t / wsumW S <= wtotal sc S c / wsumW S.
Proof. exact wavg2_le_of_wtotal_le. Qed.
Print Assumptions C05_avg_le_of_total_le.

(* log loss *)
Theorem C05_logloss_consistent_at_sample_mean :
  forall (S : list elt) (c : R),
       S <> [] ->
       Forall (fun e : elt => (0 < ew e)%Q) S ->
       Forall (fun e : elt => 0 <= Q2R (ey e) <= 1) S ->
       0 < Q2R (wmean S) < 1 ->
       0 < c < 1 ->
       wtotal spec_logloss (map (fun e : elt => (Q2R (ey e), Q2R (ew e))) S) (Q2R (wmean S)) <=
       wtotal spec_logloss (map (fun e : elt => (Q2R (ey e), Q2R (ew e))) S) c.
Proof. exact logloss_consistent_at_sample_mean. Qed.
Print Assumptions C05_logloss_consistent_at_sample_mean.

Theorem C05_logloss_consistent_at_sample_mean_data :
  forall (S : list elt) (c : R),
       S <> [] ->
       Forall (fun e : elt => (0 < ew e)%Q) S ->
       Forall (fun e : elt => (0 <= ey e /\ ey e <= 1)%Q) S ->
       Exists (fun e : elt => (0 < ey e)%Q) S ->
       Exists (fun e : elt => (ey e < 1)%Q) S ->
       0 < c < 1 ->
       wtotal spec_logloss (map (fun e : elt => (Q2R (ey e), Q2R (ew e))) S) (Q2R (wmean S)) <=
       wtotal spec_logloss (map (fun e : elt => (Q2R (ey e), Q2R (ew e))) S) c.
Proof. exact logloss_consistent_at_sample_mean_data. Qed.
Print Assumptions C05_logloss_consistent_at_sample_mean_data.

(* expectile, rational level a in (0,1) *)
Theorem C05_expectile_consistent_at_sample_expectile :
  forall (h : R) (a : Q) (S : list elt) (c : R),
       (0 < a /\ a < 1)%Q ->
       S <> [] ->
       Forall (fun e : elt => (0 < ew e)%Q) S ->
       Forall (fun e : elt => domY h (Q2R (ey e))) S ->
       domZ h (Q2R (expectile_Q a S)) ->
       domZ h c ->
       wtotal (hes_val h (Q2R a)) (map (fun e : elt => (Q2R (ey e), Q2R (ew e))) S) (Q2R (expectile_Q a S)) <=
       wtotal (hes_val h (Q2R a)) (map (fun e : elt => (Q2R (ey e), Q2R (ew e))) S) c.
Proof. exact expectile_consistent_at_sample_expectile. Qed.
Print Assumptions C05_expectile_consistent_at_sample_expectile.

Theorem C05_expectile_consistent_at_sample_expectile_data :
  forall (h : R) (a : Q) (S : list elt) (c : R),
       (0 < a /\ a < 1)%Q ->
       S <> [] ->
       Forall (fun e : elt => (0 < ew e)%Q) S ->
       Forall (fun e : elt => domY h (Q2R (ey e))) S ->
       1 < h \/ Exists (fun e : elt => (0 < ey e)%Q) S ->
       domZ h c ->
       wtotal (hes_val h (Q2R a)) (map (fun e : elt => (Q2R (ey e), Q2R (ew e))) S) (Q2R (expectile_Q a S)) <=
       wtotal (hes_val h (Q2R a)) (map (fun e : elt => (Q2R (ey e), Q2R (ew e))) S) c.
Proof. exact expectile_consistent_at_sample_expectile_data. Qed.
Print Assumptions C05_expectile_consistent_at_sample_expectile_data.

(* quantile: unit weights, every rational t between the lower and the upper empirical quantile; the forecast's
   domain condition dQ_h h (Q2R t) is derived from the observations' (qlow is an observation) *)
Theorem C05_quantile_consistent_between_quantiles :
  forall (h : R) (a : Q) (S : list elt) (t : Q) (c : R),
       (0 < a /\ a < 1)%Q ->
       S <> [] ->
       Forall (fun e : elt => (ew e == 1)%Q) S ->
       Forall (fun e : elt => dQ_h h (Q2R (ey e))) S ->
       dQ_h h c ->
       (qlow a S <= t)%Q ->
       (t <= qupp a S)%Q ->
       wtotal (hqs_val h (Q2R a)) (map (fun e : elt => (Q2R (ey e), Q2R (ew e))) S) (Q2R t) <=
       wtotal (hqs_val h (Q2R a)) (map (fun e : elt => (Q2R (ey e), Q2R (ew e))) S) c.
Proof. exact quantile_consistent_between_quantiles. Qed.
Print Assumptions C05_quantile_consistent_between_quantiles.

(* the same with the weights of S ignored altogether (unweighted total) *)
Theorem C05_quantile_consistent_between_quantiles_unweighted :
  forall (h : R) (a : Q) (S : list elt) (t : Q) (c : R),
       (0 < a /\ a < 1)%Q ->
       S <> [] ->
       Forall (fun e : elt => dQ_h h (Q2R (ey e))) S ->
       dQ_h h c ->
       (qlow a S <= t)%Q ->
       (t <= qupp a S)%Q ->
       wtotal (hqs_val h (Q2R a)) (map (fun e : elt => (Q2R (ey e), 1)) S) (Q2R t) <=
       wtotal (hqs_val h (Q2R a)) (map (fun e : elt => (Q2R (ey e), 1)) S) c.
Proof. exact quantile_consistent_between_quantiles_unweighted. Qed.
Print Assumptions C05_quantile_consistent_between_quantiles_unweighted.

(* in particular the lower quantile, the upper quantile and their midpoint *)
Theorem C05_quantile_consistent_at_qlow :
  forall (h : R) (a : Q) (S : list elt) (c : R),
       (0 < a /\ a < 1)%Q ->
       S <> [] ->
       Forall (fun e : elt => (ew e == 1)%Q) S ->
       Forall (fun e : elt => dQ_h h (Q2R (ey e))) S ->
       dQ_h h c ->
       wtotal (hqs_val h (Q2R a)) (map (fun e : elt => (Q2R (ey e), Q2R (ew e))) S) (Q2R (qlow a S)) <=
       wtotal (hqs_val h (Q2R a)) (map (fun e : elt => (Q2R (ey e), Q2R (ew e))) S) c.
Proof. exact quantile_consistent_at_qlow. Qed.
Print Assumptions C05_quantile_consistent_at_qlow.

Theorem C05_quantile_consistent_at_qupp :
  forall (h : R) (a : Q) (S : list elt) (c : R),
       (0 < a /\ a < 1)%Q ->
       S <> [] ->
       Forall (fun e : elt => (ew e == 1)%Q) S ->
       Forall (fun e : elt => dQ_h h (Q2R (ey e))) S ->
       dQ_h h c ->
       wtotal (hqs_val h (Q2R a)) (map (fun e : elt => (Q2R (ey e), Q2R (ew e))) S) (Q2R (qupp a S)) <=
       wtotal (hqs_val h (Q2R a)) (map (fun e : elt => (Q2R (ey e), Q2R (ew e))) S) c.
Proof. exact quantile_consistent_at_qupp. Qed.
Print Assumptions C05_quantile_consistent_at_qupp.

Theorem C05_quantile_consistent_at_midpoint :
  forall (h : R) (a : Q) (S : list elt) (c : R),
       (0 < a /\ a < 1)%Q ->
       S <> [] ->
       Forall (fun e : elt => (ew e == 1)%Q) S ->
       Forall (fun e : elt => dQ_h h (Q2R (ey e))) S ->
       dQ_h h c ->
       wtotal (hqs_val h (Q2R a)) (map (fun e : elt => (Q2R (ey e), Q2R (ew e))) S)
         (Q2R ((qlow a S + qupp a S) / 2)%Q) <=
       wtotal (hqs_val h (Q2R a)) (map (fun e : elt => (Q2R (ey e), Q2R (ew e))) S) c.
Proof. exact quantile_consistent_at_midpoint. Qed.
Print Assumptions C05_quantile_consistent_at_midpoint.


(* ======================================================================== *)
(* WEIGHTED samples, quantile scores (proofs/WeightedQuantile.v).  wlt / wle / wtot are the weighted
   counts "< t", "<= t" and the total weight; t is a weighted a-quantile of S when
   wlt S t <= a * wtot S <= wle S t.  Every such t minimises the weighted average of every homogeneous
   quantile score (pinball loss included), and one always exists among the observations. *)
From MD Require proofs.WeightedQuantile.

Theorem C05_weighted_quantile_consistent :
  forall (h a : R) (S : list (R * R)) (t c : R),
       0 < a < 1 ->
       S <> [] ->
       Forall (fun e : R * R => 0 < snd e) S ->
       Forall (fun e : R * R => dQ_h h (fst e)) S ->
       dQ_h h t ->
       dQ_h h c ->
       WeightedQuantile.wlt S t <= a * WeightedQuantile.wtot S <= WeightedQuantile.wle S t ->
       Consistency.wtotal (hqs_val h a) S t <= Consistency.wtotal (hqs_val h a) S c.
Proof. exact WeightedQuantile.wquantile_consistent. Qed.
Print Assumptions C05_weighted_quantile_consistent.

Theorem C05_weighted_quantile_exists :
  forall (a : R) (S : list (R * R)),
       0 < a < 1 ->
       S <> [] ->
       Forall (fun e : R * R => 0 < snd e) S ->
       exists e : R * R, In e S /\
         WeightedQuantile.wlt S (fst e) <= a * WeightedQuantile.wtot S <= WeightedQuantile.wle S (fst e).
Proof. exact WeightedQuantile.wq_exists. Qed.
Print Assumptions C05_weighted_quantile_exists.

Theorem C05_weighted_quantile_consistent_exists :
  forall (h a : R) (S : list (R * R)),
       0 < a < 1 ->
       S <> [] ->
       Forall (fun e : R * R => 0 < snd e) S ->
       Forall (fun e : R * R => dQ_h h (fst e)) S ->
       exists e : R * R, In e S /\
         forall c : R, dQ_h h c ->
           Consistency.wtotal (hqs_val h a) S (fst e) <= Consistency.wtotal (hqs_val h a) S c.
Proof. exact WeightedQuantile.wquantile_consistent_exists. Qed.
Print Assumptions C05_weighted_quantile_consistent_exists.

(* the weighted quantiles form an interval (as [qlow, qupp] in the unweighted case) *)
Theorem C05_weighted_quantile_interval :
  forall (a : R) (S : list (R * R)) (s t u : R),
       Forall (fun e : R * R => 0 < snd e) S ->
       WeightedQuantile.is_wquantile a S s -> WeightedQuantile.is_wquantile a S t -> s <= u <= t ->
       WeightedQuantile.is_wquantile a S u.
Proof. exact WeightedQuantile.wquantile_interval. Qed.
Print Assumptions C05_weighted_quantile_interval.

(* weights matter: sample (1, w = 1), (2, w = 3), level 1/2 - the weighted median is 2, not 1 *)
Theorem C05_weighted_quantile_example :
  WeightedQuantile.is_wquantile (1 / 2) [(1, 1); (2, 3)] 2 /\ ~ WeightedQuantile.is_wquantile (1 / 2) [(1, 1); (2, 3)] 1.
Proof. exact WeightedQuantile.wq_example. Qed.
Print Assumptions C05_weighted_quantile_example.
