(* C15 - Elementary scores are non-negative, consistent, integrate to standard scores.
   World R.  gen_elem_spo is ElementaryScore.score_per_obs as translated from scoring.py on every run.
   elem_val V eta y z        = (1{eta<=z} - 1{eta<=y}) * V(y, eta)     (mean, expectile)
   elem_val_strict V eta y z = (1{eta<z}  - 1{eta<y})  * V(y, eta)     (quantile, median)
   The strict indicators for the quantile/median are the library fix 42d574f ("fix: ElementaryScore for
   quantiles is negative when eta equals y_obs > y_pred"); before it the non-strict formula was used for all
   functionals, and the last two theorems record, for that OLD formula, the refutation of non-negativity and of
   consistency at eta = observation (the finding that led to the fix).  If the fix were reverted, the
   translated gen_elem_spo would no longer match spec_elem and bridge_elem would fail.
   wtotal sc S c = sum_i w_i sc(y_i, c); the sample's functional t is given by its first-order condition.
   Integrals are Coquelicot is_RInt over [min(y,z), max(y,z)] (the integrand vanishes outside). *)
From Coq Require Import Reals List Bool.
From Coquelicot Require Import Coquelicot.
Import ListNotations.
From MD Require Import lib.NumpyR lib.NumpyR2 spec.Scores theory.Bregman gen.Gen_ident gen.Gen_scoring proofs.ScoreProps proofs.ScoreGen proofs.Consistency proofs.ElemIntegral.
Open Scope R_scope.

(* tie to the translated code *)
Theorem C15_generated_mean :
  forall eta a y z : R, gen_elem_spo eta Fmean a y z = Ok (elem_val V_mean eta y z).
Proof. exact elem_gen_mean. Qed.
Print Assumptions C15_generated_mean.

Theorem C15_generated_expectile :
  forall eta a y z : R,
       0 < a < 1 -> gen_elem_spo eta Fexpectile a y z = Ok (elem_val (V_expectile a) eta y z).
Proof. exact elem_gen_expectile. Qed.
Print Assumptions C15_generated_expectile.

Theorem C15_generated_quantile :
  forall eta a y z : R,
       0 < a < 1 -> gen_elem_spo eta Fquantile a y z = Ok (elem_val_strict (V_quantile a) eta y z).
Proof. exact elem_gen_quantile. Qed.
Print Assumptions C15_generated_quantile.

Theorem C15_generated_median :
  forall eta a y z : R,
       gen_elem_spo eta Fmedian a y z = Ok (elem_val_strict (V_quantile (1 / 2)) eta y z).
Proof. exact elem_gen_median. Qed.
Print Assumptions C15_generated_median.

Theorem C15_level_guard :
  forall (eta : R) (f : fnl) (a : R), gen_elem_init eta f a = ValueErr <-> ~ 0 < a < 1.
Proof. exact g_elem_init_guard. Qed.
Print Assumptions C15_level_guard.

(* >= 0 for every eta, observation and prediction *)
Theorem C15_nonneg_mean :
  forall eta y z : R, 0 <= elem_val V_mean eta y z.
Proof. exact elem_nonneg_mean. Qed.
Print Assumptions C15_nonneg_mean.

Theorem C15_nonneg_expectile :
  forall a eta y z : R, 0 < a < 1 -> 0 <= elem_val (V_expectile a) eta y z.
Proof. exact elem_nonneg_expectile. Qed.
Print Assumptions C15_nonneg_expectile.

Theorem C15_nonneg_quantile :
  forall a eta y z : R, 0 < a < 1 -> 0 <= elem_val_strict (V_quantile a) eta y z.
Proof. exact elem_strict_nonneg_quantile. Qed.
Print Assumptions C15_nonneg_quantile.

(* 0 when prediction equals observation *)
Theorem C15_zero :
  forall (V : R -> R -> R) (eta z : R), elem_val V eta z z = 0.
Proof. exact elem_zero. Qed.
Print Assumptions C15_zero.

Theorem C15_zero_quantile :
  forall (V : R -> R -> R) (eta z : R), elem_val_strict V eta z z = 0.
Proof. exact elem_strict_zero. Qed.
Print Assumptions C15_zero_quantile.

(* minimised in expectation by the functional of the sample, for EVERY eta (data values included) *)
Theorem C15_consistent_mean :
  forall (eta : R) (S : list (R * R)) (t c : R),
       List.Forall (fun e : R * R => 0 < snd e) S ->
       wsumV V_mean S t = 0 -> wtotal (elem_val V_mean eta) S t <= wtotal (elem_val V_mean eta) S c.
Proof. exact elem_consistent_mean. Qed.
Print Assumptions C15_consistent_mean.

Theorem C15_consistent_expectile :
  forall (a eta : R) (S : list (R * R)) (t c : R),
       0 < a < 1 ->
       List.Forall (fun e : R * R => 0 < snd e) S ->
       wsumV (V_expectile a) S t = 0 ->
       wtotal (elem_val (V_expectile a) eta) S t <= wtotal (elem_val (V_expectile a) eta) S c.
Proof. exact elem_consistent_expectile. Qed.
Print Assumptions C15_consistent_expectile.

Theorem C15_consistent_quantile :
  forall (a eta : R) (S : list (R * R)) (t c : R),
       0 < a < 1 ->
       List.Forall (fun e : R * R => 0 < snd e) S ->
       wsumV (Vm_q a) S t <= 0 ->
       0 <= wsumV (Vp_q a) S t ->
       wtotal (elem_val_strict (V_quantile a) eta) S t <= wtotal (elem_val_strict (V_quantile a) eta) S c.
Proof. exact elem_consistent_quantile. Qed.
Print Assumptions C15_consistent_quantile.

(* integrated over eta: half the squared error / the pinball loss / half the degree-2 expectile score *)
Theorem C15_integral_mean :
  forall y z : R,
       is_RInt (fun eta : R => elem_val V_mean eta y z) (Rmin y z) (Rmax y z) (hes_val 2 (1 / 2) y z / 2).
Proof. exact elem_integral_mean_score. Qed.
Print Assumptions C15_integral_mean.

Theorem C15_integral_quantile :
  forall a y z : R,
       0 < a < 1 ->
       is_RInt (fun eta : R => elem_val_strict (V_quantile a) eta y z) (Rmin y z) 
         (Rmax y z) ((ge_ind z y - a) * (z - y)).
Proof. exact elem_integral_quantile_strict. Qed.
Print Assumptions C15_integral_quantile.

Theorem C15_integral_expectile :
  forall a y z : R,
       0 < a < 1 ->
       is_RInt (fun eta : R => elem_val (V_expectile a) eta y z) (Rmin y z) (Rmax y z) (hes_val 2 a y z / 2).
Proof. exact elem_integral_expectile_score. Qed.
Print Assumptions C15_integral_expectile.

(* the integrand vanishes outside [min(y,z), max(y,z)] *)
Theorem C15_zero_outside :
  forall (V : R -> R -> R) (eta y z : R), eta < Rmin y z \/ Rmax y z < eta -> elem_val V eta y z = 0.
Proof. exact elem_val_zero_outside. Qed.
Print Assumptions C15_zero_outside.

Theorem C15_zero_outside_strict :
  forall (V : R -> R -> R) (eta y z : R),
       eta < Rmin y z \/ Rmax y z < eta -> elem_val_strict V eta y z = 0.
Proof. exact elem_strict_zero_outside. Qed.
Print Assumptions C15_zero_outside_strict.

(* Murphy diagram: the area under the average elementary score is the average score *)
Theorem C15_murphy_area_mean :
  forall (lo hi : R) (S : list (R * R * R)),
       covers lo hi S ->
       is_RInt (fun eta : R => wavg3 (elem_val V_mean eta) S) lo hi (wavg3 (hes_val 2 (1 / 2)) S / 2).
Proof. exact murphy_area_mean_score. Qed.
Print Assumptions C15_murphy_area_mean.

Theorem C15_murphy_area_quantile :
  forall (a lo hi : R) (S : list (R * R * R)),
       0 < a < 1 ->
       covers lo hi S ->
       is_RInt (fun eta : R => wavg3 (elem_val_strict (V_quantile a) eta) S) lo hi
         (wavg3 (fun y z : R => (ge_ind z y - a) * (z - y)) S).
Proof. exact murphy_area_quantile_strict. Qed.
Print Assumptions C15_murphy_area_quantile.

Theorem C15_murphy_area_expectile :
  forall (a lo hi : R) (S : list (R * R * R)),
       0 < a < 1 ->
       covers lo hi S ->
       is_RInt (fun eta : R => wavg3 (elem_val (V_expectile a) eta) S) lo hi (wavg3 (hes_val 2 a) S / 2).
Proof. exact murphy_area_expectile_score. Qed.
Print Assumptions C15_murphy_area_expectile.

(* ... and the curve is non-negative *)
Theorem C15_murphy_nonneg_mean :
  forall (eta : R) (S : list (R * R * R)),
       List.Forall (fun e : R * R * R => 0 <= snd e) S -> 0 <= wavg3 (elem_val V_mean eta) S.
Proof. exact murphy_nonneg_mean. Qed.
Print Assumptions C15_murphy_nonneg_mean.

Theorem C15_murphy_nonneg_expectile :
  forall (a eta : R) (S : list (R * R * R)),
       0 < a < 1 ->
       List.Forall (fun e : R * R * R => 0 <= snd e) S -> 0 <= wavg3 (elem_val (V_expectile a) eta) S.
Proof. exact murphy_nonneg_expectile. Qed.
Print Assumptions C15_murphy_nonneg_expectile.

Theorem C15_murphy_nonneg_quantile :
  forall (a eta : R) (S : list (R * R * R)),
       0 < a < 1 ->
       List.Forall (fun e : R * R * R => 0 <= snd e) S -> 0 <= wavg3 (elem_val_strict (V_quantile a) eta) S.
Proof. exact murphy_nonneg_quantile_strict. Qed.
Print Assumptions C15_murphy_nonneg_quantile.

(* the pre-fix formula (non-strict indicators for the quantile): refuted *)
Theorem C15_old_formula_nonneg_refuted :
  exists a eta y z : R, 0 < a < 1 /\ elem_val (V_quantile a) eta y z < 0.
Proof. exact elem_nonneg_quantile_refuted. Qed.
Print Assumptions C15_old_formula_nonneg_refuted.

Theorem C15_old_formula_consistent_refuted :
  exists (a eta : R) (S : list (R * R)) (t c : R),
         0 < a < 1 /\
         List.Forall (fun e : R * R => 0 < snd e) S /\
         wsumV (Vm_q a) S t <= 0 /\
         0 <= wsumV (Vp_q a) S t /\
         wtotal (elem_val (V_quantile a) eta) S c < wtotal (elem_val (V_quantile a) eta) S t.
Proof. exact elem_consistent_quantile_refuted. Qed.
Print Assumptions C15_old_formula_consistent_refuted.


(* ======================================================================== *)
(* ==== APPEND TO props/C15.v (after the last existing theorem) ==== *)
(* END TO END (proofs/ConsistencyE2E.v): consistency of the elementary scores at the EXECUTABLE functionals of
   model/Functionals.v on a rational sample S : list elt, for every real threshold eta (data values included)
   and every real competitor c; no domain conditions. *)
From Coq Require Import QArith Qreals.
From MD Require Import lib.QLists model.Functionals proofs.ConsistencyE2E.
Open Scope R_scope.

Theorem C15_consistent_at_sample_mean :
  forall (eta : R) (S : list elt) (c : R),
       S <> [] ->
       List.Forall (fun e : elt => (0 < ew e)%Q) S ->
       wtotal (elem_val Scores.V_mean eta) (List.map (fun e : elt => (Q2R (ey e), Q2R (ew e))) S) (Q2R (wmean S)) <=
       wtotal (elem_val Scores.V_mean eta) (List.map (fun e : elt => (Q2R (ey e), Q2R (ew e))) S) c.
Proof. exact elem_consistent_at_sample_mean. Qed.
Print Assumptions C15_consistent_at_sample_mean.

Theorem C15_consistent_at_sample_expectile :
  forall (a : Q) (eta : R) (S : list elt) (c : R),
       (0 < a /\ a < 1)%Q ->
       S <> [] ->
       List.Forall (fun e : elt => (0 < ew e)%Q) S ->
       wtotal (elem_val (Scores.V_expectile (Q2R a)) eta) (List.map (fun e : elt => (Q2R (ey e), Q2R (ew e))) S)
         (Q2R (expectile_Q a S)) <=
       wtotal (elem_val (Scores.V_expectile (Q2R a)) eta) (List.map (fun e : elt => (Q2R (ey e), Q2R (ew e))) S) c.
Proof. exact elem_consistent_at_sample_expectile. Qed.
Print Assumptions C15_consistent_at_sample_expectile.

Theorem C15_consistent_between_quantiles :
  forall (a : Q) (eta : R) (S : list elt) (t : Q) (c : R),
       (0 < a /\ a < 1)%Q ->
       S <> [] ->
       List.Forall (fun e : elt => (ew e == 1)%Q) S ->
       (qlow a S <= t)%Q ->
       (t <= qupp a S)%Q ->
       wtotal (elem_val_strict (V_quantile (Q2R a)) eta) (List.map (fun e : elt => (Q2R (ey e), Q2R (ew e))) S) (Q2R t) <=
       wtotal (elem_val_strict (V_quantile (Q2R a)) eta) (List.map (fun e : elt => (Q2R (ey e), Q2R (ew e))) S) c.
Proof. exact elem_consistent_between_quantiles. Qed.
Print Assumptions C15_consistent_between_quantiles.

Theorem C15_consistent_between_quantiles_unweighted :
  forall (a : Q) (eta : R) (S : list elt) (t : Q) (c : R),
       (0 < a /\ a < 1)%Q ->
       S <> [] ->
       (qlow a S <= t)%Q ->
       (t <= qupp a S)%Q ->
       wtotal (elem_val_strict (V_quantile (Q2R a)) eta) (List.map (fun e : elt => (Q2R (ey e), 1)) S) (Q2R t) <=
       wtotal (elem_val_strict (V_quantile (Q2R a)) eta) (List.map (fun e : elt => (Q2R (ey e), 1)) S) c.
Proof. exact elem_consistent_between_quantiles_unweighted. Qed.
Print Assumptions C15_consistent_between_quantiles_unweighted.

(* the median functional (level 1/2 as the real literal the generated code uses) *)
Theorem C15_consistent_at_median :
  forall (eta : R) (S : list elt) (t : Q) (c : R),
       S <> [] ->
       List.Forall (fun e : elt => (ew e == 1)%Q) S ->
       (qlow (1 # 2) S <= t)%Q ->
       (t <= qupp (1 # 2) S)%Q ->
       wtotal (elem_val_strict (V_quantile (1 / 2)) eta) (List.map (fun e : elt => (Q2R (ey e), Q2R (ew e))) S) (Q2R t) <=
       wtotal (elem_val_strict (V_quantile (1 / 2)) eta) (List.map (fun e : elt => (Q2R (ey e), Q2R (ew e))) S) c.
Proof. exact elem_consistent_at_median. Qed.
Print Assumptions C15_consistent_at_median.

(* ---- the SAME source, regenerated on every run by translate/gen_f.py as a function over PRIMITIVE BINARY64 floats (coq/gen/Gen_*_f.v): what numpy computes, one rounding per operation in source order; compared bit for bit with the implementation on arbitrary doubles (harness/run_genfloat.py).  Print Assumptions lists Coq's primitive float / integer operations only. ---- *)
From Coq Require Import PrimFloat Bool.
From MD Require Import lib.NumpyF gen.Gen_ident_f gen.Gen_scoring_f proofs.GenFloatProps.
Open Scope float_scope.

Theorem C15_float_elem_mean :
  forall eta level y z : float,
       gen_elem_spo_f eta Fmean level y z = FVal ((le_ind_f eta z - le_ind_f eta y) * (eta - y)).
Proof. exact gen_elem_spo_f_mean. Qed.
Print Assumptions C15_float_elem_mean.

Theorem C15_float_elem_median_is_quantile_half :
  forall eta level y z : float,
       gen_elem_spo_f eta Fmedian level y z = gen_elem_spo_f eta Fquantile 0.5 y z.
Proof. exact gen_elem_spo_f_median_is_quantile_half. Qed.
Print Assumptions C15_float_elem_median_is_quantile_half.

Theorem C15_float_elem_quantile :
  forall eta level y z : float,
       level_out level = false ->
       gen_elem_spo_f eta Fquantile level y z =
       FVal ((lt_ind_f eta z - lt_ind_f eta y) * (ge_ind_f eta y - level)).
Proof. exact gen_elem_spo_f_quantile. Qed.
Print Assumptions C15_float_elem_quantile.

Theorem C15_float_elem_expectile :
  forall eta level y z : float,
       level_out level = false ->
       gen_elem_spo_f eta Fexpectile level y z =
       FVal ((le_ind_f eta z - le_ind_f eta y) * (2 * np_abs_f (ge_ind_f eta y - level) * (eta - y))).
Proof. exact gen_elem_spo_f_expectile. Qed.
Print Assumptions C15_float_elem_expectile.

Theorem C15_float_elem_total :
  forall (eta : float) (f : fnl) (level y z : float),
       f <> Fother -> level_out level = false -> is_val (gen_elem_spo_f eta f level y z) = true.
Proof. exact gen_elem_spo_f_total. Qed.
Print Assumptions C15_float_elem_total.

Theorem C15_float_elem_never_notexpr :
  forall (eta : float) (f : fnl) (level y z : float), gen_elem_spo_f eta f level y z <> FNotExpr.
Proof. exact gen_elem_spo_f_never_notexpr. Qed.
Print Assumptions C15_float_elem_never_notexpr.
