(* C08 - Identification functions are oriented residuals vanishing at the functional.
   gen_V is the translation of identification_function (gen/Gen_ident.v, regenerated from
   identification.py on every run).  Per-sample statements take rational samples (every float is one):
   S : list (y, w), and use the executable empirical functionals of model/Functionals.v
   (wmean, expectile_Q, qlow = inverted-CDF lower quantile, count_le). *)
From Coq Require Import Reals QArith Qreals List Bool.
Import ListNotations.
From MD Require Import lib.NumpyR lib.QLists spec.Scores model.Functionals gen.Gen_ident proofs.IdentProps.
Open Scope R_scope.

(* non-decreasing in the prediction, every functional, every level *)
Theorem C08_monotone :
  forall (f : fnl) (a y z1 z2 v1 v2 : R),
       gen_V f a y z1 = Ok v1 -> gen_V f a y z2 = Ok v2 -> z1 <= z2 -> v1 <= v2.
Proof. exact V_monotone. Qed.
Print Assumptions C08_monotone.

Theorem C08_defined :
  forall (f : fnl) (a y z : R), f <> Fother -> 0 < a < 1 -> exists v : R, gen_V f a y z = Ok v.
Proof. exact V_defined. Qed.
Print Assumptions C08_defined.

Theorem C08_level_guard :
  forall (f : fnl) (a y z : R),
       f = Fexpectile \/ f = Fquantile -> ~ 0 < a < 1 -> gen_V f a y z = ValueErr.
Proof. exact V_level_guard. Qed.
Print Assumptions C08_level_guard.

Theorem C08_functional_guard :
  forall a y z : R, gen_V Fother a y z = ValueErr.
Proof. exact V_functional_guard. Qed.
Print Assumptions C08_functional_guard.

Theorem C08_median_alias :
  forall a y z : R, gen_V Fmedian a y z = gen_V Fquantile (1 / 2) y z.
Proof. exact V_median_alias. Qed.
Print Assumptions C08_median_alias.

Theorem C08_expectile_half_is_mean :
  forall y z : R, gen_V Fexpectile (1 / 2) y z = gen_V Fmean (1 / 2) y z.
Proof. exact V_expectile_half_is_mean. Qed.
Print Assumptions C08_expectile_half_is_mean.

Theorem C08_closed_forms :
  forall a y z : R,
       0 < a < 1 ->
       gen_V Fmean a y z = Ok (z - y) /\
       gen_V Fquantile a y z = Ok (ge_ind z y - a) /\
       gen_V Fexpectile a y z = Ok (2 * Rabs (ge_ind z y - a) * (z - y)).
Proof. exact V_closed_forms. Qed.
Print Assumptions C08_closed_forms.

(* weighted sample average is zero at the weighted sample mean *)
Theorem C08_mean_zero :
  forall S : list elt, S <> [] -> Forall posw S -> wsumV Fmean (1 / 2) S (Q2R (wmean S)) = Some 0.
Proof. exact V_mean_zero. Qed.
Print Assumptions C08_mean_zero.

(* ... and at the weighted sample expectile *)
Theorem C08_expectile_zero :
  forall (a : Q) (S : list elt),
       (0 < a < 1)%Q ->
       S <> [] -> Forall posw S -> wsumV Fexpectile (Q2R a) S (Q2R (expectile_Q a S)) = Some 0.
Proof. exact V_expectile_zero. Qed.
Print Assumptions C08_expectile_zero.

(* quantile: the sample sum is (number of observations <= prediction) - n * level *)
Theorem C08_quantile_sum :
  forall (a : Q) (S : list elt) (t : Q),
       (0 < a < 1)%Q -> sumV Fquantile (Q2R a) S (Q2R t) = Some (INR (count_le S t) - Q2R a * INR (length S)).
Proof. exact V_quantile_sum. Qed.
Print Assumptions C08_quantile_sum.

(* negative for every prediction below the lower empirical quantile *)
Theorem C08_quantile_negative_below :
  forall (a : Q) (S : list elt) (t : Q),
       (0 < a < 1)%Q ->
       S <> [] -> (t < qlow a S)%Q -> exists s : R, sumV Fquantile (Q2R a) S (Q2R t) = Some s /\ s < 0.
Proof. exact V_quantile_negative_below. Qed.
Print Assumptions C08_quantile_negative_below.

(* non-negative from the lower empirical quantile onwards *)
Theorem C08_quantile_nonneg_from :
  forall (a : Q) (S : list elt) (t : Q),
       (0 < a < 1)%Q ->
       S <> [] -> (qlow a S <= t)%Q -> exists s : R, sumV Fquantile (Q2R a) S (Q2R t) = Some s /\ 0 <= s.
Proof. exact V_quantile_nonneg_from. Qed.
Print Assumptions C08_quantile_nonneg_from.

(* ---- the SAME source, regenerated on every run by translate/gen_f.py as a function over PRIMITIVE BINARY64 floats (coq/gen/Gen_*_f.v): what numpy computes, one rounding per operation in source order; compared bit for bit with the implementation on arbitrary doubles (harness/run_genfloat.py).  Print Assumptions lists Coq's primitive float / integer operations only. ---- *)
From Coq Require Import PrimFloat Bool.
From MD Require Import lib.NumpyF gen.Gen_ident_f gen.Gen_scoring_f proofs.GenFloatProps.
Open Scope float_scope.

Theorem C08_float_V_mean :
  forall level y z : float, gen_V_f Fmean level y z = FVal (z - y).
Proof. exact gen_V_f_mean. Qed.
Print Assumptions C08_float_V_mean.

Theorem C08_float_V_median :
  forall level y z : float, gen_V_f Fmedian level y z = FVal (ge_ind_f z y - 0.5).
Proof. exact gen_V_f_median. Qed.
Print Assumptions C08_float_V_median.

Theorem C08_float_V_median_is_quantile_half :
  forall level y z : float, gen_V_f Fmedian level y z = gen_V_f Fquantile 0.5 y z.
Proof. exact gen_V_f_median_is_quantile_half. Qed.
Print Assumptions C08_float_V_median_is_quantile_half.

Theorem C08_float_V_quantile :
  forall level y z : float,
       level_out level = false -> gen_V_f Fquantile level y z = FVal (ge_ind_f z y - level).
Proof. exact gen_V_f_quantile. Qed.
Print Assumptions C08_float_V_quantile.

Theorem C08_float_V_expectile :
  forall level y z : float,
       level_out level = false ->
       gen_V_f Fexpectile level y z = FVal (2 * np_abs_f (ge_ind_f z y - level) * (z - y)).
Proof. exact gen_V_f_expectile. Qed.
Print Assumptions C08_float_V_expectile.

Theorem C08_float_V_level_guard :
  forall (f : fnl) (level y z : float),
       f = Fexpectile \/ f = Fquantile -> level_out level = true -> gen_V_f f level y z = FValueErr.
Proof. exact gen_V_f_level_guard. Qed.
Print Assumptions C08_float_V_level_guard.

Theorem C08_float_V_total :
  forall (f : fnl) (level y z : float),
       f <> Fother -> level_out level = false -> is_val (gen_V_f f level y z) = true.
Proof. exact gen_V_f_total. Qed.
Print Assumptions C08_float_V_total.

(* ======================================================================== *)
(* WEIGHTED sample average of the quantile identification function (proofs/WeightedQuantile.v): the GENERATED
   function is 1{z >= y} - level, its weighted sum is (weight of the observations <= prediction) - level * total
   weight, i.e. the weighted average is the weighted share minus the level; the left-limit companion uses "<".
   Around a weighted quantile the two have the documented signs. *)
From Coq Require Import Reals.
From MD Require proofs.WeightedQuantile proofs.Consistency theory.Bregman.

Theorem C08_weighted_quantile_sum :
  forall (a : R) (S : list (R * R)) (t : R),
       (0 < a < 1)%R ->
       (forall y : R, gen_V Fquantile a y t = Ok (Bregman.Vp_q a y t)) /\
       Consistency.wsumV (Bregman.Vp_q a) S t = (WeightedQuantile.wle S t - a * WeightedQuantile.wtot S)%R /\
       Consistency.wsumV (Bregman.Vm_q a) S t = (WeightedQuantile.wlt S t - a * WeightedQuantile.wtot S)%R.
Proof. exact WeightedQuantile.wquantile_ident_sum. Qed.
Print Assumptions C08_weighted_quantile_sum.

Theorem C08_weighted_quantile_sign :
  forall (a : R) (S : list (R * R)) (t : R),
       WeightedQuantile.is_wquantile a S t ->
       (Consistency.wsumV (Bregman.Vm_q a) S t <= 0 <= Consistency.wsumV (Bregman.Vp_q a) S t)%R.
Proof. exact WeightedQuantile.wquantile_ident_sign. Qed.
Print Assumptions C08_weighted_quantile_sign.
