(* C02 - Isotonic quantile regression returns a monotone minimiser of the pinball loss. *)
From Coq Require Import QArith Qreals Reals List.
Import ListNotations.
From MD Require Import lib.QLists model.Functionals model.Gpava model.Isotonic theory.Optimal theory.IsoOptimal proofs.IsoQuantProps.

Theorem C02_total : forall y inc lvl, y <> [] -> (0 < lvl /\ lvl < 1)%Q ->
  exists x r, isotonic_regression y None inc IFquantile lvl = IOk (x, r).
Proof. exact iso_quantile_total. Qed.
Print Assumptions C02_total.

(* monotone, and no monotone REAL sequence has smaller total pinball loss *)
Theorem C02_optimal : forall y inc lvl x r, y <> [] -> (0 < lvl /\ lvl < 1)%Q ->
  isotonic_regression y None inc IFquantile lvl = IOk (x, r) ->
  length x = length y /\ monoQ inc x /\
  forall u : list R, length u = length y -> monoR inc u ->
    (lossPin lvl (udata y) u >= lossPin lvl (udata y) (map Q2R x))%R.
Proof. exact iso_quantile_optimal. Qed.
Print Assumptions C02_optimal.

Theorem C02_median_is_quantile_half : forall y inc lvl,
  isotonic_regression y None inc IFmedian lvl = isotonic_regression y None inc IFquantile (1#2).
Proof. exact iso_median_is_quantile_half. Qed.
Print Assumptions C02_median_is_quantile_half.

(* within [min y, max y] *)
Theorem C02_range : forall a (Ha : (0 < a /\ a < 1)%Q) l x r, l <> [] -> quantile_path a l = Some (x, r) ->
  forall v, In v x -> exists lo hi, In lo (map ey l) /\ In hi (map ey l) /\ (lo <= v /\ v <= hi)%Q.
Proof. exact quantile_path_range. Qed.
Print Assumptions C02_range.

(* the block loss is flat between the lower and the upper quantile of the block:
   this is why the midpoint construction keeps the optimum *)
Theorem C02_block_flat : forall a (Ha : (0 < a /\ a < 1)%Q) B s, B <> [] ->
  (qlow a B <= s)%Q -> (s <= qupp a B)%Q ->
  lossPin a B (repeat (Q2R s) (length B)) = lossPin a B (repeat (Q2R (qlow a B)) (length B)).
Proof. exact block_flat. Qed.
Print Assumptions C02_block_flat.

(* partial: "between the smallest and the largest optimal solution" - proved is the
   lower bound by the lower-quantile solution *)
Theorem C02_ge_lower_partial : forall a (Ha : (0 < a /\ a < 1)%Q) l x r stk, quantile_path a l = Some (x, r) ->
  gpava_blocks elt ey (qlow a) l = Some stk -> Forall2 Qle (expand elt stk) x.
Proof. exact quantile_path_ge_lower. Qed.
Print Assumptions C02_ge_lower_partial.
(* Full statement kept visible (not proved): the lower-quantile solution is the
   pointwise smallest optimal solution and the result is <= the pointwise largest
   one (max-min with the upper quantile).  harness/judge.py evaluates both bounds
   exactly whenever a case is judged. *)
