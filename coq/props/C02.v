(* C02 - Isotonic quantile regression returns a monotone minimiser of the pinball loss. *)
From Coq Require Import QArith Qreals Reals List.
Import ListNotations.
From MD Require Import lib.QLists model.Functionals model.Gpava model.Isotonic theory.Optimal theory.IsoOptimal
  proofs.IsoQuantProps theory.MaxMin proofs.IsoMaxMin.

Theorem C02_total : forall y inc lvl, y <> [] -> (0 < lvl /\ lvl < 1)%Q ->
  exists x r, isotonic_regression y None inc IFquantile lvl = IOk (x, r).
Proof. exact iso_quantile_total. Qed.
Print Assumptions C02_total.

(* monotone, and no monotone REAL sequence has smaller total pinball loss *)
Theorem C02_optimal : forall y inc lvl x r, y <> [] -> (0 < lvl /\ lvl < 1)%Q ->
  isotonic_regression y None inc IFquantile lvl = IOk (x, r) ->
  length x = length y /\ monoQ inc x /\
  forall u : list R, length u = length y -> monoR inc u ->
    (lossPin lvl (udata y) u >= lossPin lvl (udata y) (map Q2R x))%R.
Proof. exact iso_quantile_optimal. Qed.
Print Assumptions C02_optimal.

Theorem C02_median_is_quantile_half : forall y inc lvl,
  isotonic_regression y None inc IFmedian lvl = isotonic_regression y None inc IFquantile (1#2).
Proof. exact iso_median_is_quantile_half. Qed.
Print Assumptions C02_median_is_quantile_half.

(* within [min y, max y] *)
Theorem C02_range : forall a (Ha : (0 < a /\ a < 1)%Q) l x r, l <> [] -> quantile_path a l = Some (x, r) ->
  forall v, In v x -> exists lo hi, In lo (map ey l) /\ In hi (map ey l) /\ (lo <= v /\ v <= hi)%Q.
Proof. exact quantile_path_range. Qed.
Print Assumptions C02_range.

(* the block loss is flat between the lower and the upper quantile of the block:
   this is why the midpoint construction keeps the optimum *)
Theorem C02_block_flat : forall a (Ha : (0 < a /\ a < 1)%Q) B s, B <> [] ->
  (qlow a B <= s)%Q -> (s <= qupp a B)%Q ->
  lossPin a B (repeat (Q2R s) (length B)) = lossPin a B (repeat (Q2R (qlow a B)) (length B)).
Proof. exact block_flat. Qed.
Print Assumptions C02_block_flat.

(* result >= the lower-quantile solution (implied by C02_between below) *)
Theorem C02_ge_lower_partial : forall a (Ha : (0 < a /\ a < 1)%Q) l x r stk, quantile_path a l = Some (x, r) ->
  gpava_blocks elt ey (qlow a) l = Some stk -> Forall2 Qle (expand elt stk) x.
Proof. exact quantile_path_ge_lower. Qed.
Print Assumptions C02_ge_lower_partial.
(* "optimal" in the requested direction: a monotone real sequence of the right length whose
   total pinball loss is minimal among all such sequences *)
Theorem C02_opt_dir_def : forall inc a y u, opt_dir inc a y u <->
  (length u = length y /\ monoR inc u /\
   forall v : list R, length v = length y -> monoR inc v ->
     (lossPin a (udata y) v >= lossPin a (udata y) u)%R).
Proof. exact opt_dir_def. Qed.
Print Assumptions C02_opt_dir_def.

(* the result lies pointwise between the smallest and the largest optimal solution:
   there are optimal xl, xu with xl <= u <= xu pointwise for EVERY optimal u, the result
   is optimal, and xl <= x <= xu.  Both directions. *)
Theorem C02_between : forall y inc lvl x r, y <> [] -> (0 < lvl /\ lvl < 1)%Q ->
  isotonic_regression y None inc IFquantile lvl = IOk (x, r) ->
  exists xl xu : list Q,
    opt_dir inc lvl y (map Q2R xl) /\ opt_dir inc lvl y (map Q2R xu) /\
    opt_dir inc lvl y (map Q2R x) /\
    (forall u, opt_dir inc lvl y u -> Forall2 Rle (map Q2R xl) u /\ Forall2 Rle u (map Q2R xu)) /\
    Forall2 Qle xl x /\ Forall2 Qle x xu.
Proof. exact iso_quantile_between. Qed.
Print Assumptions C02_between.

(* the same on the quantile path, naming the two extremal solutions:
   lower_solution a l = expansion of the lower-quantile GPAVA blocks,
   upper_solution a l = minus the reversed lower solution of the negated, reversed data at level 1-a *)
Theorem C02_path_between : forall a (Ha : (0 < a /\ a < 1)%Q) l x r,
  quantile_path a l = Some (x, r) ->
  exists xl xu : list Q,
    lower_solution a l = Some xl /\ upper_solution a l = Some xu /\
    is_opt a l (map Q2R xl) /\ is_opt a l (map Q2R xu) /\ is_opt a l (map Q2R x) /\
    (forall u, is_opt a l u -> Forall2 Rle (map Q2R xl) u /\ Forall2 Rle u (map Q2R xu)) /\
    Forall2 Qle xl x /\ Forall2 Qle x xu.
Proof. exact quantile_path_between. Qed.
Print Assumptions C02_path_between.

Theorem C02_lower_smallest : forall a (Ha : (0 < a /\ a < 1)%Q) l xl,
  lower_solution a l = Some xl ->
  is_opt a l (map Q2R xl) /\ forall u, is_opt a l u -> Forall2 Rle (map Q2R xl) u.
Proof. exact lower_solution_smallest. Qed.
Print Assumptions C02_lower_smallest.

Theorem C02_upper_largest : forall a (Ha : (0 < a /\ a < 1)%Q) l xu,
  upper_solution a l = Some xu ->
  is_opt a l (map Q2R xu) /\ forall u, is_opt a l u -> Forall2 Rle u (map Q2R xu).
Proof. exact upper_solution_largest. Qed.
Print Assumptions C02_upper_largest.

Theorem C02_le_upper : forall a (Ha : (0 < a /\ a < 1)%Q) l x r xu,
  quantile_path a l = Some (x, r) -> upper_solution a l = Some xu -> Forall2 Qle x xu.
Proof. exact quantile_path_le_upper. Qed.
Print Assumptions C02_le_upper.

(* world Q, no axioms: the smallest solution is the max-min (= min-max) of the lower quantile,
   the largest solution the max-min (= min-max) of the upper quantile *)
Theorem C02_lower_is_maxmin_qlow : forall a (Ha : (0 < a /\ a < 1)%Q) l xl,
  lower_solution a l = Some xl -> forall i, (i < length l)%nat ->
    saddle (qlow a) l i (nth i xl 0) /\
    (nth i xl 0 == maxmin (qlow a) l i)%Q /\ (nth i xl 0 == minmax (qlow a) l i)%Q.
Proof. exact lower_solution_saddle. Qed.
Print Assumptions C02_lower_is_maxmin_qlow.

Theorem C02_upper_is_maxmin_qupp : forall a (Ha : (0 < a /\ a < 1)%Q) l xu,
  upper_solution a l = Some xu -> forall i, (i < length l)%nat ->
    saddle (qupp a) l i (nth i xu 0) /\
    (nth i xu 0 == maxmin (qupp a) l i)%Q /\ (nth i xu 0 == minmax (qupp a) l i)%Q.
Proof. exact upper_solution_saddle. Qed.
Print Assumptions C02_upper_is_maxmin_qupp.

(* the two bounds exactly as harness/judge.py evaluates them *)
Theorem C02_between_maxmin : forall a (Ha : (0 < a /\ a < 1)%Q) l x r,
  quantile_path a l = Some (x, r) -> forall i, (i < length l)%nat ->
    (maxmin (qlow a) l i <= nth i x 0)%Q /\ (nth i x 0 <= maxmin (qupp a) l i)%Q.
Proof. exact quantile_path_between_maxmin. Qed.
Print Assumptions C02_between_maxmin.

(* non-vacuity *)
From MD Require Import proofs.Examples.
Theorem C02_example :
  exists x r, isotonic_regression [7; -1; -6; 2; 2; 0]%Q None true IFquantile (1#4) = IOk (x, r) /\ length x = 6%nat.
Proof. exact ex_iso_quantile. Qed.
Print Assumptions C02_example.

(* ---- float twin of the quantile / median path (primitive floats; the names listed by Print Assumptions are Coq's primitive float / integer operations, not axioms; nothing from FloatAxioms) ---- *)
From Coq Require Import PrimFloat List Bool.
Import ListNotations.
From MD Require Import model.PavaFloat model.GpavaQFloat proofs.PavaFloatProps proofs.GpavaQFloatProps.

(* gpava with ANY functional `f` of the data slice (in particular f = quantile_lower at a float level, with numpy's float index computation): the loop terminates within fuel = n, the blocks partition y in order, every block value is f(block data) or the block is one datum, every block is non-empty and no two adjacent block values satisfy the pooling test >= *)
Theorem C02_float_gpava_blocks :
  forall (f : list float -> float) (y : list float),
  exists stk : list qblk,
    gpava_blocks_f f y = Some stk /\
    allpos (qstk stk) /\ chain (qstk stk) /\ Forall (blk_ok f) stk /\ qdata stk = y.
Proof. exact gpava_blocks_f_total. Qed.
Print Assumptions C02_float_gpava_blocks.

Theorem C02_float_gpava_boundary :
  forall (f : list float -> float) (y : list float) (j : nat) (d : float),
       (1 <= j)%nat ->
       (S j < length (snd (gpava_f f y)))%nat ->
       (nth (nth j (snd (gpava_f f y)) 0%nat) (fst (gpava_f f y)) d <=?
        nth (nth j (snd (gpava_f f y)) 0%nat - 1) (fst (gpava_f f y)) d)%float = false.
Proof. exact gpava_f_boundary. Qed.
Print Assumptions C02_float_gpava_boundary.

(* the quantile branch on ordered data: (xl, rl) = gpava(quantile_lower) is a block decomposition with strict boundaries, the result x = 0.5 * (xl + xu) is bitwise constant on the blocks rl, has length n, and r is recomputed from x *)
Theorem C02_float_quantile_core :
  forall (y : list float) (level lu : float),
  exists (xl : list float) (rl : list nat),
    (xl, rl) = gpava_f (fun d => quantile_lower_f d level) y /\
    block_form_rel not_ge xl rl /\
    block_form (fst (quantile_core_f y level lu)) rl /\
    length (fst (quantile_core_f y level lu)) = length y /\
    snd (quantile_core_f y level lu) = frecompute (fst (quantile_core_f y level lu)).
Proof. exact quantile_core_f_spec. Qed.
Print Assumptions C02_float_quantile_core.

Theorem C02_float_median_is_quantile_half :
  forall (y : list float) (inc : bool),
  isotonic_median_f y inc = isotonic_quantile_f y fhalf fhalf inc.
Proof. exact isotonic_median_f_is_quantile. Qed.
Print Assumptions C02_float_median_is_quantile_half.

(* non-vacuity, and the float index effect: 3 * fl(1/3) = 1 in binary64, so at level 0x1.5555555555555p-2 < 1/3 the code pools {3, 2, 1} into the midpoint 1.5 of [1, 2] although the exact lower and upper quantile at that level are both 1 (loss excess 2.8e-17) *)
Theorem C02_float_example_third :
  isotonic_quantile_f [3; 2; 1]%float 0x1.5555555555555p-2%float 0x1.5555555555556p-1%float true
  = FOk ([1.5; 1.5; 1.5]%float, [0; 3]%nat).
Proof. exact isotonic_quantile_f_example_third. Qed.
Print Assumptions C02_float_example_third.
