(* C16 - Partial dependence equals its definition and never alters the caller's data.
   Theorems about the executable model model/PartialDep.v of
   _utils/partial_dependence.py compute_partial_dependence (+ safe_index_rows,
   safe_assign_column of _utils/array.py): X is a list of rows over Q, the predictor is ANY
   row-wise function f : list Q -> Q (it may mix the feature with other columns), the index
   vector drawn by numpy's Generator.choice is an input (oracle).

   clause of the property text                                   theorem
   ------------------------------------------------------------  ---------------------------------
   each returned value is the weighted average prediction over   C16_definition (guarded),
     the (sub)sampled rows with the feature column overwritten   C16_definition_float (no guard),
     by the grid value                                           C16_definition_cast (what the code
                                                                 computes for every storage type),
                                                                 C16_int_column_refuted (witness)
   ... and all other columns untouched                           C16_other_columns_untouched,
                                                                 C16_pred_input_length
   weights (sub-sampling indexes rows AND weights alike)         C16_weights_subsampled,
                                                                 C16_rows_subsampled
   one value per grid point                                      C16_length
   (weights enter only through their ratios)                     C16_weight_scale_invariant

   FOUND AND REPAIRED (defect D9, /repo commit 6654639 "fix: partial dependence truncates a float
   grid assigned to an integer feature column"): before that commit, when the overwritten
   column was stored as integers (int64 ndarray X; integer polars column) the assignment
   truncated the grid value toward zero, so the first clause FAILED for non-integer grid
   values: C16_int_column_refuted records the witness on the model of the OLD behaviour
   (coltype CInt: [[1,10],[2,20]], feature 0, grid [0.5,1.5], row sum: [15,16] instead of
   [15.5,16.5]).  Since the fix every container behaves as coltype CFloat (the harness maps
   every container to CFloat; a reverted fix makes the correspondence disagree on exactly
   those cases and breaks the skeleton of safe_assign_column), and the unguarded
   C16_definition_float is the statement that applies.  C16_definition (guarded) and
   C16_definition_cast are kept because they say precisely what the old code computed.

   NOT proved here (partial) - harness observations, harness/run_pd.py:
   * "the caller's X, grid and weights are unchanged afterwards": object identity / aliasing
     does not exist in a functional model; observed by comparing copies (np.array_equal,
     DataFrame.equals, ==) on every correspondence / judge / search case;
   * "the subsample is the documented seeded draw without replacement": Generator.choice is an
     oracle; the harness draws np.random.default_rng(seed).choice(n, size=n_max, replace=False)
     itself, feeds the indices to the model and compares the matrix the predictor received
     with the model's, row by row, exactly;
   * "equal seeds give equal results": the model is a function of the index vector
     (C16_equal_draws); that two calls with the same seed draw the same vector is observed;
   * containers (float64 / int64 ndarray, list of rows, polars frame) are a correspondence
     dimension: the same model output is compared with the result for every container;
   * the predictor is row-wise by assumption (pred_fun(matrix) = map f rows). *)
From Coq Require Import ZArith QArith Qreduction List Bool.
Import ListNotations.
Open Scope Q_scope.
From MD Require Import lib.QLists model.PartialDep proofs.PartialDepProps.

(* the definition the theorems compare with (model/PartialDep.v), spelled out *)
Theorem C16_pd_def_unfolded : forall (f : row -> Q) X j grid w,
  pd_def f X j grid w
  = map (fun g => wmean (combine (map (fun r => f (set_col j g r)) X)
                                 (match w with Some ws => ws | None => repeat 1 (length X) end))) grid.
Proof. reflexivity. Qed.
Print Assumptions C16_pd_def_unfolded.

(* stacked computation = definition, whenever the grid values survive the assignment *)
Theorem C16_definition : forall (f : row -> Q) ct X p j grid w n_max idx,
  grid_representable ct grid ->
  rows_of_width p X -> (j < p)%nat -> grid <> [] ->
  sample_rows X n_max idx <> [] ->
  oracle_ok (length X) n_max idx ->
  weights_ok (length X) w n_max idx ->
  compute_pd f ct X j grid w n_max idx
  = PDOk (pd_def f (sample_rows X n_max idx) j grid (sample_weights (length X) w n_max idx)).
Proof. exact pd_stacked_eq_def. Qed.
Print Assumptions C16_definition.

(* float storage (float64 ndarray, list of rows, float polars column): no guard *)
Theorem C16_definition_float : forall (f : row -> Q) X p j grid w n_max idx,
  rows_of_width p X -> (j < p)%nat -> grid <> [] ->
  sample_rows X n_max idx <> [] ->
  oracle_ok (length X) n_max idx ->
  weights_ok (length X) w n_max idx ->
  compute_pd f CFloat X j grid w n_max idx
  = PDOk (pd_def f (sample_rows X n_max idx) j grid (sample_weights (length X) w n_max idx)).
Proof. exact pd_stacked_eq_def_float. Qed.
Print Assumptions C16_definition_float.

(* what the code computes for every storage type: the definition at the CAST grid values *)
Theorem C16_definition_cast : forall (f : row -> Q) ct X p j grid w n_max idx,
  rows_of_width p X -> (j < p)%nat -> grid <> [] ->
  sample_rows X n_max idx <> [] ->
  oracle_ok (length X) n_max idx ->
  weights_ok (length X) w n_max idx ->
  compute_pd f ct X j grid w n_max idx
  = PDOk (pd_def f (sample_rows X n_max idx) j (map (cast ct) grid)
                 (sample_weights (length X) w n_max idx)).
Proof. exact pd_stacked_eq_def_cast. Qed.
Print Assumptions C16_definition_cast.

(* D9: the unguarded statement is false for the code as it is *)
Theorem C16_int_column_refuted :
  let X := [[1; 10]; [2; 20]] in
  let grid := [1 # 2; 3 # 2] in
  compute_pd rowsum CInt X 0 grid None None [] = PDOk [15; 16] /\
  pd_def rowsum X 0 grid None = [31 # 2; 33 # 2] /\
  compute_pd rowsum CFloat X 0 grid None None [] = PDOk [31 # 2; 33 # 2].
Proof. exact pd_int_column_refuted. Qed.
Print Assumptions C16_int_column_refuted.

(* the matrix handed to the predictor *)
Theorem C16_pred_input_length : forall ct X j grid n_max idx,
  length (pred_input ct X j grid n_max idx)
  = (length grid * length (sample_rows X n_max idx))%nat.
Proof. exact pd_pred_input_length. Qed.
Print Assumptions C16_pred_input_length.

Theorem C16_other_columns_untouched : forall ct X j grid n_max idx g k c,
  (g < length grid)%nat -> (k < length (sample_rows X n_max idx))%nat ->
  let Xs := sample_rows X n_max idx in
  let r := nth (g * length Xs + k) (pred_input ct X j grid n_max idx) [] in
  length r = length (nth k Xs []) /\
  (c <> j -> nth c r 0 = nth c (nth k Xs []) 0) /\
  ((j < length (nth k Xs []))%nat -> nth j r 0 = cast ct (nth g grid 0)).
Proof. exact pd_other_columns_untouched. Qed.
Print Assumptions C16_other_columns_untouched.

(* sub-sampling: rows and weights by the same indices *)
Theorem C16_weights_subsampled : forall (f : row -> Q) ct X j grid w n_max idx k,
  subsampling (length X) n_max = Some k ->
  length idx = k -> Forall (fun i => (i < length X)%nat) idx -> length w = length X ->
  sample_rows X n_max idx = index_rows X idx /\
  sample_weights (length X) (Some w) n_max idx = Some (index_q w idx) /\
  combine (index_rows X idx) (index_q w idx) = map (fun i => (nth i X [], nth i w 0)) idx /\
  compute_pd f ct X j grid (Some w) n_max idx
  = compute_pd f ct (index_rows X idx) j grid (Some (index_q w idx)) None [].
Proof. exact pd_weights_subsampled. Qed.
Print Assumptions C16_weights_subsampled.

Theorem C16_rows_subsampled : forall (f : row -> Q) ct X j grid n_max idx k,
  subsampling (length X) n_max = Some k ->
  length idx = k -> Forall (fun i => (i < length X)%nat) idx ->
  compute_pd f ct X j grid None n_max idx = compute_pd f ct (index_rows X idx) j grid None None [].
Proof. exact pd_rows_subsampled. Qed.
Print Assumptions C16_rows_subsampled.

(* one value per grid point, whenever the code returns *)
Theorem C16_length : forall (f : row -> Q) ct X j grid w n_max idx v,
  compute_pd f ct X j grid w n_max idx = PDOk v -> length v = length grid.
Proof. exact pd_length. Qed.
Print Assumptions C16_length.

Theorem C16_weight_scale_invariant : forall (f : row -> Q) ct X j grid w n_max idx c,
  ~ c == 0 ->
  compute_pd f ct X j grid (Some (map (Qmult c) w)) n_max idx
  = compute_pd f ct X j grid (Some w) n_max idx.
Proof. exact pd_weight_scale_invariant. Qed.
Print Assumptions C16_weight_scale_invariant.

Theorem C16_equal_draws : forall (f : row -> Q) ct X j grid w n_max idx1 idx2,
  idx1 = idx2 -> compute_pd f ct X j grid w n_max idx1 = compute_pd f ct X j grid w n_max idx2.
Proof. exact pd_equal_draws_equal_results. Qed.
Print Assumptions C16_equal_draws.
