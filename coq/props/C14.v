(* C14 - Homogeneous scores scale with their degree and reduce to the named special cases.
   World R, about the GENERATED gen_*_spo (gen/Gen_scoring.v).  h = degree, a = level.
   Rpower c h = c^h for c > 0 (h = 0 gives 1: scale invariance).  Limits are Coquelicot is_lim (value at the point ignored). *)
From Coq Require Import Reals List Bool.
Import ListNotations.
From Coquelicot Require Import Coquelicot.
From MD Require Import lib.NumpyR spec.Scores theory.Powers gen.Gen_ident gen.Gen_scoring proofs.ScoreProps proofs.ScoreGen proofs.Consistency proofs.ScoreLimits.
Open Scope R_scope.

(* S(c y, c z) = c^h S(y, z) for every c > 0 and every accepted pair *)
Theorem C14_hes_homogeneous :
  forall h a y z c s : R,
       0 < c -> gen_hes_spo h a y z = Ok s -> gen_hes_spo h a (c * y) (c * z) = Ok (Rpower c h * s).
Proof. exact g_hes_homogeneous. Qed.
Print Assumptions C14_hes_homogeneous.

Theorem C14_hqs_homogeneous :
  forall h a y z c s : R,
       0 < c -> gen_hqs_spo h a y z = Ok s -> gen_hqs_spo h a (c * y) (c * z) = Ok (Rpower c h * s).
Proof. exact g_hqs_homogeneous. Qed.
Print Assumptions C14_hqs_homogeneous.

(* SquaredError / PoissonDeviance / GammaDeviance / PinballLoss are the members (2, 1/2), (1, 1/2), (0, 1/2), quantile degree 1 *)
Theorem C14_named_members :
  gen_SquaredError_spo = gen_hes_spo 2 (1 / 2) /\
       gen_PoissonDeviance_spo = gen_hes_spo 1 (1 / 2) /\
       gen_GammaDeviance_spo = gen_hes_spo 0 (1 / 2) /\
       (forall a : R, gen_PinballLoss_spo a = gen_hqs_spo 1 a).
Proof. exact g_named_members. Qed.
Print Assumptions C14_named_members.

(* and have the textbook closed forms *)
Theorem C14_squared_error :
  forall y z : R, gen_SquaredError_spo y z = Ok ((y - z) * (y - z)).
Proof. exact g_squared_error. Qed.
Print Assumptions C14_squared_error.

Theorem C14_poisson :
  forall y z : R, 0 <= y -> 0 < z -> gen_PoissonDeviance_spo y z = Ok (2 * (xlogy y (y / z) - y + z)).
Proof. exact g_poisson. Qed.
Print Assumptions C14_poisson.

Theorem C14_gamma :
  forall y z : R, 0 < y -> 0 < z -> gen_GammaDeviance_spo y z = Ok (2 * (y / z - ln (y / z) - 1)).
Proof. exact g_gamma. Qed.
Print Assumptions C14_gamma.

Theorem C14_pinball :
  forall a y z : R, gen_PinballLoss_spo a y z = Ok ((ge_ind z y - a) * (z - y)).
Proof. exact g_pinball. Qed.
Print Assumptions C14_pinball.

(* at level 1/2 the asymmetric scores reduce to the symmetric ones *)
Theorem C14_hes_half_symmetric :
  forall h y z : R, gen_hes_spo h (1 / 2) y z = (if hes_domb h y z then Ok (breg h y z) else ValueErr).
Proof. exact g_hes_half. Qed.
Print Assumptions C14_hes_half_symmetric.

Theorem C14_hqs_half_symmetric :
  forall h y z s : R, gen_hqs_spo h (1 / 2) y z = Ok s -> s = 1 / 2 * Rabs (Gq h z - Gq h y).
Proof. exact g_hqs_half. Qed.
Print Assumptions C14_hqs_half_symmetric.

(* the closed forms at degrees 1 and 0 are the limits of the general formula (hes_general / hqs_general = the expression the code evaluates away from 0 and 1) *)
Theorem C14_general_formula :
  forall h y z : R, h <> 0 -> h <> 1 -> 0 <= y -> 0 < z -> breg h y z = hes_general h y z.
Proof. exact breg_general. Qed.
Print Assumptions C14_general_formula.

Theorem C14_limit_degree_1 :
  forall y z : R, 0 <= y -> 0 < z -> is_lim (fun h : R => hes_general h y z) 1 (poisson_form y z).
Proof. exact hes_limit_degree_1. Qed.
Print Assumptions C14_limit_degree_1.

Theorem C14_limit_degree_0 :
  forall y z : R, 0 < y -> 0 < z -> is_lim (fun h : R => hes_general h y z) 0 (gamma_form y z).
Proof. exact hes_limit_degree_0. Qed.
Print Assumptions C14_limit_degree_0.

Theorem C14_closed_form_1 :
  forall y z : R, 0 <= y -> 0 < z -> breg 1 y z = poisson_form y z.
Proof. exact breg_1. Qed.
Print Assumptions C14_closed_form_1.

Theorem C14_closed_form_0 :
  forall y z : R, 0 < y -> 0 < z -> breg 0 y z = gamma_form y z.
Proof. exact breg_0. Qed.
Print Assumptions C14_closed_form_0.

Theorem C14_quantile_limit_degree_0 :
  forall y z : R, 0 < y -> 0 < z -> is_lim (fun h : R => hqs_general h y z) 0 (ln (z / y)).
Proof. exact hqs_limit_degree_0. Qed.
Print Assumptions C14_quantile_limit_degree_0.

(* hence the scores are continuous in the degree at 1 and 0 *)
Theorem C14_score_continuous_in_degree_at_1 :
  forall a y z : R, 0 <= y -> 0 < z -> is_lim (fun h : R => hes_val h a y z) 1 (hes_val 1 a y z).
Proof. exact hes_val_limit_degree_1. Qed.
Print Assumptions C14_score_continuous_in_degree_at_1.

Theorem C14_score_continuous_in_degree_at_0 :
  forall a y z : R, 0 < y -> 0 < z -> is_lim (fun h : R => hes_val h a y z) 0 (hes_val 0 a y z).
Proof. exact hes_val_limit_degree_0. Qed.
Print Assumptions C14_score_continuous_in_degree_at_0.

Theorem C14_quantile_score_continuous_in_degree_at_0 :
  forall a y z : R, 0 < y -> 0 < z -> is_lim (fun h : R => hqs_val h a y z) 0 (hqs_val 0 a y z).
Proof. exact hqs_val_limit_degree_0. Qed.
Print Assumptions C14_quantile_score_continuous_in_degree_at_0.
