(* Hand-written specifications (world R) of the closed-form functions of
   scoring.py and identification.py, in the Bregman / quantile-type form the
   property theorems are proved about.  bridge/Bridge_scoring.v proves the
   generated definitions (gen/Gen_*.v, regenerated from the Python text on every
   run) equal to these.  Definitions only. *)
From Coq Require Import Reals Lra List Bool.
Import ListNotations.
Open Scope R_scope.
From MD Require Import lib.NumpyR lib.NumpyR2.

(* ------------------------------------------------------------------ *)
(* identification functions V(y, z): y observation, z prediction       *)
Definition level_ok (a : R) : Prop := 0 < a < 1.
Definition level_okb (a : R) : bool := Rltb 0 a && Rltb a 1.

Definition V_mean (y z : R) : R := z - y.
Definition V_quantile (a y z : R) : R := ge_ind z y - a.
Definition asym (a y z : R) : R := 2 * Rabs (ge_ind z y - a).   (* 2|1{z>=y} - a| *)
Definition V_expectile (a y z : R) : R := asym a y z * (z - y).

Definition spec_V (f : fnl) (a y z : R) : result R :=
  match f with
  | Fmean => Ok (V_mean y z)
  | Fmedian => Ok (V_quantile (1/2) y z)
  | Fexpectile => if level_okb a then Ok (V_expectile a y z) else ValueErr
  | Fquantile => if level_okb a then Ok (V_quantile a y z) else ValueErr
  | Fother => ValueErr
  end.

(* ------------------------------------------------------------------ *)
(* Bregman generators of the homogeneous expectile scores              *)
(* phi_h and its derivative, by degree range.  pw x h is x^h for x >= 0
   with 0^h = 0 (h > 0): numpy's power on a non-negative base.          *)
Definition pw (x h : R) : R := np_power x h.

Inductive hrange := Hgt1 | Heq1 | Heq0 | Hlt1.     (* h > 1 | h = 1 | h = 0 | h < 1, h <> 0 *)
Definition hrange_of (h : R) : hrange :=
  if Rltb 1 h then Hgt1 else if Reqb h 1 then Heq1 else if Reqb h 0 then Heq0 else Hlt1.

Definition phi (h x : R) : R :=
  match hrange_of h with
  | Hgt1 => pw (Rabs x) h / (h * (h - 1))
  | Heq1 => xlogy x x - x
  | Heq0 => - ln x
  | Hlt1 => pw x h / (h * (h - 1))
  end.
Definition dphi (h x : R) : R :=
  match hrange_of h with
  | Hgt1 => np_sign x * pw (Rabs x) (h - 1) / (h - 1)
  | Heq1 => ln x
  | Heq0 => - / x
  | Hlt1 => pw x (h - 1) / (h - 1)
  end.
(* documented domain of the degree: (observation, prediction) *)
Definition domY (h y : R) : Prop :=
  match hrange_of h with Hgt1 => True | Heq1 => 0 <= y | Heq0 => 0 < y
                       | Hlt1 => if Rltb 0 h then 0 <= y else 0 < y end.
Definition domZ (h z : R) : Prop :=
  match hrange_of h with Hgt1 => True | _ => 0 < z end.
Definition hes_dom (h y z : R) : Prop := domY h y /\ domZ h z.
Definition hes_domb (h y z : R) : bool :=
  match hrange_of h with
  | Hgt1 => true
  | Heq1 => Rleb 0 y && Rltb 0 z
  | Heq0 => Rltb 0 y && Rltb 0 z
  | Hlt1 => (if Rltb 0 h then Rleb 0 y else Rltb 0 y) && Rltb 0 z
  end.

(* Bregman divergence of phi_h, times 2: the symmetric (level 1/2) score *)
Definition breg (h y z : R) : R := 2 * (phi h y - phi h z - dphi h z * (y - z)).

Definition spec_hes (h a y z : R) : result R :=
  if hes_domb h y z then Ok (asym a y z * breg h y z) else ValueErr.

(* log loss: Bregman divergence of x ln x + (1-x) ln (1-x) on [0,1] x (0,1) *)
Definition phi_ll (x : R) : R := xlogy x x + xlogy (1 - x) (1 - x).
Definition dphi_ll (x : R) : R := ln x - ln (1 - x).
Definition spec_logloss (y z : R) : R := phi_ll y - phi_ll z - dphi_ll z * (y - z).
Definition ll_dom (y z : R) : Prop := 0 <= y <= 1 /\ 0 < z < 1.

(* ------------------------------------------------------------------ *)
(* homogeneous quantile scores: (1{z>=y} - a) (G z - G y), G increasing *)
Definition odd_gt1 (h : R) : bool := Rltb 1 h && Reqb (np_mod h 2) 1.
Definition Gq (h x : R) : R :=
  if Reqb h 1 then x
  else if odd_gt1 h then np_power x h / h
  else if Reqb h 0 then ln x
  else np_power x h / h.
Definition hqs_whole_line (h : R) : bool := Reqb h 1 || odd_gt1 h.
Definition hqs_domb (h y z : R) : bool := hqs_whole_line h || (Rltb 0 y && Rltb 0 z).
Definition hqs_dom (h y z : R) : Prop := hqs_whole_line h = true \/ (0 < y /\ 0 < z).
Definition spec_hqs (h a y z : R) : result R :=
  if hqs_domb h y z then Ok ((ge_ind z y - a) * (Gq h z - Gq h y)) else ValueErr.

(* ------------------------------------------------------------------ *)
(* elementary scores: (1{eta<=z} - 1{eta<=y}) V(y, eta); for the quantile and the
   median, whose V uses 1{eta >= y}, the matching threshold indicators are the
   strict ones (library fix 42d574f): (1{eta<z} - 1{eta<y}) V(y, eta) *)
Definition elem_strict (f : fnl) : bool :=
  match f with Fmedian | Fquantile => true | _ => false end.
Definition spec_elem (eta : R) (f : fnl) (a y z : R) : result R :=
  rbind (spec_V f a y eta) (fun v =>
    Ok ((if elem_strict f then lt_ind eta z - lt_ind eta y else le_ind eta z - le_ind eta y) * v)).
