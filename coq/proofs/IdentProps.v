(* Identification functions are oriented residuals vanishing at the functional.

   Everything is stated about the GENERATED function
       gen_V (f : fnl) (level y_obs y_pred : R) : result R
   (gen/Gen_ident.v, regenerated from calibration/identification.py), through
   bridge_V : gen_V = spec_V.

   PART 1 (per observation): monotone in the prediction, guards, aliases,
           closed forms.
   PART 2 (per sample): the weighted sum of V over a rational sample vanishes
           at the weighted mean / the weighted expectile, and for quantiles the
           plain sum is  #{y_i <= t} - level * n,  negative strictly below the
           lower quantile and non-negative from it on.
   The rational sample (world Q, model/Functionals.v) is linked to the real
   per-observation function through Q2R. *)
From Coq Require Import QArith Qreals Reals Lqa Lra Lia List Bool.
Import ListNotations.
From MD Require Import lib.NumpyR lib.QLists spec.Scores theory.Bregman
  gen.Gen_ident bridge.Bridge_scoring
  model.Functionals theory.GpavaMerge theory.InstMean theory.InstExpectile
  theory.InstQuantile.
Open Scope R_scope.

(* ================================================================== *)
(* PART 1: per observation                                             *)

Lemma level_okb_true a : 0 < a < 1 -> level_okb a = true.
Proof.
  intros [H0 H1]. unfold level_okb.
  rewrite (proj2 (Rltb_true 0 a) H0), (proj2 (Rltb_true a 1) H1). reflexivity.
Qed.

Lemma level_okb_inv a : level_okb a = true -> 0 < a < 1.
Proof.
  unfold level_okb. intros H. apply andb_true_iff in H. destruct H as [H0 H1].
  apply Rltb_true in H0. apply Rltb_true in H1. split; assumption.
Qed.

Lemma level_okb_false a : ~ (0 < a < 1) -> level_okb a = false.
Proof.
  intros H. destruct (level_okb a) eqn:E; [|reflexivity].
  exfalso. apply H. apply level_okb_inv. exact E.
Qed.

Lemma half_level : 0 < 1/2 < 1.
Proof. lra. Qed.

(* per observation: non-decreasing in the prediction, for every functional *)
Theorem V_monotone : forall f a y z1 z2 v1 v2,
  gen_V f a y z1 = Ok v1 -> gen_V f a y z2 = Ok v2 -> z1 <= z2 -> v1 <= v2.
Proof.
  intros f a y z1 z2 v1 v2 H1 H2 Hz.
  rewrite bridge_V in H1. rewrite bridge_V in H2.
  destruct f; cbn [spec_V] in H1, H2.
  - injection H1 as <-. injection H2 as <-. apply Bregman.V_mean_mono. exact Hz.
  - injection H1 as <-. injection H2 as <-.
    apply (Bregman.V_quantile_mono (1/2) half_level). exact Hz.
  - destruct (level_okb a) eqn:E; [|discriminate H1].
    injection H1 as <-. injection H2 as <-.
    apply (Bregman.V_expectile_mono a (level_okb_inv a E)). exact Hz.
  - destruct (level_okb a) eqn:E; [|discriminate H1].
    injection H1 as <-. injection H2 as <-.
    apply (Bregman.V_quantile_mono a (level_okb_inv a E)). exact Hz.
  - discriminate H1.
Qed.

(* guards *)
Theorem V_level_guard : forall f a y z,
  (f = Fexpectile \/ f = Fquantile) -> ~ (0 < a < 1) -> gen_V f a y z = ValueErr.
Proof.
  intros f a y z Hf Ha. rewrite bridge_V.
  destruct Hf as [-> | ->]; cbn [spec_V]; rewrite (level_okb_false a Ha); reflexivity.
Qed.

Theorem V_functional_guard : forall a y z, gen_V Fother a y z = ValueErr.
Proof. intros a y z. rewrite bridge_V. reflexivity. Qed.

Theorem V_defined : forall f a y z,
  f <> Fother -> 0 < a < 1 -> exists v, gen_V f a y z = Ok v.
Proof.
  intros f a y z Hf Ha. rewrite bridge_V.
  destruct f; cbn [spec_V]; rewrite ?(level_okb_true a Ha).
  - eexists; reflexivity.
  - eexists; reflexivity.
  - eexists; reflexivity.
  - eexists; reflexivity.
  - exfalso. apply Hf. reflexivity.
Qed.

(* aliases *)
Theorem V_median_alias : forall a y z,
  gen_V Fmedian a y z = gen_V Fquantile (1/2) y z.
Proof.
  intros a y z. rewrite !bridge_V. cbn [spec_V].
  rewrite (level_okb_true (1/2) half_level). reflexivity.
Qed.

Theorem V_expectile_half_is_mean : forall y z,
  gen_V Fexpectile (1/2) y z = gen_V Fmean (1/2) y z.
Proof.
  intros y z. rewrite !bridge_V. cbn [spec_V].
  rewrite (level_okb_true (1/2) half_level).
  apply f_equal. unfold Scores.V_expectile, Scores.V_mean.
  rewrite asym_half. ring.
Qed.

(* closed forms, for reference *)
Theorem V_closed_forms : forall a y z, 0 < a < 1 ->
  gen_V Fmean a y z = Ok (z - y) /\
  gen_V Fquantile a y z = Ok (ge_ind z y - a) /\
  gen_V Fexpectile a y z = Ok (2 * Rabs (ge_ind z y - a) * (z - y)).
Proof.
  intros a y z Ha. rewrite !bridge_V. cbn [spec_V].
  rewrite (level_okb_true a Ha).
  split; [reflexivity|]. split; reflexivity.
Qed.

(* ================================================================== *)
(* PART 2: per sample                                                  *)

Definition y_R (e : elt) : R := Q2R (ey e).
Definition w_R (e : elt) : R := Q2R (ew e).

(* weighted sum of the generated identification function over a sample at
   prediction t; None if some call raises *)
Fixpoint wsumV (f : fnl) (a : R) (S : list elt) (t : R) : option R :=
  match S with
  | [] => Some 0
  | e :: S' =>
      match gen_V f a (y_R e) t, wsumV f a S' t with
      | Ok v, Some s => Some (w_R e * v + s)
      | _, _ => None
      end
  end.

(* unweighted sum *)
Fixpoint sumV (f : fnl) (a : R) (S : list elt) (t : R) : option R :=
  match S with
  | [] => Some 0
  | e :: S' =>
      match gen_V f a (y_R e) t, sumV f a S' t with
      | Ok v, Some s => Some (v + s)
      | _, _ => None
      end
  end.

(* ---------- Q2R helpers ---------- *)
Lemma Q2R_0 : Q2R 0%Q = 0.
Proof. unfold Q2R. cbn [Qnum Qden]. lra. Qed.
Lemma Q2R_1 : Q2R 1%Q = 1.
Proof. unfold Q2R. cbn [Qnum Qden]. lra. Qed.
Lemma Q2R_2 : Q2R 2%Q = 2.
Proof. unfold Q2R. cbn [Qnum Qden]. lra. Qed.

Lemma Q2R_Qnat n : Q2R (Qnat n) = INR n.
Proof.
  unfold Qnat, Q2R. cbn [Qnum Qden inject_Z].
  rewrite INR_IZR_INZ. lra.
Qed.

Lemma level_R (a : Q) : (0 < a /\ a < 1)%Q -> 0 < Q2R a < 1.
Proof.
  intros [H0 H1]. apply Qlt_Rlt in H0. apply Qlt_Rlt in H1.
  rewrite Q2R_0 in H0. rewrite Q2R_1 in H1. split; assumption.
Qed.

(* the real indicator on embedded rationals is the rational comparison *)
Lemma ge_ind_Q (t y : Q) :
  ge_ind (Q2R t) (Q2R y) = if Functionals.leb y t then 1 else 0.
Proof.
  destruct (leb_spec y t) as [[H E]|[H E]]; rewrite E.
  - apply ge_ind_ge. apply Qle_Rle. exact H.
  - apply ge_ind_lt. apply Qlt_Rlt. exact H.
Qed.

(* ---------- transport: sums in R are the embedded sums in Q ---------- *)
Lemma wsumV_hi f a (Vq : elt -> Q -> Q) (S : list elt) (t : Q) :
  (forall e, exists v, gen_V f a (y_R e) (Q2R t) = Ok v /\ w_R e * v = Q2R (Vq e t)) ->
  wsumV f a S (Q2R t) = Some (Q2R (hi elt Vq S t)).
Proof.
  intros HV. induction S as [|e S' IH].
  - cbn [wsumV hi]. rewrite Q2R_0. reflexivity.
  - cbn [wsumV hi]. destruct (HV e) as [v [E1 E2]].
    rewrite E1, IH, Q2R_plus, E2. reflexivity.
Qed.

Lemma sumV_hi f a (Vq : elt -> Q -> Q) (S : list elt) (t : Q) :
  (forall e, exists v, gen_V f a (y_R e) (Q2R t) = Ok v /\ v = Q2R (Vq e t)) ->
  sumV f a S (Q2R t) = Some (Q2R (hi elt Vq S t)).
Proof.
  intros HV. induction S as [|e S' IH].
  - cbn [sumV hi]. rewrite Q2R_0. reflexivity.
  - cbn [sumV hi]. destruct (HV e) as [v [E1 E2]].
    rewrite E1, IH, Q2R_plus, E2. reflexivity.
Qed.

(* ---------- mean ---------- *)
Lemma V_mean_Q a (e : elt) (t : Q) :
  exists v, gen_V Fmean a (y_R e) (Q2R t) = Ok v /\
            w_R e * v = Q2R (Functionals.V_mean e t).
Proof.
  exists (Q2R t - y_R e). split.
  - rewrite bridge_V. reflexivity.
  - unfold Functionals.V_mean, w_R, y_R. rewrite Q2R_mult, Q2R_minus. reflexivity.
Qed.

Lemma wsumV_mean a (S : list elt) (t : Q) :
  wsumV Fmean a S (Q2R t) = Some (Q2R (hi elt Functionals.V_mean S t)).
Proof. apply wsumV_hi. intros e. apply V_mean_Q. Qed.

Theorem V_mean_zero : forall S, S <> [] -> Forall posw S ->
  wsumV Fmean (1/2) S (Q2R (wmean S)) = Some 0.
Proof.
  intros S Sn G. rewrite wsumV_mean. apply f_equal.
  rewrite <- Q2R_0. apply Qeq_eqR.
  rewrite hi_mean, (wmean_times_wtot S Sn G). ring.
Qed.

(* ---------- expectile ---------- *)
Lemma V_expectile_Q (a : Q) (e : elt) (t : Q) : (0 < a /\ a < 1)%Q ->
  exists v, gen_V Fexpectile (Q2R a) (y_R e) (Q2R t) = Ok v /\
            w_R e * v = Q2R (Functionals.V_expectile a e t).
Proof.
  intros Ha. pose proof (level_R a Ha) as HaR.
  exists (Scores.V_expectile (Q2R a) (y_R e) (Q2R t)). split.
  - rewrite bridge_V. cbn [spec_V]. rewrite (level_okb_true _ HaR). reflexivity.
  - unfold Functionals.V_expectile, Scores.V_expectile, kfac, w_R, y_R.
    rewrite !Q2R_mult, Q2R_minus, Q2R_2.
    destruct (leb_spec (ey e) t) as [[H E]|[H E]]; rewrite E.
    + rewrite (asym_ge_lvl (Q2R a) (Q2R (ey e)) (Q2R t) (Qle_Rle _ _ H) HaR).
      rewrite Q2R_minus, Q2R_1. reflexivity.
    + rewrite (asym_lt (Q2R a) (Q2R (ey e)) (Q2R t) (Qlt_Rlt _ _ H) HaR).
      reflexivity.
Qed.

Lemma wsumV_expectile (a : Q) (S : list elt) (t : Q) : (0 < a /\ a < 1)%Q ->
  wsumV Fexpectile (Q2R a) S (Q2R t) = Some (Q2R (hi elt (Functionals.V_expectile a) S t)).
Proof. intros Ha. apply wsumV_hi. intros e. apply V_expectile_Q. exact Ha. Qed.

Theorem V_expectile_zero : forall a S, (0 < a /\ a < 1)%Q -> S <> [] -> Forall posw S ->
  wsumV Fexpectile (Q2R a) S (Q2R (expectile_Q a S)) = Some 0.
Proof.
  intros a S Ha Sn G. rewrite (wsumV_expectile a S _ Ha). apply f_equal.
  rewrite <- Q2R_0. apply Qeq_eqR.
  apply (expectile_Q_root a Ha S Sn G).
Qed.

(* ---------- quantile (unweighted) ---------- *)
Lemma V_quantile_Q (a : Q) (e : elt) (t : Q) : (0 < a /\ a < 1)%Q ->
  exists v, gen_V Fquantile (Q2R a) (y_R e) (Q2R t) = Ok v /\
            v = Q2R (Vp_quantile a e t).
Proof.
  intros Ha. pose proof (level_R a Ha) as HaR.
  exists (Scores.V_quantile (Q2R a) (y_R e) (Q2R t)). split.
  - rewrite bridge_V. cbn [spec_V]. rewrite (level_okb_true _ HaR). reflexivity.
  - unfold Vp_quantile, Scores.V_quantile, y_R.
    rewrite Q2R_minus, ge_ind_Q.
    destruct (Functionals.leb (ey e) t); [rewrite Q2R_1| rewrite Q2R_0]; reflexivity.
Qed.

Lemma sumV_quantile (a : Q) (S : list elt) (t : Q) : (0 < a /\ a < 1)%Q ->
  sumV Fquantile (Q2R a) S (Q2R t) = Some (Q2R (hi elt (Vp_quantile a) S t)).
Proof. intros Ha. apply sumV_hi. intros e. apply V_quantile_Q. exact Ha. Qed.

(* i.e. the sample average is (share of observations <= prediction) - level *)
Theorem V_quantile_sum : forall a S t, (0 < a /\ a < 1)%Q ->
  sumV Fquantile (Q2R a) S (Q2R t) = Some (INR (count_le S t) - Q2R a * INR (length S)).
Proof.
  intros a S t Ha. rewrite (sumV_quantile a S t Ha). apply f_equal.
  rewrite (Qeq_eqR _ _ (hi_quantile a S t)).
  rewrite Q2R_minus, Q2R_mult, !Q2R_Qnat. reflexivity.
Qed.

Theorem V_quantile_negative_below : forall a S t, (0 < a /\ a < 1)%Q -> S <> [] ->
  (t < qlow a S)%Q ->
  exists s, sumV Fquantile (Q2R a) S (Q2R t) = Some s /\ s < 0.
Proof.
  intros a S t Ha Sn Hlt.
  exists (Q2R (hi elt (Vp_quantile a) S t)). split.
  - apply sumV_quantile. exact Ha.
  - rewrite <- Q2R_0. apply Qlt_Rlt. rewrite hi_quantile.
    destruct (Qlt_le_dec (Qnat (count_le S t)) (a * Qnat (length S))) as [Hc|Hc].
    + Lqa.lra.
    + exfalso. pose proof (qlow_least a Ha S t Sn Hc) as Hq. Lqa.lra.
Qed.

Theorem V_quantile_nonneg_from : forall a S t, (0 < a /\ a < 1)%Q -> S <> [] ->
  (qlow a S <= t)%Q ->
  exists s, sumV Fquantile (Q2R a) S (Q2R t) = Some s /\ 0 <= s.
Proof.
  intros a S t Ha Sn Hle.
  exists (Q2R (hi elt (Vp_quantile a) S t)). split.
  - apply sumV_quantile. exact Ha.
  - rewrite <- Q2R_0. apply Qle_Rle. rewrite hi_quantile.
    pose proof (qlow_reaches a Ha S Sn) as Hr.
    pose proof (proj1 (Qnat_le _ _) (count_le_mono S (qlow a S) t Hle)) as Hm.
    Lqa.lra.
Qed.

Print Assumptions V_monotone.
Print Assumptions V_expectile_zero.
Print Assumptions V_quantile_negative_below.
