(* C12: the output contract of the executable model `isotonic_regression`
   (model/Isotonic.v) for ALL functionals and both directions, and the purity-free
   part of the equivariances:

     iso_ok_inv                 what a successful call implies about its arguments
     iso_contract_quantile      contract for functional = quantile / median
     iso_contract_all           contract for every successful call (no hypothesis)
     iso_monotone_identity      monotone input is returned unchanged (every functional)
     iso_idempotent             fitting the fit returns the fit, same block vector
     iso_rev_commutes           reversing data, weights and direction mirrors the result
                                (exact equality, errors included)

   The affine / weight-scale equivariances are in proofs/IsoEquiv.v.
   World Q only; no axioms. *)
From Coq Require Import QArith Qreduction Lqa Lia List Bool Sorted.
Import ListNotations.
From MD Require Import lib.QLists model.Functionals model.Gpava model.Pava model.Isotonic
  theory.GpavaMerge theory.GInst theory.GpavaCert theory.PavaSim
  theory.InstMean theory.InstExpectile theory.InstQuantile theory.Transport theory.IsoOptimal
  proofs.IsoProps proofs.IsoQuantProps.
Open Scope Q_scope.

(* ------------------------------------------------------------------ *)
(* Unfolding the model: argument checks, core, un-reversal              *)
(* ------------------------------------------------------------------ *)

(* lines 357-384: the checks, the median -> quantile 1/2 substitution and the
   weight vector; verbatim from the model *)
Definition pre (y : list Q) (weights : option (list Q)) (functional : ifun) (level : Q)
  : ires (ifun * Q * list Q) :=
  match functional with
  | IFother => IErr EValue
  | _ =>
  if (match functional with IFexpectile | IFquantile => true | _ => false end)
       && (Qle_bool level 0 || Qle_bool 1 level) then IErr EValue
  else
  let '(f, a) := match functional with IFmedian => (IFquantile, 1#2) | _ => (functional, level) end in
  match weights with
  | None => IOk (f, a, map (fun _ => 1) y)
  | Some w =>
      match f with
      | IFquantile => IErr ENotImplemented
      | _ =>
        if negb (Nat.eqb (length y) (length w)) then IErr EValue
        else if negb (all_pos w) then IErr EValue
        else IOk (f, a, w)
      end
  end
  end.

Theorem iso_unfold y w inc f lvl :
  isotonic_regression y w inc f lvl =
  match pre y w f lvl with
  | IErr e => IErr e
  | IOk (f', a, wl) => post inc (iso_core f' a (dir inc (combine y wl)))
  end.
Proof.
  unfold isotonic_regression, pre, post, dir.
  destruct f; try reflexivity; cbn [andb];
    try (destruct (Qle_bool lvl 0 || Qle_bool 1 lvl); [reflexivity|]);
    destruct w as [w|]; try reflexivity;
    destruct (negb (length y =? length w)%nat); try reflexivity;
    destruct (negb (all_pos w)); reflexivity.
Qed.

(* the functional / level pairs the core is ever called with *)
Definition cvalid (f : ifun) (a : Q) : Prop :=
  f = IFmean \/ (f = IFexpectile /\ 0 < a /\ a < 1) \/ (f = IFquantile /\ 0 < a /\ a < 1).

Lemma all_pos_Forall w : all_pos w = true -> Forall (fun x => 0 < x) w.
Proof.
  unfold all_pos. intros H. rewrite forallb_forall in H.
  apply Forall_forall. intros x Hx. pose proof (H x Hx) as Hp.
  destruct (Qle_bool x 0) eqn:E; [discriminate Hp|].
  apply Qnot_le_lt. intros C. apply Qle_bool_iff in C. congruence.
Qed.

Lemma guard_level lvl : Qle_bool lvl 0 || Qle_bool 1 lvl = false -> 0 < lvl /\ lvl < 1.
Proof.
  intros H. apply orb_false_elim in H. destruct H as [H0 H1]. split.
  - apply Qnot_le_lt. intros C. apply Qle_bool_iff in C. congruence.
  - apply Qnot_le_lt. intros C. apply Qle_bool_iff in C. congruence.
Qed.

Lemma half_level : 0 < 1#2 /\ 1#2 < 1.
Proof. split; reflexivity. Qed.

Lemma pre_inv y w f lvl f' a wl : pre y w f lvl = IOk (f', a, wl) ->
  cvalid f' a /\ valid_w y w /\ wl = weights_of y w /\
  (f' = IFquantile -> w = None) /\
  ((f = IFmedian /\ f' = IFquantile /\ a = 1#2) \/ (f <> IFmedian /\ f' = f /\ a = lvl)).
Proof.
  unfold pre. intros H.
  assert (Hw : forall f0 a0, f0 <> IFquantile ->
     match w with
     | None => IOk (f0, a0, map (fun _ => 1) y)
     | Some w0 =>
         match f0 with
         | IFquantile => IErr ENotImplemented
         | _ => if negb (length y =? length w0)%nat then IErr EValue
                else if negb (all_pos w0) then IErr EValue else IOk (f0, a0, w0)
         end
     end = IOk (f', a, wl) ->
     f' = f0 /\ a = a0 /\ valid_w y w /\ wl = weights_of y w).
  { intros f0 a0 Hf0 H0. destruct w as [w0|].
    - assert (H1 : (if negb (length y =? length w0)%nat then IErr EValue
                    else if negb (all_pos w0) then IErr EValue else IOk (f0, a0, w0))
                   = IOk (f', a, wl)).
      { destruct f0; try exact H0. congruence. }
      destruct (length y =? length w0)%nat eqn:El; cbn [negb] in H1; [|discriminate H1].
      destruct (all_pos w0) eqn:Ep; cbn [negb] in H1; [|discriminate H1].
      injection H1 as <- <- <-. apply Nat.eqb_eq in El.
      split; [reflexivity|]. split; [reflexivity|]. split; [|reflexivity].
      split; [symmetry; exact El| apply all_pos_Forall; exact Ep].
    - injection H0 as <- <- <-. repeat split. }
  assert (Hq : forall a0,
     match w with
     | None => IOk (IFquantile, a0, map (fun _ => 1) y)
     | Some _ => IErr ENotImplemented
     end = IOk (f', a, wl) ->
     f' = IFquantile /\ a = a0 /\ w = None /\ wl = weights_of y w).
  { intros a0 H0. destruct w as [w0|]; [discriminate H0|].
    injection H0 as <- <- <-. repeat split. }
  destruct f; cbn [andb] in H.
  - (* mean *)
    destruct (Hw IFmean lvl ltac:(discriminate) H) as (-> & -> & Hv & Ewl).
    split; [left; reflexivity|]. split; [exact Hv|]. split; [exact Ewl|].
    split; [discriminate|]. right. split; [discriminate|]. split; reflexivity.
  - (* median *)
    destruct (Hq (1#2) H) as (-> & -> & -> & Ewl).
    split; [right; right; split; [reflexivity| exact half_level]|].
    split; [exact Logic.I|]. split; [exact Ewl|]. split; [reflexivity|].
    left. repeat split.
  - (* expectile *)
    destruct (Qle_bool lvl 0 || Qle_bool 1 lvl) eqn:G; [discriminate H|].
    destruct (Hw IFexpectile lvl ltac:(discriminate) H) as (-> & -> & Hv & Ewl).
    split; [right; left; split; [reflexivity| exact (guard_level lvl G)]|].
    split; [exact Hv|]. split; [exact Ewl|].
    split; [discriminate|]. right. split; [discriminate|]. split; reflexivity.
  - (* quantile *)
    destruct (Qle_bool lvl 0 || Qle_bool 1 lvl) eqn:G; [discriminate H|].
    destruct (Hq lvl H) as (-> & -> & -> & Ewl).
    split; [right; right; split; [reflexivity| exact (guard_level lvl G)]|].
    split; [exact Logic.I|]. split; [exact Ewl|]. split; [reflexivity|].
    right. split; [discriminate|]. split; reflexivity.
  - discriminate H.
Qed.

(* a successful call: its arguments were admissible, and the result is the
   un-reversed output of the core on the data in core order *)
Theorem iso_ok_inv y w inc f lvl x r : isotonic_regression y w inc f lvl = IOk (x, r) ->
  exists f' a x0 r0,
    pre y w f lvl = IOk (f', a, weights_of y w) /\
    cvalid f' a /\ valid_w y w /\ (f' = IFquantile -> w = None) /\
    iso_core f' a (dir inc (data y w)) = Some (x0, r0) /\
    x = dir inc x0 /\
    r = (if inc then r0 else map (fun k => (length x0 - k)%nat) (rev r0)).
Proof.
  intros H. rewrite iso_unfold in H.
  destruct (pre y w f lvl) as [[[f' a] wl]|e] eqn:HP; [|discriminate H].
  destruct (pre_inv y w f lvl f' a wl HP) as (Hc & Hv & -> & Hq & _).
  destruct (post_inv inc _ x r H) as (x0 & r0 & Hcore & Ex & Er).
  exists f', a, x0, r0. split; [reflexivity|]. split; [exact Hc|]. split; [exact Hv|].
  split; [exact Hq|]. split; [exact Hcore|]. split; [exact Ex| exact Er].
Qed.

(* ------------------------------------------------------------------ *)
(* The core: what a successful run provides, for the three functionals  *)
(* ------------------------------------------------------------------ *)

Lemma core_ne f a l x r : iso_core f a l = Some (x, r) -> l <> [].
Proof.
  intros H E. subst l. destruct f; cbn in H; discriminate H.
Qed.

(* mean and expectile: the expansion of a certified stack *)
Definition gcert (I : GInst) (l : list (g_elt I)) (x : list Q) (r : list nat) : Prop :=
  exists stk, gpava_blocks (g_elt I) (g_yv I) (g_T I) l = Some stk /\
    stack_ok I stk /\ flat (g_elt I) stk = l /\
    Forall2 Qeq x (expand (g_elt I) stk) /\ r = rvec (g_elt I) stk.

Lemma core_mean_cert a l x r : Forall posw l -> iso_core IFmean a l = Some (x, r) ->
  gcert mean_inst l x r.
Proof.
  intros Gl H. pose proof (core_ne _ _ _ _ _ H) as Hn.
  destruct (mean_core a l x r Hn Gl H) as (stk & E1 & HQ & E3).
  destruct (gpava_stack mean_inst l stk Gl E1) as [Hok Hflat].
  exists stk. split; [exact E1|]. split; [exact Hok|]. split; [exact Hflat|].
  split; [exact HQ| exact E3].
Qed.

Lemma core_exp_cert a (Ha : 0 < a /\ a < 1) l x r : Forall posw l ->
  iso_core IFexpectile a l = Some (x, r) -> gcert (expectile_inst a Ha) l x r.
Proof.
  intros Gl H. pose proof (core_ne _ _ _ _ _ H) as Hn.
  destruct (exp_core a l x r Hn H) as (stk & E1 & HQ & E3).
  destruct (gpava_stack (expectile_inst a Ha) l stk Gl E1) as [Hok Hflat].
  exists stk. split; [exact E1|]. split; [exact Hok|]. split; [exact Hflat|].
  split; [exact HQ| exact E3].
Qed.

Lemma gcert_contract I l x r : gcert I l x r -> contract (map (g_yv I) l) x r.
Proof.
  intros (stk & _ & Hok & Hflat & HQ & ->).
  pose proof (contract_inc I stk x Hok HQ) as HC. rewrite Hflat in HC. exact HC.
Qed.

Lemma gcert_sorted I l x r : gcert I l x r -> sortedQ x.
Proof.
  intros (stk & _ & Hok & _ & HQ & _).
  apply (sortedQ_Qeq x _ HQ). apply expand_sorted. exact Hok.
Qed.

(* quantile path: length, sortedness, contract (without the detour through R) *)
Lemma qp_length a (Ha : 0 < a /\ a < 1) l x r : quantile_path a l = Some (x, r) ->
  length x = length l.
Proof.
  intros H.
  destruct (qp_struct a Ha l x r H) as (_ & stk & ps & _ & _ & Hflat & Hfst & _ & _ & Hx & _).
  rewrite Hx, xfit_length, Hfst. unfold flat in Hflat. rewrite Hflat. reflexivity.
Qed.

Lemma qp_sorted a (Ha : 0 < a /\ a < 1) l x r : quantile_path a l = Some (x, r) -> sortedQ x.
Proof.
  intros H.
  destruct (qp_struct a Ha l x r H) as (_ & stk & ps & _ & _ & _ & _ & _ & HS & Hx & _).
  rewrite Hx. apply SS_sortedQ, xfit_sorted. exact HS.
Qed.

Lemma qp_contract a (Ha : 0 < a /\ a < 1) l x r : quantile_path a l = Some (x, r) ->
  contract (map ey l) x r.
Proof.
  intros H.
  destruct (qp_unfold a l x r H) as (Ln & _ & _ & _ & Er).
  pose proof (qp_length a Ha l x r H) as Hlen.
  assert (Hxn : x <> []).
  { intros E. rewrite E in Hlen. destruct l; [congruence| discriminate Hlen]. }
  destruct (rvec_of_values_contract x Hxn) as (C1 & C2 & C3 & C4 & C5).
  rewrite <- Er in C1, C2, C3, C4, C5.
  unfold contract. rewrite map_length.
  split; [exact Hlen|]. split; [exact C1|]. split; [rewrite C2; exact Hlen|].
  split; [exact C3|]. split; [exact C4|]. split; [exact C5|].
  exact (quantile_path_range a Ha l x r Ln H).
Qed.

Theorem core_contract f a l x r : cvalid f a -> Forall posw l ->
  iso_core f a l = Some (x, r) -> contract (map ey l) x r.
Proof.
  intros Hc Gl H. destruct Hc as [->|[[-> Ha]|[-> Ha]]].
  - exact (gcert_contract mean_inst l x r (core_mean_cert a l x r Gl H)).
  - exact (gcert_contract (expectile_inst a Ha) l x r (core_exp_cert a Ha l x r Gl H)).
  - exact (qp_contract a Ha l x r H).
Qed.

Theorem core_sorted f a l x r : cvalid f a -> Forall posw l ->
  iso_core f a l = Some (x, r) -> sortedQ x.
Proof.
  intros Hc Gl H. destruct Hc as [->|[[-> Ha]|[-> Ha]]].
  - exact (gcert_sorted mean_inst l x r (core_mean_cert a l x r Gl H)).
  - exact (gcert_sorted (expectile_inst a Ha) l x r (core_exp_cert a Ha l x r Gl H)).
  - exact (qp_sorted a Ha l x r H).
Qed.

Theorem core_total f a l : cvalid f a -> Forall posw l -> l <> [] ->
  exists x r, iso_core f a l = Some (x, r).
Proof.
  intros Hc Gl Ln. destruct Hc as [->|[[-> Ha]|[-> Ha]]].
  - exact (mean_core_total a l Ln Gl).
  - exact (exp_core_total a Ha l Ln Gl).
  - exact (quantile_path_total a Ha l Ln).
Qed.

(* ------------------------------------------------------------------ *)
(* 1. The contract of every successful call                             *)
(* ------------------------------------------------------------------ *)

Lemma map_ey_dir_data y w inc : valid_w y w -> map ey (dir inc (data y w)) = dir inc y.
Proof. intros Hv. rewrite map_dir, (map_ey_data y w Hv). reflexivity. Qed.

Lemma contract_post inc y x0 r0 : contract (dir inc y) x0 r0 ->
  contract y (dir inc x0)
    (if inc then r0 else map (fun k => (length x0 - k)%nat) (rev r0)).
Proof.
  intros HC. destruct inc; cbn [dir] in *; [exact HC|].
  apply contract_rev in HC. rewrite rev_involutive in HC. exact HC.
Qed.

(* every IOk result satisfies the contract: no side condition at all *)
Theorem iso_contract_all : forall y w inc f lvl x r,
  isotonic_regression y w inc f lvl = IOk (x, r) -> contract y x r.
Proof.
  intros y w inc f lvl x r H.
  destruct (iso_ok_inv y w inc f lvl x r H) as (f' & a & x0 & r0 & _ & Hc & Hv & _ & Hcore & -> & ->).
  pose proof (dir_posw inc _ (data_posw y w Hv)) as Gl.
  pose proof (core_contract f' a _ x0 r0 Hc Gl Hcore) as HC.
  rewrite (map_ey_dir_data y w inc Hv) in HC.
  exact (contract_post inc y x0 r0 HC).
Qed.

(* the two functionals not covered by IsoProps.iso_contract, in its shape *)
Theorem iso_contract_quantile : forall f y inc lvl x r,
  (f = IFquantile \/ f = IFmedian) ->
  isotonic_regression y None inc f lvl = IOk (x, r) ->
  length x = length y /\
  hd 0%nat r = 0%nat /\ last r 0%nat = length y /\ StronglySorted lt r /\
  (forall j i, (S j < length r)%nat -> (nth j r 0 <= i < nth (S j) r 0)%nat ->
     nth i x 0 == nth (nth j r 0%nat) x 0) /\
  (forall j, (S (S j) < length r)%nat ->
     ~ nth (nth j r 0%nat) x 0 == nth (nth (S j) r 0%nat) x 0) /\
  (forall v, In v x -> exists lo hi, In lo y /\ In hi y /\ lo <= v /\ v <= hi).
Proof.
  intros f y inc lvl x r _ H. exact (iso_contract_all y None inc f lvl x r H).
Qed.

(* a successful call had a non-empty y *)
Lemma iso_ok_nonempty y w inc f lvl x r :
  isotonic_regression y w inc f lvl = IOk (x, r) -> y <> [].
Proof.
  intros H E. subst y.
  destruct (iso_contract_all [] w inc f lvl x r H) as (Hlen & Hhd & Hlast & HS & _).
  destruct (iso_ok_inv [] w inc f lvl x r H) as (f' & a & x0 & r0 & _ & _ & _ & _ & Hcore & _).
  apply core_ne in Hcore. apply Hcore. destruct inc; reflexivity.
Qed.

(* ------------------------------------------------------------------ *)
(* 2. Already-monotone input is returned unchanged                      *)
(* ------------------------------------------------------------------ *)

(* ---------- list helpers ---------- *)

Lemma sortedQ_SS : forall l, sortedQ l -> StronglySorted Qle l.
Proof.
  induction l as [|a l IH]; intros Hs; [constructor|].
  destruct l as [|b l'].
  - constructor; constructor.
  - destruct Hs as [Hab Hs]. pose proof (IH Hs) as HS. constructor; [exact HS|].
    destruct (StronglySorted_inv HS) as [_ Hb].
    constructor; [exact Hab|].
    eapply Forall_impl; [|exact Hb]. intros z Hz. cbv beta in Hz. lra.
Qed.

Lemma SS_unmap (A B : Type) (f : A -> B) (R : B -> B -> Prop) : forall l : list A,
  StronglySorted R (map f l) -> StronglySorted (fun a b => R (f a) (f b)) l.
Proof.
  induction l as [|a l IH]; intros HS; [constructor|].
  cbn [map] in HS. destruct (StronglySorted_inv HS) as [HS' Ha].
  constructor; [apply IH; exact HS'|].
  apply Forall_forall. intros z Hz. rewrite Forall_forall in Ha. apply Ha. apply in_map. exact Hz.
Qed.

Lemma SS_app_l (A : Type) (R : A -> A -> Prop) : forall l1 l2 : list A,
  StronglySorted R (l1 ++ l2) -> StronglySorted R l1.
Proof.
  induction l1 as [|a l1 IH]; intros l2 HS; [constructor|].
  cbn [app] in HS. destruct (StronglySorted_inv HS) as [HS' Ha].
  constructor; [exact (IH l2 HS')|].
  apply Forall_app in Ha. exact (proj1 Ha).
Qed.

Lemma SS_app_r (A : Type) (R : A -> A -> Prop) : forall l1 l2 : list A,
  StronglySorted R (l1 ++ l2) -> StronglySorted R l2.
Proof.
  induction l1 as [|a l1 IH]; intros l2 HS; [exact HS|].
  cbn [app] in HS. destruct (StronglySorted_inv HS) as [HS' _]. exact (IH l2 HS').
Qed.

Lemma SS_app_cross (A : Type) (R : A -> A -> Prop) : forall l1 l2 : list A,
  StronglySorted R (l1 ++ l2) -> forall a b, In a l1 -> In b l2 -> R a b.
Proof.
  induction l1 as [|c l1 IH]; intros l2 HS a b Ha Hb; [destruct Ha|].
  cbn [app] in HS. destruct (StronglySorted_inv HS) as [HS' Hc].
  destruct Ha as [<-|Ha].
  - rewrite Forall_forall in Hc. apply Hc. apply in_or_app. right. exact Hb.
  - exact (IH l2 HS' a b Ha Hb).
Qed.

Lemma SS_concat_in (A : Type) (R : A -> A -> Prop) : forall (Ls : list (list A)) L,
  StronglySorted R (concat Ls) -> In L Ls -> StronglySorted R L.
Proof.
  induction Ls as [|L0 Ls IH]; intros L HS Hin; [destruct Hin|].
  cbn [concat] in HS. destruct Hin as [<-|Hin].
  - exact (SS_app_l A R _ _ HS).
  - exact (IH L (SS_app_r A R _ _ HS) Hin).
Qed.

Lemma F2_Qeq_sym a b : Forall2 Qeq a b -> Forall2 Qeq b a.
Proof.
  intros H. induction H as [|p q a b Hpq H IH]; constructor; [symmetry; exact Hpq| exact IH].
Qed.

Lemma F2_Qeq_trans a b c : Forall2 Qeq a b -> Forall2 Qeq b c -> Forall2 Qeq a c.
Proof.
  intros H. revert c. induction H as [|p q a b Hpq H IH]; intros c Hc.
  - inversion Hc. constructor.
  - inversion Hc as [|q' s b' c' Hqs Hc' E1 E2]; subst.
    constructor; [rewrite Hpq; exact Hqs| exact (IH _ Hc')].
Qed.

Lemma F2_Qeq_rev a b : Forall2 Qeq a b -> Forall2 Qeq (rev a) (rev b).
Proof.
  intros H. induction H as [|p q a b Hpq H IH]; [constructor|].
  cbn [rev]. apply Forall2_app; [exact IH|]. constructor; [exact Hpq| constructor].
Qed.

Lemma F2_Qeq_dir inc a b : Forall2 Qeq a b -> Forall2 Qeq (dir inc a) (dir inc b).
Proof. destruct inc; cbn [dir]; [tauto| apply F2_Qeq_rev]. Qed.

Lemma F2_Qeq_map (f : Q -> Q) : (forall p q, p == q -> f p == f q) ->
  forall a b, Forall2 Qeq a b -> Forall2 Qeq (map f a) (map f b).
Proof.
  intros Hf a b H. induction H as [|p q a b Hpq H IH]; cbn [map]; constructor;
    [apply Hf; exact Hpq| exact IH].
Qed.

(* ---------- a block of the certificate over sorted data is constant ---------- *)

Section SortedBlocks.
Variable I : GInst.
Notation E := (g_elt I).
Notation yv := (g_yv I).
Definition Rle (e1 e2 : g_elt I) : Prop := g_yv I e1 <= g_yv I e2.

Lemma Inv_sorted_const B t : IInv I B t -> StronglySorted Rle B ->
  forall e, In e B -> yv e == t.
Proof.
  intros (Bn & GB & Et & Hsuf & Hpre) HS e He.
  destruct (in_split e B He) as (p & s & EB).
  assert (Gp : Forall (g_good I) (p ++ [e])).
  { rewrite EB in GB. apply Forall_app in GB. destruct GB as [G1 G2].
    apply Forall_app. split; [exact G1|]. constructor; [exact (Forall_inv G2)| constructor]. }
  assert (Gs : Forall (g_good I) (e :: s)).
  { rewrite EB in GB. apply Forall_app in GB. exact (proj2 GB). }
  (* suffix e :: s *)
  assert (H1 : yv e <= t).
  { assert (Hhi : hi E (g_Vp I) (e :: s) t >= 0).
    { apply (Hsuf p (e :: s) EB). discriminate. }
    pose proof (g_T3 I (e :: s) t ltac:(discriminate) Gs Hhi) as HT.
    assert (Hmin : yv e <= g_T I (e :: s)).
    { apply (I_T_ge_min I (e :: s) (yv e) ltac:(discriminate) Gs).
      intros e' [<-|He']; [apply Qle_refl|].
      rewrite EB in HS. apply SS_app_r in HS.
      destruct (StronglySorted_inv HS) as [_ Hall]. rewrite Forall_forall in Hall.
      exact (Hall e' He'). }
    lra. }
  (* prefix p ++ [e] *)
  assert (H2 : t <= yv e).
  { assert (EB' : B = (p ++ [e]) ++ s) by (rewrite <- app_assoc; exact EB).
    assert (Hn : p ++ [e] <> []) by (destruct p; discriminate).
    assert (Hlo : Neg (g_strict I) (lo E (g_Vm I) (p ++ [e]) t)).
    { exact (Hpre (p ++ [e]) s EB' Hn). }
    pose proof (g_T4 I (p ++ [e]) t Hn Gp Hlo) as HT.
    assert (Hmax : g_T I (p ++ [e]) <= yv e).
    { apply (I_T_le_max I (p ++ [e]) (yv e) Hn Gp).
      intros e' He'. apply in_app_or in He'. destruct He' as [He'|[<-|[]]]; [|apply Qle_refl].
      rewrite EB in HS.
      exact (SS_app_cross E Rle p (e :: s) HS e' e He' (or_introl eq_refl)). }
    lra. }
  lra.
Qed.

Lemma repeat_const_F2 (v : Q) : forall B : list E, (forall e, In e B -> yv e == v) ->
  Forall2 Qeq (repeat v (length B)) (map yv B).
Proof.
  induction B as [|e B IH]; intros H; [constructor|].
  cbn [length repeat map]. constructor.
  - symmetry. apply H. left. reflexivity.
  - apply IH. intros e' He'. apply H. right. exact He'.
Qed.

Lemma blocks_const_F2 : forall bs : list (blk E),
  Forall (fun b => forall e, In e (bel b) -> yv e == bv b) bs ->
  Forall2 Qeq (flat_map (fun b => repeat (bv b) (length (bel b))) bs)
              (map yv (concat (map bel bs))).
Proof.
  induction bs as [|b bs IH]; intros HF; [constructor|].
  cbn [flat_map map concat]. rewrite map_app. apply Forall2_app.
  - apply repeat_const_F2. exact (Forall_inv HF).
  - apply IH. exact (Forall_inv_tail HF).
Qed.

Lemma stack_sorted_const stk : stack_ok I stk ->
  StronglySorted Rle (flat E stk) ->
  Forall (fun b => forall e, In e (bel b) -> yv e == bv b) (rev stk).
Proof.
  intros [HF _] HS. apply Forall_forall. intros b Hb.
  apply in_rev in Hb. rewrite Forall_forall in HF. pose proof (HF b Hb) as HI.
  apply (Inv_sorted_const (bel b) (bv b) HI).
  apply (SS_concat_in E Rle (map bel (rev stk)) (bel b) HS).
  apply in_map. apply in_rev. rewrite rev_involutive. exact Hb.
Qed.

Theorem gcert_sorted_id l x r : gcert I l x r -> StronglySorted Qle (map yv l) ->
  Forall2 Qeq x (map yv l).
Proof.
  intros (stk & _ & Hok & Hflat & HQ & _) HS.
  apply (F2_Qeq_trans x _ _ HQ).
  rewrite <- Hflat. unfold expand, flat. apply blocks_const_F2.
  apply stack_sorted_const; [exact Hok|].
  rewrite Hflat. exact (SS_unmap E Q yv Qle l HS).
Qed.
End SortedBlocks.

(* ---------- the quantile path on sorted data ---------- *)

Lemma xfit_const_F2 : forall ps : list (blk elt * Q),
  Forall (fun p => forall e, In e (bel (fst p)) -> ey e == mval p) ps ->
  Forall2 Qeq (xfit ps) (map ey (concat (map bel (map fst ps)))).
Proof.
  induction ps as [|p ps IH]; intros HF; [constructor|].
  rewrite xfit_cons. cbn [map concat]. rewrite map_app. apply Forall2_app.
  - clear IH. pose proof (Forall_inv HF) as Hp. cbv beta in Hp.
    induction (bel (fst p)) as [|e B IHB]; [constructor|].
    cbn [length repeat map]. constructor.
    + symmetry. apply Hp. left. reflexivity.
    + apply IHB. intros e' He'. apply Hp. right. exact He'.
  - apply IH. exact (Forall_inv_tail HF).
Qed.

Theorem qp_sorted_id a (Ha : 0 < a /\ a < 1) l x r : quantile_path a l = Some (x, r) ->
  StronglySorted Qle (map ey l) -> Forall2 Qeq x (map ey l).
Proof.
  intros H HS.
  destruct (qp_struct a Ha l x r H) as (_ & stk & ps & HL & Hok & Hflat & Hfst & HG & _ & Hx & _).
  pose proof (SS_unmap elt Q ey Qle l HS) as HS'.
  change (StronglySorted (Rle (quantile_inst a Ha)) l) in HS'. rewrite <- Hflat in HS'.
  pose proof (stack_sorted_const (quantile_inst a Ha) stk Hok HS') as Hconst.
  cbn [g_elt g_yv quantile_inst] in Hconst. rewrite <- Hfst in Hconst.
  rewrite Hx.
  assert (El : l = concat (map bel (map fst ps))).
  { rewrite Hfst. symmetry. exact Hflat. }
  rewrite El. apply xfit_const_F2.
  apply Forall_forall. intros p Hp e He.
  rewrite Forall_forall in HG. pose proof (HG p Hp) as (Bn & Eb & H1 & H2).
  rewrite Forall_forall in Hconst.
  pose proof (Hconst (fst p) (in_map fst ps p Hp)) as Hc.
  destruct (qupp_in a Ha (bel (fst p)) Bn) as (e0 & He0 & Eq0).
  pose proof (Hc e He) as E1. pose proof (Hc e0 He0) as E2.
  pose proof (mval_eq p) as Em. lra.
Qed.

Theorem core_sorted_id f a l x r : cvalid f a -> Forall posw l ->
  iso_core f a l = Some (x, r) -> StronglySorted Qle (map ey l) -> Forall2 Qeq x (map ey l).
Proof.
  intros Hc Gl H HS. destruct Hc as [->|[[-> Ha]|[-> Ha]]].
  - exact (gcert_sorted_id mean_inst l x r (core_mean_cert a l x r Gl H) HS).
  - exact (gcert_sorted_id (expectile_inst a Ha) l x r (core_exp_cert a Ha l x r Gl H) HS).
  - exact (qp_sorted_id a Ha l x r H HS).
Qed.

(* y non-decreasing (inc = true) / non-increasing (inc = false): the fit is y *)
Theorem iso_monotone_identity : forall y w inc f lvl x r,
  isotonic_regression y w inc f lvl = IOk (x, r) -> IsoProps.monoQ inc y ->
  Forall2 Qeq x y.
Proof.
  intros y w inc f lvl x r H Hm.
  destruct (iso_ok_inv y w inc f lvl x r H) as (f' & a & x0 & r0 & _ & Hc & Hv & _ & Hcore & -> & _).
  pose proof (dir_posw inc _ (data_posw y w Hv)) as Gl.
  rewrite IsoProps.monoQ_dir in Hm.
  pose proof (core_sorted_id f' a _ x0 r0 Hc Gl Hcore) as HI.
  rewrite (map_ey_dir_data y w inc Hv) in HI.
  pose proof (HI (sortedQ_SS _ Hm)) as HQ.
  rewrite <- (dir_invol Q inc y). apply F2_Qeq_dir. exact HQ.
Qed.

(* the fit itself is monotone in the requested direction *)
Theorem iso_fit_monotone : forall y w inc f lvl x r,
  isotonic_regression y w inc f lvl = IOk (x, r) -> IsoProps.monoQ inc x.
Proof.
  intros y w inc f lvl x r H.
  destruct (iso_ok_inv y w inc f lvl x r H) as (f' & a & x0 & r0 & _ & Hc & Hv & _ & Hcore & -> & _).
  pose proof (dir_posw inc _ (data_posw y w Hv)) as Gl.
  rewrite IsoProps.monoQ_dir, dir_invol. exact (core_sorted f' a _ x0 r0 Hc Gl Hcore).
Qed.

(* ------------------------------------------------------------------ *)
(* The block vector is determined by the values                         *)
(* ------------------------------------------------------------------ *)

Lemma SS_lt_ext : forall r r' : list nat, StronglySorted lt r -> StronglySorted lt r' ->
  (forall k, In k r <-> In k r') -> r = r'.
Proof.
  induction r as [|a r IH]; intros r' HS HS' Hiff.
  - destruct r' as [|b r']; [reflexivity|].
    exfalso. exact (proj2 (Hiff b) (or_introl eq_refl)).
  - destruct r' as [|b r'].
    + exfalso. exact (proj1 (Hiff a) (or_introl eq_refl)).
    + destruct (StronglySorted_inv HS) as [HSr Ha]. destruct (StronglySorted_inv HS') as [HSr' Hb].
      rewrite Forall_forall in Ha, Hb.
      assert (Eab : a = b).
      { destruct (proj1 (Hiff a) (or_introl eq_refl)) as [E|Hin]; [symmetry; exact E|].
        destruct (proj2 (Hiff b) (or_introl eq_refl)) as [E|Hin']; [exact E|].
        pose proof (Hb a Hin). pose proof (Ha b Hin'). lia. }
      subst b. f_equal. apply IH; [exact HSr| exact HSr'|].
      intros k. split; intros Hk.
      * destruct (proj1 (Hiff k) (or_intror Hk)) as [E|Hin]; [|exact Hin].
        pose proof (Ha k Hk). lia.
      * destruct (proj2 (Hiff k) (or_intror Hk)) as [E|Hin]; [|exact Hin].
        pose proof (Hb k Hk). lia.
Qed.

(* the block containing a position *)
Lemma find_block : forall r : list nat, StronglySorted lt r -> forall k,
  (hd 0 r <= k < last r 0)%nat ->
  exists j, (S j < length r)%nat /\ (nth j r 0 <= k < nth (S j) r 0)%nat.
Proof.
  induction r as [|a r IH]; intros HS k Hk; [cbn in Hk; lia|].
  destruct r as [|b r']; [cbn in Hk; lia|].
  destruct (StronglySorted_inv HS) as [HS' _].
  change (last (a :: b :: r') 0%nat) with (last (b :: r') 0%nat) in Hk. cbn [hd] in Hk.
  destruct (Nat.lt_ge_cases k b) as [Hlt|Hge].
  - exists 0%nat. cbn [length nth]. lia.
  - destruct (IH HS' k) as (j & Hj & Hjk); [cbn [hd]; lia|].
    exists (S j). cbn [length nth] in *. split; [lia| exact Hjk].
Qed.

(* membership in r, from the contract alone *)
Lemma contract_r_mem y x r : contract y x r -> x <> [] -> forall k,
  In k r <-> (k = 0%nat \/ k = length x \/
              ((0 < k < length x)%nat /\ ~ nth (k - 1) x 0 == nth k x 0)).
Proof.
  intros (Hlen & Hhd & Hlast & HS & Hconst & Hdiff & _) Hxn k.
  set (m := length r).
  assert (Hxl : (0 < length x)%nat) by (destruct x; [congruence| cbn; lia]).
  assert (Hmono : forall i j, (i < j < m)%nat -> (nth i r 0 < nth j r 0)%nat).
  { intros i j Hij. exact (SS_nth nat lt 0%nat r HS i j Hij). }
  pose proof Hhd as Hhd'. pose proof Hlast as Hlast'.
  rewrite hd_nth0 in Hhd. rewrite last_nth in Hlast. fold m in Hlast. rewrite <- Hlen in Hlast.
  assert (Hm : (0 < m)%nat).
  { unfold m. destruct r as [|a r']; [cbn in Hlast; lia| cbn; lia]. }
  split.
  - intros Hin. destruct (In_nth r k 0%nat Hin) as (j & Hj & Ej). fold m in Hj.
    destruct (Nat.eq_dec j 0) as [->|Hj0]; [left; congruence|].
    destruct (Nat.eq_dec j (m - 1)) as [->|Hjm]; [right; left; congruence|].
    right. right.
    pose proof (Hmono 0%nat j ltac:(lia)) as H0. pose proof (Hmono j (m - 1)%nat ltac:(lia)) as H1.
    pose proof (Hmono (j - 1)%nat j ltac:(lia)) as H2.
    split; [lia|]. intros Heq.
    apply (Hdiff (j - 1)%nat); [fold m; lia|].
    replace (S (j - 1)) with j by lia. rewrite Ej.
    rewrite <- Heq. symmetry.
    apply (Hconst (j - 1)%nat (k - 1)%nat); [fold m; lia|].
    replace (S (j - 1)) with j by lia. lia.
  - intros [->|[->|[Hk Hne]]].
    + rewrite <- Hhd. apply nth_In. fold m. lia.
    + rewrite <- Hlast. apply nth_In. fold m. lia.
    + destruct (find_block r HS k) as (j & Hj & Hjk).
      { rewrite Hhd', Hlast', <- Hlen. lia. }
      destruct (Nat.eq_dec (nth j r 0%nat) k) as [E|Hne'].
      * rewrite <- E. apply nth_In. lia.
      * exfalso. apply Hne.
        rewrite (Hconst j (k - 1)%nat Hj ltac:(lia)), (Hconst j k Hj Hjk). reflexivity.
Qed.

(* two results whose values have the same pattern of equal neighbours have
   the same block vector *)
Theorem contract_r_det y x r y' x' r' : contract y x r -> contract y' x' r' ->
  x <> [] -> length x = length x' ->
  (forall i, (S i < length x)%nat ->
     (nth i x 0 == nth (S i) x 0 <-> nth i x' 0 == nth (S i) x' 0)) ->
  r = r'.
Proof.
  intros HC HC' Hxn Hl Hpat.
  assert (Hxn' : x' <> []).
  { intros E. rewrite E in Hl. destruct x; [congruence| discriminate Hl]. }
  pose proof (contract_r_mem y x r HC Hxn) as M.
  pose proof (contract_r_mem y' x' r' HC' Hxn') as M'.
  destruct HC as (_ & _ & _ & HS & _). destruct HC' as (_ & _ & _ & HS' & _).
  apply SS_lt_ext; [exact HS| exact HS'|].
  intros k. rewrite M, M', <- Hl.
  assert (Hstep : (0 < k < length x)%nat ->
     (nth (k - 1) x 0 == nth k x 0 <-> nth (k - 1) x' 0 == nth k x' 0)).
  { intros Hk. pose proof (Hpat (k - 1)%nat ltac:(lia)) as H.
    replace (S (k - 1)) with k in H by lia. exact H. }
  split; (intros [H|[H|[Hk H]]]; [left; exact H| right; left; exact H|]);
    right; right; (split; [exact Hk|]); pose proof (Hstep Hk) as HH; tauto.
Qed.

Corollary contract_r_det_Qeq y x r y' x' r' : contract y x r -> contract y' x' r' ->
  x <> [] -> Forall2 Qeq x x' -> r = r'.
Proof.
  intros HC HC' Hxn HQ.
  apply (contract_r_det y x r y' x' r' HC HC' Hxn (F2_length _ _ _ _ _ HQ)).
  intros i _. rewrite (F2_nth x x' HQ i), (F2_nth x x' HQ (S i)). tauto.
Qed.

(* ------------------------------------------------------------------ *)
(* Idempotence                                                          *)
(* ------------------------------------------------------------------ *)

Lemma valid_w_length y y' w : length y' = length y -> valid_w y w -> valid_w y' w.
Proof.
  intros Hl. destruct w as [w|]; cbn [valid_w]; [|tauto].
  intros [H1 H2]. split; [rewrite Hl; exact H1| exact H2].
Qed.

(* the checks only look at the length of y *)
Lemma pre_length y y' w f lvl f' a : length y' = length y ->
  pre y w f lvl = IOk (f', a, weights_of y w) ->
  pre y' w f lvl = IOk (f', a, weights_of y' w).
Proof.
  intros Hl. unfold pre. rewrite Hl.
  destruct f; cbn [andb]; try (intros H; discriminate H);
    try (destruct (Qle_bool lvl 0 || Qle_bool 1 lvl); [intros H; discriminate H|]);
    destruct w as [w|]; cbn [weights_of]; try (intros H; discriminate H);
    try (intros H; injection H as <- <-; reflexivity);
    destruct (negb (length y =? length w)%nat); try (intros H; discriminate H);
    destruct (negb (all_pos w)); try (intros H; discriminate H);
    intros H; injection H as <- <-; reflexivity.
Qed.

(* totality on any y' of the same length as a y that was accepted *)
Theorem iso_total_like y y' w inc f lvl x r : length y' = length y ->
  isotonic_regression y w inc f lvl = IOk (x, r) ->
  exists x' r', isotonic_regression y' w inc f lvl = IOk (x', r').
Proof.
  intros Hl H.
  pose proof (iso_ok_nonempty y w inc f lvl x r H) as Hn.
  destruct (iso_ok_inv y w inc f lvl x r H) as (f' & a & x0 & r0 & HP & Hc & Hv & _ & _).
  pose proof (valid_w_length y y' w Hl Hv) as Hv'.
  assert (Hn' : y' <> []).
  { intros E. rewrite E in Hl. destruct y; [congruence| discriminate Hl]. }
  rewrite iso_unfold, (pre_length y y' w f lvl f' a Hl HP). cbv beta iota.
  destruct (core_total f' a (dir inc (data y' w)) Hc
              (dir_posw inc _ (data_posw y' w Hv'))
              (dir_ne inc _ (data_ne y' w Hn' Hv'))) as (x1 & r1 & E).
  assert (E' : iso_core f' a (dir inc (combine y' (weights_of y' w))) = Some (x1, r1)) by exact E.
  rewrite E'. apply post_some.
Qed.

(* fitting the fit: same values (pointwise ==) and the same block vector *)
Theorem iso_idempotent : forall y w inc f lvl x r,
  isotonic_regression y w inc f lvl = IOk (x, r) ->
  exists x', isotonic_regression x w inc f lvl = IOk (x', r) /\ Forall2 Qeq x' x.
Proof.
  intros y w inc f lvl x r H.
  pose proof (iso_contract_all y w inc f lvl x r H) as HC.
  pose proof HC as (Hlen & _).
  destruct (iso_total_like y x w inc f lvl x r Hlen H) as (x' & r' & H').
  pose proof (iso_monotone_identity x w inc f lvl x' r' H' (iso_fit_monotone y w inc f lvl x r H)) as HQ.
  pose proof (iso_contract_all x w inc f lvl x' r' H') as HC'.
  assert (Hxn' : x' <> []).
  { pose proof (iso_ok_nonempty x w inc f lvl x' r' H') as Hxn.
    intros E. rewrite E in HQ. inversion HQ. congruence. }
  rewrite (contract_r_det_Qeq x x' r' y x r HC' HC Hxn' HQ) in H'.
  exists x'. split; [exact H'| exact HQ].
Qed.

(* ------------------------------------------------------------------ *)
(* 3. Reversing the data together with the direction                    *)
(* ------------------------------------------------------------------ *)

Lemma forallb_rev (A : Type) (p : A -> bool) : forall l, forallb p (rev l) = forallb p l.
Proof.
  induction l as [|a l IH]; [reflexivity|].
  cbn [rev forallb]. rewrite forallb_app, IH. cbn [forallb]. rewrite andb_true_r. apply andb_comm.
Qed.

Lemma combine_app (A B : Type) : forall (a1 a2 : list A) (b1 b2 : list B),
  length a1 = length b1 -> combine (a1 ++ a2) (b1 ++ b2) = combine a1 b1 ++ combine a2 b2.
Proof.
  induction a1 as [|p a1 IH]; intros a2 b1 b2 Hl.
  - destruct b1; [reflexivity| discriminate Hl].
  - destruct b1 as [|q b1]; [discriminate Hl|].
    cbn [length] in Hl. injection Hl as Hl. cbn [app combine]. rewrite (IH a2 b1 b2 Hl). reflexivity.
Qed.

Lemma combine_rev (A B : Type) : forall (a : list A) (b : list B),
  length a = length b -> combine (rev a) (rev b) = rev (combine a b).
Proof.
  induction a as [|p a IH]; intros b Hl.
  - destruct b; [reflexivity| discriminate Hl].
  - destruct b as [|q b]; [discriminate Hl|].
    cbn [length] in Hl. injection Hl as Hl. cbn [rev combine].
    rewrite combine_app by (rewrite !rev_length; exact Hl).
    rewrite (IH b Hl). reflexivity.
Qed.

Lemma dir_negb_rev (A : Type) inc (l : list A) : dir (negb inc) (rev l) = dir inc l.
Proof. destruct inc; cbn [negb dir]; [apply rev_involutive| reflexivity]. Qed.

Lemma pre_rev y w f lvl :
  pre (rev y) (option_map (@rev Q) w) f lvl =
  match pre y w f lvl with
  | IErr e => IErr e
  | IOk (f', a, wl) => IOk (f', a, rev wl)
  end.
Proof.
  unfold pre.
  destruct f; try reflexivity; cbn [andb];
    try (destruct (Qle_bool lvl 0 || Qle_bool 1 lvl); [reflexivity|]);
    destruct w as [w|]; cbn [option_map]; try reflexivity;
    try (rewrite map_rev; reflexivity);
    rewrite !rev_length; unfold all_pos; rewrite forallb_rev;
    destruct (negb (length y =? length w)%nat); try reflexivity;
    destruct (negb (forallb (fun x => negb (Qle_bool x 0)) w)); reflexivity.
Qed.

Lemma contract_r_le y x r : contract y x r -> Forall (fun k => (k <= length x)%nat) r.
Proof.
  intros (Hlen & _ & Hlast & HS & _). apply Forall_forall. intros k Hk.
  destruct (In_nth r k 0%nat Hk) as (j & Hj & <-).
  rewrite last_nth, <- Hlen in Hlast.
  destruct (Nat.eq_dec j (length r - 1)) as [->|Hne]; [lia|].
  pose proof (SS_nth nat lt 0%nat r HS j (length r - 1)%nat ltac:(lia)). lia.
Qed.

Lemma mirror_invol (n : nat) (r : list nat) : Forall (fun k => (k <= n)%nat) r ->
  map (fun k => (n - k)%nat) (rev (map (fun k => (n - k)%nat) (rev r))) = r.
Proof.
  intros H. rewrite <- map_rev, rev_involutive, map_map.
  rewrite <- (map_id r) at 2. apply map_ext_in. intros k Hk.
  rewrite Forall_forall in H. pose proof (H k Hk). cbv beta in *. lia.
Qed.

(* isotonic_regression (y[::-1], w[::-1], not increasing) is the mirrored result:
   values reversed, block vector n - r[::-1]; the same exception otherwise *)
Theorem iso_rev_commutes : forall y w inc f lvl,
  isotonic_regression (rev y) (option_map (@rev Q) w) (negb inc) f lvl =
  match isotonic_regression y w inc f lvl with
  | IOk (x, r) => IOk (rev x, map (fun k => (length x - k)%nat) (rev r))
  | IErr e => IErr e
  end.
Proof.
  intros y w inc f lvl. rewrite !iso_unfold, pre_rev.
  destruct (pre y w f lvl) as [[[f' a] wl]|e] eqn:HP; [|reflexivity].
  destruct (pre_inv y w f lvl f' a wl HP) as (Hc & Hv & Ewl & _ & _).
  assert (Hl : length y = length wl).
  { rewrite Ewl. symmetry. apply weights_of_length. exact Hv. }
  rewrite (combine_rev Q Q y wl Hl), dir_negb_rev.
  destruct (iso_core f' a (dir inc (combine y wl))) as [[x0 r0]|] eqn:Hcore; [|reflexivity].
  destruct inc; cbn [negb post]; [reflexivity|].
  assert (Gl : Forall posw (dir false (combine y wl))).
  { rewrite Ewl. exact (dir_posw false _ (data_posw y w Hv)). }
  pose proof (core_contract f' a _ x0 r0 Hc Gl Hcore) as HC.
  pose proof (contract_r_le _ _ _ HC) as Hle.
  rewrite rev_involutive, rev_length, (mirror_invol (length x0) r0 Hle). reflexivity.
Qed.

(* readable corollary for successful calls *)
Corollary iso_rev_commutes_ok : forall y w inc f lvl x r,
  isotonic_regression y w inc f lvl = IOk (x, r) ->
  isotonic_regression (rev y) (option_map (@rev Q) w) (negb inc) f lvl =
  IOk (rev x, map (fun k => (length x - k)%nat) (rev r)).
Proof. intros y w inc f lvl x r H. rewrite iso_rev_commutes, H. reflexivity. Qed.

(* ------------------------------------------------------------------ *)
(* The hypotheses are satisfiable / the statements are not vacuous      *)
(* ------------------------------------------------------------------ *)

Example ex_quantile_dec :
  isotonic_regression [1; 3; 2; 2] None false IFquantile (1#4) = IOk ([3#2; 3#2; 3#2; 3#2], [0; 4]%nat).
Proof. vm_compute. reflexivity. Qed.

Example ex_median_inc :
  isotonic_regression [3; 1; 2; 5] None true IFmedian 0 = IOk ([3#2; 3#2; 2; 5], [0; 2; 3; 4]%nat).
Proof. vm_compute. reflexivity. Qed.

Print Assumptions iso_contract_all.
Print Assumptions iso_contract_quantile.
Print Assumptions iso_monotone_identity.
Print Assumptions iso_idempotent.
Print Assumptions iso_rev_commutes.
