(* C12, last clause: integer case weights act like repeated observations
   (functionals mean and expectile; quantile and median accept no weights).

     iso_replication   isotonic_regression y (Some (map Qnat ks)) = IOk (x, r)  ->
                       isotonic_regression (repl y ks) None = IOk (xx, rr) with
                       xx pointwise == repl x ks
                       (repl v ks: v_i repeated ks_i times)

   Method.  World Q: the certificate (theory/GpavaCert.v) of the weighted run is turned
   into a certificate of the replicated data - every block is replaced by its replication
   with the same value; the block invariant survives because the identification function
   is linear in the weight, so a partial group contributes a convex combination of "none"
   and "all" of the group.  World R: two certified stacks over the same data have the same
   expansion (theory/Optimal.v cert_optimal + cert_unique), and the run on the replicated
   data yields a certified stack.  The final theorem therefore depends on the standard
   real-number axioms (it is a statement about rationals proved through R). *)
From Coq Require Import QArith Qreals Qreduction Reals Lqa Lia List Bool Sorted ZArith.
From Coq Require Lra.
Import ListNotations.
From MD Require Import lib.QLists model.Functionals model.Gpava model.Pava model.Isotonic
  theory.GpavaMerge theory.GInst theory.GpavaCert theory.PavaSim theory.Optimal
  theory.InstMean theory.InstExpectile theory.InstQuantile theory.Transport theory.IsoOptimal
  proofs.IsoProps proofs.IsoQuantProps proofs.IsoContract proofs.IsoEquiv.
Open Scope Q_scope.

(* ------------------------------------------------------------------ *)
(* Replication                                                          *)
(* ------------------------------------------------------------------ *)

(* v_i repeated ks_i times *)
Definition repl (v : list Q) (ks : list nat) : list Q :=
  flat_map (fun p => repeat (fst p) (snd p)) (combine v ks).

(* on weighted observations: the integer a weight stands for *)
Definition kof (e : elt) : nat := Z.to_nat (Qnum (ew e)).
Definition intw (e : elt) : Prop := ew e = Qnat (kof e) /\ (0 < kof e)%nat.
Definition unit1 (e : elt) : elt := (ey e, 1).
Definition rep (B : list elt) : list elt := flat_map (fun e => repeat (unit1 e) (kof e)) B.
(* x_i repeated (weight of l_i) times *)
Definition krep (x : list Q) (l : list elt) : list Q :=
  flat_map (fun p => repeat (fst p) (kof (snd p))) (combine x l).

Lemma kof_Qnat v k : kof (v, Qnat k) = k.
Proof. unfold kof, ew, Qnat. cbn [snd inject_Z Qnum]. apply Nat2Z.id. Qed.

Lemma intw_Qnat v k : (0 < k)%nat -> intw (v, Qnat k).
Proof. intros Hk. unfold intw. rewrite kof_Qnat. split; [reflexivity| exact Hk]. Qed.

Lemma rep_app A B : rep (A ++ B) = rep A ++ rep B.
Proof. unfold rep. apply flat_map_app. Qed.

Lemma rep_cons e B : rep (e :: B) = repeat (unit1 e) (kof e) ++ rep B.
Proof. reflexivity. Qed.

Lemma rep_posw B : Forall posw (rep B).
Proof.
  apply Forall_forall. intros e' He'. unfold rep in He'. apply in_flat_map in He'.
  destruct He' as (e & _ & Hr). apply repeat_spec in Hr. subst e'. reflexivity.
Qed.

Lemma rep_ne B : B <> [] -> Forall intw B -> rep B <> [].
Proof.
  intros Bn HI. destruct B as [|e B]; [congruence|].
  pose proof (Forall_inv HI) as [_ Hk]. rewrite rep_cons.
  destruct (kof e) as [|k]; [lia| discriminate].
Qed.

Lemma rev_repeat (A : Type) (x : A) : forall k, rev (repeat x k) = repeat x k.
Proof.
  induction k as [|k IH]; [reflexivity|].
  cbn [repeat rev]. rewrite IH. clear IH.
  induction k as [|k IH]; [reflexivity|]. cbn [repeat app]. rewrite IH. reflexivity.
Qed.

Lemma rep_rev B : rep (rev B) = rev (rep B).
Proof.
  induction B as [|e B IH]; [reflexivity|].
  cbn [rev]. rewrite rep_app, IH, (rep_cons e B), rev_app_distr, rev_repeat.
  rewrite (rep_cons e []). cbn [rep flat_map]. rewrite app_nil_r. reflexivity.
Qed.

Lemma repeat_split (A : Type) (x : A) k p m : repeat x k = p ++ m ->
  p = repeat x (length p) /\ m = repeat x (length m) /\ (length p + length m = k)%nat.
Proof.
  intros E.
  assert (Hall : Forall (eq x) (p ++ m)).
  { rewrite <- E. apply Forall_forall. intros z Hz. apply repeat_spec in Hz. symmetry. exact Hz. }
  apply Forall_app in Hall. destruct Hall as [Hp Hm].
  split; [apply Forall_eq_repeat; exact Hp|]. split; [apply Forall_eq_repeat; exact Hm|].
  rewrite <- app_length, <- E, repeat_length. reflexivity.
Qed.

(* ------------------------------------------------------------------ *)
(* The block invariant survives replication                             *)
(* ------------------------------------------------------------------ *)

Section RepInv.
Variable V : elt -> Q -> Q.
Variable T : list elt -> Q.
Hypothesis Vlin : forall e t, intw e -> V e t == Qnat (kof e) * V (unit1 e) t.
Hypothesis T3 : forall S t, S <> [] -> Forall posw S -> hi elt V S t >= 0 -> T S <= t.
Hypothesis T4 : forall S t, S <> [] -> Forall posw S -> Neg false (lo elt V S t) -> t <= T S.
Notation H := (hi elt V).

Lemma hi_repeat e' k t : H (repeat e' k) t == Qnat k * V e' t.
Proof.
  induction k as [|k IH]; [cbn; unfold Qnat; cbn; ring|].
  cbn [repeat hi]. rewrite IH, Qnat_S. ring.
Qed.

Lemma hi_rep B t : Forall intw B -> H (rep B) t == H B t.
Proof.
  intros HI. induction HI as [|e B He HI IH]; [reflexivity|].
  rewrite rep_cons, hi_app, hi_repeat, IH. cbn [hi]. rewrite (Vlin e t He). reflexivity.
Qed.

Definition SufP (B : list elt) (t : Q) : Prop :=
  forall p s, B = p ++ s -> s <> [] -> H s t >= 0.
Definition PreP (c : Q) (B : list elt) (t : Q) : Prop :=
  forall p s, B = p ++ s -> p <> [] -> c + H p t <= 0.

Lemma convex_ge (j k v h : Q) : 0 <= j -> j <= k -> k * v + h >= 0 -> h >= 0 -> j * v + h >= 0.
Proof.
  intros H0 H1 H2 H3. destruct (Qlt_le_dec v 0) as [Hv|Hv]; nra.
Qed.

Lemma convex_le (j k v c : Q) : 0 <= j -> j <= k -> c + k * v <= 0 -> c <= 0 -> c + j * v <= 0.
Proof.
  intros H0 H1 H2 H3. destruct (Qlt_le_dec v 0) as [Hv|Hv]; nra.
Qed.

Lemma suf_rep t : forall B, Forall intw B -> SufP B t -> SufP (rep B) t.
Proof.
  induction B as [|e B IH]; intros HI HS p s E sn.
  - cbn in E. symmetry in E. apply app_eq_nil in E. tauto.
  - pose proof (Forall_inv HI) as He. pose proof (Forall_inv_tail HI) as HI'.
    assert (HS' : SufP B t).
    { intros p0 s0 E0 sn0. apply (HS (e :: p0) s0); [rewrite E0; reflexivity| exact sn0]. }
    rewrite rep_cons in E.
    destruct (split_app elt _ _ _ _ E) as [(m & E1 & E2)|(m & E1 & E2)].
    + destruct (repeat_split elt (unit1 e) (kof e) p m E1) as (_ & Em & Hlen).
      subst s. rewrite hi_app, Em, hi_repeat, (hi_rep B t HI').
      assert (Hall : Qnat (kof e) * V (unit1 e) t + H B t >= 0).
      { pose proof (HS [] (e :: B) eq_refl ltac:(discriminate)) as H1.
        cbn [hi] in H1. rewrite (Vlin e t He) in H1. exact H1. }
      assert (Hrest : H B t >= 0).
      { destruct B as [|e2 B2]; [cbn; lra|].
        exact (HS [e] (e2 :: B2) eq_refl ltac:(discriminate)). }
      apply (convex_ge (Qnat (length m)) (Qnat (kof e))); [apply Qnat_nonneg| |exact Hall| exact Hrest].
      apply Qnat_le. lia.
    + exact (IH HI' HS' m s E2 sn).
Qed.

Lemma pre_rep t : forall B c, Forall intw B -> c <= 0 -> PreP c B t -> PreP c (rep B) t.
Proof.
  induction B as [|e B IH]; intros c HI Hc HP p s E pn.
  - cbn in E. symmetry in E. apply app_eq_nil in E. tauto.
  - pose proof (Forall_inv HI) as He. pose proof (Forall_inv_tail HI) as HI'.
    assert (Hfull : c + Qnat (kof e) * V (unit1 e) t <= 0).
    { pose proof (HP [e] B eq_refl ltac:(discriminate)) as H1.
      cbn [hi] in H1. rewrite (Vlin e t He) in H1. lra. }
    rewrite rep_cons in E.
    destruct (split_app elt _ _ _ _ E) as [(m & E1 & E2)|(m & E1 & E2)].
    + destruct (repeat_split elt (unit1 e) (kof e) p m E1) as (Ep & _ & Hlen).
      rewrite Ep, hi_repeat.
      apply (convex_le (Qnat (length p)) (Qnat (kof e))); [apply Qnat_nonneg| |exact Hfull| exact Hc].
      apply Qnat_le. lia.
    + subst p. rewrite hi_app, hi_repeat.
      destruct m as [|e2 m2].
      * cbn [hi]. lra.
      * set (c' := c + Qnat (kof e) * V (unit1 e) t).
        assert (HP' : PreP c' B t).
        { intros p0 s0 E0 pn0. unfold c'.
          pose proof (HP (e :: p0) s0 ltac:(rewrite E0; reflexivity) ltac:(discriminate)) as H1.
          cbn [hi] in H1. rewrite (Vlin e t He) in H1. lra. }
        pose proof (IH c' HI' Hfull HP' (e2 :: m2) s E2 ltac:(discriminate)) as H2.
        unfold c' in H2. lra.
Qed.

Theorem rep_Inv B t : Inv elt posw V V false T B t -> Forall intw B ->
  Inv elt posw V V false T (rep B) t.
Proof.
  intros (Bn & GB & Et & HSuf & HPre) HI.
  pose proof (rep_ne B Bn HI) as Rn. pose proof (rep_posw B) as RG.
  assert (Hh : H (rep B) t >= 0).
  { rewrite (hi_rep B t HI). exact (HSuf [] B eq_refl Bn). }
  assert (Hl : H (rep B) t <= 0).
  { rewrite (hi_rep B t HI). pose proof (HPre B [] ltac:(rewrite app_nil_r; reflexivity) Bn) as H1.
    cbn [Neg] in H1. rewrite lo_eq_hi in H1. exact H1. }
  split; [exact Rn|]. split; [exact RG|]. split.
  - apply Qle_antisym.
    + apply (T4 (rep B) t Rn RG). cbn [Neg]. rewrite lo_eq_hi. exact Hl.
    + apply (T3 (rep B) t Rn RG). exact Hh.
  - split.
    + exact (suf_rep t B HI HSuf).
    + intros p s E pn. cbn [Neg]. rewrite lo_eq_hi.
      assert (HP0 : PreP 0 B t).
      { intros p0 s0 E0 pn0. pose proof (HPre p0 s0 E0 pn0) as H1.
        cbn [Neg] in H1. rewrite lo_eq_hi in H1. lra. }
      pose proof (pre_rep t B 0 HI ltac:(lra) HP0 p s E pn) as H1. lra.
Qed.
End RepInv.

(* the two instances *)
Lemma mean_Vlin e t : intw e -> V_mean e t == Qnat (kof e) * V_mean (unit1 e) t.
Proof.
  intros [E _]. set (q := Qnat (kof e)) in *. unfold V_mean.
  change (ew (unit1 e)) with 1. change (ey (unit1 e)) with (ey e). rewrite E. ring.
Qed.

Lemma exp_Vlin a e t : intw e -> V_expectile a e t == Qnat (kof e) * V_expectile a (unit1 e) t.
Proof.
  intros [E _]. set (q := Qnat (kof e)) in *. unfold V_expectile.
  change (ew (unit1 e)) with 1. change (ey (unit1 e)) with (ey e). rewrite E. ring.
Qed.

Lemma rep_IInv_mean B t : IInv mean_inst B t -> Forall intw B -> IInv mean_inst (rep B) t.
Proof. exact (rep_Inv V_mean wmean mean_Vlin mean_T3 mean_T4 B t). Qed.

Lemma rep_IInv_exp a (Ha : 0 < a /\ a < 1) B t :
  IInv (expectile_inst a Ha) B t -> Forall intw B -> IInv (expectile_inst a Ha) (rep B) t.
Proof.
  exact (rep_Inv (V_expectile a) (expectile_Q a) (exp_Vlin a) (exp_T3 a Ha) (exp_T4 a Ha) B t).
Qed.

(* ------------------------------------------------------------------ *)
(* The replicated stack                                                 *)
(* ------------------------------------------------------------------ *)

Definition rep_blk (b : blk elt) : blk elt := mkblk (rep (bel b)) (bv b).
Definition rep_stk (stk : list (blk elt)) : list (blk elt) := map rep_blk stk.

Lemma rep_concat : forall Ls : list (list elt), rep (concat Ls) = concat (map rep Ls).
Proof.
  induction Ls as [|L Ls IH]; [reflexivity|]. cbn [concat map]. rewrite rep_app, IH. reflexivity.
Qed.

Lemma flat_rep_stk stk : flat elt (rep_stk stk) = rep (flat elt stk).
Proof.
  unfold flat, rep_stk. rewrite <- map_rev, map_map, rep_concat, map_map. reflexivity.
Qed.

Lemma flat_intw stk : Forall intw (flat elt stk) -> Forall (fun b => Forall intw (bel b)) stk.
Proof.
  intros HI. apply Forall_forall. intros b Hb. apply Forall_forall. intros e He.
  rewrite Forall_forall in HI. apply HI. unfold flat. apply in_concat.
  exists (bel b). split; [|exact He]. apply in_map. apply in_rev. rewrite rev_involutive. exact Hb.
Qed.


Lemma rep_stack_ok_mean stk : stack_ok mean_inst stk -> Forall intw (flat elt stk) ->
  stack_ok mean_inst (rep_stk stk).
Proof.
  intros [HF HS] HI. pose proof (flat_intw stk HI) as HIb. split.
  - unfold rep_stk. apply Forall_forall. intros b' Hb'. apply in_map_iff in Hb'.
    destruct Hb' as (b & <- & Hb). rewrite Forall_forall in HF, HIb.
    exact (rep_IInv_mean (bel b) (bv b) (HF b Hb) (HIb b Hb)).
  - unfold rep_stk. apply SS_map. exact HS.
Qed.

Lemma rep_stack_ok_exp a (Ha : 0 < a /\ a < 1) stk :
  stack_ok (expectile_inst a Ha) stk -> Forall intw (flat elt stk) ->
  stack_ok (expectile_inst a Ha) (rep_stk stk).
Proof.
  intros [HF HS] HI. pose proof (flat_intw stk HI) as HIb. split.
  - unfold rep_stk. apply Forall_forall. intros b' Hb'. apply in_map_iff in Hb'.
    destruct Hb' as (b & <- & Hb). rewrite Forall_forall in HF, HIb.
    exact (rep_IInv_exp a Ha (bel b) (bv b) (HF b Hb) (HIb b Hb)).
  - unfold rep_stk. apply SS_map. exact HS.
Qed.

(* ---------- krep ---------- *)

Lemma krep_cons a x e l : krep (a :: x) (e :: l) = repeat a (kof e) ++ krep x l.
Proof. reflexivity. Qed.

Lemma krep_app : forall x1 x2 l1 l2, length x1 = length l1 ->
  krep (x1 ++ x2) (l1 ++ l2) = krep x1 l1 ++ krep x2 l2.
Proof.
  intros x1 x2 l1 l2 Hl. unfold krep. rewrite (combine_app _ _ x1 x2 l1 l2 Hl). apply flat_map_app.
Qed.

Lemma rep_length_cons e B : length (rep (e :: B)) = (kof e + length (rep B))%nat.
Proof. rewrite rep_cons, app_length, repeat_length. reflexivity. Qed.

Lemma krep_repeat v : forall B, krep (repeat v (length B)) B = repeat v (length (rep B)).
Proof.
  induction B as [|e B IH]; [reflexivity|].
  cbn [length repeat]. rewrite krep_cons, IH, rep_length_cons, repeat_app. reflexivity.
Qed.

Lemma expand_rep_gen : forall bs : list (blk elt),
  flat_map (fun b => repeat (bv b) (length (bel b))) (map rep_blk bs) =
  krep (flat_map (fun b => repeat (bv b) (length (bel b))) bs) (concat (map bel bs)).
Proof.
  induction bs as [|b bs IH]; [reflexivity|].
  cbn [map flat_map concat]. rewrite krep_app by apply repeat_length.
  rewrite IH, krep_repeat. reflexivity.
Qed.

Lemma expand_rep_stk stk : expand elt (rep_stk stk) = krep (expand elt stk) (flat elt stk).
Proof. unfold expand, flat, rep_stk. rewrite <- map_rev. apply expand_rep_gen. Qed.

Lemma krep_Qeq : forall x x', Forall2 Qeq x x' -> forall l, Forall2 Qeq (krep x l) (krep x' l).
Proof.
  intros x x' HQ. induction HQ as [|p q x x' Hpq HQ IH]; intros l; [constructor|].
  destruct l as [|e l]; [constructor|].
  rewrite !krep_cons. apply Forall2_app; [|apply IH].
  induction (kof e) as [|k IHk]; cbn [repeat]; constructor; assumption.
Qed.

Lemma krep_rev : forall x l, length x = length l -> krep (rev x) (rev l) = rev (krep x l).
Proof.
  induction x as [|a x IH]; intros l Hl.
  - destruct l; [reflexivity| discriminate Hl].
  - destruct l as [|e l]; [discriminate Hl|]. cbn [length] in Hl. injection Hl as Hl.
    cbn [rev]. rewrite krep_app by (rewrite !rev_length; exact Hl).
    rewrite (IH l Hl), (krep_cons a x e l), rev_app_distr, rev_repeat.
    rewrite (krep_cons a [] e []). cbn [krep combine flat_map]. rewrite app_nil_r. reflexivity.
Qed.

Lemma krep_dir inc x l : length x = length l -> krep (dir inc x) (dir inc l) = dir inc (krep x l).
Proof. intros Hl. destruct inc; cbn [dir]; [reflexivity| apply krep_rev; exact Hl]. Qed.

Lemma rep_dir inc l : rep (dir inc l) = dir inc (rep l).
Proof. destruct inc; cbn [dir]; [reflexivity| apply rep_rev]. Qed.

(* ------------------------------------------------------------------ *)
(* World R: two certified stacks over the same data expand alike        *)
(* ------------------------------------------------------------------ *)

Section CertUnique.
Variable I : GInst.
Variables VpR VmR : g_elt I -> R -> R.
Hypothesis VpR_ok : forall e t, g_good I e -> Q2R (g_Vp I e t) = VpR e (Q2R t).
Hypothesis VmR_ok : forall e t, g_good I e -> Q2R (g_Vm I e t) = VmR e (Q2R t).
Variable L : g_elt I -> R -> R.
Variable g : R -> R.
Variable kap : g_elt I -> R.
Hypothesis g_mono : forall a b, domT a -> domT b -> (a <= b)%R -> (g a <= g b)%R.
Hypothesis kap_pos : forall e, (0 < kap e)%R.
Hypothesis SGp : forall e t u, domT t -> domT u -> (t <= u)%R ->
   (L e u - L e t >= (g u - g t) * VpR e t + kap e * (u - t)^2)%R.
Hypothesis SGm : forall e t u, domT t -> domT u -> (u <= t)%R ->
   (L e u - L e t >= (g u - g t) * VmR e t + kap e * (u - t)^2)%R.

Theorem cert_stack_unique stk1 stk2 : stack_ok I stk1 -> stack_ok I stk2 ->
  flat (g_elt I) stk1 = flat (g_elt I) stk2 ->
  map Q2R (expand (g_elt I) stk1) = map Q2R (expand (g_elt I) stk2).
Proof.
  intros Hok1 Hok2 Hflat.
  assert (kap_nonneg : forall e, (0 <= kap e)%R).
  { intros e. pose proof (kap_pos e). Lra.lra. }
  set (fit1 := map Q2R (expand (g_elt I) stk1)). set (fit2 := map Q2R (expand (g_elt I) stk2)).
  pose proof (rblocks_cert_dom I VpR VmR VpR_ok VmR_ok domT stk1 Hok1 (all_dom _ stk1)) as C1.
  pose proof (rblocks_cert_dom I VpR VmR VpR_ok VmR_ok domT stk2 Hok2 (all_dom _ stk2)) as C2.
  assert (Hl1 : length fit1 = length (flat (g_elt I) stk1)).
  { unfold fit1. rewrite map_length. apply expand_length. }
  assert (Hl2 : length fit2 = length (flat (g_elt I) stk2)).
  { unfold fit2. rewrite map_length. apply expand_length. }
  assert (Hs1 : sortedR fit1) by (apply sortedR_map_Q2R, expand_sorted; exact Hok1).
  assert (Hs2 : sortedR fit2) by (apply sortedR_map_Q2R, expand_sorted; exact Hok2).
  pose proof (cert_optimal (g_elt I) VpR VmR L g kap domT g_mono kap_nonneg SGp SGm
                (rblocks I stk1) fit2 C1) as O1.
  rewrite bdata_rblocks, bfit_rblocks in O1. fold fit1 in O1.
  specialize (O1 ltac:(rewrite Hl2, Hflat; reflexivity) Hs2 (all_dom _ fit2)).
  pose proof (kdist_nonneg (g_elt I) kap kap_nonneg (flat (g_elt I) stk1) fit2 fit1) as K.
  pose proof (cert_unique (g_elt I) VpR VmR L g kap domT g_mono kap_nonneg SGp SGm kap_pos
                (rblocks I stk2) fit1 C2) as U.
  rewrite bdata_rblocks, bfit_rblocks in U. fold fit2 in U.
  apply U; [rewrite Hl1, Hflat; reflexivity| exact Hs1| exact (all_dom _ fit1)|].
  rewrite <- Hflat. Lra.lra.
Qed.
End CertUnique.

Lemma cert_unique_mean stk1 stk2 : stack_ok mean_inst stk1 -> stack_ok mean_inst stk2 ->
  flat elt stk1 = flat elt stk2 -> Forall2 Qeq (expand elt stk1) (expand elt stk2).
Proof.
  intros H1 H2 Hf. apply map_Q2R_inj.
  exact (cert_stack_unique mean_inst VR_mean VR_mean mean_VR_ok mean_VR_ok
           Lsq g_mean wp g_mean_mono wp_pos
           (fun e t u _ _ _ => mean_SG e t u) (fun e t u _ _ _ => mean_SG e t u)
           stk1 stk2 H1 H2 Hf).
Qed.

Lemma cert_unique_exp a (Ha : 0 < a /\ a < 1) stk1 stk2 :
  stack_ok (expectile_inst a Ha) stk1 -> stack_ok (expectile_inst a Ha) stk2 ->
  flat elt stk1 = flat elt stk2 -> Forall2 Qeq (expand elt stk1) (expand elt stk2).
Proof.
  intros H1 H2 Hf. apply map_Q2R_inj.
  exact (cert_stack_unique (expectile_inst a Ha) (VR_exp a) (VR_exp a)
           (exp_VR_ok a Ha) (exp_VR_ok a Ha)
           (Las a) g_id (kap_exp a) g_id_mono (kap_exp_pos a Ha)
           (fun e t u _ _ _ => exp_SG a Ha e t u) (fun e t u _ _ _ => exp_SG a Ha e t u)
           stk1 stk2 H1 H2 Hf).
Qed.

(* ------------------------------------------------------------------ *)
(* The core on replicated data                                          *)
(* ------------------------------------------------------------------ *)

Theorem core_replicate f lvl l x r :
  (f = IFmean \/ (f = IFexpectile /\ 0 < lvl /\ lvl < 1)) -> Forall posw l -> Forall intw l ->
  iso_core f lvl l = Some (x, r) ->
  exists xx rr, iso_core f lvl (rep l) = Some (xx, rr) /\ Forall2 Qeq xx (krep x l).
Proof.
  intros Hf Gl HI H. pose proof (core_ne _ _ _ _ _ H) as Ln.
  pose proof (rep_ne l Ln HI) as Rn. pose proof (rep_posw l) as RG.
  destruct Hf as [->|[-> Hl]].
  - destruct (core_mean_cert lvl l x r Gl H) as (stk & _ & Hok & Hflat & HQ & _).
    destruct (core_total IFmean lvl (rep l) (or_introl eq_refl) RG Rn) as (xx & rr & E).
    destruct (core_mean_cert lvl (rep l) xx rr RG E) as (stkz & _ & Hokz & Hflatz & HQz & _).
    cbn [g_elt mean_inst] in *.
    exists xx, rr. split; [exact E|].
    assert (HI' : Forall intw (flat elt stk)) by (rewrite Hflat; exact HI).
    pose proof (rep_stack_ok_mean stk Hok HI') as Hok'.
    assert (Hf2 : flat elt stkz = flat elt (rep_stk stk)).
    { rewrite Hflatz, flat_rep_stk, Hflat. reflexivity. }
    pose proof (cert_unique_mean stkz (rep_stk stk) Hokz Hok' Hf2) as HU.
    rewrite expand_rep_stk, Hflat in HU.
    apply (F2_Qeq_trans _ _ _ HQz). apply (F2_Qeq_trans _ _ _ HU).
    apply krep_Qeq. apply F2_Qeq_sym. exact HQ.
  - destruct (core_exp_cert lvl Hl l x r Gl H) as (stk & _ & Hok & Hflat & HQ & _).
    destruct (core_total IFexpectile lvl (rep l) (or_intror (or_introl (conj eq_refl Hl))) RG Rn)
      as (xx & rr & E).
    destruct (core_exp_cert lvl Hl (rep l) xx rr RG E) as (stkz & _ & Hokz & Hflatz & HQz & _).
    cbn [g_elt expectile_inst] in *.
    exists xx, rr. split; [exact E|].
    assert (HI' : Forall intw (flat elt stk)) by (rewrite Hflat; exact HI).
    pose proof (rep_stack_ok_exp lvl Hl stk Hok HI') as Hok'.
    assert (Hf2 : flat elt stkz = flat elt (rep_stk stk)).
    { rewrite Hflatz, flat_rep_stk, Hflat. reflexivity. }
    pose proof (cert_unique_exp lvl Hl stkz (rep_stk stk) Hokz Hok' Hf2) as HU.
    rewrite expand_rep_stk, Hflat in HU.
    apply (F2_Qeq_trans _ _ _ HQz). apply (F2_Qeq_trans _ _ _ HU).
    apply krep_Qeq. apply F2_Qeq_sym. exact HQ.
Qed.

(* ------------------------------------------------------------------ *)
(* The model function                                                   *)
(* ------------------------------------------------------------------ *)

Lemma repl_cons v y k ks : repl (v :: y) (k :: ks) = repeat v k ++ repl y ks.
Proof. reflexivity. Qed.

Lemma combine_repeat_ones (v : Q) : forall k,
  combine (repeat v k) (map (fun _ => 1) (repeat v k)) = repeat (v, 1) k.
Proof. induction k as [|k IH]; [reflexivity|]. cbn [repeat map combine]. rewrite IH. reflexivity. Qed.

Lemma data_repl : forall y ks, length ks = length y ->
  data (repl y ks) None = rep (data y (Some (map Qnat ks))).
Proof.
  unfold data. cbn [weights_of].
  induction y as [|v y IH]; intros ks Hl.
  - destruct ks; [reflexivity| discriminate Hl].
  - destruct ks as [|k ks]; [discriminate Hl|]. cbn [length] in Hl. injection Hl as Hl.
    rewrite repl_cons, map_app, combine_app by (rewrite map_length; reflexivity).
    rewrite (IH ks Hl), combine_repeat_ones. cbn [map combine].
    rewrite rep_cons, kof_Qnat. reflexivity.
Qed.

Lemma krep_repl : forall x y ks, length x = length y -> length ks = length y ->
  krep x (combine y (map Qnat ks)) = repl x ks.
Proof.
  induction x as [|a x IH]; intros y ks Hx Hk.
  - reflexivity.
  - destruct y as [|v y]; [discriminate Hx|]. destruct ks as [|k ks]; [discriminate Hk|].
    cbn [length] in Hx, Hk. injection Hx as Hx. injection Hk as Hk.
    cbn [map combine]. rewrite krep_cons, kof_Qnat, repl_cons, (IH y ks Hx Hk). reflexivity.
Qed.

Lemma data_intw y ks : Forall (fun q => 0 < q) (map Qnat ks) ->
  Forall intw (data y (Some (map Qnat ks))).
Proof.
  intros Hp. unfold data. cbn [weights_of]. apply Forall_forall. intros [v q] Hin.
  apply in_combine_r in Hin. rewrite Forall_forall in Hp. pose proof (Hp q Hin) as Hq.
  apply in_map_iff in Hin. destruct Hin as (k & <- & _).
  apply intw_Qnat. apply Qnat_lt. exact Hq.
Qed.

Lemma dir_Forall (A : Type) (P : A -> Prop) inc (l : list A) : Forall P l -> Forall P (dir inc l).
Proof. destruct inc; cbn [dir]; [tauto| apply Forall_rev]. Qed.

(* integer case weights = repeated observations (mean and expectile) *)
Theorem iso_replication : forall y ks inc f lvl x r,
  length ks = length y -> (f = IFmean \/ f = IFexpectile) ->
  isotonic_regression y (Some (map Qnat ks)) inc f lvl = IOk (x, r) ->
  exists xx rr, isotonic_regression (repl y ks) None inc f lvl = IOk (xx, rr) /\
                Forall2 Qeq xx (repl x ks).
Proof.
  intros y ks inc f lvl x r Hk Hf H.
  pose proof (iso_contract_all _ _ _ _ _ _ _ H) as (Hlenx & _).
  destruct (iso_ok_inv _ _ _ _ _ _ _ H) as (f' & a & x0 & r0 & HP & Hcv & Hv & _ & Hcore & Ex & _).
  destruct (pre_inv _ _ _ _ _ _ _ HP) as (_ & _ & _ & _ & [(Em & _)|(_ & -> & ->)]).
  { destruct Hf as [->| ->]; discriminate Em. }
  assert (Hf' : f = IFmean \/ (f = IFexpectile /\ 0 < lvl /\ lvl < 1)).
  { destruct Hf as [->| ->]; [left; reflexivity| right]. split; [reflexivity|].
    destruct Hcv as [E|[[_ Hl]|[E _]]]; [discriminate E| exact Hl| discriminate E]. }
  set (l0 := data y (Some (map Qnat ks))) in *.
  pose proof (dir_posw inc _ (data_posw _ _ Hv)) as Gl. fold l0 in Gl.
  assert (HI : Forall intw (dir inc l0)).
  { apply dir_Forall. apply data_intw. exact (proj2 Hv). }
  destruct (core_replicate f lvl _ x0 r0 Hf' Gl HI Hcore) as (xx & rr & E & HQ).
  unfold l0 in E. rewrite rep_dir, <- (data_repl y ks Hk) in E.
  assert (HP' : pre (repl y ks) None f lvl = IOk (f, lvl, weights_of (repl y ks) None)).
  { destruct Hf as [->| ->]; [reflexivity|].
    unfold pre in HP |- *. cbn [andb] in HP |- *.
    destruct (Qle_bool lvl 0 || Qle_bool 1 lvl); [discriminate HP| reflexivity]. }
  rewrite (iso_eval _ None inc f lvl f lvl xx rr HP' E).
  eexists. eexists. split; [reflexivity|].
  assert (Hl0 : length x0 = length (dir inc l0)).
  { pose proof (core_contract f lvl _ x0 r0 Hcv Gl Hcore) as (Hc1 & _).
    rewrite map_length in Hc1. exact Hc1. }
  pose proof (F2_Qeq_dir inc _ _ HQ) as HQ'.
  rewrite <- (krep_dir inc x0 (dir inc l0) Hl0), dir_invol, <- Ex in HQ'.
  unfold l0, data in HQ'. cbn [weights_of] in HQ'.
  rewrite (krep_repl x y ks Hlenx Hk) in HQ'. exact HQ'.
Qed.

Example ex_replication :
  isotonic_regression [3; 1; 2] (Some (map Qnat [2; 1; 3]%nat)) true IFmean 0
    = IOk ([13#6; 13#6; 13#6], [0; 3]%nat) /\
  isotonic_regression (repl [3; 1; 2] [2; 1; 3]%nat) None true IFmean 0
    = IOk (repl [13#6; 13#6; 13#6] [2; 1; 3]%nat, [0; 6]%nat).
Proof. split; vm_compute; reflexivity. Qed.

Print Assumptions rep_Inv.
Print Assumptions iso_replication.
