(* C05  "Scores are consistent: the empirical functional minimises the average
         score", and
   C15  "Elementary scores are non-negative and consistent (also when eta
         coincides with an observation)".

   World R.  A weighted sample is a list S of pairs (y, w), w > 0.  A constant
   forecast c receives the total score  wtotal sc S c = sum_i w_i * sc y_i c;
   the average score is this total divided by the (positive) sum of weights, so
   comparing totals is comparing averages.  The sample's own functional t is
   characterised by its first-order condition in terms of the identification
   function V:  sum_i w_i V(y_i, t) = 0  (mean, expectile)  or
   sum_i w_i (1{t > y_i} - a) <= 0 <= sum_i w_i (1{t >= y_i} - a)  (quantile).

   Proof route: sum the pointwise sub-gradient inequalities of theory/Bregman.v
       S(y,c) - S(y,t) >= K * V(y,t)
   over the sample, weighted with the positive weights.

   The two theorems named *_refuted document a defect of the library's
   elementary QUANTILE score: at eta = y the formula
       (1{eta <= z} - 1{eta <= y}) * (1{eta >= y} - a)
   is negative for z < eta, and the sample quantile no longer minimises it. *)
From Coq Require Import Reals Lra Psatz List Bool.
Import ListNotations. Open Scope R_scope.
From MD Require Import lib.NumpyR lib.NumpyR2 spec.Scores theory.Powers theory.Bregman
  proofs.ScoreProps gen.Gen_ident gen.Gen_scoring bridge.Bridge_scoring.

(* ================================================================== *)
(* 0. vocabulary                                                       *)

(* total score functions: the value parts of the specifications *)
Definition hes_val (h a y z : R) : R := asym a y z * breg h y z.
Definition hqs_val (h a y z : R) : R := (ge_ind z y - a) * (Gq h z - Gq h y).
Definition elem_val (V : R -> R -> R) (eta y z : R) : R :=
  (le_ind eta z - le_ind eta y) * V y eta.
(* the variant with strict threshold indicators: what the library computes for the
   quantile and the median since the fix 42d574f *)
Definition elem_val_strict (V : R -> R -> R) (eta y z : R) : R :=
  (lt_ind eta z - lt_ind eta y) * V y eta.

(* sum_i w_i * sc y_i c : total weighted score of the constant forecast c *)
Fixpoint wtotal (sc : R -> R -> R) (S : list (R * R)) (c : R) : R :=
  match S with
  | [] => 0
  | (y, w) :: S' => w * sc y c + wtotal sc S' c
  end.

(* sum_i w_i * V y_i t *)
Fixpoint wsumV (V : R -> R -> R) (S : list (R * R)) (t : R) : R :=
  match S with
  | [] => 0
  | (y, w) :: S' => w * V y t + wsumV V S' t
  end.

(* ------------------------------------------------------------------ *)
(* links of the value functions to the specifications / generated code *)

Theorem hes_val_is_spec : forall h a y z,
  hes_dom h y z -> spec_hes h a y z = Ok (hes_val h a y z).
Proof. intros h a y z Hd. unfold hes_val. apply spec_hes_in. exact Hd. Qed.

Theorem hes_val_is_spec_inv : forall h a y z s,
  spec_hes h a y z = Ok s -> s = hes_val h a y z.
Proof.
  intros h a y z s H. apply spec_hes_ok in H. destruct H as [_ Hs]. exact Hs.
Qed.

Theorem hes_val_is_gen : forall h a y z,
  hes_dom h y z -> gen_hes_spo h a y z = Ok (hes_val h a y z).
Proof. intros h a y z Hd. rewrite bridge_hes. apply hes_val_is_spec. exact Hd. Qed.

Theorem hqs_val_is_spec : forall h a y z,
  hqs_dom h y z -> spec_hqs h a y z = Ok (hqs_val h a y z).
Proof. intros h a y z Hd. unfold hqs_val. apply spec_hqs_in. exact Hd. Qed.

Theorem hqs_val_is_spec_inv : forall h a y z s,
  spec_hqs h a y z = Ok s -> s = hqs_val h a y z.
Proof.
  intros h a y z s H. apply spec_hqs_ok in H. destruct H as [_ Hs]. exact Hs.
Qed.

Theorem hqs_val_is_gen : forall h a y z,
  hqs_dom h y z -> gen_hqs_spo h a y z = Ok (hqs_val h a y z).
Proof. intros h a y z Hd. rewrite bridge_hqs. apply hqs_val_is_spec. exact Hd. Qed.

Theorem elem_val_is_spec : forall eta f a y z v,
  spec_V f a y eta = Ok v ->
  spec_elem eta f a y z =
    Ok ((if elem_strict f then lt_ind eta z - lt_ind eta y else le_ind eta z - le_ind eta y) * v).
Proof.
  intros eta f a y z v H. unfold spec_elem. rewrite H. reflexivity.
Qed.

Theorem elem_val_is_gen : forall eta f a y z v,
  spec_V f a y eta = Ok v ->
  gen_elem_spo eta f a y z =
    Ok ((if elem_strict f then lt_ind eta z - lt_ind eta y else le_ind eta z - le_ind eta y) * v).
Proof.
  intros eta f a y z v H. rewrite bridge_elem. apply elem_val_is_spec. exact H.
Qed.

(* the concrete functionals: the generated elementary score IS elem_val
   (mean, expectile) resp. elem_val_strict (quantile, median) *)
Theorem elem_gen_mean : forall eta a y z,
  gen_elem_spo eta Fmean a y z = Ok (elem_val V_mean eta y z).
Proof.
  intros eta a y z. unfold elem_val.
  apply (elem_val_is_gen eta Fmean a y z (V_mean y eta)). reflexivity.
Qed.

Theorem elem_gen_expectile : forall eta a y z, 0 < a < 1 ->
  gen_elem_spo eta Fexpectile a y z = Ok (elem_val (V_expectile a) eta y z).
Proof.
  intros eta a y z [Ha0 Ha1]. unfold elem_val.
  apply (elem_val_is_gen eta Fexpectile a y z (V_expectile a y eta)).
  unfold spec_V, level_okb.
  rewrite (proj2 (Rltb_true 0 a) Ha0), (proj2 (Rltb_true a 1) Ha1). reflexivity.
Qed.

Theorem elem_gen_quantile : forall eta a y z, 0 < a < 1 ->
  gen_elem_spo eta Fquantile a y z = Ok (elem_val_strict (V_quantile a) eta y z).
Proof.
  intros eta a y z [Ha0 Ha1]. unfold elem_val_strict.
  apply (elem_val_is_gen eta Fquantile a y z (V_quantile a y eta)).
  unfold spec_V, level_okb.
  rewrite (proj2 (Rltb_true 0 a) Ha0), (proj2 (Rltb_true a 1) Ha1). reflexivity.
Qed.

Theorem elem_gen_median : forall eta a y z,
  gen_elem_spo eta Fmedian a y z = Ok (elem_val_strict (V_quantile (1/2)) eta y z).
Proof.
  intros eta a y z. unfold elem_val_strict.
  apply (elem_val_is_gen eta Fmedian a y z (V_quantile (1/2) y eta)). reflexivity.
Qed.

Lemma elem_val_Se V eta y z : elem_val V eta y z = Se V eta y z.
Proof. reflexivity. Qed.

(* ================================================================== *)
(* 1. summing pointwise inequalities over a weighted sample            *)

(* if every observation in the domain P satisfies
       sc y c - sc y t >= K * V y t,
   the totals satisfy the same inequality with the weighted V-sum *)
Lemma wtotal_subgrad (sc V : R -> R -> R) (P : R -> Prop) (K t c : R) :
  (forall y, P y -> sc y c - sc y t >= K * V y t) ->
  forall S, Forall (fun e => 0 < snd e) S -> Forall (fun e => P (fst e)) S ->
  wtotal sc S c - wtotal sc S t >= K * wsumV V S t.
Proof.
  intros Hpt S. induction S as [| [y w] S' IH]; intros Hw HP.
  - simpl. lra.
  - inversion Hw as [| e1 l1 Hw1 Hw2]; subst.
    inversion HP as [| e2 l2 HP1 HP2]; subst.
    simpl in Hw1, HP1.
    pose proof (IH Hw2 HP2) as IH'.
    pose proof (Hpt y HP1) as Hy.
    simpl.
    assert (Hm : w * (K * V y t) <= w * (sc y c - sc y t)).
    { apply Rmult_le_compat_l; lra. }
    lra.
Qed.

Lemma Forall_True_fst (S : list (R * R)) : Forall (fun e => (fun _ : R => True) (fst e)) S.
Proof. apply Forall_forall. intros e _. exact I. Qed.

Lemma wsumV_ext (V1 V2 : R -> R -> R) (t : R) :
  (forall y, V1 y t = V2 y t) -> forall S, wsumV V1 S t = wsumV V2 S t.
Proof.
  intros HE S. induction S as [| [y w] S' IH].
  - reflexivity.
  - simpl. rewrite (HE y), IH. reflexivity.
Qed.

Lemma wtotal_ext (s1 s2 : R -> R -> R) (c : R) :
  (forall y, s1 y c = s2 y c) -> forall S, wtotal s1 S c = wtotal s2 S c.
Proof.
  intros HE S. induction S as [| [y w] S' IH].
  - reflexivity.
  - simpl. rewrite (HE y), IH. reflexivity.
Qed.

Lemma V_expectile_half y t : V_expectile (1/2) y t = V_mean y t.
Proof. unfold V_expectile, V_mean. rewrite asym_half. ring. Qed.

Lemma wsumV_expectile_half S t : wsumV (V_expectile (1/2)) S t = wsumV V_mean S t.
Proof. apply wsumV_ext. intros y. apply V_expectile_half. Qed.

(* the two one-sided conditions combine: K >= 0 with a non-negative sum, or
   K <= 0 with a non-positive sum *)
Lemma prod_nonneg_pp K s : 0 <= K -> 0 <= s -> 0 <= K * s.
Proof. intros HK Hs. apply Rmult_le_pos; assumption. Qed.

Lemma prod_nonneg_mm K s : K <= 0 -> s <= 0 -> 0 <= K * s.
Proof.
  intros HK Hs. replace (K * s) with ((- K) * (- s)) by ring.
  apply Rmult_le_pos; lra.
Qed.

(* ================================================================== *)
(* 2. C05: Bregman-type scores (mean, expectile, log loss)             *)

Lemma hes_val_subgrad h a y t c :
  0 < a < 1 -> domY h y -> domZ h t -> domZ h c ->
  hes_val h a y c - hes_val h a y t
    >= (2 * (dphi h c - dphi h t)) * V_expectile a y t.
Proof.
  intros Ha Hy Ht Hc. unfold hes_val. rewrite !asym_breg_Sa.
  pose proof (Sa_subgrad (domY h) (domZ h) (phi h) (dphi h)
                (domZ_sub h) (domZ_convex h) (hes_D_nonneg h) (dphi_mono h)
                a y t c Ha Hy Ht Hc) as Hs.
  lra.
Qed.

Theorem expectile_consistent : forall h a S t c,
  0 < a < 1 -> S <> [] -> Forall (fun e => 0 < snd e) S ->
  Forall (fun e => domY h (fst e)) S -> domZ h t -> domZ h c ->
  wsumV (V_expectile a) S t = 0 ->
  wtotal (hes_val h a) S t <= wtotal (hes_val h a) S c.
Proof.
  intros h a S t c Ha _ Hw HY Ht Hc Hfoc.
  pose proof (wtotal_subgrad (hes_val h a) (V_expectile a) (domY h)
                (2 * (dphi h c - dphi h t)) t c
                (fun y Hy => hes_val_subgrad h a y t c Ha Hy Ht Hc)
                S Hw HY) as Hs.
  rewrite Hfoc, Rmult_0_r in Hs. lra.
Qed.

Theorem mean_consistent : forall h S t c,
  S <> [] -> Forall (fun e => 0 < snd e) S ->
  Forall (fun e => domY h (fst e)) S -> domZ h t -> domZ h c ->
  wsumV V_mean S t = 0 ->
  wtotal (hes_val h (1/2)) S t <= wtotal (hes_val h (1/2)) S c.
Proof.
  intros h S t c Hne Hw HY Ht Hc Hfoc.
  assert (Hhalf : 0 < 1/2 < 1) by lra.
  apply (expectile_consistent h (1/2) S t c Hhalf Hne Hw HY Ht Hc).
  rewrite wsumV_expectile_half. exact Hfoc.
Qed.

(* at level 1/2 the score is the plain Bregman divergence (times 2) *)
Lemma hes_val_half h y z : hes_val h (1/2) y z = breg h y z.
Proof. unfold hes_val. rewrite asym_half. ring. Qed.

Corollary mean_consistent_breg : forall h S t c,
  S <> [] -> Forall (fun e => 0 < snd e) S ->
  Forall (fun e => domY h (fst e)) S -> domZ h t -> domZ h c ->
  wsumV V_mean S t = 0 ->
  wtotal (breg h) S t <= wtotal (breg h) S c.
Proof.
  intros h S t c Hne Hw HY Ht Hc Hfoc.
  rewrite <- (wtotal_ext (hes_val h (1/2)) (breg h) t (fun y => hes_val_half h y t) S).
  rewrite <- (wtotal_ext (hes_val h (1/2)) (breg h) c (fun y => hes_val_half h y c) S).
  apply mean_consistent; assumption.
Qed.

(* log loss *)
Lemma llZ_convex a b x : llZ a -> llZ b -> a <= x <= b -> llZ x.
Proof. unfold llZ. intros Ha Hb Hx. lra. Qed.

Lemma logloss_subgrad y t c :
  0 <= y <= 1 -> 0 < t < 1 -> 0 < c < 1 ->
  spec_logloss y c - spec_logloss y t >= (dphi_ll c - dphi_ll t) * V_mean y t.
Proof.
  intros Hy Ht Hc. rewrite !spec_logloss_Sa.
  assert (Hhalf : 0 < 1/2 < 1) by lra.
  pose proof (Sa_subgrad llY llZ phi_ll dphi_ll llZ_sub llZ_convex ll_nonneg dphi_ll_mono
                (1/2) y t c Hhalf Hy Ht Hc) as Hs.
  rewrite V_expectile_half in Hs. exact Hs.
Qed.

Theorem logloss_consistent : forall S t c,
  S <> [] -> Forall (fun e => 0 < snd e) S ->
  Forall (fun e => 0 <= fst e <= 1) S -> 0 < t < 1 -> 0 < c < 1 ->
  wsumV V_mean S t = 0 ->
  wtotal spec_logloss S t <= wtotal spec_logloss S c.
Proof.
  intros S t c _ Hw HY Ht Hc Hfoc.
  pose proof (wtotal_subgrad spec_logloss V_mean (fun y => 0 <= y <= 1)
                (dphi_ll c - dphi_ll t) t c
                (fun y Hy => logloss_subgrad y t c Hy Ht Hc)
                S Hw HY) as Hs.
  rewrite Hfoc, Rmult_0_r in Hs. lra.
Qed.

(* ================================================================== *)
(* 3. C05: quantile-type scores                                        *)

Lemma hqs_val_Sq h a y z : hqs_val h a y z = Sq (Gq h) a y z.
Proof. reflexivity. Qed.

Theorem quantile_consistent : forall h a S t c,
  0 < a < 1 -> S <> [] -> Forall (fun e => 0 < snd e) S ->
  Forall (fun e => dQ_h h (fst e)) S -> dQ_h h t -> dQ_h h c ->
  wsumV (Vm_q a) S t <= 0 -> 0 <= wsumV (Vp_q a) S t ->
  wtotal (hqs_val h a) S t <= wtotal (hqs_val h a) S c.
Proof.
  intros h a S t c Ha _ Hw HY Ht Hc Hm Hp.
  destruct (Rle_dec t c) as [Htc | Htc].
  - (* t <= c: right sub-gradient, V+ *)
    pose proof (wtotal_subgrad (hqs_val h a) (Vp_q a) (dQ_h h)
                  (Gq h c - Gq h t) t c
                  (fun y Hy => Sq_subgrad_p (dQ_h h) (Gq h) (Gq_mono_dQ h)
                                 a y t c Ha Hy Ht Hc Htc)
                  S Hw HY) as Hs.
    pose proof (Gq_mono_dQ h t c Ht Hc Htc) as Hg.
    assert (HK : 0 <= Gq h c - Gq h t) by lra.
    pose proof (prod_nonneg_pp _ _ HK Hp) as Hn.
    lra.
  - (* c < t: left sub-gradient, V- *)
    assert (Hct : c <= t) by lra.
    pose proof (wtotal_subgrad (hqs_val h a) (Vm_q a) (dQ_h h)
                  (Gq h c - Gq h t) t c
                  (fun y Hy => Sq_subgrad_m (dQ_h h) (Gq h) (Gq_mono_dQ h)
                                 a y t c Ha Hy Ht Hc Hct)
                  S Hw HY) as Hs.
    pose proof (Gq_mono_dQ h c t Hc Ht Hct) as Hg.
    assert (HK : Gq h c - Gq h t <= 0) by lra.
    pose proof (prod_nonneg_mm _ _ HK Hm) as Hn.
    lra.
Qed.

(* ================================================================== *)
(* 4. C15: elementary scores                                           *)

(* ---- non-negativity ---- *)

Theorem elem_nonneg_mean : forall eta y z, 0 <= elem_val V_mean eta y z.
Proof. intros eta y z. rewrite elem_val_Se. apply Se_mean_nonneg. Qed.

Theorem elem_nonneg_expectile : forall a eta y z,
  0 < a < 1 -> 0 <= elem_val (V_expectile a) eta y z.
Proof. intros a eta y z Ha. rewrite elem_val_Se. apply Se_expectile_nonneg. exact Ha. Qed.

Theorem elem_nonneg_quantile_partial : forall a eta y z,
  0 < a < 1 -> eta <> y -> 0 <= elem_val (V_quantile a) eta y z.
Proof.
  intros a eta y z Ha Hne. rewrite elem_val_Se.
  apply Se_quantile_nonneg; assumption.
Qed.

(* concrete values used by the two refutations *)
Lemma le_ind_2_1 : le_ind 2 1 = 0.
Proof. apply le_ind_gt. lra. Qed.
Lemma le_ind_2_2 : le_ind 2 2 = 1.
Proof. apply le_ind_le. lra. Qed.
Lemma ge_ind_2_2 : ge_ind 2 2 = 1.
Proof. apply ge_ind_ge. lra. Qed.
Lemma Rltb_2_2 : Rltb 2 2 = false.
Proof. apply Rltb_false. lra. Qed.

Lemma elem_quantile_witness_value :
  elem_val (V_quantile (3/10)) 2 2 1 = - (7/10).
Proof.
  unfold elem_val, V_quantile. rewrite le_ind_2_1, le_ind_2_2, ge_ind_2_2. lra.
Qed.

(* the full statement is FALSE for quantiles at eta = y: the library's formula
   gives a negative score *)
Theorem elem_nonneg_quantile_refuted :
  exists a eta y z, 0 < a < 1 /\ elem_val (V_quantile a) eta y z < 0.
Proof.
  exists (3/10), 2, 2, 1. split.
  - lra.
  - rewrite elem_quantile_witness_value. lra.
Qed.

Theorem elem_zero : forall V eta z, elem_val V eta z z = 0.
Proof. intros V eta z. unfold elem_val. ring. Qed.

(* ---- consistency: mean and expectile, every eta ---- *)

Lemma elem_subgrad_mean eta y t c :
  elem_val V_mean eta y c - elem_val V_mean eta y t
    >= (gE eta c - gE eta t) * V_mean y t.
Proof.
  rewrite !elem_val_Se. destruct (Rle_dec t c) as [Htc | Htc].
  - apply Se_mean_subgrad_p. exact Htc.
  - apply Se_mean_subgrad_m. lra.
Qed.

Lemma elem_subgrad_expectile a eta y t c : 0 < a < 1 ->
  elem_val (V_expectile a) eta y c - elem_val (V_expectile a) eta y t
    >= (gE eta c - gE eta t) * V_expectile a y t.
Proof.
  intros Ha. rewrite !elem_val_Se. destruct (Rle_dec t c) as [Htc | Htc].
  - apply Se_expectile_subgrad_p; assumption.
  - apply Se_expectile_subgrad_m; [exact Ha | lra].
Qed.

Theorem elem_consistent_mean : forall eta S t c,
  Forall (fun e => 0 < snd e) S -> wsumV V_mean S t = 0 ->
  wtotal (elem_val V_mean eta) S t <= wtotal (elem_val V_mean eta) S c.
Proof.
  intros eta S t c Hw Hfoc.
  pose proof (wtotal_subgrad (elem_val V_mean eta) V_mean (fun _ => True)
                (gE eta c - gE eta t) t c
                (fun y _ => elem_subgrad_mean eta y t c)
                S Hw (Forall_True_fst S)) as Hs.
  rewrite Hfoc, Rmult_0_r in Hs. lra.
Qed.

Theorem elem_consistent_expectile : forall a eta S t c,
  0 < a < 1 -> Forall (fun e => 0 < snd e) S ->
  wsumV (V_expectile a) S t = 0 ->
  wtotal (elem_val (V_expectile a) eta) S t
    <= wtotal (elem_val (V_expectile a) eta) S c.
Proof.
  intros a eta S t c Ha Hw Hfoc.
  pose proof (wtotal_subgrad (elem_val (V_expectile a) eta) (V_expectile a)
                (fun _ => True) (gE eta c - gE eta t) t c
                (fun y _ => elem_subgrad_expectile a eta y t c Ha)
                S Hw (Forall_True_fst S)) as Hs.
  rewrite Hfoc, Rmult_0_r in Hs. lra.
Qed.

(* ---- consistency: quantile, eta not an observation ---- *)

(* right side: V_quantile a y t IS Vp_q a y t *)
Lemma elem_subgrad_quantile_p a eta y t c : 0 < a < 1 -> t <= c ->
  elem_val (V_quantile a) eta y c - elem_val (V_quantile a) eta y t
    >= (gE eta c - gE eta t) * Vp_q a y t.
Proof.
  intros Ha Htc. rewrite !elem_val_Se.
  change (Vp_q a y t) with (V_quantile a y t).
  apply Se_quantile_subgrad_p; assumption.
Qed.

(* left side: needs the strict indicator, and eta <> y *)
Lemma elem_subgrad_quantile_m a eta y t c : 0 < a < 1 -> y <> eta -> c <= t ->
  elem_val (V_quantile a) eta y c - elem_val (V_quantile a) eta y t
    >= (gE eta c - gE eta t) * Vm_q a y t.
Proof.
  intros Ha Hne Hct. unfold elem_val, gE, V_quantile, Vm_q.
  destruct (Rle_dec eta c) as [Hec | Hec].
  - (* eta <= c <= t: both indicators are 1 *)
    rewrite (le_ind_le eta c Hec). rewrite (le_ind_le eta t) by lra. lra.
  - rewrite (le_ind_gt eta c) by lra.
    destruct (Rle_dec eta t) as [Het | Het].
    + (* c < eta <= t *)
      rewrite (le_ind_le eta t Het).
      destruct (Rle_dec y eta) as [Hye | Hye].
      * (* y < eta <= t *)
        assert (Hyt : y < t) by lra.
        rewrite (ge_ind_ge eta y Hye).
        rewrite (proj2 (Rltb_true y t) Hyt). lra.
      * (* eta < y *)
        rewrite (ge_ind_lt eta y) by lra.
        destruct (Rltb y t); lra.
    + (* c <= t < eta: both indicators are 0 *)
      rewrite (le_ind_gt eta t) by lra. lra.
Qed.

Theorem elem_consistent_quantile_partial : forall a eta S t c,
  0 < a < 1 -> Forall (fun e => 0 < snd e) S ->
  Forall (fun e => fst e <> eta) S ->
  wsumV (Vm_q a) S t <= 0 -> 0 <= wsumV (Vp_q a) S t ->
  wtotal (elem_val (V_quantile a) eta) S t
    <= wtotal (elem_val (V_quantile a) eta) S c.
Proof.
  intros a eta S t c Ha Hw Hne Hm Hp.
  destruct (Rle_dec t c) as [Htc | Htc].
  - pose proof (wtotal_subgrad (elem_val (V_quantile a) eta) (Vp_q a)
                  (fun y => y <> eta) (gE eta c - gE eta t) t c
                  (fun y _ => elem_subgrad_quantile_p a eta y t c Ha Htc)
                  S Hw Hne) as Hs.
    pose proof (gE_mono eta t c Htc) as Hg.
    assert (HK : 0 <= gE eta c - gE eta t) by lra.
    pose proof (prod_nonneg_pp _ _ HK Hp) as Hn.
    lra.
  - assert (Hct : c <= t) by lra.
    pose proof (wtotal_subgrad (elem_val (V_quantile a) eta) (Vm_q a)
                  (fun y => y <> eta) (gE eta c - gE eta t) t c
                  (fun y Hy => elem_subgrad_quantile_m a eta y t c Ha Hy Hct)
                  S Hw Hne) as Hs.
    pose proof (gE_mono eta c t Hct) as Hg.
    assert (HK : gE eta c - gE eta t <= 0) by lra.
    pose proof (prod_nonneg_mm _ _ HK Hm) as Hn.
    lra.
Qed.

(* ---- ... and it FAILS when eta is an observation ---- *)
(* sample = the single observation 2 with weight 1; its 3/10-quantile is t = 2
   (both first-order conditions hold), yet the constant forecast c = 1 gets the
   strictly smaller elementary score -7/10 < 0 at eta = 2. *)
Theorem elem_consistent_quantile_refuted :
  exists a eta S t c, 0 < a < 1 /\ Forall (fun e => 0 < snd e) S /\
    wsumV (Vm_q a) S t <= 0 /\ 0 <= wsumV (Vp_q a) S t /\
    wtotal (elem_val (V_quantile a) eta) S c
      < wtotal (elem_val (V_quantile a) eta) S t.
Proof.
  exists (3/10), 2, [(2, 1)], 2, 1.
  split; [lra |].
  split; [constructor; [simpl; lra | constructor] |].
  split; [| split].
  - simpl. unfold Vm_q. rewrite Rltb_2_2. lra.
  - simpl. unfold Vp_q. rewrite ge_ind_2_2. lra.
  - simpl. rewrite elem_quantile_witness_value, elem_zero. lra.
Qed.

(* the exact values of the counterexample, for the record *)
Lemma elem_consistent_quantile_refuted_values :
  wsumV (Vm_q (3/10)) [(2, 1)] 2 = - (3/10) /\
  wsumV (Vp_q (3/10)) [(2, 1)] 2 = 7/10 /\
  wtotal (elem_val (V_quantile (3/10)) 2) [(2, 1)] 1 = - (7/10) /\
  wtotal (elem_val (V_quantile (3/10)) 2) [(2, 1)] 2 = 0.
Proof.
  simpl. unfold Vm_q, Vp_q.
  rewrite Rltb_2_2, ge_ind_2_2, elem_quantile_witness_value, elem_zero.
  repeat split; lra.
Qed.

(* ================================================================== *)
(* 5. C15 for the quantile / median AFTER the library fix 42d574f:      *)
(*    strict threshold indicators, every eta (data values included)     *)

Theorem elem_strict_zero : forall V eta z, elem_val_strict V eta z z = 0.
Proof. intros V eta z. unfold elem_val_strict. ring. Qed.

Theorem elem_strict_nonneg_quantile : forall a eta y z,
  0 < a < 1 -> 0 <= elem_val_strict (V_quantile a) eta y z.
Proof.
  intros a eta y z Ha. unfold elem_val_strict, V_quantile.
  destruct (Rlt_dec eta z) as [Hz|Hz]; destruct (Rlt_dec eta y) as [Hy|Hy].
  - rewrite (lt_ind_lt _ _ Hz), (lt_ind_lt _ _ Hy). lra.
  - rewrite (lt_ind_lt _ _ Hz), (lt_ind_ge eta y) by lra. rewrite (ge_ind_ge eta y) by lra. lra.
  - rewrite (lt_ind_ge eta z) by lra. rewrite (lt_ind_lt _ _ Hy). rewrite (ge_ind_lt eta y) by lra. lra.
  - rewrite (lt_ind_ge eta z), (lt_ind_ge eta y) by lra. lra.
Qed.

Definition gS (eta u : R) : R := lt_ind eta u.
Lemma gS_mono eta t u : t <= u -> gS eta t <= gS eta u.
Proof.
  intros H. unfold gS. destruct (Rlt_dec eta t) as [Ht|Ht].
  - rewrite (lt_ind_lt eta t Ht), (lt_ind_lt eta u) by lra. lra.
  - rewrite (lt_ind_ge eta t) by lra. unfold lt_ind. destruct (Rltb eta u); lra.
Qed.

Lemma elem_strict_subgrad_quantile_p a eta y t c : 0 < a < 1 -> t <= c ->
  elem_val_strict (V_quantile a) eta y c - elem_val_strict (V_quantile a) eta y t
    >= (gS eta c - gS eta t) * Vp_q a y t.
Proof.
  intros Ha Htc. unfold elem_val_strict, gS, V_quantile, Vp_q.
  destruct (Rlt_dec eta t) as [Het|Het].
  - rewrite (lt_ind_lt eta t Het), (lt_ind_lt eta c) by lra. lra.
  - rewrite (lt_ind_ge eta t) by lra.
    destruct (Rlt_dec eta c) as [Hec|Hec].
    + rewrite (lt_ind_lt eta c Hec).
      (* t <= eta < c: need 1{eta >= y} >= 1{t >= y} *)
      destruct (Rle_dec y t) as [Hyt|Hyt].
      * rewrite (ge_ind_ge t y Hyt), (ge_ind_ge eta y) by lra. lra.
      * rewrite (ge_ind_lt t y) by lra. unfold ge_ind. destruct (Rleb y eta); lra.
    + rewrite (lt_ind_ge eta c) by lra. lra.
Qed.

Lemma elem_strict_subgrad_quantile_m a eta y t c : 0 < a < 1 -> c <= t ->
  elem_val_strict (V_quantile a) eta y c - elem_val_strict (V_quantile a) eta y t
    >= (gS eta c - gS eta t) * Vm_q a y t.
Proof.
  intros Ha Hct. unfold elem_val_strict, gS, V_quantile, Vm_q.
  destruct (Rlt_dec eta c) as [Hec|Hec].
  - rewrite (lt_ind_lt eta c Hec), (lt_ind_lt eta t) by lra. lra.
  - rewrite (lt_ind_ge eta c) by lra.
    destruct (Rlt_dec eta t) as [Het|Het].
    + rewrite (lt_ind_lt eta t Het).
      (* c <= eta < t: need 1{eta >= y} <= 1{t > y} *)
      destruct (Rle_dec y eta) as [Hye|Hye].
      * assert (Hyt : y < t) by lra.
        rewrite (ge_ind_ge eta y Hye), (proj2 (Rltb_true y t) Hyt). lra.
      * rewrite (ge_ind_lt eta y) by lra. destruct (Rltb y t); lra.
    + rewrite (lt_ind_ge eta t) by lra. lra.
Qed.

(* FULL consistency for quantiles: every eta, data values included *)
Theorem elem_consistent_quantile : forall a eta S t c,
  0 < a < 1 -> Forall (fun e => 0 < snd e) S ->
  wsumV (Vm_q a) S t <= 0 -> 0 <= wsumV (Vp_q a) S t ->
  wtotal (elem_val_strict (V_quantile a) eta) S t
    <= wtotal (elem_val_strict (V_quantile a) eta) S c.
Proof.
  intros a eta S t c Ha Hw Hm Hp.
  destruct (Rle_dec t c) as [Htc | Htc].
  - pose proof (wtotal_subgrad (elem_val_strict (V_quantile a) eta) (Vp_q a)
                  (fun _ => True) (gS eta c - gS eta t) t c
                  (fun y _ => elem_strict_subgrad_quantile_p a eta y t c Ha Htc)
                  S Hw (Forall_True_fst S)) as Hs.
    pose proof (gS_mono eta t c Htc) as Hg.
    assert (HK : 0 <= gS eta c - gS eta t) by lra.
    pose proof (prod_nonneg_pp _ _ HK Hp) as Hn.
    lra.
  - assert (Hct : c <= t) by lra.
    pose proof (wtotal_subgrad (elem_val_strict (V_quantile a) eta) (Vm_q a)
                  (fun _ => True) (gS eta c - gS eta t) t c
                  (fun y _ => elem_strict_subgrad_quantile_m a eta y t c Ha Hct)
                  S Hw (Forall_True_fst S)) as Hs.
    pose proof (gS_mono eta c t Hct) as Hg.
    assert (HK : gS eta c - gS eta t <= 0) by lra.
    pose proof (prod_nonneg_mm _ _ HK Hm) as Hn.
    lra.
Qed.

Print Assumptions elem_strict_nonneg_quantile.
Print Assumptions elem_consistent_quantile.

Print Assumptions expectile_consistent.
Print Assumptions quantile_consistent.
Print Assumptions elem_consistent_expectile.
Print Assumptions elem_nonneg_quantile_refuted.
Print Assumptions elem_consistent_quantile_partial.
Print Assumptions elem_consistent_quantile_refuted.
Print Assumptions logloss_consistent.
