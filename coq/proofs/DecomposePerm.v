(* C07, clauses "the decomposition does not change when the rows are permuted" and "integer
   case weights give the same result as physically repeating rows", for the executable model
   model/Decompose.v.

   Part A  the recalibrated vectors of two row orders are the values of ONE function of the
           forecast (recal_perm_fun), for every functional: bridge to model/IsoFit.v
           (DecomposeProps.recal_bridge) + IsoFitPerm.fit_perm_all.  Hence all four columns
           are invariant when no repair is triggered (decomp_perm_all, every variant, every
           functional, every score that does not distinguish equal rationals), with the
           corollaries decomp_perm_expectile / decomp_perm_quantile / decomp_perm_pinball for
           the library scores (no side condition).
   Part B  the repair path of the variant with v_repair = true (`fixed`): the repaired vector
           is again the values of one function of the forecast (decomp_perm_fixed).
   Part C  replication. *)
From Coq Require Import QArith Qabs Qreduction Lqa Lia List Bool Permutation Sorted.
Import ListNotations.
Open Scope Q_scope.
From MD Require Import lib.QLists model.Functionals model.Isotonic model.Decompose
  proofs.IsoProps proofs.DecomposeProps.
From MD Require Import model.IsoFit proofs.IsoFitProps proofs.IsoFitPerm.
(* unqualified row, mkrow, row_le, insert, isort, sorted_rows are those of model/IsoFit.v; the
   ones of model/Decompose.v are written Decompose.xxx *)
Open Scope Q_scope.

(* ================================================================== *)
(* Part A.  no repair: all four columns, every functional              *)
(* ================================================================== *)

Lemma wopt_len weighted (rs : list (Q * Q * Q)) :
  match wopt weighted rs with None => True | Some wl => length wl = length (map ty rs) end.
Proof. destruct weighted; cbn [wopt]; [rewrite !map_length; reflexivity| exact Logic.I]. Qed.

Lemma F2_Qeq_map_perm_fun (P P' : Q -> Q) : forall xs : list Q,
  (forall q, P' q == P q) -> Forall2 Qeq (map P' xs) (map P xs).
Proof.
  intros xs H. induction xs as [|x xs IH]; [constructor|]. cbn [map]. constructor; [apply H| exact IH].
Qed.

(* the recalibrated vectors of two row orders are the values of one function of the forecast *)
Lemma recal_perm_fun f a weighted rs rs' r0 r0' :
  Permutation rs rs' ->
  recalibrate f a (map tx rs) (map ty rs) (wopt weighted rs) = DOk r0 ->
  recalibrate f a (map tx rs') (map ty rs') (wopt weighted rs') = DOk r0' ->
  exists P : Q -> Q, (forall q q', q == q' -> P q == P q') /\
    Forall2 Qeq r0 (map (fun t => P (tx t)) rs) /\
    Forall2 Qeq r0' (map (fun t => P (tx t)) rs').
Proof.
  intros HP Er Er'.
  assert (Lx : length (map tx rs) = length (map ty rs)) by (rewrite !map_length; reflexivity).
  assert (Lx' : length (map tx rs') = length (map ty rs')) by (rewrite !map_length; reflexivity).
  destruct (recal_bridge _ _ _ _ _ _ Lx (wopt_len weighted rs) Er) as (ft & HF & F2).
  destruct (recal_bridge _ _ _ _ _ _ Lx' (wopt_len weighted rs') Er') as (ft' & HF' & F2').
  assert (HPR : Permutation (rows_of (map tx rs) (map ty rs) (wopt weighted rs))
                            (rows_of (map tx rs') (map ty rs') (wopt weighted rs'))).
  { rewrite !rows_of_rs. apply Permutation_map. exact HP. }
  destruct (fit_perm_all _ _ _ _ _ _ _ _ _ _ _ HF HF' HPR) as (_ & _ & HE).
  exists (predict_val ft). split.
  { intros q q' Eq. exact (predict_val_proper _ _ _ _ _ _ _ q q' HF Eq). }
  apply F2_to_map in F2. apply F2_to_map in F2'. rewrite map_map in F2, F2'.
  split; [exact F2|].
  apply (F2_Qeq_trans _ _ _ F2').
  rewrite <- !(map_map tx). apply F2_Qeq_map_perm_fun.
  intros q. symmetry. apply HE. reflexivity.
Qed.

(* C07, first clause, all four columns: EVERY functional, any score that does not distinguish
   equal rationals, no repair (the smallest observation is admissible in both row orders) *)
Theorem decomp_perm_all : forall v (S : Q -> Q -> option Q),
  (forall y z z', z == z' -> S y z = S y z') ->
  forall sf_fun sf_level functional level weighted rs rs' row row',
  Permutation rs rs' ->
  allowed S (hd 0 (map ty rs)) (minQ (hd 0 (map ty rs)) (tl (map ty rs))) = true ->
  allowed S (hd 0 (map ty rs')) (minQ (hd 0 (map ty rs')) (tl (map ty rs'))) = true ->
  decompose v S sf_fun sf_level (map ty rs) [map tx rs] (wopt weighted rs) functional level = DOk [row] ->
  decompose v S sf_fun sf_level (map ty rs') [map tx rs'] (wopt weighted rs') functional level = DOk [row'] ->
  mcb row = mcb row' /\ dsc row = dsc row' /\ unc row = unc row' /\ sco row = sco row'.
Proof.
  intros v S S_proper sf_fun sf_level functional level weighted rs rs' row row' P Hadm Hadm' H H'.
  destruct (decomp_perm_score_unc v S _ _ _ _ _ _ _ _ _ P H H') as [Esco Eunc].
  destruct (decompose_inv _ _ _ _ _ _ _ _ _ _ H) as (f & a & m & ymin & ok & sm & HR).
  destruct (decompose_inv _ _ _ _ _ _ _ _ _ _ H') as (f' & a' & m' & ymin' & ok' & sm' & HR').
  destruct HR as ((fa & Hi & Ha) & Hc & Hw & Hp & _ & Hpre & Hcols).
  destruct HR' as ((fa' & Hi' & Ha') & Hc' & Hw' & Hp' & _ & Hpre' & Hcols').
  rewrite Hi in Hi'. injection Hi' as <-. rewrite Ha in Ha'. injection Ha' as <- <-.
  destruct (prelude_inv _ _ _ _ _ _ _ _ _ Hpre) as (Hn & _ & _ & Hymin & Hok).
  destruct (prelude_inv _ _ _ _ _ _ _ _ _ Hpre') as (Hn' & _ & _ & Hymin' & Hok').
  assert (Eok : ok = true) by (rewrite Hok, Hymin; exact Hadm).
  assert (Eok' : ok' = true) by (rewrite Hok', Hymin'; exact Hadm').
  cbn [columns] in Hcols, Hcols'.
  destruct (column v S f a (map ty rs) (wopt weighted rs) ymin ok sm (map tx rs)) as [r1|e] eqn:E1;
    [|discriminate Hcols].
  injection Hcols as <-.
  destruct (column v S f a (map ty rs') (wopt weighted rs') ymin' ok' sm' (map tx rs')) as [r2|e] eqn:E2;
    [|discriminate Hcols'].
  injection Hcols' as <-.
  destruct (column_inv _ _ _ _ _ _ _ _ _ _ _ E1) as (r & s & sr & Hrf & _ & Hsr & _ & ->).
  destruct (column_inv _ _ _ _ _ _ _ _ _ _ _ E2) as (r' & s' & sr' & Hrf' & _ & Hsr' & _ & ->).
  cbn [mcb dsc unc sco] in *. subst s' sm'.
  assert (Esr : sr = sr').
  { unfold recal_final in Hrf, Hrf'. rewrite Eok in Hrf. rewrite Eok' in Hrf'.
    destruct (recalibrate f a (map tx rs) (map ty rs) (wopt weighted rs)) as [r0|e] eqn:Er;
      [|discriminate Hrf].
    destruct (recalibrate f a (map tx rs') (map ty rs') (wopt weighted rs')) as [r0'|e] eqn:Er';
      [|discriminate Hrf'].
    cbn [negb andb] in Hrf, Hrf'. injection Hrf as <-. injection Hrf' as <-.
    destruct (recal_perm_fun f a weighted rs rs' r0 r0' P Er Er') as (PF & _ & F2 & F2').
    unfold avg_score in Hsr, Hsr'.
    rewrite (scores_proper S S_proper _ _ _ F2) in Hsr.
    rewrite (scores_proper S S_proper _ _ _ F2') in Hsr'.
    exact (avg_score_perm S (fun t => PF (tx t)) weighted rs rs' sr sr' P Hsr Hsr'). }
  subst sr'. repeat split; reflexivity.
Qed.

(* scores without a domain restriction: no side condition is left *)
Corollary decomp_perm_total : forall v (T : Q -> Q -> Q), (forall y z z', z == z' -> T y z = T y z') ->
  forall sf_fun sf_level functional level weighted rs rs' row row',
  Permutation rs rs' ->
  decompose v (total T) sf_fun sf_level (map ty rs) [map tx rs] (wopt weighted rs) functional level
    = DOk [row] ->
  decompose v (total T) sf_fun sf_level (map ty rs') [map tx rs'] (wopt weighted rs') functional level
    = DOk [row'] ->
  mcb row = mcb row' /\ dsc row = dsc row' /\ unc row = unc row' /\ sco row = sco row'.
Proof.
  intros v T HT sf_fun sf_level functional level weighted rs rs' row row' P H H'.
  exact (decomp_perm_all v (total T) (total_proper _ HT) _ _ _ _ weighted rs rs' row row' P
           eq_refl eq_refl H H').
Qed.

Lemma pin_score_proper a y z z' : z == z' -> pin_score a y z = pin_score a y z'.
Proof.
  intros E. unfold pin_score. rewrite (Qle_bool_proper_r y z z' E).
  apply Qred_complete. rewrite E. reflexivity.
Qed.

Lemma hqs3_score_proper a y z z' : z == z' -> hqs3_score a y z = hqs3_score a y z'.
Proof.
  intros E. unfold hqs3_score. rewrite (Qle_bool_proper_r y z z' E).
  apply Qred_complete. rewrite E. reflexivity.
Qed.

(* the expectile functional with its library score (HomogeneousExpectileScore, degree 2): the
   level of the score and of the functional need not agree for this statement *)
Corollary decomp_perm_expectile : forall v a sf_fun sf_level functional level weighted rs rs' row row',
  Permutation rs rs' ->
  decompose v (total (asq_score a)) sf_fun sf_level (map ty rs) [map tx rs] (wopt weighted rs)
    functional level = DOk [row] ->
  decompose v (total (asq_score a)) sf_fun sf_level (map ty rs') [map tx rs'] (wopt weighted rs')
    functional level = DOk [row'] ->
  mcb row = mcb row' /\ dsc row = dsc row' /\ unc row = unc row' /\ sco row = sco row'.
Proof. intros v a. exact (decomp_perm_total v (asq_score a) (asq_score_proper a)). Qed.

(* the quantile / median functional with the pinball loss and with the homogeneous quantile
   score of degree 3 *)
Corollary decomp_perm_quantile : forall v a sf_fun sf_level functional level weighted rs rs' row row',
  Permutation rs rs' ->
  decompose v (total (pin_score a)) sf_fun sf_level (map ty rs) [map tx rs] (wopt weighted rs)
    functional level = DOk [row] ->
  decompose v (total (pin_score a)) sf_fun sf_level (map ty rs') [map tx rs'] (wopt weighted rs')
    functional level = DOk [row'] ->
  mcb row = mcb row' /\ dsc row = dsc row' /\ unc row = unc row' /\ sco row = sco row'.
Proof. intros v a. exact (decomp_perm_total v (pin_score a) (pin_score_proper a)). Qed.

Corollary decomp_perm_hqs3 : forall v a sf_fun sf_level functional level weighted rs rs' row row',
  Permutation rs rs' ->
  decompose v (total (hqs3_score a)) sf_fun sf_level (map ty rs) [map tx rs] (wopt weighted rs)
    functional level = DOk [row] ->
  decompose v (total (hqs3_score a)) sf_fun sf_level (map ty rs') [map tx rs'] (wopt weighted rs')
    functional level = DOk [row'] ->
  mcb row = mcb row' /\ dsc row = dsc row' /\ unc row = unc row' /\ sco row = sco row'.
Proof. intros v a. exact (decomp_perm_total v (hqs3_score a) (hqs3_score_proper a)). Qed.
