(* C07, clauses "the decomposition does not change when the rows are permuted" and "integer
   case weights give the same result as physically repeating rows", for the executable model
   model/Decompose.v.

   Part A  the recalibrated vectors of two row orders are the values of ONE function of the
           forecast (recal_perm_fun), for every functional: bridge to model/IsoFit.v
           (DecomposeProps.recal_bridge) + IsoFitPerm.fit_perm_all.  Hence all four columns
           are invariant when no repair is triggered (decomp_perm_all, every variant, every
           functional, every score that does not distinguish equal rationals), with the
           corollaries decomp_perm_expectile / decomp_perm_quantile / decomp_perm_pinball for
           the library scores (no side condition).
   Part B  the repair path of every variant with v_repair = true (the repair is located by value;
           `fixed` = the code as it is now): the repaired vector is again the values of one
           function of the forecast, because the threshold value, the mask and the functional of
           the masked entries depend on the multiset of (recalibrated value, weight) pairs up to
           == only (repair_perm_fun).  decomp_perm_repair / decomp_perm_fixed: all four columns,
           every functional, every score that does not distinguish equal rationals and whose
           admissible predictions do not depend on the observation; no admissibility hypothesis.
           (For v_repair = false the statement is false:
           DecomposeProps.repair_not_perm_invariant_refuted.)
   Part C  integer case weights = physically repeated rows, functionals mean and expectile, all
           four columns, no repair (decomp_replication, decomp_replication_squared_error,
           decomp_replication_expectile): the two fitted models predict the same values at the
           training points (IsoFitPerm.fit_replication), weighted sums with integer weights are
           plain sums over the repeated rows.  decomp_replication_repair / _fixed: the same
           INCLUDING the repair path of the variants with v_repair = true (repair_repl).
   All theorems assume that both calls of `decompose` succeed (one forecast column; matrices:
   DecomposeProps.decomp_column_indep / decomp_columns_assemble).
   full statement, not proved: success on one row order (or on the weighted data) implies
   success on the other (with the same exception otherwise). *)
From Coq Require Import QArith Qabs Qreduction Lqa Lia List Bool Permutation Sorted.
Import ListNotations.
Open Scope Q_scope.
From MD Require Import lib.QLists model.Functionals model.Isotonic model.Decompose
  theory.GpavaMerge theory.InstMean theory.InstExpectile theory.InstQuantile
  proofs.IsoProps proofs.IsoContract proofs.DecomposeProps.
From MD Require Import model.IsoFit proofs.IsoFitProps proofs.IsoFitPerm.
(* unqualified row, mkrow, row_le, insert, isort, sorted_rows are those of model/IsoFit.v; the
   ones of model/Decompose.v are written Decompose.xxx *)
Open Scope Q_scope.

(* ================================================================== *)
(* Part A.  no repair: all four columns, every functional              *)
(* ================================================================== *)

Lemma wopt_len weighted (rs : list (Q * Q * Q)) :
  match wopt weighted rs with None => True | Some wl => length wl = length (map ty rs) end.
Proof. destruct weighted; cbn [wopt]; [rewrite !map_length; reflexivity| exact Logic.I]. Qed.

Lemma F2_Qeq_map_perm_fun (P P' : Q -> Q) : forall xs : list Q,
  (forall q, P' q == P q) -> Forall2 Qeq (map P' xs) (map P xs).
Proof.
  intros xs H. induction xs as [|x xs IH]; [constructor|]. cbn [map]. constructor; [apply H| exact IH].
Qed.

(* the recalibrated vectors of two row orders are the values of one function of the forecast *)
Lemma recal_perm_fun f a weighted rs rs' r0 r0' :
  Permutation rs rs' ->
  recalibrate f a (map tx rs) (map ty rs) (wopt weighted rs) = DOk r0 ->
  recalibrate f a (map tx rs') (map ty rs') (wopt weighted rs') = DOk r0' ->
  exists P : Q -> Q, (forall q q', q == q' -> P q == P q') /\
    Forall2 Qeq r0 (map (fun t => P (tx t)) rs) /\
    Forall2 Qeq r0' (map (fun t => P (tx t)) rs').
Proof.
  intros HP Er Er'.
  assert (Lx : length (map tx rs) = length (map ty rs)) by (rewrite !map_length; reflexivity).
  assert (Lx' : length (map tx rs') = length (map ty rs')) by (rewrite !map_length; reflexivity).
  destruct (recal_bridge _ _ _ _ _ _ Lx (wopt_len weighted rs) Er) as (ft & HF & F2).
  destruct (recal_bridge _ _ _ _ _ _ Lx' (wopt_len weighted rs') Er') as (ft' & HF' & F2').
  assert (HPR : Permutation (rows_of (map tx rs) (map ty rs) (wopt weighted rs))
                            (rows_of (map tx rs') (map ty rs') (wopt weighted rs'))).
  { rewrite !rows_of_rs. apply Permutation_map. exact HP. }
  destruct (fit_perm_all _ _ _ _ _ _ _ _ _ _ _ HF HF' HPR) as (_ & _ & HE).
  exists (predict_val ft). split.
  { intros q q' Eq. exact (predict_val_proper _ _ _ _ _ _ _ q q' HF Eq). }
  apply F2_to_map in F2. apply F2_to_map in F2'. rewrite map_map in F2, F2'.
  split; [exact F2|].
  apply (F2_Qeq_trans _ _ _ F2').
  rewrite <- !(map_map tx). apply F2_Qeq_map_perm_fun.
  intros q. symmetry. apply HE. reflexivity.
Qed.

(* C07, first clause, all four columns: EVERY functional, any score that does not distinguish
   equal rationals, no repair (the smallest observation is admissible in both row orders) *)
Theorem decomp_perm_all : forall v (S : Q -> Q -> option Q),
  (forall y z z', z == z' -> S y z = S y z') ->
  forall sf_fun sf_level functional level weighted rs rs' row row',
  Permutation rs rs' ->
  allowed S (hd 0 (map ty rs)) (minQ (hd 0 (map ty rs)) (tl (map ty rs))) = true ->
  allowed S (hd 0 (map ty rs')) (minQ (hd 0 (map ty rs')) (tl (map ty rs'))) = true ->
  decompose v S sf_fun sf_level (map ty rs) [map tx rs] (wopt weighted rs) functional level = DOk [row] ->
  decompose v S sf_fun sf_level (map ty rs') [map tx rs'] (wopt weighted rs') functional level = DOk [row'] ->
  mcb row = mcb row' /\ dsc row = dsc row' /\ unc row = unc row' /\ sco row = sco row'.
Proof.
  intros v S S_proper sf_fun sf_level functional level weighted rs rs' row row' P Hadm Hadm' H H'.
  destruct (decomp_perm_score_unc v S _ _ _ _ _ _ _ _ _ P H H') as [Esco Eunc].
  destruct (decompose_inv _ _ _ _ _ _ _ _ _ _ H) as (f & a & m & ymin & ok & sm & HR).
  destruct (decompose_inv _ _ _ _ _ _ _ _ _ _ H') as (f' & a' & m' & ymin' & ok' & sm' & HR').
  destruct HR as ((fa & Hi & Ha) & Hc & Hw & Hp & _ & Hpre & Hcols).
  destruct HR' as ((fa' & Hi' & Ha') & Hc' & Hw' & Hp' & _ & Hpre' & Hcols').
  rewrite Hi in Hi'. injection Hi' as <-. rewrite Ha in Ha'. injection Ha' as <- <-.
  destruct (prelude_inv _ _ _ _ _ _ _ _ _ Hpre) as (Hn & _ & _ & Hymin & Hok).
  destruct (prelude_inv _ _ _ _ _ _ _ _ _ Hpre') as (Hn' & _ & _ & Hymin' & Hok').
  assert (Eok : ok = true) by (rewrite Hok, Hymin; exact Hadm).
  assert (Eok' : ok' = true) by (rewrite Hok', Hymin'; exact Hadm').
  cbn [columns] in Hcols, Hcols'.
  destruct (column v S f a (map ty rs) (wopt weighted rs) ymin ok sm (map tx rs)) as [r1|e] eqn:E1;
    [|discriminate Hcols].
  injection Hcols as <-.
  destruct (column v S f a (map ty rs') (wopt weighted rs') ymin' ok' sm' (map tx rs')) as [r2|e] eqn:E2;
    [|discriminate Hcols'].
  injection Hcols' as <-.
  destruct (column_inv _ _ _ _ _ _ _ _ _ _ _ E1) as (r & s & sr & Hrf & _ & Hsr & _ & ->).
  destruct (column_inv _ _ _ _ _ _ _ _ _ _ _ E2) as (r' & s' & sr' & Hrf' & _ & Hsr' & _ & ->).
  cbn [mcb dsc unc sco] in *. subst s' sm'.
  assert (Esr : sr = sr').
  { unfold recal_final in Hrf, Hrf'. rewrite Eok in Hrf. rewrite Eok' in Hrf'.
    destruct (recalibrate f a (map tx rs) (map ty rs) (wopt weighted rs)) as [r0|e] eqn:Er;
      [|discriminate Hrf].
    destruct (recalibrate f a (map tx rs') (map ty rs') (wopt weighted rs')) as [r0'|e] eqn:Er';
      [|discriminate Hrf'].
    cbn [negb andb] in Hrf, Hrf'. injection Hrf as <-. injection Hrf' as <-.
    destruct (recal_perm_fun f a weighted rs rs' r0 r0' P Er Er') as (PF & _ & F2 & F2').
    unfold avg_score in Hsr, Hsr'.
    rewrite (scores_proper S S_proper _ _ _ F2) in Hsr.
    rewrite (scores_proper S S_proper _ _ _ F2') in Hsr'.
    exact (avg_score_perm S (fun t => PF (tx t)) weighted rs rs' sr sr' P Hsr Hsr'). }
  subst sr'. repeat split; reflexivity.
Qed.

(* scores without a domain restriction: no side condition is left *)
Corollary decomp_perm_total : forall v (T : Q -> Q -> Q), (forall y z z', z == z' -> T y z = T y z') ->
  forall sf_fun sf_level functional level weighted rs rs' row row',
  Permutation rs rs' ->
  decompose v (total T) sf_fun sf_level (map ty rs) [map tx rs] (wopt weighted rs) functional level
    = DOk [row] ->
  decompose v (total T) sf_fun sf_level (map ty rs') [map tx rs'] (wopt weighted rs') functional level
    = DOk [row'] ->
  mcb row = mcb row' /\ dsc row = dsc row' /\ unc row = unc row' /\ sco row = sco row'.
Proof.
  intros v T HT sf_fun sf_level functional level weighted rs rs' row row' P H H'.
  exact (decomp_perm_all v (total T) (total_proper _ HT) _ _ _ _ weighted rs rs' row row' P
           eq_refl eq_refl H H').
Qed.

Lemma pin_score_proper a y z z' : z == z' -> pin_score a y z = pin_score a y z'.
Proof.
  intros E. unfold pin_score. rewrite (Qle_bool_proper_r y z z' E).
  apply Qred_complete. rewrite E. reflexivity.
Qed.

Lemma hqs3_score_proper a y z z' : z == z' -> hqs3_score a y z = hqs3_score a y z'.
Proof.
  intros E. unfold hqs3_score. rewrite (Qle_bool_proper_r y z z' E).
  apply Qred_complete. rewrite E. reflexivity.
Qed.

(* the expectile functional with its library score (HomogeneousExpectileScore, degree 2): the
   level of the score and of the functional need not agree for this statement *)
Corollary decomp_perm_expectile : forall v a sf_fun sf_level functional level weighted rs rs' row row',
  Permutation rs rs' ->
  decompose v (total (asq_score a)) sf_fun sf_level (map ty rs) [map tx rs] (wopt weighted rs)
    functional level = DOk [row] ->
  decompose v (total (asq_score a)) sf_fun sf_level (map ty rs') [map tx rs'] (wopt weighted rs')
    functional level = DOk [row'] ->
  mcb row = mcb row' /\ dsc row = dsc row' /\ unc row = unc row' /\ sco row = sco row'.
Proof. intros v a. exact (decomp_perm_total v (asq_score a) (asq_score_proper a)). Qed.

(* the quantile / median functional with the pinball loss and with the homogeneous quantile
   score of degree 3 *)
Corollary decomp_perm_quantile : forall v a sf_fun sf_level functional level weighted rs rs' row row',
  Permutation rs rs' ->
  decompose v (total (pin_score a)) sf_fun sf_level (map ty rs) [map tx rs] (wopt weighted rs)
    functional level = DOk [row] ->
  decompose v (total (pin_score a)) sf_fun sf_level (map ty rs') [map tx rs'] (wopt weighted rs')
    functional level = DOk [row'] ->
  mcb row = mcb row' /\ dsc row = dsc row' /\ unc row = unc row' /\ sco row = sco row'.
Proof. intros v a. exact (decomp_perm_total v (pin_score a) (pin_score_proper a)). Qed.

Corollary decomp_perm_hqs3 : forall v a sf_fun sf_level functional level weighted rs rs' row row',
  Permutation rs rs' ->
  decompose v (total (hqs3_score a)) sf_fun sf_level (map ty rs) [map tx rs] (wopt weighted rs)
    functional level = DOk [row] ->
  decompose v (total (hqs3_score a)) sf_fun sf_level (map ty rs') [map tx rs'] (wopt weighted rs')
    functional level = DOk [row'] ->
  mcb row = mcb row' /\ dsc row = dsc row' /\ unc row = unc row' /\ sco row = sco row'.
Proof. intros v a. exact (decomp_perm_total v (hqs3_score a) (hqs3_score_proper a)). Qed.

(* ================================================================== *)
(* Part B.  the repair path (repair located by value: v_repair = true) *)
(* ================================================================== *)

(* ---------- lists of rationals with the same elements up to == ---------- *)
Definition subQ (r r' : list Q) : Prop := forall q, In q r -> exists q', In q' r' /\ q == q'.
Definition sameQ (r r' : list Q) : Prop := subQ r r' /\ subQ r' r.

Lemma sameQ_sym r r' : sameQ r r' -> sameQ r' r.
Proof. intros [H1 H2]. split; assumption. Qed.

Lemma subQ_trans a b c : subQ a b -> subQ b c -> subQ a c.
Proof.
  intros H1 H2 q Hq. destruct (H1 q Hq) as (q1 & Hq1 & E1). destruct (H2 q1 Hq1) as (q2 & Hq2 & E2).
  exists q2. split; [exact Hq2|]. rewrite E1. exact E2.
Qed.

Lemma sameQ_trans a b c : sameQ a b -> sameQ b c -> sameQ a c.
Proof. intros [H1 H2] [H3 H4]. split; eapply subQ_trans; eassumption. Qed.

Lemma sameQ_F2 a b : Forall2 Qeq a b -> sameQ a b.
Proof.
  intros H. split.
  - exact (F2_In a b H).
  - exact (F2_In b a (F2_Qeq_sym _ _ H)).
Qed.

Lemma sameQ_perm a b : Permutation a b -> sameQ a b.
Proof.
  intros H. split; intros q Hq; exists q; (split; [|reflexivity]).
  - eapply Permutation_in; [exact H| exact Hq].
  - eapply Permutation_in; [apply Permutation_sym; exact H| exact Hq].
Qed.

Lemma sameQ_nonempty a b : sameQ a b -> a <> [] -> b <> [].
Proof.
  intros [H _] Hn E. subst b. destruct a as [|q a]; [congruence|].
  destruct (H q (or_introl eq_refl)) as (q' & [] & _).
Qed.

Lemma min_list_spec r : r <> [] -> In (min_list r) r /\ forall q, In q r -> min_list r <= q.
Proof.
  destruct r as [|x l]; [congruence|]. intros _. cbn [min_list].
  destruct (minQ_le x l) as [M1 M2]. split.
  - destruct (minQ_in x l) as [E|E]; [left; symmetry; exact E| right; exact E].
  - intros q [<-|Hq]; [exact M1| exact (M2 q Hq)].
Qed.

Lemma min_list_sameQ r r' : r <> [] -> sameQ r r' -> min_list r == min_list r'.
Proof.
  intros Hn HS. pose proof (sameQ_nonempty _ _ HS Hn) as Hn'.
  destruct (min_list_spec r Hn) as [I1 L1]. destruct (min_list_spec r' Hn') as [I2 L2].
  destruct HS as [S1 S2].
  destruct (S1 _ I1) as (q' & Hq' & E1). destruct (S2 _ I2) as (q & Hq & E2).
  pose proof (L2 q' Hq'). pose proof (L1 q Hq). lra.
Qed.

Lemma min_above_spec t : forall r,
  match min_above t r with
  | None => forall q, In q r -> q <= t
  | Some m => In m r /\ t < m /\ forall q, In q r -> q <= t \/ m <= q
  end.
Proof.
  induction r as [|q r IH]; [intros q []|].
  cbn [min_above]. destruct (min_above t r) as [m|].
  - destruct IH as (Im & Hm & Hall).
    destruct (Qle_bool q t) eqn:Eq.
    + apply Qle_bool_iff in Eq. split; [right; exact Im|]. split; [exact Hm|].
      intros z [<-|Hz]; [left; exact Eq| exact (Hall z Hz)].
    + assert (Hq : t < q).
      { destruct (Qlt_le_dec t q) as [H|H]; [exact H|]. apply Qle_bool_iff in H. congruence. }
      destruct (Qle_bool q m) eqn:Eqm.
      * apply Qle_bool_iff in Eqm. split; [left; reflexivity|]. split; [exact Hq|].
        intros z [<-|Hz]; [right; lra|]. destruct (Hall z Hz) as [H|H]; [left; exact H| right; lra].
      * assert (Hmq : m < q).
        { destruct (Qlt_le_dec m q) as [H|H]; [exact H|]. apply Qle_bool_iff in H. congruence. }
        split; [right; exact Im|]. split; [exact Hm|].
        intros z [<-|Hz]; [right; lra| exact (Hall z Hz)].
  - destruct (Qle_bool q t) eqn:Eq.
    + apply Qle_bool_iff in Eq. intros z [<-|Hz]; [exact Eq| exact (IH z Hz)].
    + assert (Hq : t < q).
      { destruct (Qlt_le_dec t q) as [H|H]; [exact H|]. apply Qle_bool_iff in H. congruence. }
      split; [left; reflexivity|]. split; [exact Hq|].
      intros z [<-|Hz]; [right; lra| left; exact (IH z Hz)].
Qed.

(* val1 of repair_val *)
Definition val1_of (t : Q) (r : list Q) : Q := match min_above t r with Some m => m | None => t end.

Lemma val1_sameQ t t' r r' : t == t' -> sameQ r r' -> val1_of t r == val1_of t' r'.
Proof.
  intros Et [S1 S2]. unfold val1_of.
  pose proof (min_above_spec t r) as H. pose proof (min_above_spec t' r') as H'.
  destruct (min_above t r) as [m|]; destruct (min_above t' r') as [m'|].
  - destruct H as (Im & Hm & Hall). destruct H' as (Im' & Hm' & Hall').
    destruct (S1 _ Im) as (q' & Hq' & E1). destruct (S2 _ Im') as (q & Hq & E2).
    destruct (Hall' q' Hq') as [C|C1]; [lra|]. destruct (Hall q Hq) as [C|C2]; [lra|]. lra.
  - destruct H as (Im & Hm & _). destruct (S1 _ Im) as (q' & Hq' & E1). pose proof (H' q' Hq'). lra.
  - destruct H' as (Im' & Hm' & _). destruct (S2 _ Im') as (q & Hq & E2). pose proof (H q Hq). lra.
  - exact Et.
Qed.

(* ---------- elements up to ==, permutations up to == ---------- *)
Definition eltEq (e e' : elt) : Prop := ey e == ey e' /\ ew e == ew e'.

Inductive PermE : list elt -> list elt -> Prop :=
| pe_nil : PermE [] []
| pe_skip e e' l l' : eltEq e e' -> PermE l l' -> PermE (e :: l) (e' :: l')
| pe_swap e1 e2 l : PermE (e1 :: e2 :: l) (e2 :: e1 :: l)
| pe_trans l1 l2 l3 : PermE l1 l2 -> PermE l2 l3 -> PermE l1 l3.

Lemma eltEq_refl e : eltEq e e.
Proof. split; reflexivity. Qed.

Lemma PermE_refl : forall l, PermE l l.
Proof. induction l as [|e l IH]; [constructor|]. apply pe_skip; [apply eltEq_refl| exact IH]. Qed.

Lemma PermE_sym l l' : PermE l l' -> PermE l' l.
Proof.
  intros H. induction H as [|e e' l l' He H IH|e1 e2 l|l1 l2 l3 H1 IH1 H2 IH2].
  - constructor.
  - apply pe_skip; [destruct He; split; symmetry; assumption| exact IH].
  - apply pe_swap.
  - exact (pe_trans _ _ _ IH2 IH1).
Qed.

Lemma PermE_perm l l' : Permutation l l' -> PermE l l'.
Proof.
  intros H. induction H as [|e l l' H IH|e1 e2 l|l1 l2 l3 H1 IH1 H2 IH2].
  - constructor.
  - apply pe_skip; [apply eltEq_refl| exact IH].
  - apply pe_swap.
  - exact (pe_trans _ _ _ IH1 IH2).
Qed.

Lemma PermE_F2 l l' : Forall2 eltEq l l' -> PermE l l'.
Proof. intros H. induction H as [|e e' l l' He H IH]; [constructor| apply pe_skip; assumption]. Qed.

Lemma PermE_length l l' : PermE l l' -> length l = length l'.
Proof.
  intros H. induction H as [|e e' l l' He H IH|e1 e2 l|l1 l2 l3 H1 IH1 H2 IH2]; cbn [length]; congruence.
Qed.

Lemma PermE_wsum l l' : PermE l l' -> wsum l == wsum l'.
Proof.
  intros H. induction H as [|e e' l l' [E1 E2] H IH|e1 e2 l|l1 l2 l3 H1 IH1 H2 IH2]; cbn [wsum].
  - reflexivity.
  - rewrite IH, E1, E2. reflexivity.
  - ring.
  - rewrite IH1. exact IH2.
Qed.

Lemma PermE_wtot l l' : PermE l l' -> wtot l == wtot l'.
Proof.
  intros H. induction H as [|e e' l l' [E1 E2] H IH|e1 e2 l|l1 l2 l3 H1 IH1 H2 IH2]; cbn [wtot].
  - reflexivity.
  - rewrite IH, E2. reflexivity.
  - ring.
  - rewrite IH1. exact IH2.
Qed.

Lemma PermE_posw l l' : PermE l l' -> Forall posw l -> Forall posw l'.
Proof.
  intros H. induction H as [|e e' l l' [E1 E2] H IH|e1 e2 l|l1 l2 l3 H1 IH1 H2 IH2]; intros HF.
  - constructor.
  - constructor; [|exact (IH (Forall_inv_tail HF))].
    pose proof (Forall_inv HF) as Hp. unfold posw in *. rewrite <- E2. exact Hp.
  - pose proof (Forall_inv HF) as P1. pose proof (Forall_inv (Forall_inv_tail HF)) as P2.
    pose proof (Forall_inv_tail (Forall_inv_tail HF)) as P3.
    constructor; [exact P2| constructor; [exact P1| exact P3]].
  - exact (IH2 (IH1 HF)).
Qed.

Lemma leb_Qeq_l y y' t : y == y' -> Functionals.leb y t = Functionals.leb y' t.
Proof. intros E. unfold Functionals.leb. apply Qle_bool_Qeq; [exact E| reflexivity]. Qed.

Lemma leb_Qeq_r y y' t : y == y' -> Functionals.leb t y = Functionals.leb t y'.
Proof. intros E. unfold Functionals.leb. apply Qle_bool_Qeq; [reflexivity| exact E]. Qed.

Lemma V_expectile_eltEq a e e' t : eltEq e e' -> V_expectile a e t == V_expectile a e' t.
Proof.
  intros [E1 E2]. unfold V_expectile, kfac. rewrite (leb_Qeq_l _ _ t E1), E1, E2. reflexivity.
Qed.

Lemma PermE_hi a l l' t : PermE l l' -> hi elt (V_expectile a) l t == hi elt (V_expectile a) l' t.
Proof.
  intros H. induction H as [|e e' l l' He H IH|e1 e2 l|l1 l2 l3 H1 IH1 H2 IH2]; cbn [hi].
  - reflexivity.
  - rewrite IH, (V_expectile_eltEq a e e' t He). reflexivity.
  - ring.
  - rewrite IH1. exact IH2.
Qed.

Lemma PermE_count_le l l' t : PermE l l' -> count_le l t = count_le l' t.
Proof.
  intros H. unfold count_le.
  induction H as [|e e' l l' [E1 E2] H IH|e1 e2 l|l1 l2 l3 H1 IH1 H2 IH2]; cbn [filter].
  - reflexivity.
  - rewrite (leb_Qeq_l _ _ t E1). destruct (Functionals.leb (ey e') t); cbn [length]; rewrite IH; reflexivity.
  - destruct (Functionals.leb (ey e1) t), (Functionals.leb (ey e2) t); reflexivity.
  - rewrite IH1. exact IH2.
Qed.

Lemma PermE_negy l l' : PermE l l' -> PermE (map negy l) (map negy l').
Proof.
  intros H. induction H as [|e e' l l' [E1 E2] H IH|e1 e2 l|l1 l2 l3 H1 IH1 H2 IH2]; cbn [map].
  - constructor.
  - apply pe_skip; [|exact IH]. unfold negy, eltEq. cbn [ey ew fst snd]. split; [rewrite E1; reflexivity| exact E2].
  - apply pe_swap.
  - exact (pe_trans _ _ _ IH1 IH2).
Qed.

Lemma PermE_nonempty l l' : PermE l l' -> l <> [] -> l' <> [].
Proof.
  intros H Hn E. subst l'. apply PermE_length in H. destruct l; [congruence| discriminate H].
Qed.

Lemma PermE_qlow a l l' : 0 < a /\ a < 1 -> l <> [] -> PermE l l' -> qlow a l == qlow a l'.
Proof.
  intros Ha Hn P. pose proof (PermE_nonempty _ _ P Hn) as Hn'.
  apply Qle_antisym.
  - apply (qlow_least a Ha l _ Hn).
    rewrite (PermE_length _ _ P), (PermE_count_le _ _ _ P). apply (qlow_reaches a Ha l' Hn').
  - apply (qlow_least a Ha l' _ Hn').
    rewrite <- (PermE_length _ _ P), <- (PermE_count_le _ _ _ P). apply (qlow_reaches a Ha l Hn).
Qed.

(* the functional of the repair *)
Definition rep_fun (f : ifun) (a : Q) (l : list elt) : Q :=
  match f with
  | IFmean => wmean l
  | IFexpectile => expectile_Q a l
  | IFquantile => midq a l
  | _ => 0
  end.

Lemma rep_fun_PermE f a l l' : (has_level f = true -> 0 < a /\ a < 1) -> Forall posw l ->
  PermE l l' -> rep_fun f a l == rep_fun f a l'.
Proof.
  intros Ha Hp P. destruct f; cbn [rep_fun]; try reflexivity.
  - rewrite !wmean_eq, (PermE_wsum _ _ P), (PermE_wtot _ _ P). reflexivity.
  - destruct l as [|e l0].
    + apply PermE_length in P. destruct l'; [reflexivity| discriminate P].
    + assert (Hn : e :: l0 <> []) by discriminate.
      pose proof (Ha eq_refl) as Ha'.
      pose proof (expectile_Q_root a Ha' _ Hn Hp) as R1.
      pose proof (expectile_Q_root a Ha' l' (PermE_nonempty _ _ P Hn) (PermE_posw _ _ P Hp)) as R2.
      rewrite <- (PermE_hi a _ _ _ P) in R2.
      exact (F_root_unique a Ha' _ _ _ Hn Hp R1 R2).
  - destruct l as [|e l0].
    + apply PermE_length in P. destruct l'; [reflexivity| discriminate P].
    + assert (Hn : e :: l0 <> []) by discriminate.
      pose proof (Ha eq_refl) as Ha'.
      assert (Ha2 : 0 < 1 - a /\ 1 - a < 1) by (destruct Ha'; split; lra).
      assert (Hn2 : map negy (e :: l0) <> []) by discriminate.
      unfold midq. rewrite !Qred_correct. unfold qupp.
      rewrite (PermE_qlow a _ _ Ha' Hn P), (PermE_qlow (1 - a) _ _ Ha2 Hn2 (PermE_negy _ _ P)).
      reflexivity.
Qed.

Lemma repair_val_unfold f a wl ymin r :
  repair_val f a wl ymin r =
  let V := val1_of ymin r in
  let mask := map (fun q => Qle_bool q V) r in
  map (fun q => if Qle_bool q V then rep_fun f a (combine (select mask r) (select mask wl)) else q) r.
Proof. destruct f; reflexivity. Qed.

(* ---------- select / filter ---------- *)
Lemma select_map_filter (A : Type) (p : A -> bool) (g : A -> Q) : forall l : list A,
  select (map p l) (map g l) = map g (filter p l).
Proof.
  induction l as [|t l IH]; [reflexivity|]. cbn [map select filter].
  destruct (p t); cbn [map]; rewrite IH; reflexivity.
Qed.

Lemma select_F2 : forall r r', Forall2 Qeq r r' -> forall mask, Forall2 Qeq (select mask r) (select mask r').
Proof.
  intros r r' H. induction H as [|q q' r r' Hq H IH]; intros mask.
  - destruct mask; constructor.
  - destruct mask as [|b mask]; [constructor|]. cbn [select].
    destruct b; [constructor; [exact Hq| apply IH]| apply IH].
Qed.

Lemma mask_F2 V V' : V == V' -> forall r r', Forall2 Qeq r r' ->
  map (fun q => Qle_bool q V) r = map (fun q => Qle_bool q V') r'.
Proof.
  intros EV r r' H. induction H as [|q q' r r' Hq H IH]; [reflexivity|].
  cbn [map]. rewrite IH, (Qle_bool_Qeq q q' V V' Hq EV). reflexivity.
Qed.

Lemma combine_F2_elt : forall A A' W, Forall2 Qeq A A' -> Forall2 eltEq (combine A W) (combine A' W).
Proof.
  intros A A' W H. revert W. induction H as [|q q' A A' Hq H IH]; intros W; [constructor|].
  destruct W as [|c W]; [constructor|]. cbn [combine]. constructor; [|apply IH].
  split; [exact Hq| reflexivity].
Qed.

Lemma perm_filter (A : Type) (p : A -> bool) l l' : Permutation l l' -> Permutation (filter p l) (filter p l').
Proof.
  intros H. induction H as [|t l l' H IH|t1 t2 l|l1 l2 l3 H1 IH1 H2 IH2]; cbn [filter].
  - constructor.
  - destruct (p t); [apply perm_skip|]; exact IH.
  - destruct (p t1), (p t2); try apply Permutation_refl. apply perm_swap.
  - exact (Permutation_trans IH1 IH2).
Qed.

Lemma combine_map2 (A : Type) (g wf : A -> Q) : forall l : list A,
  combine (map g l) (map wf l) = map (fun t => (g t, wf t)) l.
Proof. induction l as [|t l IH]; [reflexivity|]. cbn [map combine]. rewrite IH. reflexivity. Qed.

Lemma map_F2_fun (G1 G2 : Q -> Q) : forall r gs, Forall2 Qeq r gs ->
  (forall q q', q == q' -> G1 q == G2 q') -> Forall2 Qeq (map G1 r) (map G2 gs).
Proof.
  intros r gs H HG. induction H as [|q q' r gs Hq H IH]; [constructor|].
  cbn [map]. constructor; [apply HG; exact Hq| exact IH].
Qed.

(* the repaired vectors of two row orders are the values of one function of the row *)
Lemma repair_perm_fun f a (g wf : Q * Q * Q -> Q) rs rs' r0 r0' ymin ymin' :
  (has_level f = true -> 0 < a /\ a < 1) -> (forall t, In t rs -> 0 < wf t) ->
  Permutation rs rs' -> ymin == ymin' ->
  Forall2 Qeq r0 (map g rs) -> Forall2 Qeq r0' (map g rs') ->
  exists G : Q -> Q,
    Forall2 Qeq (repair_val f a (map wf rs) ymin r0) (map (fun t => G (g t)) rs) /\
    Forall2 Qeq (repair_val f a (map wf rs') ymin' r0') (map (fun t => G (g t)) rs').
Proof.
  intros Ha Hpos HP Ey F2 F2'.
  rewrite !repair_val_unfold. cbv zeta.
  set (V := val1_of ymin r0). set (V' := val1_of ymin' r0').
  assert (HS : sameQ r0 r0').
  { apply (sameQ_trans _ _ _ (sameQ_F2 _ _ F2)).
    apply (sameQ_trans _ (map g rs')); [apply sameQ_perm, Permutation_map; exact HP|].
    apply sameQ_sym, sameQ_F2. exact F2'. }
  assert (EV : V == V') by (apply val1_sameQ; assumption).
  set (pr := fun t => Qle_bool (g t) V).
  set (L := map (fun t => (g t, wf t)) (filter pr rs) : list elt).
  set (L' := map (fun t => (g t, wf t)) (filter pr rs') : list elt).
  set (l2 := combine (select (map (fun q => Qle_bool q V) r0) r0)
                     (select (map (fun q => Qle_bool q V) r0) (map wf rs))).
  set (l2' := combine (select (map (fun q => Qle_bool q V') r0') r0')
                      (select (map (fun q => Qle_bool q V') r0') (map wf rs'))).
  assert (E1 : Forall2 eltEq l2 L).
  { unfold l2, L.
    rewrite (mask_F2 V V (Qeq_refl V) _ _ F2), map_map. fold pr.
    rewrite (select_map_filter _ pr wf rs), <- combine_map2.
    apply combine_F2_elt.
    rewrite <- (select_map_filter _ pr g rs). apply select_F2. exact F2. }
  assert (E2 : Forall2 eltEq l2' L').
  { unfold l2', L'.
    rewrite (mask_F2 V' V (Qeq_sym _ _ EV) _ _ F2'), map_map. fold pr.
    rewrite (select_map_filter _ pr wf rs'), <- combine_map2.
    apply combine_F2_elt.
    rewrite <- (select_map_filter _ pr g rs'). apply select_F2. exact F2'. }
  assert (PL : Permutation L L') by (apply Permutation_map, perm_filter; exact HP).
  assert (PosL : Forall posw L).
  { apply Forall_forall. intros e He. apply in_map_iff in He. destruct He as (t & <- & Ht).
    apply filter_In in Ht. unfold posw. cbn. apply Hpos. exact (proj1 Ht). }
  assert (PosL' : Forall posw L') by (exact (PermE_posw _ _ (PermE_perm _ _ PL) PosL)).
  assert (EVV : rep_fun f a l2 == rep_fun f a l2').
  { rewrite <- (rep_fun_PermE f a L l2 Ha PosL (PermE_sym _ _ (PermE_F2 _ _ E1))).
    rewrite (rep_fun_PermE f a L L' Ha PosL (PermE_perm _ _ PL)).
    exact (rep_fun_PermE f a L' l2' Ha PosL' (PermE_sym _ _ (PermE_F2 _ _ E2))). }
  set (G := fun q => if Qle_bool q V then rep_fun f a l2 else q).
  assert (EM : forall l : list (Q * Q * Q), map (fun t => G (g t)) l = map G (map g l))
    by (intros l; rewrite map_map; reflexivity).
  exists G. rewrite !EM. unfold G.
  split.
  - apply (map_F2_fun _ _ _ _ F2).
    intros q q' Eq. rewrite (Qle_bool_Qeq q q' V V Eq (Qeq_refl V)).
    destruct (Qle_bool q' V); [reflexivity| exact Eq].
  - apply (map_F2_fun _ _ _ _ F2').
    intros q q' Eq. rewrite (Qle_bool_Qeq q q' V' V Eq (Qeq_sym _ _ EV)).
    destruct (Qle_bool q' V); [symmetry; exact EVV| exact Eq].
Qed.

Lemma minQ_hd_tl (y : list Q) : y <> [] -> minQ (hd 0 y) (tl y) = min_list y.
Proof. destruct y; [congruence| reflexivity]. Qed.

(* the first observation is admissible with some prediction as soon as a score was computed *)
Lemma obs_allowed (S : Q -> Q -> option Q) y x wl s : avg_score S y x wl = Some s -> y <> [] ->
  exists z, allowed S (hd 0 y) z = true.
Proof.
  unfold avg_score. intros H Hn. destruct (scores S y x) as [ss|] eqn:E; [|discriminate H].
  destruct (scores_spec S y x ss E) as (_ & _ & H3).
  destruct y as [|y0 y']; [congruence|].
  pose proof (H3 0%nat ltac:(cbn [length]; lia)) as H0. cbn [nth] in H0.
  exists (nth 0 x 0). unfold allowed. cbn [hd]. rewrite H0. reflexivity.
Qed.

Lemma allowed_proper (S : Q -> Q -> option Q) : (forall y z z', z == z' -> S y z = S y z') ->
  forall y z z', z == z' -> allowed S y z = allowed S y z'.
Proof. intros HS y z z' E. unfold allowed. rewrite (HS y z z' E). reflexivity. Qed.

(* C07, first clause, all four columns, INCLUDING THE REPAIR PATH of the code as it is now
   (the repair locates the two lowest blocks by value: v_repair = true, e.g. `fixed`):
   every functional, every score S that does not distinguish equal rationals and whose set
   of admissible predictions does not depend on the observation (a prediction admissible for
   one scored observation is admissible for every scored observation - all library scores:
   the domain checks of y_obs and y_pred are separate) *)
Theorem decomp_perm_repair : forall v (S : Q -> Q -> option Q),
  v_repair v = true ->
  (forall y z z', z == z' -> S y z = S y z') ->
  (forall y y' z z', allowed S y z = true -> allowed S y' z' = true -> allowed S y' z = true) ->
  forall sf_fun sf_level functional level weighted rs rs' row row',
  Permutation rs rs' ->
  decompose v S sf_fun sf_level (map ty rs) [map tx rs] (wopt weighted rs) functional level = DOk [row] ->
  decompose v S sf_fun sf_level (map ty rs') [map tx rs'] (wopt weighted rs') functional level = DOk [row'] ->
  mcb row = mcb row' /\ dsc row = dsc row' /\ unc row = unc row' /\ sco row = sco row'.
Proof.
  intros v S Hv S_proper Hdom sf_fun sf_level functional level weighted rs rs' row row' P H H'.
  destruct (decomp_perm_score_unc v S _ _ _ _ _ _ _ _ _ P H H') as [Esco Eunc].
  destruct (decompose_inv _ _ _ _ _ _ _ _ _ _ H) as (f & a & m & ymin & ok & sm & HR).
  destruct (decompose_inv _ _ _ _ _ _ _ _ _ _ H') as (f' & a' & m' & ymin' & ok' & sm' & HR').
  destruct HR as ((fa & Hi & Ha) & Hc & Hw & Hp & _ & Hpre & Hcols).
  destruct HR' as ((fa' & Hi' & Ha') & Hc' & Hw' & Hp' & _ & Hpre' & Hcols').
  rewrite Hi in Hi'. injection Hi' as <-. rewrite Ha in Ha'. injection Ha' as <- <-.
  pose proof (infer_level_alias v _ _ _ _ _ _ _ Hi Ha) as Hlev.
  destruct (prelude_inv _ _ _ _ _ _ _ _ _ Hpre) as (Hn & _ & _ & Hymin & Hok).
  destruct (prelude_inv _ _ _ _ _ _ _ _ _ Hpre') as (Hn' & _ & _ & Hymin' & Hok').
  cbn [columns] in Hcols, Hcols'.
  destruct (column v S f a (map ty rs) (wopt weighted rs) ymin ok sm (map tx rs)) as [r1|e] eqn:E1;
    [|discriminate Hcols].
  injection Hcols as <-.
  destruct (column v S f a (map ty rs') (wopt weighted rs') ymin' ok' sm' (map tx rs')) as [r2|e] eqn:E2;
    [|discriminate Hcols'].
  injection Hcols' as <-.
  destruct (column_inv _ _ _ _ _ _ _ _ _ _ _ E1) as (r & s & sr & Hrf & Hsc & Hsr & _ & ->).
  destruct (column_inv _ _ _ _ _ _ _ _ _ _ _ E2) as (r' & s' & sr' & Hrf' & Hsc' & Hsr' & _ & ->).
  cbn [mcb dsc unc sco] in *. subst s' sm'.
  (* the smallest observation and its admissibility do not depend on the row order *)
  assert (Eymin : ymin == ymin').
  { rewrite Hymin, Hymin', (minQ_hd_tl _ Hn), (minQ_hd_tl _ Hn').
    apply (min_list_sameQ _ _ Hn). apply sameQ_perm, Permutation_map. exact P. }
  assert (Eok : ok = ok').
  { destruct (obs_allowed S _ _ _ _ Hsc Hn) as (z & Hz).
    destruct (obs_allowed S _ _ _ _ Hsc' Hn') as (z' & Hz').
    rewrite Hok, Hok', (allowed_proper S S_proper _ ymin' ymin (Qeq_sym _ _ Eymin)).
    destruct (allowed S (hd 0 (map ty rs)) ymin) eqn:A1;
      destruct (allowed S (hd 0 (map ty rs')) ymin) eqn:A2; try reflexivity.
    - rewrite (Hdom _ _ _ _ A1 Hz') in A2. discriminate A2.
    - rewrite (Hdom _ _ _ _ A2 Hz) in A1. discriminate A1. }
  clear Hok'. subst ok'.
  assert (Esr : sr = sr').
  { unfold recal_final in Hrf, Hrf'.
    destruct (recalibrate f a (map tx rs) (map ty rs) (wopt weighted rs)) as [r0|e] eqn:Er;
      [|discriminate Hrf].
    destruct (recalibrate f a (map tx rs') (map ty rs') (wopt weighted rs')) as [r0'|e] eqn:Er';
      [|discriminate Hrf'].
    rewrite Hv in Hrf, Hrf'. cbv iota in Hrf, Hrf'.
    destruct (recal_perm_fun f a weighted rs rs' r0 r0' P Er Er') as (PF & _ & F2 & F2').
    assert (Hrs : rs <> []) by (destruct rs; [exact (fun _ => Hn eq_refl)| discriminate]).
    assert (Hr0 : r0 <> []).
    { intros E. rewrite E in F2. apply F2_length in F2. rewrite map_length in F2.
      destruct rs; [congruence| discriminate F2]. }
    assert (HS : sameQ r0 r0').
    { apply (sameQ_trans _ _ _ (sameQ_F2 _ _ F2)).
      apply (sameQ_trans _ (map (fun t => PF (tx t)) rs')); [apply sameQ_perm, Permutation_map; exact P|].
      apply sameQ_sym, sameQ_F2. exact F2'. }
    assert (Etrig : Qle_bool (min_list r0) ymin = Qle_bool (min_list r0') ymin').
    { apply Qle_bool_Qeq; [exact (min_list_sameQ _ _ Hr0 HS)| exact Eymin]. }
    rewrite <- Etrig in Hrf'.
    unfold avg_score in Hsr, Hsr'.
    destruct (negb ok && Qle_bool (min_list r0) ymin).
    - injection Hrf as <-. injection Hrf' as <-.
      rewrite (wl_rows weighted rs) in Hsr. rewrite (wl_rows weighted rs') in Hsr'.
      set (wf := fun t : Q * Q * Q => if weighted then tw t else 1) in *.
      assert (Hpos : forall t, In t rs -> 0 < wf t).
      { intros t Ht. unfold wf. destruct weighted; [|reflexivity].
        cbn [wopt all_pos_w] in Hp. pose proof (all_pos_Forall _ Hp) as F. rewrite Forall_forall in F.
        apply F. apply in_map. exact Ht. }
      destruct (repair_perm_fun f a (fun t => PF (tx t)) wf rs rs' r0 r0' ymin ymin'
                  Hlev Hpos P Eymin F2 F2') as (G & G2 & G2').
      rewrite (scores_proper S S_proper _ _ _ G2) in Hsr.
      rewrite (scores_proper S S_proper _ _ _ G2') in Hsr'.
      subst wf. rewrite <- (wl_rows weighted rs) in Hsr. rewrite <- (wl_rows weighted rs') in Hsr'.
      exact (avg_score_perm S (fun t => G (PF (tx t))) weighted rs rs' sr sr' P Hsr Hsr').
    - injection Hrf as <-. injection Hrf' as <-.
      rewrite (scores_proper S S_proper _ _ _ F2) in Hsr.
      rewrite (scores_proper S S_proper _ _ _ F2') in Hsr'.
      exact (avg_score_perm S (fun t => PF (tx t)) weighted rs rs' sr sr' P Hsr Hsr'). }
  subst sr'. repeat split; reflexivity.
Qed.

(* the code as it is now *)
Corollary decomp_perm_fixed : forall (S : Q -> Q -> option Q),
  (forall y z z', z == z' -> S y z = S y z') ->
  (forall y y' z z', allowed S y z = true -> allowed S y' z' = true -> allowed S y' z = true) ->
  forall sf_fun sf_level functional level weighted rs rs' row row',
  Permutation rs rs' ->
  decompose fixed S sf_fun sf_level (map ty rs) [map tx rs] (wopt weighted rs) functional level = DOk [row] ->
  decompose fixed S sf_fun sf_level (map ty rs') [map tx rs'] (wopt weighted rs') functional level = DOk [row'] ->
  mcb row = mcb row' /\ dsc row = dsc row' /\ unc row = unc row' /\ sco row = sco row'.
Proof. intros S. exact (decomp_perm_repair fixed S eq_refl). Qed.

(* the hypotheses on S hold for scores with a restricted prediction domain, e.g. the squared
   error restricted to predictions z > 0 (the domain of the Poisson deviance) *)
Lemma sq_pos_proper y z z' : z == z' -> sq_pos y z = sq_pos y z'.
Proof.
  intros E. unfold sq_pos. rewrite (Qle_bool_Qeq z z' 0 0 E (Qeq_refl 0)), (sq_score_proper y z z' E).
  reflexivity.
Qed.

Lemma sq_pos_dom y y' z z' : allowed sq_pos y z = true -> allowed sq_pos y' z' = true ->
  allowed sq_pos y' z = true.
Proof. unfold allowed, sq_pos. intros H _. destruct (Qle_bool z 0); [discriminate H| reflexivity]. Qed.

(* ... and the theorem applies to the rows of finding D2 (three zero observations: the smallest
   observation is not an admissible prediction, the repair is taken) in two row orders *)
Definition d2_rows : list (Q * Q * Q) :=
  [(0, 1#2, 1); (0, 1#5, 1); (1, 3#2, 1); (2, 5#2, 1); (0, 1#10, 1); (3, 3, 1)].
Definition d2_rows_sorted : list (Q * Q * Q) :=
  [(0, 1#10, 1); (0, 1#5, 1); (0, 1#2, 1); (1, 3#2, 1); (2, 5#2, 1); (3, 3, 1)].

Example decomp_perm_fixed_example :
  exists r r',
    decompose fixed sq_pos (Some IFmean) (Some (1#2)) (map ty d2_rows) [map tx d2_rows]
      (wopt false d2_rows) None None = DOk [r] /\
    decompose fixed sq_pos (Some IFmean) (Some (1#2)) (map ty d2_rows_sorted) [map tx d2_rows_sorted]
      (wopt false d2_rows_sorted) None None = DOk [r'] /\
    mcb r = mcb r' /\ dsc r = dsc r' /\ unc r = unc r' /\ sco r = sco r'.
Proof.
  do 2 eexists. split; [vm_compute; reflexivity|]. split; [vm_compute; reflexivity|].
  apply (decomp_perm_fixed sq_pos sq_pos_proper sq_pos_dom (Some IFmean) (Some (1#2)) None None false
           d2_rows d2_rows_sorted).
  - unfold d2_rows, d2_rows_sorted.
    apply (Permutation_cons_app [_; _] [_; _; _]). cbn [app].
    apply (Permutation_cons_app [_] [_; _; _]). cbn [app].
    apply Permutation_sym. apply (Permutation_cons_app [_; _] [_]). cbn [app].
    apply Permutation_refl.
  - vm_compute. reflexivity.
  - vm_compute. reflexivity.
Qed.

(* ================================================================== *)
(* Part C.  integer case weights = physically repeated rows            *)
(*          (functionals mean and expectile)                           *)
(* ================================================================== *)
From MD Require Import proofs.IsoReplicate.

Lemma wsum_as_hi : forall l : list elt, wsum l == hi elt (fun e _ => ew e * ey e) l 0.
Proof. induction l as [|e l IH]; [reflexivity|]. cbn [wsum hi]. rewrite IH. reflexivity. Qed.

Lemma wtot_as_hi : forall l : list elt, wtot l == hi elt (fun e _ => ew e) l 0.
Proof. induction l as [|e l IH]; [reflexivity|]. cbn [wtot hi]. rewrite IH. reflexivity. Qed.

Lemma wsum_rep B : Forall intw B -> wsum (rep B) == wsum B.
Proof.
  intros HI. rewrite !wsum_as_hi. apply hi_rep; [|exact HI].
  intros e t [Ew _]. unfold unit1. cbn [ew ey fst snd]. rewrite Ew at 1. ring.
Qed.

Lemma wtot_rep B : Forall intw B -> wtot (rep B) == wtot B.
Proof.
  intros HI. rewrite !wtot_as_hi. apply hi_rep; [|exact HI].
  intros e t [Ew _]. unfold unit1. cbn [ew ey fst snd]. rewrite Ew at 1. ring.
Qed.

(* the pairs (value, 1) of a replicated vector are the replication of the pairs (value, k) *)
Lemma combine_repl_ones (ss : list Q) ks : length ks = length ss ->
  combine (repl ss ks) (repeat 1 (length (repl ss ks))) = rep (combine ss (map Qnat ks)).
Proof.
  intros L. rewrite <- ones_bridge. exact (data_repl ss ks L).
Qed.

Lemma pairs_intw (ss : list Q) ks : Forall (fun q => 0 < q) (map Qnat ks) ->
  Forall intw (combine ss (map Qnat ks)).
Proof. exact (data_intw ss ks). Qed.

Lemma repl_length_eq (a b : list Q) ks : length a = length b -> length (repl a ks) = length (repl b ks).
Proof.
  unfold repl. revert b ks. induction a as [|p a IH]; intros b ks L.
  - destruct b; [reflexivity| discriminate L].
  - destruct b as [|q b]; [discriminate L|]. injection L as L.
    destruct ks as [|k ks]; [reflexivity|]. cbn [combine flat_map fst snd].
    rewrite !app_length, !repeat_length, (IH b ks L). reflexivity.
Qed.

Section ScoreRepl.
Variable S : Q -> Q -> option Q.

Lemma scores_app : forall y1 x1 s1 y2 x2 s2, scores S y1 x1 = Some s1 -> scores S y2 x2 = Some s2 ->
  scores S (y1 ++ y2) (x1 ++ x2) = Some (s1 ++ s2).
Proof.
  induction y1 as [|b y1 IH]; intros x1 s1 y2 x2 s2 H1 H2.
  - destruct x1; [|discriminate H1]. injection H1 as <-. exact H2.
  - destruct x1 as [|c x1]; [discriminate H1|]. cbn [scores] in H1. cbn [app scores].
    destruct (S b c) as [s|]; [|discriminate H1].
    destruct (scores S y1 x1) as [ss|] eqn:E; [|discriminate H1]. injection H1 as <-.
    rewrite (IH x1 ss y2 x2 s2 E H2). reflexivity.
Qed.

Lemma scores_repeat b c s : S b c = Some s -> forall k,
  scores S (repeat b k) (repeat c k) = Some (repeat s k).
Proof.
  intros E. induction k as [|k IH]; [reflexivity|]. cbn [repeat scores]. rewrite E, IH. reflexivity.
Qed.

Lemma scores_repl : forall ys zs ks ss, length ks = length ys -> scores S ys zs = Some ss ->
  scores S (repl ys ks) (repl zs ks) = Some (repl ss ks).
Proof.
  induction ys as [|b ys IH]; intros zs ks ss L H.
  - destruct zs; [|discriminate H]. injection H as <-. reflexivity.
  - destruct zs as [|c zs]; [discriminate H|]. destruct ks as [|k ks]; [discriminate L|].
    injection L as L. cbn [scores] in H.
    destruct (S b c) as [s|] eqn:Es; [|discriminate H].
    destruct (scores S ys zs) as [ss'|] eqn:E; [|discriminate H]. injection H as <-.
    rewrite !repl_cons. apply scores_app; [apply scores_repeat; exact Es| exact (IH zs ks ss' L E)].
Qed.

Lemma scores_length : forall ys zs ss, scores S ys zs = Some ss -> length ss = length ys.
Proof. intros ys zs ss H. exact (proj1 (proj2 (scores_spec S ys zs ss H))). Qed.

(* the weighted average score with integer weights = the plain average over the repeated rows *)
Lemma avg_score_repl ys zs ks s s' : length ks = length ys ->
  Forall (fun q => 0 < q) (map Qnat ks) ->
  avg_score S ys zs (map Qnat ks) = Some s ->
  avg_score S (repl ys ks) (repl zs ks) (repeat 1 (length (repl ys ks))) = Some s' ->
  s = s'.
Proof.
  intros L Hpos H H'. unfold avg_score in H, H'.
  destruct (scores S ys zs) as [ss|] eqn:E; [|discriminate H].
  rewrite (scores_repl ys zs ks ss L E) in H'.
  injection H as <-. injection H' as <-.
  pose proof (scores_length _ _ _ E) as Ls.
  rewrite (repl_length_eq ys ss ks (eq_sym Ls)).
  rewrite (combine_repl_ones ss ks ltac:(congruence)).
  unfold wmean. apply Qred_complete.
  rewrite (wsum_rep _ (pairs_intw ss ks Hpos)), (wtot_rep _ (pairs_intw ss ks Hpos)). reflexivity.
Qed.
End ScoreRepl.

Lemma repl_const (m : Q) : forall (ys : list Q) ks, length ks = length ys ->
  repl (repeat m (length ys)) ks = repeat m (length (repl ys ks)).
Proof.
  induction ys as [|b ys IH]; intros ks L.
  - destruct ks; [reflexivity| discriminate L].
  - destruct ks as [|k ks]; [discriminate L|]. injection L as L.
    cbn [length repeat]. rewrite !repl_cons, (IH ks L), app_length, repeat_length, repeat_app. reflexivity.
Qed.

Lemma repl_F2 : forall a b, Forall2 Qeq a b -> forall ks, Forall2 Qeq (repl a ks) (repl b ks).
Proof.
  intros a b H. induction H as [|p q a b Hpq H IH]; intros ks; [constructor|].
  destruct ks as [|k ks]; [constructor|]. rewrite !repl_cons. apply Forall2_app; [|apply IH].
  induction k as [|k IHk]; cbn [repeat]; constructor; assumption.
Qed.

Lemma map_repl (P : Q -> Q) : forall xs ks, map P (repl xs ks) = repl (map P xs) ks.
Proof.
  induction xs as [|x xs IH]; intros ks; [reflexivity|].
  destruct ks as [|k ks]; [reflexivity|]. cbn [map]. rewrite !repl_cons, map_app, IH. f_equal.
  induction k as [|k IHk]; [reflexivity|]. cbn [repeat map]. rewrite IHk. reflexivity.
Qed.

(* the marginal forecast: weighted mean / expectile with integer weights = that of the repeated rows *)
Lemma marginal_repl f a ys ks m m' : f = IFmean \/ f = IFexpectile ->
  (has_level f = true -> 0 < a /\ a < 1) -> ys <> [] ->
  length ks = length ys -> Forall (fun q => 0 < q) (map Qnat ks) ->
  marginal f a ys (map Qnat ks) = Some m ->
  marginal f a (repl ys ks) (repeat 1 (length (repl ys ks))) = Some m' ->
  m = m'.
Proof.
  intros Hf Ha Hn L Hpos H H'. unfold marginal in H, H'.
  rewrite (combine_repl_ones ys ks L) in H'.
  set (B := combine ys (map Qnat ks)) in *.
  pose proof (pairs_intw ys ks Hpos) as HI. fold B in HI.
  destruct Hf as [->| ->].
  - injection H as <-. injection H' as <-. unfold wmean. apply Qred_complete.
    rewrite (wsum_rep B HI), (wtot_rep B HI). reflexivity.
  - injection H as <-. injection H' as <-.
    apply canon_eq; [apply efirst_canon| apply efirst_canon|].
    pose proof (Ha eq_refl) as Ha'.
    assert (Bn : B <> []).
    { unfold B. destruct ys as [|b ys]; [congruence|]. destruct ks as [|k ks]; [discriminate L| discriminate]. }
    assert (Bp : Forall posw B).
    { unfold B. apply Forall_forall. intros [v q] Hin. apply in_combine_r in Hin.
      rewrite Forall_forall in Hpos. exact (Hpos q Hin). }
    pose proof (expectile_Q_root a Ha' B Bn Bp) as R1.
    pose proof (expectile_Q_root a Ha' (rep B) (rep_ne B Bn HI) (rep_posw B)) as R2.
    rewrite (hi_rep (V_expectile a) (exp_Vlin a) B _ HI) in R2.
    exact (F_root_unique a Ha' B _ _ Bn Bp R1 R2).
Qed.

Lemma In_repl q : forall xs ks, In q (repl xs ks) -> In q xs.
Proof.
  induction xs as [|x xs IH]; intros ks H; [destruct ks; destruct H|].
  destruct ks as [|k ks]; [destruct H|]. rewrite repl_cons in H. apply in_app_or in H.
  destruct H as [H|H]; [apply repeat_spec in H; left; symmetry; exact H| right; exact (IH ks H)].
Qed.

(* the recalibrated vector of the repeated rows is the replication of the recalibrated vector *)
Lemma recal_repl f a xs ys ks r0 r0' : f = IFmean \/ f = IFexpectile ->
  length xs = length ys -> length ks = length ys ->
  recalibrate f a xs ys (Some (map Qnat ks)) = DOk r0 ->
  recalibrate f a (repl xs ks) (repl ys ks) None = DOk r0' ->
  Forall2 Qeq r0' (repl r0 ks).
Proof.
  intros Hf Lx Lk Er Er'.
  assert (Lw : length (map Qnat ks) = length ys) by (rewrite map_length; exact Lk).
  destruct (recal_bridge f a xs ys (Some (map Qnat ks)) r0 Lx Lw Er) as (ft & HF & F2).
  assert (Lx' : length (repl xs ks) = length (repl ys ks)) by (apply repl_length_eq; exact Lx).
  destruct (recal_bridge f a (repl xs ks) (repl ys ks) None r0' Lx' Logic.I Er') as (ft' & HF' & F2').
  destruct (fit_replication xs ys ks true Lx Lk f a ft ft' Hf HF HF') as [HE _].
  apply F2_to_map in F2. apply F2_to_map in F2'.
  apply (F2_Qeq_trans _ _ _ F2').
  apply (F2_Qeq_trans _ (map (predict_val ft) (repl xs ks))).
  - assert (Hall : forall q, In q (repl xs ks) -> predict_val ft' q == predict_val ft q).
    { intros q Hq. apply In_repl in Hq. destruct (In_nth _ _ 0 Hq) as (k & Hk & <-).
      destruct (rows_of_nth xs ys (Some (map Qnat ks)) k Lx Lw Hk) as (rw & Hin & <-).
      symmetry. exact (HE rw Hin). }
    revert Hall. generalize (repl xs ks) as l. intros l.
    induction l as [|q l IH]; intros Hall; [constructor|]. cbn [map]. constructor.
    + apply Hall. left. reflexivity.
    + apply IH. intros q0 H0. apply Hall. right. exact H0.
  - rewrite map_repl. apply repl_F2. apply F2_Qeq_sym. exact F2.
Qed.

Lemma sameQ_repl ys ks : length ks = length ys -> Forall (fun q => 0 < q) (map Qnat ks) ->
  sameQ ys (repl ys ks).
Proof.
  intros L Hpos. split.
  - revert ks L Hpos. induction ys as [|b ys IH]; intros ks L Hpos q Hq; [destruct Hq|].
    destruct ks as [|k ks]; [discriminate L|]. injection L as L. cbn [map] in Hpos.
    pose proof (Forall_inv Hpos) as Hk. apply Qnat_pos_ge1 in Hk.
    rewrite repl_cons. destruct Hq as [<-|Hq].
    + exists b. split; [|reflexivity]. apply in_or_app. left.
      destruct k as [|k]; [lia|]. left. reflexivity.
    + destruct (IH ks L (Forall_inv_tail Hpos) q Hq) as (q' & Hq' & E).
      exists q'. split; [apply in_or_app; right; exact Hq'| exact E].
  - intros q Hq. exists q. split; [exact (In_repl q ys ks Hq)| reflexivity].
Qed.

Lemma hd_repl (ys : list Q) ks : length ks = length ys -> Forall (fun q => 0 < q) (map Qnat ks) ->
  hd 0 (repl ys ks) = hd 0 ys.
Proof.
  intros L Hpos. destruct ys as [|b ys]; [destruct ks; [reflexivity| discriminate L]|].
  destruct ks as [|k ks]; [discriminate L|]. cbn [map] in Hpos.
  pose proof (Forall_inv Hpos) as Hk. apply Qnat_pos_ge1 in Hk.
  rewrite repl_cons. destruct k as [|k]; [lia|]. reflexivity.
Qed.

(* C07, second clause: integer case weights k_i give the same four numbers as physically
   repeating row i k_i times.  Functionals mean and expectile, every score that does not
   distinguish equal rationals, every variant, no repair (the smallest observation is an
   admissible prediction). *)
Theorem decomp_replication : forall v (S : Q -> Q -> option Q),
  (forall y z z', z == z' -> S y z = S y z') ->
  forall sf_fun sf_level functional level f a ys xs ks row row',
  length xs = length ys -> length ks = length ys ->
  infer sf_fun sf_level functional level = DOk (f, a) -> f = IFmean \/ f = IFexpectile ->
  allowed S (hd 0 ys) (minQ (hd 0 ys) (tl ys)) = true ->
  decompose v S sf_fun sf_level ys [xs] (Some (map Qnat ks)) functional level = DOk [row] ->
  decompose v S sf_fun sf_level (repl ys ks) [repl xs ks] None functional level = DOk [row'] ->
  mcb row = mcb row' /\ dsc row = dsc row' /\ unc row = unc row' /\ sco row = sco row'.
Proof.
  intros v S S_proper sf_fun sf_level functional level f a ys xs ks row row' Lx Lk Hinf Hf Hadm H H'.
  destruct (decompose_inv _ _ _ _ _ _ _ _ _ _ H) as (f1 & a1 & m & ymin & ok & sm & HR).
  destruct (decompose_inv _ _ _ _ _ _ _ _ _ _ H') as (f2 & a2 & m' & ymin' & ok' & sm' & HR').
  destruct HR as ((fa & Hi & Ha) & Hc & Hw & Hp & _ & Hpre & Hcols).
  destruct HR' as ((fa' & Hi' & Ha') & Hc' & Hw' & Hp' & _ & Hpre' & Hcols').
  rewrite Hinf in Hi, Hi'. injection Hi as <-. injection Hi' as <-.
  assert (Hfm : f <> IFmedian) by (destruct Hf as [->| ->]; discriminate).
  rewrite (alias_id v f a Hfm) in Ha, Ha'. injection Ha as <- <-. injection Ha' as <- <-.
  pose proof (infer_level _ _ _ _ _ _ Hinf) as Hlev.
  destruct (prelude_inv _ _ _ _ _ _ _ _ _ Hpre) as (Hn & Hm & Hs & Hymin & Hok).
  destruct (prelude_inv _ _ _ _ _ _ _ _ _ Hpre') as (Hn' & Hm' & Hs' & Hymin' & Hok').
  cbn [weights_or_ones] in Hm, Hs, Hm', Hs'.
  assert (Hpos : Forall (fun q => 0 < q) (map Qnat ks)).
  { cbn [all_pos_w] in Hp. exact (all_pos_Forall _ Hp). }
  (* the marginal and the uncertainty *)
  pose proof (marginal_repl f a ys ks m m' Hf Hlev Hn Lk Hpos Hm Hm') as Em. subst m'.
  rewrite <- (repl_const m ys ks Lk) in Hs'.
  pose proof (avg_score_repl S ys _ ks sm sm' Lk Hpos Hs Hs') as Esm. subst sm'.
  (* no repair on either side *)
  assert (Eymin : ymin == ymin').
  { rewrite Hymin, Hymin', (minQ_hd_tl _ Hn), (minQ_hd_tl _ Hn').
    apply (min_list_sameQ _ _ Hn). exact (sameQ_repl ys ks Lk Hpos). }
  assert (Eok : ok = true) by (rewrite Hok, Hymin; exact Hadm).
  assert (Eok' : ok' = true).
  { rewrite Hok', (hd_repl ys ks Lk Hpos), <- (allowed_proper S S_proper _ _ _ Eymin), Hymin. exact Hadm. }
  cbn [columns] in Hcols, Hcols'.
  destruct (column v S f a ys (Some (map Qnat ks)) ymin ok sm xs) as [r1|e] eqn:E1; [|discriminate Hcols].
  injection Hcols as <-.
  destruct (column v S f a (repl ys ks) None ymin' ok' sm (repl xs ks)) as [r2|e] eqn:E2; [|discriminate Hcols'].
  injection Hcols' as <-.
  destruct (column_inv _ _ _ _ _ _ _ _ _ _ _ E1) as (r & s & sr & Hrf & Hsc & Hsr & _ & ->).
  destruct (column_inv _ _ _ _ _ _ _ _ _ _ _ E2) as (r' & s' & sr' & Hrf' & Hsc' & Hsr' & _ & ->).
  cbn [weights_or_ones] in Hsc, Hsr, Hsc', Hsr'.
  pose proof (avg_score_repl S ys xs ks s s' Lk Hpos Hsc Hsc') as Es. subst s'.
  assert (Esr : sr = sr').
  { unfold recal_final in Hrf, Hrf'. rewrite Eok in Hrf. rewrite Eok' in Hrf'.
    destruct (recalibrate f a xs ys (Some (map Qnat ks))) as [r0|e] eqn:Er; [|discriminate Hrf].
    destruct (recalibrate f a (repl xs ks) (repl ys ks) None) as [r0'|e] eqn:Er'; [|discriminate Hrf'].
    cbn [negb andb] in Hrf, Hrf'. injection Hrf as <-. injection Hrf' as <-.
    pose proof (recal_repl f a xs ys ks r0 r0' Hf Lx Lk Er Er') as F2.
    unfold avg_score in Hsr'. rewrite (scores_proper S S_proper _ _ _ F2) in Hsr'.
    exact (avg_score_repl S ys r0 ks sr sr' Lk Hpos Hsr Hsr'). }
  subst sr'. cbn [mcb dsc unc sco]. repeat split; reflexivity.
Qed.

(* the library scores of the two functionals: no side condition is left *)
Corollary decomp_replication_squared_error :
  forall v sf_fun sf_level functional level a ys xs ks row row',
  length xs = length ys -> length ks = length ys ->
  infer sf_fun sf_level functional level = DOk (IFmean, a) ->
  decompose v (total sq_score) sf_fun sf_level ys [xs] (Some (map Qnat ks)) functional level = DOk [row] ->
  decompose v (total sq_score) sf_fun sf_level (repl ys ks) [repl xs ks] None functional level = DOk [row'] ->
  mcb row = mcb row' /\ dsc row = dsc row' /\ unc row = unc row' /\ sco row = sco row'.
Proof.
  intros v sf_fun sf_level functional level a ys xs ks row row' Lx Lk Hi H H'.
  exact (decomp_replication v (total sq_score) (total_proper _ sq_score_proper) _ _ _ _ IFmean a
           ys xs ks row row' Lx Lk Hi (or_introl eq_refl) eq_refl H H').
Qed.

Corollary decomp_replication_expectile :
  forall v b sf_fun sf_level functional level a ys xs ks row row',
  length xs = length ys -> length ks = length ys ->
  infer sf_fun sf_level functional level = DOk (IFexpectile, a) ->
  decompose v (total (asq_score b)) sf_fun sf_level ys [xs] (Some (map Qnat ks)) functional level = DOk [row] ->
  decompose v (total (asq_score b)) sf_fun sf_level (repl ys ks) [repl xs ks] None functional level = DOk [row'] ->
  mcb row = mcb row' /\ dsc row = dsc row' /\ unc row = unc row' /\ sco row = sco row'.
Proof.
  intros v b sf_fun sf_level functional level a ys xs ks row row' Lx Lk Hi H H'.
  exact (decomp_replication v (total (asq_score b)) (total_proper _ (asq_score_proper b)) _ _ _ _ IFexpectile a
           ys xs ks row row' Lx Lk Hi (or_intror eq_refl) eq_refl H H').
Qed.

Example decomp_replication_example :
  exists r r',
    decompose fixed (total (asq_score (1#5))) (Some IFexpectile) (Some (1#5)) [3; 1; 2; 2] [[1; 2; 2; 3]]
      (Some (map Qnat [2; 1; 3; 1]%nat)) None None = DOk [r] /\
    decompose fixed (total (asq_score (1#5))) (Some IFexpectile) (Some (1#5))
      (repl [3; 1; 2; 2] [2; 1; 3; 1]%nat) [repl [1; 2; 2; 3] [2; 1; 3; 1]%nat] None None None = DOk [r'] /\
    mcb r = mcb r' /\ dsc r = dsc r' /\ unc r = unc r' /\ sco r = sco r'.
Proof.
  do 2 eexists. split; [vm_compute; reflexivity|]. split; [vm_compute; reflexivity|].
  apply (decomp_replication_expectile fixed (1#5) (Some IFexpectile) (Some (1#5)) None None (1#5)
           [3; 1; 2; 2] [1; 2; 2; 3] [2; 1; 3; 1]%nat); try reflexivity; vm_compute; reflexivity.
Qed.

(* ---------- replication on the repair path (v_repair = true) ---------- *)

Lemma select_combine_filter (p : Q -> bool) : forall (r w : list Q), length w = length r ->
  combine (select (map p r) r) (select (map p r) w) = filter (fun e : elt => p (fst e)) (combine r w).
Proof.
  induction r as [|q r IH]; intros w L; [reflexivity|].
  destruct w as [|c w]; [discriminate L|]. injection L as L.
  cbn [map select combine filter fst]. destruct (p q); cbn [combine]; rewrite (IH w L); reflexivity.
Qed.

Lemma filter_rep (pe : elt -> bool) : (forall e, pe (unit1 e) = pe e) ->
  forall B, filter pe (rep B) = rep (filter pe B).
Proof.
  intros Hpe. induction B as [|e B IH]; [reflexivity|].
  rewrite rep_cons, filter_app, IH. cbn [filter].
  assert (E : filter pe (repeat (unit1 e) (kof e)) = if pe e then repeat (unit1 e) (kof e) else []).
  { induction (kof e) as [|k IHk]; [destruct (pe e); reflexivity|].
    cbn [repeat filter]. rewrite Hpe, IHk. destruct (pe e); reflexivity. }
  rewrite E. destruct (pe e); [rewrite rep_cons; reflexivity| reflexivity].
Qed.

Lemma rep_fun_rep f a B : f = IFmean \/ f = IFexpectile -> (has_level f = true -> 0 < a /\ a < 1) ->
  Forall intw B -> Forall posw B -> rep_fun f a (rep B) == rep_fun f a B.
Proof.
  intros Hf Ha HI Hp. destruct Hf as [->| ->]; cbn [rep_fun].
  - rewrite !wmean_eq, (wsum_rep B HI), (wtot_rep B HI). reflexivity.
  - destruct B as [|e B]; [reflexivity|].
    assert (Bn : e :: B <> []) by discriminate. pose proof (Ha eq_refl) as Ha'.
    pose proof (expectile_Q_root a Ha' _ Bn Hp) as R1.
    pose proof (expectile_Q_root a Ha' (rep (e :: B)) (rep_ne _ Bn HI) (rep_posw _)) as R2.
    rewrite (hi_rep (V_expectile a) (exp_Vlin a) _ _ HI) in R2.
    symmetry. exact (F_root_unique a Ha' _ _ _ Bn Hp R1 R2).
Qed.

Lemma filter_Forall (A : Type) (P : A -> Prop) (p : A -> bool) (l : list A) :
  Forall P l -> Forall P (filter p l).
Proof.
  intros H. apply Forall_forall. intros x Hx. apply filter_In in Hx. rewrite Forall_forall in H.
  exact (H x (proj1 Hx)).
Qed.

(* the repaired vector of the repeated rows is the replication of the repaired vector *)
Lemma repair_repl f a r0 r0' ks ymin ymin' : f = IFmean \/ f = IFexpectile ->
  (has_level f = true -> 0 < a /\ a < 1) ->
  length ks = length r0 -> Forall (fun q => 0 < q) (map Qnat ks) -> ymin == ymin' ->
  Forall2 Qeq r0' (repl r0 ks) ->
  Forall2 Qeq (repair_val f a (repeat 1 (length (repl r0 ks))) ymin' r0')
              (repl (repair_val f a (map Qnat ks) ymin r0) ks).
Proof.
  intros Hf Ha Lk Hpos Ey F2.
  rewrite !repair_val_unfold. cbv zeta.
  set (V := val1_of ymin r0). set (V' := val1_of ymin' r0').
  assert (EV : V == V').
  { apply val1_sameQ; [exact Ey|].
    apply (sameQ_trans _ _ _ (sameQ_repl r0 ks Lk Hpos)). apply sameQ_sym, sameQ_F2. exact F2. }
  set (p := fun q => Qle_bool q V).
  set (l2 := combine (select (map p r0) r0) (select (map p r0) (map Qnat ks))).
  set (l2' := combine (select (map (fun q => Qle_bool q V') r0') r0')
                      (select (map (fun q => Qle_bool q V') r0') (repeat 1 (length (repl r0 ks))))).
  assert (Lw : length (map Qnat ks) = length r0) by (rewrite map_length; exact Lk).
  assert (E2 : l2 = filter (fun e : elt => p (fst e)) (combine r0 (map Qnat ks))).
  { unfold l2. apply select_combine_filter. exact Lw. }
  assert (HI : Forall intw l2) by (rewrite E2; apply filter_Forall; exact (pairs_intw r0 ks Hpos)).
  assert (Hp : Forall posw l2).
  { rewrite E2. apply filter_Forall. apply Forall_forall. intros [v q] Hin. apply in_combine_r in Hin.
    rewrite Forall_forall in Hpos. exact (Hpos q Hin). }
  assert (E1 : Forall2 eltEq l2' (rep l2)).
  { assert (Er : rep l2 = combine (select (map p (repl r0 ks)) (repl r0 ks))
                                  (select (map p (repl r0 ks)) (repeat 1 (length (repl r0 ks))))).
    { rewrite (select_combine_filter p _ _ (repeat_length _ _)), (combine_repl_ones r0 ks Lk), E2.
      symmetry. apply filter_rep. intros e. reflexivity. }
    rewrite Er. unfold l2'.
    rewrite (mask_F2 V' V (Qeq_sym _ _ EV) _ _ F2). fold p.
    apply combine_F2_elt. apply select_F2. exact F2. }
  assert (EVV : rep_fun f a l2' == rep_fun f a l2).
  { rewrite <- (rep_fun_rep f a l2 Hf Ha HI Hp).
    symmetry. apply (rep_fun_PermE f a (rep l2) l2' Ha (rep_posw l2)).
    apply PermE_sym, PermE_F2. exact E1. }
  rewrite <- map_repl. apply (map_F2_fun _ _ _ _ F2).
  intros q q' Eq. rewrite (Qle_bool_Qeq q q' V' V Eq (Qeq_sym _ _ EV)).
  destruct (Qle_bool q' V); [exact EVV| exact Eq].
Qed.

(* C07, second clause, INCLUDING THE REPAIR PATH of the code as it is now (v_repair = true) *)
Theorem decomp_replication_repair : forall v (S : Q -> Q -> option Q),
  v_repair v = true ->
  (forall y z z', z == z' -> S y z = S y z') ->
  forall sf_fun sf_level functional level f a ys xs ks row row',
  length xs = length ys -> length ks = length ys ->
  infer sf_fun sf_level functional level = DOk (f, a) -> f = IFmean \/ f = IFexpectile ->
  decompose v S sf_fun sf_level ys [xs] (Some (map Qnat ks)) functional level = DOk [row] ->
  decompose v S sf_fun sf_level (repl ys ks) [repl xs ks] None functional level = DOk [row'] ->
  mcb row = mcb row' /\ dsc row = dsc row' /\ unc row = unc row' /\ sco row = sco row'.
Proof.
  intros v S Hv S_proper sf_fun sf_level functional level f a ys xs ks row row' Lx Lk Hinf Hf H H'.
  destruct (decompose_inv _ _ _ _ _ _ _ _ _ _ H) as (f1 & a1 & m & ymin & ok & sm & HR).
  destruct (decompose_inv _ _ _ _ _ _ _ _ _ _ H') as (f2 & a2 & m' & ymin' & ok' & sm' & HR').
  destruct HR as ((fa & Hi & Ha) & Hc & Hw & Hp & _ & Hpre & Hcols).
  destruct HR' as ((fa' & Hi' & Ha') & Hc' & Hw' & Hp' & _ & Hpre' & Hcols').
  rewrite Hinf in Hi, Hi'. injection Hi as <-. injection Hi' as <-.
  assert (Hfm : f <> IFmedian) by (destruct Hf as [->| ->]; discriminate).
  rewrite (alias_id v f a Hfm) in Ha, Ha'. injection Ha as <- <-. injection Ha' as <- <-.
  pose proof (infer_level _ _ _ _ _ _ Hinf) as Hlev.
  destruct (prelude_inv _ _ _ _ _ _ _ _ _ Hpre) as (Hn & Hm & Hs & Hymin & Hok).
  destruct (prelude_inv _ _ _ _ _ _ _ _ _ Hpre') as (Hn' & Hm' & Hs' & Hymin' & Hok').
  cbn [weights_or_ones] in Hm, Hs, Hm', Hs'.
  assert (Hpos : Forall (fun q => 0 < q) (map Qnat ks)).
  { cbn [all_pos_w] in Hp. exact (all_pos_Forall _ Hp). }
  pose proof (marginal_repl f a ys ks m m' Hf Hlev Hn Lk Hpos Hm Hm') as Em. subst m'.
  rewrite <- (repl_const m ys ks Lk) in Hs'.
  pose proof (avg_score_repl S ys _ ks sm sm' Lk Hpos Hs Hs') as Esm. subst sm'.
  assert (Eymin : ymin == ymin').
  { rewrite Hymin, Hymin', (minQ_hd_tl _ Hn), (minQ_hd_tl _ Hn').
    apply (min_list_sameQ _ _ Hn). exact (sameQ_repl ys ks Lk Hpos). }
  assert (Eok : ok = ok').
  { rewrite Hok, Hok', (hd_repl ys ks Lk Hpos). apply (allowed_proper S S_proper). exact Eymin. }
  clear Hok'. subst ok'.
  cbn [columns] in Hcols, Hcols'.
  destruct (column v S f a ys (Some (map Qnat ks)) ymin ok sm xs) as [r1|e] eqn:E1; [|discriminate Hcols].
  injection Hcols as <-.
  destruct (column v S f a (repl ys ks) None ymin' ok sm (repl xs ks)) as [r2|e] eqn:E2; [|discriminate Hcols'].
  injection Hcols' as <-.
  destruct (column_inv _ _ _ _ _ _ _ _ _ _ _ E1) as (r & s & sr & Hrf & Hsc & Hsr & _ & ->).
  destruct (column_inv _ _ _ _ _ _ _ _ _ _ _ E2) as (r' & s' & sr' & Hrf' & Hsc' & Hsr' & _ & ->).
  cbn [weights_or_ones] in Hsc, Hsr, Hsc', Hsr'.
  pose proof (avg_score_repl S ys xs ks s s' Lk Hpos Hsc Hsc') as Es. subst s'.
  assert (Esr : sr = sr').
  { unfold recal_final in Hrf, Hrf'.
    destruct (recalibrate f a xs ys (Some (map Qnat ks))) as [r0|e] eqn:Er; [|discriminate Hrf].
    destruct (recalibrate f a (repl xs ks) (repl ys ks) None) as [r0'|e] eqn:Er'; [|discriminate Hrf'].
    rewrite Hv in Hrf, Hrf'. cbv iota in Hrf, Hrf'. cbn [weights_or_ones] in Hrf, Hrf'.
    pose proof (recal_repl f a xs ys ks r0 r0' Hf Lx Lk Er Er') as F2.
    assert (Lr0 : length r0 = length ys).
    { assert (Lw : length (map Qnat ks) = length ys) by (rewrite map_length; exact Lk).
      destruct (recal_bridge f a xs ys (Some (map Qnat ks)) r0 Lx Lw Er) as (ft & _ & F0).
      rewrite <- (F2_length _ _ _ _ _ F0). exact Lx. }
    assert (Hr0 : r0 <> []) by (intros E; rewrite E in Lr0; destruct ys; [congruence| discriminate Lr0]).
    assert (Lk0 : length ks = length r0) by congruence.
    assert (HS : sameQ r0 r0').
    { apply (sameQ_trans _ _ _ (sameQ_repl r0 ks Lk0 Hpos)). apply sameQ_sym, sameQ_F2. exact F2. }
    assert (Etrig : Qle_bool (min_list r0) ymin = Qle_bool (min_list r0') ymin').
    { apply Qle_bool_Qeq; [exact (min_list_sameQ _ _ Hr0 HS)| exact Eymin]. }
    rewrite <- Etrig in Hrf'.
    unfold avg_score in Hsr'.
    destruct (negb ok && Qle_bool (min_list r0) ymin).
    - injection Hrf as <-. injection Hrf' as <-.
      rewrite (repl_length_eq ys r0 ks (eq_sym Lr0)) in Hsr' at 1.
      rewrite (scores_proper S S_proper _ _ _
                 (repair_repl f a r0 r0' ks ymin ymin' Hf Hlev Lk0 Hpos Eymin F2)) in Hsr'.
      exact (avg_score_repl S ys _ ks sr sr' Lk Hpos Hsr Hsr').
    - injection Hrf as <-. injection Hrf' as <-.
      rewrite (scores_proper S S_proper _ _ _ F2) in Hsr'.
      exact (avg_score_repl S ys r0 ks sr sr' Lk Hpos Hsr Hsr'). }
  subst sr'. cbn [mcb dsc unc sco]. repeat split; reflexivity.
Qed.

Corollary decomp_replication_fixed : forall (S : Q -> Q -> option Q),
  (forall y z z', z == z' -> S y z = S y z') ->
  forall sf_fun sf_level functional level f a ys xs ks row row',
  length xs = length ys -> length ks = length ys ->
  infer sf_fun sf_level functional level = DOk (f, a) -> f = IFmean \/ f = IFexpectile ->
  decompose fixed S sf_fun sf_level ys [xs] (Some (map Qnat ks)) functional level = DOk [row] ->
  decompose fixed S sf_fun sf_level (repl ys ks) [repl xs ks] None functional level = DOk [row'] ->
  mcb row = mcb row' /\ dsc row = dsc row' /\ unc row = unc row' /\ sco row = sco row'.
Proof. intros S. exact (decomp_replication_repair fixed S eq_refl). Qed.

(* the replication theorem applies on the repair path: zero observations, predictions
   restricted to z > 0, integer weights *)
Example decomp_replication_fixed_example :
  exists r r',
    decompose fixed sq_pos (Some IFmean) (Some (1#2)) [0; 0; 1; 2; 0; 3]
      [[1#2; 1#5; 3#2; 5#2; 1#10; 3]] (Some (map Qnat [2; 1; 1; 3; 1; 2]%nat)) None None = DOk [r] /\
    decompose fixed sq_pos (Some IFmean) (Some (1#2)) (repl [0; 0; 1; 2; 0; 3] [2; 1; 1; 3; 1; 2]%nat)
      [repl [1#2; 1#5; 3#2; 5#2; 1#10; 3] [2; 1; 1; 3; 1; 2]%nat] None None None = DOk [r'] /\
    mcb r = mcb r' /\ dsc r = dsc r' /\ unc r = unc r' /\ sco r = sco r'.
Proof.
  do 2 eexists. split; [vm_compute; reflexivity|]. split; [vm_compute; reflexivity|].
  apply (decomp_replication_fixed sq_pos sq_pos_proper (Some IFmean) (Some (1#2)) None None IFmean (1#2)
           [0; 0; 1; 2; 0; 3] [1#2; 1#5; 3#2; 5#2; 1#10; 3] [2; 1; 1; 3; 1; 2]%nat);
    try reflexivity; try (left; reflexivity); vm_compute; reflexivity.
Qed.

Print Assumptions decomp_perm_all.
Print Assumptions decomp_perm_expectile.
Print Assumptions decomp_perm_quantile.
Print Assumptions decomp_perm_repair.
Print Assumptions decomp_perm_fixed.
Print Assumptions decomp_replication.
Print Assumptions decomp_replication_repair.
Print Assumptions decomp_replication_fixed.
