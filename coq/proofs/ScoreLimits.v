(* C14, analytic part: "the closed forms at degrees 0 and 1 are the limits of the
   general formula".

   World R, limits of Coquelicot: is_lim f x l = filterlim f (locally' x)
   (locally l) ignores the value of f AT x, which is what is needed here: the
   general formula divides by h (h - 1) and is not the definition at h = 0, 1.

   Homogeneous expectile scores (HomogeneousExpectileScore, level 1/2; the level
   only contributes the constant factor asym a y z):
     general   2 ( y^h/(h(h-1)) - z^h/(h(h-1)) - z^(h-1)/(h-1) (y - z) )
     h -> 1    2 ( y ln(y/z) - y + z )          Poisson deviance   (y >= 0, z > 0)
     h -> 0    2 ( y/z - ln(y/z) - 1 )          Gamma deviance     (y, z > 0)
   Homogeneous quantile scores: G_h(x) = x^h / h, G_0(x) = ln x:
     h -> 0    z^h/h - y^h/h  ->  ln(z/y)                          (y, z > 0)

   Each limit is a first-order statement (the numerator vanishes to first order
   where the denominator does): a difference quotient of a function of h that
   is differentiable because y^h = exp(h ln y). *)
From Coq Require Import Reals Lra Psatz List Bool.
From Coquelicot Require Import Coquelicot.
Import ListNotations. Open Scope R_scope.
From MD Require Import lib.NumpyR spec.Scores theory.Powers theory.Bregman
  proofs.ScoreProps proofs.Consistency.

(* ================================================================== *)
(* 0. the general formula and the closed forms                         *)

(* the formula of the library for degrees other than 0 and 1, on y >= 0, z > 0
   (pw 0 h = 0 for h <> 0: numpy's 0^h) *)
Definition hes_general (h y z : R) : R :=
  2 * (pw y h / (h * (h - 1)) - pw z h / (h * (h - 1)) - pw z (h - 1) / (h - 1) * (y - z)).

Definition poisson_form (y z : R) : R := 2 * (xlogy y (y / z) - y + z).
Definition gamma_form (y z : R) : R := 2 * (y / z - ln (y / z) - 1).

(* quantile scores, degrees other than 0 (and 1): G_h z - G_h y *)
Definition hqs_general (h y z : R) : R := np_power z h / h - np_power y h / h.

(* away from h = 0, 1 the specification's breg IS the general formula *)
Lemma breg_general h y z : h <> 0 -> h <> 1 -> 0 <= y -> 0 < z ->
  breg h y z = hes_general h y z.
Proof.
  intros H0 H1 Hy Hz. unfold breg, phi, dphi, hes_general.
  destruct (hrange_cases h) as [[Hh Hr] | [[Hh Hr] | [[Hh Hr] | [Hh [Hh' Hr]]]]];
    rewrite Hr.
  - rewrite (Rabs_pos_eq y Hy). rewrite (Rabs_pos_eq z) by lra.
    rewrite (np_sign_pos z Hz). unfold Rdiv. ring.
  - contradiction.
  - contradiction.
  - reflexivity.
Qed.

(* at h = 1 and h = 0 it is the closed form *)
Lemma breg_1 y z : 0 <= y -> 0 < z -> breg 1 y z = poisson_form y z.
Proof.
  intros Hy Hz. rewrite <- hes_val_half. symmetry.
  apply hes_val_is_spec_inv. apply spec_poisson; assumption.
Qed.

Lemma breg_0 y z : 0 < y -> 0 < z -> breg 0 y z = gamma_form y z.
Proof.
  intros Hy Hz. rewrite <- hes_val_half. symmetry.
  apply hes_val_is_spec_inv. apply spec_gamma; assumption.
Qed.

(* near 0 the quantile transform is x^h / h *)
Lemma Gq_general h x : h <> 0 -> h < 1 -> Gq h x = np_power x h / h.
Proof.
  intros H0 H1. unfold Gq, odd_gt1.
  rewrite (proj2 (Reqb_false h 1)) by lra.
  rewrite (proj2 (Rltb_false 1 h)) by lra. simpl.
  rewrite (proj2 (Reqb_false h 0) H0). reflexivity.
Qed.

Lemma Gq_0 x : Gq 0 x = ln x.
Proof.
  unfold Gq, odd_gt1.
  rewrite (proj2 (Reqb_false 0 1)) by lra.
  rewrite (proj2 (Rltb_false 1 0)) by lra. simpl.
  rewrite (proj2 (Reqb_true 0 0)) by reflexivity. reflexivity.
Qed.

(* ================================================================== *)
(* 1. limit tools                                                      *)

(* a derivative is the limit of the difference quotient *)
Lemma is_lim_diffquot (f : R -> R) (x l : R) :
  is_derive f x l -> is_lim (fun t => (f t - f x) / (t - x)) x l.
Proof.
  intros Hd. apply is_derive_Reals in Hd.
  apply is_lim_spec. intros eps.
  destruct (Hd eps (cond_pos eps)) as [delta Hdelta].
  exists delta. intros t Hb Hne. simpl.
  assert (Ht : t - x <> 0) by lra.
  replace t with (x + (t - x)) at 1 by ring.
  apply Hdelta; [exact Ht | exact Hb].
Qed.

(* a differentiable function is continuous *)
Lemma is_lim_of_derive (f : R -> R) (x : R) : ex_derive f x -> is_lim f x (f x).
Proof.
  intros Hd. apply is_lim_continuity. apply continuity_pt_filterlim.
  exact (ex_derive_continuous f x Hd).
Qed.

Lemma is_lim_mult_fin (f g : R -> R) (x lf lg : R) :
  is_lim f x lf -> is_lim g x lg -> is_lim (fun t => f t * g t) x (lf * lg).
Proof.
  intros Hf Hg.
  exact (is_lim_mult f g x lf lg Hf Hg I).
Qed.

Lemma is_lim_minus_fin (f g : R -> R) (x lf lg : R) :
  is_lim f x lf -> is_lim g x lg -> is_lim (fun t => f t - g t) x (lf - lg).
Proof.
  intros Hf Hg.
  apply (is_lim_minus f g x lf lg (lf - lg) Hf Hg).
  unfold is_Rbar_minus, is_Rbar_plus. simpl. reflexivity.
Qed.

Lemma is_lim_val (f : R -> R) (x l l' : R) : l = l' -> is_lim f x l -> is_lim f x l'.
Proof. intros HE H. rewrite <- HE. exact H. Qed.

(* "for all t <> x within distance d of x" *)
Lemma locally'_ball (x d : R) (P : R -> Prop) : 0 < d ->
  (forall t, Rabs (t - x) < d -> t <> x -> P t) -> Rbar_locally' x P.
Proof.
  intros Hd HP. exists (mkposreal d Hd). intros t Hb Hne.
  apply HP; [exact Hb | exact Hne].
Qed.

Lemma Rpower_m1 z : 0 < z -> Rpower z (0 - 1) = / z.
Proof.
  intros Hz. replace (0 - 1) with (- (1)) by ring.
  rewrite Rpower_Ropp, (Rpower_1 z Hz). reflexivity.
Qed.

Lemma ln_div y z : 0 < y -> 0 < z -> ln (y / z) = ln y - ln z.
Proof.
  intros Hy Hz. unfold Rdiv.
  rewrite (ln_mult y (/ z) Hy (Rinv_0_lt_compat z Hz)), (ln_Rinv z Hz). ring.
Qed.

(* ================================================================== *)
(* 2. expectile family, h -> 1                                         *)

Section Degree1.
Variables y z : R.
Hypothesis Hy : 0 < y.
Hypothesis Hz : 0 < z.

(* numerator over the common denominator h (h - 1) *)
Let N1 (h : R) : R := Rpower y h - Rpower z h - h * Rpower z (h - 1) * (y - z).

Lemma N1_at_1 : N1 1 = 0.
Proof.
  unfold N1. replace (1 - 1) with 0 by ring.
  rewrite (Rpower_1 y Hy), (Rpower_1 z Hz), Rpower_O by exact Hz. ring.
Qed.

Lemma N1_derive : is_derive N1 1 (y * (ln y - ln z) - y + z).
Proof.
  unfold N1, Rpower. auto_derive; [exact I |].
  replace ((1 + - (1)) * ln z) with 0 by ring.
  rewrite !Rmult_1_l, exp_0, (exp_ln y Hy), (exp_ln z Hz). ring.
Qed.

Lemma hes_limit_degree_1_pos :
  is_lim (fun h => hes_general h y z) 1 (poisson_form y z).
Proof.
  pose proof (is_lim_diffquot N1 1 _ N1_derive) as L1.
  assert (L2 : is_lim (fun h : R => 2 * / h) 1 (2 * / 1)).
  { apply (is_lim_of_derive (fun h : R => 2 * / h) 1). auto_derive. lra. }
  pose proof (is_lim_mult_fin _ _ 1 _ _ L2 L1) as L3. simpl in L3.
  assert (L4 : is_lim (fun h => hes_general h y z) 1
                      (2 * / 1 * (y * (ln y - ln z) - y + z))).
  { apply (is_lim_ext_loc (fun h => 2 * / h * ((N1 h - N1 1) / (h - 1)))); [| exact L3].
    apply (locally'_ball 1 (1/2)); [lra |].
    intros h Hb Hne.
    assert (Hh0 : h <> 0).
    { intros E. rewrite E in Hb. replace (0 - 1) with (- (1)) in Hb by ring.
      rewrite Rabs_Ropp, Rabs_R1 in Hb. lra. }
    rewrite N1_at_1. unfold N1, hes_general.
    rewrite (pw_pos y h Hy), (pw_pos z h Hz), (pw_pos z (h - 1) Hz).
    field. split; [lra | exact Hh0]. }
  refine (is_lim_val _ 1 _ _ _ L4). symmetry.
  unfold poisson_form. rewrite (xlogy_nz y (y / z)) by lra.
  rewrite (ln_div y z Hy Hz). field.
Qed.

End Degree1.

(* y = 0 (a Poisson count of zero): the general formula is 2 z^h / h -> 2 z *)
Lemma hes_limit_degree_1_zero z : 0 < z ->
  is_lim (fun h => hes_general h 0 z) 1 (poisson_form 0 z).
Proof.
  intros Hz.
  assert (L : is_lim (fun h : R => 2 * Rpower z h / h) 1 (2 * Rpower z 1 / 1)).
  { apply (is_lim_of_derive (fun h : R => 2 * Rpower z h / h) 1).
    unfold Rpower. auto_derive. lra. }
  assert (L4 : is_lim (fun h => hes_general h 0 z) 1 (2 * Rpower z 1 / 1)).
  { apply (is_lim_ext_loc (fun h : R => 2 * Rpower z h / h)); [| exact L].
    apply (locally'_ball 1 (1/2)); [lra |].
    intros h Hb Hne.
    assert (Hh0 : h <> 0).
    { intros E. rewrite E in Hb. replace (0 - 1) with (- (1)) in Hb by ring.
      rewrite Rabs_Ropp, Rabs_R1 in Hb. lra. }
    unfold hes_general.
    rewrite (pw_0 h Hh0), (pw_pos z h Hz), (pw_pos z (h - 1) Hz).
    rewrite <- (Rpower_succ z h Hz).
    field. split; [lra | exact Hh0]. }
  refine (is_lim_val _ 1 _ _ _ L4). symmetry.
  unfold poisson_form. rewrite xlogy_0, (Rpower_1 z Hz). field.
Qed.

Theorem hes_limit_degree_1 : forall y z, 0 <= y -> 0 < z ->
  is_lim (fun h => hes_general h y z) 1 (poisson_form y z).
Proof.
  intros y z [Hy | Hy] Hz.
  - apply hes_limit_degree_1_pos; assumption.
  - subst y. apply hes_limit_degree_1_zero. exact Hz.
Qed.

(* ================================================================== *)
(* 3. expectile family, h -> 0                                         *)

Section Degree0.
Variables y z : R.
Hypothesis Hy : 0 < y.
Hypothesis Hz : 0 < z.

Let M0 (h : R) : R := Rpower y h - Rpower z h.
Let P0 (h : R) : R := Rpower z (h - 1) / (h - 1) * (y - z).

Lemma M0_at_0 : M0 0 = 0.
Proof. unfold M0. rewrite !Rpower_O by assumption. ring. Qed.

Lemma M0_derive : is_derive M0 0 (ln y - ln z).
Proof.
  unfold M0, Rpower. auto_derive; [exact I |].
  rewrite !Rmult_0_l, exp_0. ring.
Qed.

Theorem hes_limit_degree_0_pos :
  is_lim (fun h => hes_general h y z) 0 (gamma_form y z).
Proof.
  pose proof (is_lim_diffquot M0 0 _ M0_derive) as L1.
  assert (L2 : is_lim (fun h : R => / (h - 1)) 0 (/ (0 - 1))).
  { apply (is_lim_of_derive (fun h : R => / (h - 1)) 0). auto_derive. lra. }
  assert (L3 : is_lim P0 0 (P0 0)).
  { apply (is_lim_of_derive P0 0). unfold P0, Rpower. auto_derive. lra. }
  pose proof (is_lim_mult_fin _ _ 0 _ _ L1 L2) as L12.
  pose proof (is_lim_minus_fin _ _ 0 _ _ L12 L3) as L123.
  assert (L5 : is_lim (fun h : R => 2) 0 2) by apply is_lim_const.
  pose proof (is_lim_mult_fin _ _ 0 _ _ L5 L123) as L6. simpl in L6.
  assert (L7 : is_lim (fun h => hes_general h y z) 0
                      (2 * ((ln y - ln z) * / (0 - 1) - P0 0))).
  { apply (is_lim_ext_loc
             (fun h => 2 * ((M0 h - M0 0) / (h - 0) * / (h - 1) - P0 h))); [| exact L6].
    apply (locally'_ball 0 (1/2)); [lra |].
    intros h Hb Hne.
    assert (Hh1 : h <> 1).
    { intros E. rewrite E in Hb. replace (1 - 0) with 1 in Hb by ring.
      rewrite Rabs_R1 in Hb. lra. }
    rewrite M0_at_0. unfold M0, P0, hes_general.
    rewrite (pw_pos y h Hy), (pw_pos z h Hz), (pw_pos z (h - 1) Hz).
    field. split; [lra | exact Hne]. }
  refine (is_lim_val _ 0 _ _ _ L7). symmetry.
  unfold gamma_form, P0. rewrite (Rpower_m1 z Hz), (ln_div y z Hy Hz).
  field. lra.
Qed.

End Degree0.

Theorem hes_limit_degree_0 : forall y z, 0 < y -> 0 < z ->
  is_lim (fun h => hes_general h y z) 0 (gamma_form y z).
Proof. intros y z Hy Hz. apply hes_limit_degree_0_pos; assumption. Qed.

(* ================================================================== *)
(* 4. quantile family, h -> 0                                          *)

Theorem hqs_limit_degree_0 : forall y z, 0 < y -> 0 < z ->
  is_lim (fun h => hqs_general h y z) 0 (ln (z / y)).
Proof.
  intros y z Hy Hz.
  assert (HD : is_derive (fun h => Rpower z h - Rpower y h) 0 (ln z - ln y)).
  { unfold Rpower. auto_derive; [exact I |]. rewrite !Rmult_0_l, exp_0. ring. }
  pose proof (is_lim_diffquot _ 0 _ HD) as L1. simpl in L1.
  rewrite (ln_div z y Hz Hy).
  apply (is_lim_ext_loc (fun h => (Rpower z h - Rpower y h - (Rpower z 0 - Rpower y 0)) / (h - 0))); [| exact L1].
  apply (locally'_ball 0 1); [lra |].
  intros h _ Hne. unfold hqs_general.
  rewrite !Rpower_O by assumption.
  rewrite (np_power_pos z h Hz), (np_power_pos y h Hy).
  field. exact Hne.
Qed.

(* ================================================================== *)
(* 5. the same, stated on the specification's own functions: the scores are
      continuous in the degree at h = 1 and h = 0                       *)

Theorem breg_limit_degree_1 : forall y z, 0 <= y -> 0 < z ->
  is_lim (fun h => breg h y z) 1 (breg 1 y z).
Proof.
  intros y z Hy Hz. rewrite (breg_1 y z Hy Hz).
  apply (is_lim_ext_loc (fun h => hes_general h y z)); [| apply hes_limit_degree_1; assumption].
  apply (locally'_ball 1 (1/2)); [lra |].
  intros h Hb Hne.
  assert (Hh0 : h <> 0).
  { intros E. rewrite E in Hb. replace (0 - 1) with (- (1)) in Hb by ring.
    rewrite Rabs_Ropp, Rabs_R1 in Hb. lra. }
  symmetry. apply breg_general; assumption.
Qed.

Theorem breg_limit_degree_0 : forall y z, 0 < y -> 0 < z ->
  is_lim (fun h => breg h y z) 0 (breg 0 y z).
Proof.
  intros y z Hy Hz. rewrite (breg_0 y z Hy Hz).
  apply (is_lim_ext_loc (fun h => hes_general h y z)); [| apply hes_limit_degree_0; assumption].
  apply (locally'_ball 0 (1/2)); [lra |].
  intros h Hb Hne.
  assert (Hh1 : h <> 1).
  { intros E. rewrite E in Hb. replace (1 - 0) with 1 in Hb by ring.
    rewrite Rabs_R1 in Hb. lra. }
  symmetry. apply breg_general; [exact Hne | exact Hh1 | lra | exact Hz].
Qed.

(* every level a: hes_val h a y z = asym a y z * breg h y z *)
Theorem hes_val_limit_degree_1 : forall a y z, 0 <= y -> 0 < z ->
  is_lim (fun h => hes_val h a y z) 1 (hes_val 1 a y z).
Proof.
  intros a y z Hy Hz. unfold hes_val.
  apply (is_lim_mult_fin (fun _ => asym a y z) (fun h => breg h y z) 1).
  - apply is_lim_const.
  - apply breg_limit_degree_1; assumption.
Qed.

Theorem hes_val_limit_degree_0 : forall a y z, 0 < y -> 0 < z ->
  is_lim (fun h => hes_val h a y z) 0 (hes_val 0 a y z).
Proof.
  intros a y z Hy Hz. unfold hes_val.
  apply (is_lim_mult_fin (fun _ => asym a y z) (fun h => breg h y z) 0).
  - apply is_lim_const.
  - apply breg_limit_degree_0; assumption.
Qed.

Theorem hqs_val_limit_degree_0 : forall a y z, 0 < y -> 0 < z ->
  is_lim (fun h => hqs_val h a y z) 0 (hqs_val 0 a y z).
Proof.
  intros a y z Hy Hz. unfold hqs_val.
  apply (is_lim_mult_fin (fun _ => ge_ind z y - a) (fun h => Gq h z - Gq h y) 0).
  - apply is_lim_const.
  - rewrite !Gq_0. rewrite <- (ln_div z y Hz Hy).
    apply (is_lim_ext_loc (fun h => hqs_general h y z)); [| apply hqs_limit_degree_0; assumption].
    apply (locally'_ball 0 (1/2)); [lra |].
    intros h Hb Hne.
    assert (Hh1 : h < 1).
    { replace (h - 0) with h in Hb by ring.
      pose proof (Rle_abs h). lra. }
    unfold hqs_general. rewrite !Gq_general by assumption. reflexivity.
Qed.

(* the hypotheses are satisfiable, and the closed forms are the named scores *)
Example limits_example :
  is_lim (fun h => hes_general h 2 3) 1 (poisson_form 2 3) /\
  is_lim (fun h => hes_general h 2 3) 0 (gamma_form 2 3) /\
  is_lim (fun h => hqs_general h 2 3) 0 (ln (3 / 2)).
Proof.
  split; [| split].
  - apply hes_limit_degree_1; lra.
  - apply hes_limit_degree_0; lra.
  - apply hqs_limit_degree_0; lra.
Qed.

Print Assumptions hes_limit_degree_1.
Print Assumptions hes_limit_degree_0.
Print Assumptions hqs_limit_degree_0.
Print Assumptions breg_limit_degree_1.
Print Assumptions breg_limit_degree_0.
Print Assumptions hes_val_limit_degree_1.
Print Assumptions hes_val_limit_degree_0.
Print Assumptions hqs_val_limit_degree_0.
