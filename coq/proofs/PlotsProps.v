(* Lemmas about model/Plots.v (property C19).  World Q, closed under the global context.
   What is proved here is the part of C19 that is a statement about the drawn NUMBERS as a
   function of the inputs; that the Line2D objects of the returned Axes carry these numbers is
   decided by correspondence (corr/CmpPlots.v, harness/run_plots.py). *)
From Coq Require Import QArith Qabs Qreduction Lqa Lia List Bool Arith String Sorted Permutation.
Import ListNotations.
From MD Require Import lib.QLists model.Functionals model.Isotonic model.IsoFit model.Binning model.Bias
  model.Plots proofs.IsoFitProps.
Open Scope Q_scope.

(* ================================================================== *)
(* A. minimum / maximum over all elements                              *)
(* ================================================================== *)

Lemma minQ_spec : forall l x,
  (minQ x l <= x /\ forall y, In y l -> minQ x l <= y) /\ (minQ x l = x \/ In (minQ x l) l).
Proof.
  induction l as [|a l IH]; intros x; cbn [minQ].
  - split; [split; [lra| intros y []]| left; reflexivity].
  - destruct (Qle_bool a x) eqn:E.
    + apply Qle_bool_iff in E. destruct (IH a) as [[H1 H2] H3]. split; [split|].
      * lra.
      * intros y [<-|Hy]; [exact H1| exact (H2 y Hy)].
      * destruct H3 as [H3|H3]; right; [left; symmetry; exact H3| right; exact H3].
    + apply Qle_bool_false in E. destruct (IH x) as [[H1 H2] H3]. split; [split|].
      * exact H1.
      * intros y [<-|Hy]; [lra| exact (H2 y Hy)].
      * destruct H3 as [H3|H3]; [left; exact H3| right; right; exact H3].
Qed.

Lemma maxQ_spec : forall l x,
  (x <= maxQ x l /\ forall y, In y l -> y <= maxQ x l) /\ (maxQ x l = x \/ In (maxQ x l) l).
Proof.
  induction l as [|a l IH]; intros x; cbn [maxQ].
  - split; [split; [lra| intros y []]| left; reflexivity].
  - destruct (Qle_bool x a) eqn:E.
    + apply Qle_bool_iff in E. destruct (IH a) as [[H1 H2] H3]. split; [split|].
      * lra.
      * intros y [<-|Hy]; [exact H1| exact (H2 y Hy)].
      * destruct H3 as [H3|H3]; right; [left; symmetry; exact H3| right; exact H3].
    + apply Qle_bool_false in E. destruct (IH x) as [[H1 H2] H3]. split; [split|].
      * exact H1.
      * intros y [<-|Hy]; [lra| exact (H2 y Hy)].
      * destruct H3 as [H3|H3]; [left; exact H3| right; right; exact H3].
Qed.

(* get_array_min_max returns a lower and an upper bound of all elements, both attained *)
Lemma arr_min_max_spec vals lo hi : arr_min_max vals = Some (lo, hi) ->
  (forall v, In v vals -> lo <= v /\ v <= hi) /\ In lo vals /\ In hi vals.
Proof.
  destruct vals as [|x l]; [discriminate|]. cbn [arr_min_max]. intros E. injection E as <- <-.
  destruct (minQ_spec l x) as [[A1 A2] A3]. destruct (maxQ_spec l x) as [[B1 B2] B3].
  split; [|split].
  - intros v [<-|Hv]; [split; assumption| split; [exact (A2 v Hv)| exact (B2 v Hv)]].
  - destruct A3 as [A3|A3]; [left; symmetry; exact A3| right; exact A3].
  - destruct B3 as [B3|B3]; [left; symmetry; exact B3| right; exact B3].
Qed.

Lemma in_all_values preds v : In v (all_values preds) <-> exists col, In col preds /\ In v col.
Proof.
  unfold all_values. rewrite in_concat. split; intros (c & H1 & H2); exists c; split; assumption.
Qed.

(* ================================================================== *)
(* B. the reference line                                               *)
(* ================================================================== *)

(* the diagonal runs from (m, m) to (M, M) with m the smallest and M the largest of ALL
   predictions (every column), and both are predictions *)
Theorem diagonal_spans_predictions preds s : diagonal preds = Some s ->
  exists lo hi, s = ((lo, lo), (hi, hi)) /\
    (forall col p, In col preds -> In p col -> lo <= p /\ p <= hi) /\
    (exists col, In col preds /\ In lo col) /\ (exists col, In col preds /\ In hi col).
Proof.
  unfold diagonal. destruct (arr_min_max (all_values preds)) as [[lo hi]|] eqn:E; [|discriminate].
  intros H. injection H as <-. exists lo, hi. split; [reflexivity|].
  destruct (arr_min_max_spec _ _ _ E) as (A & B & C). split; [|split].
  - intros col p Hc Hp. apply A. apply in_all_values. exists col. split; assumption.
  - apply in_all_values. exact B.
  - apply in_all_values. exact C.
Qed.

(* the zero line of the bias variant spans the same x range *)
Theorem zero_line_spans_predictions preds s : zero_line preds = Some s ->
  exists lo hi, s = ((lo, 0), (hi, 0)) /\ diagonal preds = Some ((lo, lo), (hi, hi)).
Proof.
  unfold zero_line, diagonal. destruct (arr_min_max (all_values preds)) as [[lo hi]|]; [|discriminate].
  intros H. injection H as <-. exists lo, hi. split; reflexivity.
Qed.

(* a reference line exists as soon as there is one prediction *)
Lemma diagonal_total preds col p : In col preds -> In p col -> exists s, diagonal preds = Some s.
Proof.
  intros Hc Hp. unfold diagonal.
  assert (Hin : In p (all_values preds)) by (apply in_all_values; exists col; split; assumption).
  destruct (all_values preds) as [|x l]; [destruct Hin|]. cbn [arr_min_max]. eexists. reflexivity.
Qed.

(* ================================================================== *)
(* C. the reliability curve                                            *)
(* ================================================================== *)

Lemma nth_map_in {A B} (g : A -> B) l i d d' : (i < List.length l)%nat ->
  nth i (map g l) d' = g (nth i l d).
Proof.
  intros Hi. rewrite (nth_indep _ d' (g d)) by (rewrite map_length; exact Hi). apply map_nth.
Qed.

Lemma reliability_curve_inv dt f lvl y w col ps : reliability_curve dt f lvl y w col = FOk ps ->
  exists ft, fit col y w true (ifun_of f) lvl = FOk ft /\ ps = curve_points dt ft.
Proof.
  unfold reliability_curve. destruct (fit col y w true (ifun_of f) lvl) as [ft|e]; [|discriminate].
  intros H. injection H as <-. exists ft. split; reflexivity.
Qed.

Definition nondecreasing_pts (ps : list (Q * Q)) : Prop :=
  StronglySorted (fun p p' => fst p <= fst p' /\ snd p <= snd p') ps.

(* the vertices of the curve: x non-decreasing and y non-decreasing along the curve
   (so y is non-decreasing in x), at least one vertex *)
Theorem reliability_curve_monotone f lvl y w col ps :
  reliability_curve Reliability f lvl y w col = FOk ps ->
  ps <> [] /\ nondecreasing_pts ps.
Proof.
  intros H. destruct (reliability_curve_inv _ _ _ _ _ _ _ H) as (ft & Hf & ->).
  destruct (fit_thresholds _ _ _ _ _ _ _ Hf) as (HL & Hne & HM & _).
  cbn [curve_points]. split.
  - unfold thr_points. destruct (X_thresholds ft) as [|a xs]; [congruence|].
    destruct (y_thresholds ft) as [|b bs]; [discriminate HL| discriminate].
  - exact HM.
Qed.

(* the polyline through the vertices (numpy.interp, constant continuation) is a
   non-decreasing FUNCTION *)
Theorem reliability_polyline_monotone f lvl y w col ps q1 q2 v1 v2 :
  reliability_curve Reliability f lvl y w col = FOk ps -> q1 <= q2 ->
  interp_np ps q1 = Some v1 -> interp_np ps q2 = Some v2 -> v1 <= v2.
Proof.
  intros H Hq E1 E2. destruct (reliability_curve_inv _ _ _ _ _ _ _ H) as (ft & Hf & ->).
  cbn [curve_points] in E1, E2.
  exact (predict_monotone _ _ _ _ _ _ ft q1 q2 v1 v2 Hf Hq E1 E2).
Qed.

(* every vertex lies on the fitted function: the polyline through the vertices takes the
   vertex' y at the vertex' x (also when an x is repeated) *)
Theorem reliability_vertex_on_fit f lvl y w col ps x yv :
  reliability_curve Reliability f lvl y w col = FOk ps -> In (x, yv) ps ->
  exists v, interp_np ps x = Some v /\ v == yv.
Proof.
  intros H Hin. destruct (reliability_curve_inv _ _ _ _ _ _ _ H) as (ft & Hf & ->).
  cbn [curve_points] in Hin |- *.
  destruct (fit_spec _ _ _ _ _ _ _ Hf) as (yiso & r & idx & HI & HH & HT & EX & EY & EP).
  destruct (thr_idx_some _ _ _ _ HH) as (idx' & HT' & S1 & F1 & _ & _).
  rewrite HT in HT'. injection HT' as <-.
  rewrite EP in Hin |- *. unfold pts in Hin. apply in_map_iff in Hin. destruct Hin as (i & Ei & Hi).
  unfold pt in Ei. injection Ei as <- <-.
  rewrite Forall_forall in F1.
  exact (at_training _ _ _ _ HH idx i HT (F1 i Hi)).
Qed.

(* the fitted value drawn at a prediction p of the column is the fitted value of the
   training row(s) with that prediction *)
Theorem reliability_curve_at_predictions f lvl y w col ps :
  reliability_curve Reliability f lvl y w col = FOk ps ->
  exists yiso r,
    isotonic_regression (fit_ys col y w true) (fit_ws col y w true) true (ifun_of f) lvl = IOk (yiso, r) /\
    forall k, (k < List.length col)%nat ->
      exists v, interp_np ps (nth k (fit_Xs col y w true) 0) = Some v /\ v == nth k yiso 0.
Proof.
  intros H. destruct (reliability_curve_inv _ _ _ _ _ _ _ H) as (ft & Hf & ->).
  exact (predict_at_training _ _ _ _ _ _ _ Hf).
Qed.

(* ---------- the vertices span the column: from its smallest to its largest prediction ---------- *)

Lemma map_rX_mk_rows : forall X y w, List.length X = List.length y -> List.length w = List.length y ->
  map rX (mk_rows X y w) = X.
Proof.
  unfold mk_rows. induction X as [|x X IH]; intros y w H1 H2; [reflexivity|].
  destruct y as [|y0 y]; [discriminate H1|]. destruct w as [|w0 w]; [discriminate H2|].
  cbn [combine map rX fst snd]. f_equal. apply IH; [injection H1 as H1; exact H1| injection H2 as H2; exact H2].
Qed.

Lemma fit_Xs_perm X y w inc f lvl ft : fit X y w inc f lvl = FOk ft -> Permutation (fit_Xs X y w inc) X.
Proof.
  intros H. destruct (fit_inv _ _ _ _ _ _ _ H) as (EL & _).
  unfold fit_Xs. eapply Permutation_trans; [apply Permutation_map; apply fit_rows_perm|].
  rewrite map_rX_mk_rows; [apply Permutation_refl| exact EL|].
  unfold fit in H. rewrite EL, Nat.eqb_refl in H. cbn [negb] in H.
  destruct w as [w'|]; [|apply map_length].
  destruct (Nat.eqb (List.length w') (List.length y)) eqn:Ew; [|discriminate H].
  apply Nat.eqb_eq in Ew. exact Ew.
Qed.

(* the X value of the last threshold index is the X value of the last row of the last block *)
Lemma idx_from_last_X (Xs ys : list Q) (allsame : bool) : forall rs prev, bl_ok Xs ys prev rs -> rs <> [] ->
  nth (last (idx_from Xs allsame prev rs) prev) Xs 0 == nth (last rs 0%nat - 1) Xs 0.
Proof.
  induction rs as [|ri rs IH]; intros prev Hok Hne; [congruence|].
  destruct Hok as (Hlt & Hn & Hc & Ht & Hok').
  destruct rs as [|r2 rs'].
  - cbn [idx_from last].
    destruct (negb (Qeq_bool (nth (ri - 1) Xs 0) (nth prev Xs 0)) && (allsame || Nat.leb 1 (ri - 1 - prev))) eqn:E.
    + cbn [last]. reflexivity.
    + cbn [last]. apply andb_false_iff in E. destruct E as [E|E].
      * apply negb_false_iff in E. apply Qeq_bool_iff in E. symmetry. exact E.
      * apply orb_false_iff in E. destruct E as [_ E]. apply Nat.leb_gt in E.
        replace (ri - 1)%nat with prev by lia. reflexivity.
  - change (idx_from Xs allsame prev (ri :: r2 :: rs')) with
      ((if Nat.leb 1 (ri - 1 - prev) then [(ri - 1)%nat] else []) ++ ri :: idx_from Xs allsame ri (r2 :: rs')).
    rewrite last_cons_cons.
    assert (EL : forall pre, last (pre ++ ri :: idx_from Xs allsame ri (r2 :: rs')) prev =
                             last (idx_from Xs allsame ri (r2 :: rs')) ri).
    { intros pre. induction pre as [|a pre IHp].
      - cbn [app]. apply last_default_cons.
      - cbn [app]. destruct (pre ++ ri :: idx_from Xs allsame ri (r2 :: rs')) eqn:Ep;
          [destruct pre; discriminate Ep|]. rewrite last_cons_cons. exact IHp. }
    rewrite EL. apply IH; [exact Hok'| discriminate].
Qed.

Theorem reliability_curve_spans_column f lvl y w col ps :
  reliability_curve Reliability f lvl y w col = FOk ps ->
  let x_first := fst (hd (0, 0) ps) in
  let x_last := fst (last ps (0, 0)) in
  In x_first col /\ In x_last col /\ forall p, In p col -> x_first <= p /\ p <= x_last.
Proof.
  intros H. destruct (reliability_curve_inv _ _ _ _ _ _ _ H) as (ft & Hf & ->).
  cbn [curve_points].
  destruct (fit_spec _ _ _ _ _ _ _ Hf) as (yiso & r & idx & HI & HH & HT & EX & EY & EP).
  pose proof (fit_Xs_perm _ _ _ _ _ _ _ Hf) as HP.
  set (Xs := fit_Xs col y w true) in *.
  destruct (thr_idx_some _ _ _ _ HH) as (idx' & HT' & S1 & F1 & Hhd & Hne).
  rewrite HT in HT'. injection HT' as <-.
  destruct (fit_hyp_r _ _ _ _ HH) as (r1 & rs & Er & Hok & Hlast).
  assert (Hn : (0 < List.length Xs)%nat) by (destruct HH as [Hne' _]; destruct Xs; [congruence| cbn; lia]).
  cbv zeta. rewrite EP. set (x_first := fst (hd (0, 0) (pts Xs yiso idx))). set (x_last := fst (last (pts Xs yiso idx) (0, 0))).
  (* first vertex *)
  assert (E1 : x_first = nth 0 Xs 0).
  { unfold x_first. destruct idx as [|i0 idx0]; [congruence|]. cbn [hd] in Hhd. subst i0. reflexivity. }
  (* last vertex *)
  assert (E2 : exists j, (j < List.length Xs)%nat /\ x_last = nth j Xs 0 /\ nth j Xs 0 == nth (List.length Xs - 1) Xs 0).
  { rewrite Er in HT. cbn [thr_idx] in HT. injection HT as HT.
    exists (last idx 0%nat). split; [|split].
    - rewrite Forall_forall in F1. apply F1. apply last_In. exact Hne.
    - unfold x_last, pts. clear - Hne. induction idx as [|a idx IH]; [congruence|].
      destruct idx as [|b idx]; [reflexivity|]. cbn [map]. rewrite !last_cons_cons. apply IH. discriminate.
    - rewrite <- HT. rewrite last_default_cons. rewrite <- Hlast.
      apply (idx_from_last_X Xs yiso _ (r1 :: rs) 0%nat Hok). discriminate. }
  destruct E2 as (j & Hj & E2 & E2').
  split; [|split].
  - rewrite E1. apply (Permutation_in _ HP). apply nth_In. exact Hn.
  - rewrite E2. apply (Permutation_in _ HP). apply nth_In. exact Hj.
  - intros p Hp. apply (Permutation_in _ (Permutation_sym HP)) in Hp.
    destruct (In_nth _ _ 0 Hp) as (k & Hk & <-). rewrite E1, E2. split.
    + apply (fh_Xsorted _ _ _ _ HH); lia.
    + rewrite E2'. apply (fh_Xsorted _ _ _ _ HH); lia.
Qed.

(* bias variant: same x, y = prediction minus fit, vertex by vertex; and nothing else
   changes (same exceptions) *)
Theorem bias_variant_is_pred_minus_fit f lvl y w col :
  reliability_curve BiasDiagram f lvl y w col =
  match reliability_curve Reliability f lvl y w col with
  | FOk ps => FOk (map (fun p => (fst p, fst p - snd p)) ps)
  | FErr e => FErr e
  end.
Proof.
  unfold reliability_curve. destruct (fit col y w true (ifun_of f) lvl) as [ft|e]; reflexivity.
Qed.

Corollary bias_variant_pointwise f lvl y w col ps psb k :
  reliability_curve Reliability f lvl y w col = FOk ps ->
  reliability_curve BiasDiagram f lvl y w col = FOk psb ->
  List.length psb = List.length ps /\
  ((k < List.length ps)%nat ->
   fst (nth k psb (0, 0)) = fst (nth k ps (0, 0)) /\
   snd (nth k psb (0, 0)) = fst (nth k ps (0, 0)) - snd (nth k ps (0, 0))).
Proof.
  intros H1 H2. rewrite bias_variant_is_pred_minus_fit, H1 in H2. injection H2 as <-.
  split; [apply map_length|]. intros Hk.
  rewrite (nth_map_in (fun p : Q * Q => (fst p, fst p - snd p)) ps k (0, 0) (0, 0) Hk).
  split; reflexivity.
Qed.

(* ================================================================== *)
(* D. curve i is a function of column i (and y_obs, weights, options)   *)
(* ================================================================== *)

Theorem curve_i_uses_column_i dt f lvl y w preds i : (i < List.length preds)%nat ->
  nth i (reliability_curves dt f lvl y w preds) (FErr FShape) =
  reliability_curve dt f lvl y w (nth i preds []).
Proof. intros Hi. unfold reliability_curves. apply nth_map_in. exact Hi. Qed.

(* ... hence two prediction arrays that agree in column i get the same curve i *)
Corollary curve_i_ignores_other_columns dt f lvl y w preds preds' i :
  (i < List.length preds)%nat -> (i < List.length preds')%nat -> nth i preds [] = nth i preds' [] ->
  nth i (reliability_curves dt f lvl y w preds) (FErr FShape) =
  nth i (reliability_curves dt f lvl y w preds') (FErr FShape).
Proof.
  intros H1 H2 E. rewrite !curve_i_uses_column_i by assumption. rewrite E. reflexivity.
Qed.

Theorem curves_one_per_column dt f lvl y w preds :
  List.length (reliability_curves dt f lvl y w preds) = List.length preds.
Proof. apply map_length. Qed.

(* the whole call: either the length check refuses (ValueError) or the reference line and one
   curve per column are drawn *)
Theorem reliability_diagram_spec dt f lvl y w preds :
  reliability_diagram dt f lvl y w preds = RDValueError \/
  reliability_diagram dt f lvl y w preds =
    RDOk (reference_line dt preds) (reliability_curves dt f lvl y w preds).
Proof.
  unfold reliability_diagram.
  destruct (negb (forallb (fun col => (List.length col =? List.length y)%nat) preds)); [left; reflexivity|].
  destruct (match w with Some w' => negb (List.length w' =? List.length y)%nat | None => false end);
    [left; reflexivity| right; reflexivity].
Qed.

(* legend labels: the column names in column order when there are two or more columns *)
Theorem curve_labels_spec names :
  List.length (curve_labels names) = List.length names /\
  forall i, (i < List.length names)%nat ->
    nth i (curve_labels names) None =
    if (2 <=? List.length names)%nat then Some (nth i names EmptyString) else None.
Proof.
  unfold curve_labels. destruct (2 <=? List.length names)%nat.
  - split; [apply map_length|]. intros i Hi. apply nth_map_in. exact Hi.
  - split; [apply map_length|]. intros i Hi. apply (nth_map_in (fun _ : string => @None string) names i EmptyString). exact Hi.
Qed.

(* ================================================================== *)
(* E. Murphy diagram                                                   *)
(* ================================================================== *)

Lemma Qeq_bool_false' a b : Qeq_bool a b = false -> ~ a == b.
Proof. intros E C. apply Qeq_bool_iff in C. congruence. Qed.

(* elementary scores are non-negative: all four functionals, every eta / observation /
   prediction, ties included (strict indicators for median / quantile) *)
Lemma elem_q_nonneg f lvl eta y z : 0 < lvl -> lvl < 1 -> 0 <= elem_q f lvl eta y z.
Proof.
  intros L0 L1. unfold elem_q, ind_le, ind_lt, Vq, ge_indq, leb.
  pose proof (Qabs_nonneg (1 - lvl)) as A1. pose proof (Qabs_nonneg (0 - lvl)) as A0.
  destruct f.
  - destruct (Qle_bool eta z) eqn:E1; destruct (Qle_bool eta y) eqn:E2;
      try apply Qle_bool_iff in E1; try apply Qle_bool_iff in E2;
      try apply Qle_bool_false in E1; try apply Qle_bool_false in E2; nra.
  - destruct (Qltb eta z) eqn:E1; destruct (Qltb eta y) eqn:E2;
      try apply Qltb_true in E1; try apply Qltb_true in E2;
      try apply Qltb_false in E1; try apply Qltb_false in E2;
      destruct (Qle_bool y eta) eqn:E3;
      try apply Qle_bool_iff in E3; try apply Qle_bool_false in E3; lra.
  - destruct (Qle_bool eta z) eqn:E1; destruct (Qle_bool eta y) eqn:E2;
      try apply Qle_bool_iff in E1; try apply Qle_bool_iff in E2;
      try apply Qle_bool_false in E1; try apply Qle_bool_false in E2;
      destruct (Qle_bool y eta) eqn:E3;
      try apply Qle_bool_iff in E3; try apply Qle_bool_false in E3; nra.
  - destruct (Qltb eta z) eqn:E1; destruct (Qltb eta y) eqn:E2;
      try apply Qltb_true in E1; try apply Qltb_true in E2;
      try apply Qltb_false in E1; try apply Qltb_false in E2;
      destruct (Qle_bool y eta) eqn:E3;
      try apply Qle_bool_iff in E3; try apply Qle_bool_false in E3; lra.
Qed.

(* zero when the prediction is the observation *)
Lemma elem_q_zero f lvl eta y : elem_q f lvl eta y y == 0.
Proof. unfold elem_q. destruct f; ring. Qed.

Lemma wsum_nonneg l : Forall (fun e => 0 <= ey e /\ 0 <= ew e) l -> 0 <= wsum l.
Proof.
  induction 1 as [|e l [H1 H2] _ IH]; cbn [wsum]; [lra| nra].
Qed.
Lemma wtot_nonneg l : Forall (fun e => 0 <= ew e) l -> 0 <= wtot l.
Proof. induction 1 as [|e l H _ IH]; cbn [wtot]; lra. Qed.

Lemma wmean_nonneg l : Forall (fun e => 0 <= ey e /\ 0 <= ew e) l -> ~ wtot l == 0 -> 0 <= wmean l.
Proof.
  intros HF Hne. rewrite wmean_eq.
  pose proof (wsum_nonneg l HF) as H1.
  assert (H2 : 0 <= wtot l) by (apply wtot_nonneg; eapply Forall_impl; [|exact HF]; intros e He; exact (proj2 He)).
  assert (H3 : 0 < wtot l) by (destruct (Qlt_le_dec 0 (wtot l)) as [G|G]; [exact G| exfalso; apply Hne; lra]).
  apply Qle_shift_div_l; [exact H3| lra].
Qed.

Definition weights_nonneg (w : option (list Q)) : Prop :=
  match w with Some w' => Forall (fun x => 0 <= x) w' | None => True end.

Lemma Forall_combine_scores (sc ws : list Q) :
  Forall (fun s => 0 <= s) sc -> Forall (fun x => 0 <= x) ws ->
  Forall (fun e : elt => 0 <= ey e /\ 0 <= ew e) (combine sc ws).
Proof.
  intros Hs. revert ws. induction Hs as [|s sc H0 _ IH]; intros ws Hw; [constructor|].
  destruct ws as [|x ws]; [constructor|]. cbn [combine].
  constructor; [split; [exact H0| exact (Forall_inv Hw)]| exact (IH ws (Forall_inv_tail Hw))].
Qed.

(* one point of a Murphy curve: defined values are non-negative *)
Theorem murphy_point_nonneg f lvl y w col eta s : weights_nonneg w ->
  murphy_point f lvl y w col eta = MOk s -> 0 <= s.
Proof.
  intros Hw. unfold murphy_point.
  destruct (Qle_bool lvl 0 || Qle_bool 1 lvl) eqn:EL; [discriminate|].
  apply orb_false_elim in EL. destruct EL as [L0 L1].
  apply Qle_bool_false in L0. apply Qle_bool_false in L1.
  destruct (negb (List.length y =? List.length col)%nat); [discriminate|].
  destruct (match w with Some w' => negb (List.length w' =? List.length y)%nat | None => false end); [discriminate|].
  match goal with |- (if Qeq_bool (wtot ?l) 0 then _ else _) = _ -> _ => set (l0 := l) end.
  destruct (Qeq_bool (wtot l0) 0) eqn:E0; [discriminate|]. intros H. injection H as <-.
  apply wmean_nonneg; [|apply Qeq_bool_false'; exact E0].
  unfold l0. apply Forall_combine_scores.
  - apply Forall_forall. intros sc Hsc. apply in_map_iff in Hsc. destruct Hsc as (yz & <- & _).
    apply elem_q_nonneg; assumption.
  - destruct w as [w'|]; [exact Hw|]. unfold ones_like. apply Forall_forall. intros x Hx.
    apply in_map_iff in Hx. destruct Hx as (? & <- & _). lra.
Qed.

Lemma mall_inv {A} : forall (l : list (mres A)) r, mall l = MOk r -> l = map MOk r.
Proof.
  induction l as [|a l IH]; intros r H; cbn [mall] in H.
  - injection H as <-. reflexivity.
  - destruct a as [a|e]; [|discriminate]. destruct (mall l) as [r'|e] eqn:E; [|discriminate].
    injection H as <-. cbn [map]. f_equal. apply IH. reflexivity.
Qed.

Lemma murphy_curve_inv f lvl y w etas col ps : murphy_curve f lvl y w etas col = MOk ps ->
  List.length ps = List.length etas /\
  forall k, (k < List.length etas)%nat ->
    exists s, murphy_point f lvl y w col (nth k etas 0) = MOk s /\ nth k ps (0, 0) = (nth k etas 0, s).
Proof.
  unfold murphy_curve. intros H. apply mall_inv in H.
  assert (HL : List.length ps = List.length etas).
  { apply (f_equal (@List.length _)) in H. rewrite !map_length in H. symmetry. exact H. }
  split; [exact HL|].
  intros k Hk.
  apply (f_equal (fun l => nth k l (MErr MValueError))) in H.
  rewrite (nth_map_in _ etas k 0 _ Hk) in H.
  rewrite (nth_map_in _ ps k (0, 0) _ ltac:(rewrite HL; exact Hk)) in H.
  destruct (murphy_point f lvl y w col (nth k etas 0)) as [s|e]; [|discriminate H].
  exists s. split; [reflexivity|]. injection H as H. symmetry. exact H.
Qed.

(* the x data of a Murphy curve are the etas, in the given order *)
Theorem murphy_curve_xs f lvl y w etas col ps : murphy_curve f lvl y w etas col = MOk ps ->
  map fst ps = etas.
Proof.
  intros H. destruct (murphy_curve_inv _ _ _ _ _ _ _ H) as [HL HP].
  apply (nth_ext _ _ 0 0); [rewrite map_length; exact HL|].
  intros k Hk. rewrite map_length, HL in Hk. destruct (HP k Hk) as (s & _ & E).
  rewrite (nth_map_in fst ps k (0, 0) 0) by (rewrite HL; exact Hk). rewrite E. reflexivity.
Qed.

(* every point of a Murphy curve is >= 0: all four functionals, non-negative weights *)
Theorem murphy_curve_nonneg f lvl y w etas col ps : weights_nonneg w ->
  murphy_curve f lvl y w etas col = MOk ps -> Forall (fun p => 0 <= snd p) ps.
Proof.
  intros Hw H. destruct (murphy_curve_inv _ _ _ _ _ _ _ H) as [HL HP].
  apply Forall_forall. intros p Hp. destruct (In_nth _ _ (0, 0) Hp) as (k & Hk & <-).
  rewrite HL in Hk. destruct (HP k Hk) as (s & Es & E). rewrite E. cbn [snd].
  exact (murphy_point_nonneg _ _ _ _ _ _ _ Hw Es).
Qed.

(* the y data are the weighted averages of the elementary scores (the definition, spelled out) *)
Theorem murphy_point_is_average f lvl y w col eta s : murphy_point f lvl y w col eta = MOk s ->
  let ws := match w with Some w' => w' | None => ones_like y end in
  let l := combine (map (fun yz => elem_q f lvl eta (fst yz) (snd yz)) (combine y col)) ws in
  s == wsum l / wtot l /\ ~ wtot l == 0.
Proof.
  unfold murphy_point.
  destruct (Qle_bool lvl 0 || Qle_bool 1 lvl); [discriminate|].
  destruct (negb (List.length y =? List.length col)%nat); [discriminate|].
  destruct (match w with Some w' => negb (List.length w' =? List.length y)%nat | None => false end); [discriminate|].
  cbv zeta.
  match goal with |- (if Qeq_bool (wtot ?l) 0 then _ else _) = _ -> _ => set (l0 := l) end.
  destruct (Qeq_bool (wtot l0) 0) eqn:E0; [discriminate|]. intros H. injection H as <-.
  split; [apply wmean_eq| apply Qeq_bool_false'; exact E0].
Qed.

(* ---------- the default eta grid ---------- *)

Lemma Qnat_pos n : (0 < n)%nat -> 0 < Qnat n.
Proof. intros H. unfold Qnat, Qlt. cbn. lia. Qed.
Lemma Qnat_lt i j : (i < j)%nat -> Qnat i < Qnat j.
Proof. intros H. unfold Qnat, Qlt. cbn. lia. Qed.

Lemma map_seq_sorted (g : nat -> Q) : (forall i j, (i < j)%nat -> g i < g j) ->
  forall n a, StronglySorted Qlt (map g (seq a n)).
Proof.
  intros Hg. induction n as [|n IH]; intros a; cbn [seq map]; [constructor|].
  constructor; [apply IH|]. apply Forall_forall. intros v Hv.
  apply in_map_iff in Hv. destruct Hv as (j & <- & Hj). apply in_seq in Hj. apply Hg. lia.
Qed.

Lemma last_map_seq (g : nat -> Q) n d : last (map g (seq 0 (S n))) d = g n.
Proof. rewrite seq_S, map_app. cbn [map]. apply last_last. Qed.

Lemma linspace_SS lo hi k : linspace lo hi (S (S k)) =
  map (fun i => Qred (lo + Qnat i * ((hi - lo) / Qnat (S k)))) (seq 0 (S (S k))).
Proof. reflexivity. Qed.

Lemma linspace_spec lo hi k : lo < hi ->
  List.length (linspace lo hi k) = k /\
  ((1 <= k)%nat -> hd 0 (linspace lo hi k) == lo) /\
  ((2 <= k)%nat -> last (linspace lo hi k) 0 == hi) /\
  StronglySorted Qlt (linspace lo hi k) /\
  (forall v, In v (linspace lo hi k) -> lo <= v /\ v <= hi).
Proof.
  intros Hlt. destruct k as [|[|k]].
  - cbn. split; [reflexivity|]. split; [lia|]. split; [lia|]. split; [constructor| intros v []].
  - cbn. split; [reflexivity|]. split; [reflexivity|]. split; [lia|].
    split; [constructor; constructor|]. intros v [<-|[]]. lra.
  - rewrite linspace_SS. set (n := S k). assert (Hn : 0 < Qnat n) by (apply Qnat_pos; unfold n; lia).
    set (st := (hi - lo) / Qnat n).
    assert (Hst : 0 < st) by (unfold st; apply Qlt_shift_div_l; [exact Hn| lra]).
    assert (Hend : Qnat n * st == hi - lo) by (unfold st; field; lra).
    set (g := fun i : nat => Qred (lo + Qnat i * st)).
    assert (Hg : forall i j, (i < j)%nat -> g i < g j).
    { intros i j Hij. unfold g.
      pose proof (Qred_correct (lo + Qnat i * st)) as R1. pose proof (Qred_correct (lo + Qnat j * st)) as R2.
      pose proof (Qnat_lt i j Hij). nra. }
    split; [rewrite map_length, seq_length; reflexivity|].
    split; [intros _; cbn [seq map hd]; unfold g;
            pose proof (Qred_correct (lo + Qnat 0 * st)) as R0;
            assert (Z0 : Qnat 0 == 0) by reflexivity; nra|].
    split; [intros _; rewrite (last_map_seq g n 0); unfold g;
            pose proof (Qred_correct (lo + Qnat n * st)) as R0; lra|].
    split; [apply map_seq_sorted; exact Hg|].
    intros v Hv. apply in_map_iff in Hv. destruct Hv as (i & <- & Hi). apply in_seq in Hi.
    pose proof (Qred_correct (lo + Qnat i * st)) as R0.
    assert (H0 : 0 <= Qnat i) by (unfold Qnat, Qle; cbn; lia).
    assert (H1 : Qnat i <= Qnat n).
    { destruct (Nat.eq_dec i n) as [->|Hne]; [lra|]. apply Qlt_le_weak, Qnat_lt. lia. }
    assert (P1 : 0 <= Qnat i * st) by (apply Qmult_le_0_compat; lra).
    assert (P2 : Qnat i * st <= Qnat n * st) by (apply Qmult_le_compat_r; lra).
    unfold g. split; lra.
Qed.

Lemma murphy_range_spec y preds lo hi : murphy_range y preds = Some (lo, hi) ->
  (forall v, In v (y ++ all_values preds) -> lo <= v /\ v <= hi) /\
  In lo (y ++ all_values preds) /\ In hi (y ++ all_values preds).
Proof.
  unfold murphy_range.
  destruct (arr_min_max (all_values preds)) as [[plo phi]|] eqn:EP; [|discriminate].
  destruct (arr_min_max y) as [[olo ohi]|] eqn:EO; [|discriminate].
  destruct (arr_min_max_spec _ _ _ EP) as (P1 & P2 & P3).
  destruct (arr_min_max_spec _ _ _ EO) as (O1 & O2 & O3).
  intros H. injection H as <- <-.
  destruct (Qle_bool plo olo) eqn:E1; destruct (Qle_bool ohi phi) eqn:E2;
    try apply Qle_bool_iff in E1; try apply Qle_bool_iff in E2;
    try apply Qle_bool_false in E1; try apply Qle_bool_false in E2;
    (split; [intros v Hv; apply in_app_or in Hv; destruct Hv as [Hv|Hv];
             [destruct (O1 v Hv)| destruct (P1 v Hv)]; split; lra|]);
    split; apply in_or_app; auto.
Qed.

(* the default grid: `k` points, strictly increasing, from the smallest to the largest of all
   observations and all predictions (every column) *)
Theorem murphy_grid_endpoints y preds k g : murphy_etas (EtaCount k) y preds = MOk g ->
  exists lo hi, lo < hi /\
    (forall v, In v (y ++ all_values preds) -> lo <= v /\ v <= hi) /\
    In lo (y ++ all_values preds) /\ In hi (y ++ all_values preds) /\
    List.length g = k /\
    ((1 <= k)%nat -> hd 0 g == lo) /\ ((2 <= k)%nat -> last g 0 == hi) /\
    StronglySorted Qlt g /\ (forall v, In v g -> lo <= v /\ v <= hi).
Proof.
  unfold murphy_etas. destruct (murphy_range y preds) as [[lo hi]|] eqn:ER; [|discriminate].
  destruct (Qeq_bool lo hi) eqn:E; [discriminate|]. intros H. injection H as <-.
  apply Qeq_bool_false' in E.
  destruct (murphy_range_spec _ _ _ _ ER) as (A & B & C).
  assert (Hlt : lo < hi) by (destruct (A hi C); destruct (Qlt_le_dec lo hi) as [G|G]; [exact G| exfalso; apply E; lra]).
  destruct (linspace_spec lo hi k Hlt) as (L1 & L2 & L3 & L4 & L5).
  exists lo, hi. repeat split; try assumption; try (apply A; assumption); try (apply L5; assumption).
Qed.

(* explicit etas are used as they are *)
Theorem murphy_etas_explicit e y preds g : murphy_etas (EtaList e) y preds = MOk g -> g = e.
Proof.
  unfold murphy_etas. destruct (murphy_range y preds) as [[lo hi]|]; [|discriminate].
  destruct (Qeq_bool lo hi); [discriminate|]. intros H. injection H as <-. reflexivity.
Qed.

(* Murphy curve i is the curve of column i on the shared eta grid *)
Theorem murphy_curve_i_uses_column_i f lvl y w spec preds etas curves i :
  murphy_diagram f lvl y w spec preds = MOk (etas, curves) ->
  murphy_etas spec y preds = MOk etas /\ List.length curves = List.length preds /\
  ((i < List.length preds)%nat ->
   murphy_curve f lvl y w etas (nth i preds []) = MOk (nth i curves [])).
Proof.
  unfold murphy_diagram. destruct (murphy_etas spec y preds) as [et|e]; [|discriminate].
  destruct (mall (map (murphy_curve f lvl y w et) preds)) as [cs|e] eqn:E; [|discriminate].
  intros H. injection H as <- <-. split; [reflexivity|].
  apply mall_inv in E. split.
  - apply (f_equal (@List.length _)) in E. rewrite !map_length in E. symmetry. exact E.
  - intros Hi.
    assert (HL : List.length cs = List.length preds).
    { apply (f_equal (@List.length _)) in E. rewrite !map_length in E. symmetry. exact E. }
    apply (f_equal (fun l => nth i l (MErr MValueError))) in E.
    rewrite (nth_map_in _ preds i [] _ Hi) in E.
    rewrite E. apply nth_map_in. rewrite HL. exact Hi.
Qed.

(* ================================================================== *)
(* F. bias plot: the drawn points are rows of compute_bias              *)
(* ================================================================== *)

Lemma series_of_sound gs g :
  (In g (bs_main (series_of gs)) \/ bs_null (series_of gs) = Some g) -> In g gs.
Proof.
  unfold series_of. cbn [bs_main bs_null]. intros [H|H].
  - apply filter_In in H. exact (proj1 H).
  - destruct (filter is_null_group gs) as [|g0 l] eqn:E; [discriminate|]. injection H as <-.
    assert (Hin : In g0 (filter is_null_group gs)) by (rewrite E; left; reflexivity).
    apply filter_In in Hin. exact (proj1 Hin).
Qed.

Lemma series_of_complete gs g : In g gs ->
  (is_null_group g = false -> In g (bs_main (series_of gs))) /\
  (is_null_group g = true -> exists g', bs_null (series_of gs) = Some g' /\ g_key g' = None).
Proof.
  intros Hin. unfold series_of. cbn [bs_main bs_null]. split; intros Hn.
  - apply filter_In. split; [exact Hin| rewrite Hn; reflexivity].
  - assert (Hf : In g (filter is_null_group gs)) by (apply filter_In; split; assumption).
    destruct (filter is_null_group gs) as [|g0 l] eqn:E; [destruct Hf|].
    exists g0. split; [reflexivity|].
    assert (H0 : In g0 (filter is_null_group gs)) by (rewrite E; left; reflexivity).
    apply filter_In in H0. destruct H0 as [_ H0]. unfold is_null_group in H0.
    destruct (g_key g0); [discriminate| reflexivity].
Qed.

(* every drawn point is a row of compute_bias (its y is that row's bias_mean), series i shows
   model i when a feature is given, and all models form one series otherwise *)
Theorem bias_plot_draws_compute_bias f lvl ys models two_d grouping weights series :
  bias_plot f lvl ys models two_d grouping weights = BPOk series ->
  exists per_model, compute_bias f lvl ys models grouping weights = BOk per_model /\
    match grouping with
    | None => two_d = true /\ series = [mkbs (List.concat per_model) None]
    | Some _ => series = map series_of per_model
    end /\
    forall s g, In s series -> (In g (bs_main s) \/ bs_null s = Some g) ->
      exists m, In m per_model /\ In g m.
Proof.
  unfold bias_plot. destruct (compute_bias f lvl ys models grouping weights) as [pm| |e] eqn:EC; try discriminate.
  destruct grouping as [gr|].
  - intros H. injection H as <-. exists pm. split; [reflexivity|]. split; [reflexivity|].
    intros s g Hs Hg. apply in_map_iff in Hs. destruct Hs as (m & <- & Hm).
    exists m. split; [exact Hm| apply series_of_sound; exact Hg].
  - destruct two_d; [|discriminate]. intros H. injection H as <-. exists pm.
    split; [reflexivity|]. split; [split; reflexivity|].
    intros s g [<-|[]] [Hg|Hg]; [|discriminate]. cbn [bs_main] in Hg.
    apply in_concat in Hg. destruct Hg as (m & Hm & Hg). exists m. split; assumption.
Qed.

(* with a feature, every non-null row of every model is drawn in that model's series *)
Theorem bias_plot_complete f lvl ys models two_d gr weights series per_model i :
  bias_plot f lvl ys models two_d (Some gr) weights = BPOk series ->
  compute_bias f lvl ys models (Some gr) weights = BOk per_model ->
  (i < List.length per_model)%nat ->
  forall g, In g (nth i per_model []) -> is_null_group g = false ->
    In g (bs_main (nth i series (mkbs [] None))).
Proof.
  unfold bias_plot. intros H EC Hi g Hg Hn. rewrite EC in H. injection H as <-.
  rewrite (nth_map_in series_of per_model i [] _ Hi).
  exact (proj1 (series_of_complete _ g Hg) Hn).
Qed.

(* ================================================================== *)
(* G. the hypotheses are satisfiable (computed examples)                *)
(* ================================================================== *)

Example reliability_example :
  reliability_diagram Reliability FMean (1#2) [1; 3; 2; 4] None [[1; 2; 3; 4]; [4; 3; 2; 1]] =
  RDOk (Some ((1, 1), (4, 4)))
       [FOk [(1, 1); (2, 5#2); (3, 5#2); (4, 4)]; FOk [(1, 5#2); (4, 5#2)]].
Proof. vm_compute. reflexivity. Qed.

Example reliability_bias_example :
  reliability_curve BiasDiagram FMean (1#2) [1; 3; 2; 4] None [1; 2; 3; 4] =
  FOk [(1, 1 - 1); (2, 2 - (5#2)); (3, 3 - (5#2)); (4, 4 - 4)].
Proof. vm_compute. reflexivity. Qed.

(* scoring.py doctest: ElementaryScore(eta=2)(y_obs=[1,2,2,1], y_pred=[4,1,2,3]) = 0.5 *)
Example murphy_point_example :
  murphy_point FMean (1#2) [1; 2; 2; 1] None [4; 1; 2; 3] 2 = MOk (1#2).
Proof. vm_compute. reflexivity. Qed.

Example murphy_grid_example :
  murphy_etas (EtaCount 5) [0; 1; 2; 3] [[1; 1; 2; 5]; [1; 0; -1; 2]] = MOk [-1; 1#2; 2; 7#2; 5].
Proof. vm_compute. reflexivity. Qed.

(* quantile tie eta = y_obs > y_pred: non-negative since fix 42d574f (strict indicators) *)
Example murphy_quantile_tie : elem_q FQuantile (1#4) 2 2 1 == 0.
Proof. vm_compute. reflexivity. Qed.

Print Assumptions diagonal_spans_predictions.
Print Assumptions reliability_curve_monotone.
Print Assumptions reliability_polyline_monotone.
Print Assumptions reliability_vertex_on_fit.
Print Assumptions reliability_curve_at_predictions.
Print Assumptions reliability_curve_spans_column.
Print Assumptions bias_variant_is_pred_minus_fit.
Print Assumptions curve_i_uses_column_i.
Print Assumptions murphy_curve_nonneg.
Print Assumptions murphy_curve_xs.
Print Assumptions murphy_grid_endpoints.
Print Assumptions murphy_curve_i_uses_column_i.
Print Assumptions bias_plot_draws_compute_bias.
