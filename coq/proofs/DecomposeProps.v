(* Properties of the executable model `decompose` (model/Decompose.v), for an
   arbitrary code variant v (record `variant`; `fixed` = the code as it is after /repo
   commits d3b9226 / e52a7ce / 04732ba, `current` = the code BEFORE them) and,
   unless a theorem names a score, for EVERY per-observation score
   S : Q -> Q -> option Q.

   Part 1  inversion of a successful run; C06 identity (decomp_identity), score =
           plain weighted average (decomp_score_is_avg), uncertainty independent of the
           forecasts (decomp_unc_indep, _indep2) and = score of the constant marginal
           (decomp_unc_is_marginal_score); C07 column independence
           (decomp_column_indep, decomp_columns_assemble).
   Part 2  the stable sort of `recalibrate`, the "unsort" (unsort_rows), sums over rows.
   Part 3  C06 signs in exact arithmetic: sign_generic (from optimality of the fit against
           ALL monotone rational sequences) and its instances squared error
           (decomp_mcb_nonneg, decomp_dsc_nonneg), asymmetric squared error
           (decomp_sign_expectile2), pinball loss (decomp_sign_pinball).
   Part 4  C07 aliases (decomp_explicit_functional, _explicit_level, _mean_level_ignored,
           decomp_median_alias, decomp_median_alias_fixed) and the RECORD OF THE OLD
           BEHAVIOUR (variant `current`, before the /repo fixes), computed on the model:
           decomp_median_alias_refuted, repair_not_perm_invariant_refuted,
           single_row_rejected.
   Part 5  C07 permutation of the rows: score and uncertainty (decomp_perm_score_unc).
   Part 6  C06 discrimination = 0 for constant forecasts, mean and expectile functional
           (decomp_dsc_zero_if_constant).
   Part 7  C06 miscalibration = 0 for recalibrated forecasts: _partial; the statements
           that are NOT proved, in full, as comments.
   Part 8  C07 strictly increasing relabelling (decomp_monotone_relabel).
   Part 9  C06 the uncertainty is the score of the BEST constant (squared error).
   Part 10 C06 signs in world R for all Bregman-type scores of the mean
           (recal_bregman_sign).
   Part 11 C07 permutation of the rows, ALL FOUR columns, mean functional
           (decomp_perm_mean, decomp_perm_squared_error), via the bridge recal_bridge to
           model/IsoFit.v and uniqueness of the least-squares monotone function of the
           forecast (IsoFitProps.fit_predict_optimal_rows_mean).
   Examples at the end show that the hypotheses are satisfiable. *)
From Coq Require Import QArith Qabs Qreduction Lqa Lia List Bool Permutation.
Import ListNotations.
Open Scope Q_scope.
From MD Require Import lib.QLists model.Functionals model.Isotonic model.Decompose.

(* ------------------------------------------------------------------ *)
(* 1. inversion of a successful run                                    *)
(* ------------------------------------------------------------------ *)
Lemma alias_id v f a : f <> IFmedian -> alias v (f, a) = (f, a).
Proof. intros H. destruct f; try reflexivity. congruence. Qed.

Section Generic.
Variable v : variant.
Variable S : Q -> Q -> option Q.

Lemma column_inv f a y w ymin ok sm x row :
  column v S f a y w ymin ok sm x = DOk row ->
  exists r s sr,
    recal_final v f a y w ymin ok x = DOk r /\
    avg_score S y x (weights_or_ones (length y) w) = Some s /\
    avg_score S y r (weights_or_ones (length y) w) = Some sr /\
    (length y = 1%nat -> v_squeeze v = true) /\
    row = mkrow (s - sr) (sm - sr) sm s.
Proof.
  unfold column. intros H.
  destruct (recal_final v f a y w ymin ok x) as [r|e] eqn:Er; [|discriminate H].
  destruct (avg_score S y x (weights_or_ones (length y) w)) as [s|] eqn:Es; [|discriminate H].
  destruct (Nat.eqb (length y) 1 && negb (v_squeeze v)) eqn:E1; [discriminate H|].
  destruct (avg_score S y r (weights_or_ones (length y) w)) as [sr|] eqn:Esr; [|discriminate H].
  injection H as <-. exists r, s, sr.
  split; [reflexivity|]. split; [reflexivity|]. split; [exact Esr|].
  split; [|reflexivity].
  intros E. apply Nat.eqb_eq in E. rewrite E in E1. cbn [andb] in E1.
  destruct (v_squeeze v); [reflexivity| discriminate E1].
Qed.

Lemma columns_inv f a y w ymin ok sm : forall cols rows,
  columns v S f a y w ymin ok sm cols = DOk rows ->
  Forall2 (fun x row => column v S f a y w ymin ok sm x = DOk row) cols rows.
Proof.
  induction cols as [|x cols IH]; intros rows H.
  - cbn [columns] in H. injection H as <-. constructor.
  - cbn [columns] in H.
    destruct (column v S f a y w ymin ok sm x) as [row|e] eqn:Ec; [|discriminate H].
    destruct (columns v S f a y w ymin ok sm cols) as [rows'|e] eqn:Er; [|discriminate H].
    injection H as <-. constructor; [exact Ec| apply IH; reflexivity].
Qed.

Lemma columns_of_F2 f a y w ymin ok sm : forall cols rows,
  Forall2 (fun x row => column v S f a y w ymin ok sm x = DOk row) cols rows ->
  columns v S f a y w ymin ok sm cols = DOk rows.
Proof.
  intros cols rows H. induction H as [|x row cols rows Hx H IH]; [reflexivity|].
  cbn [columns]. rewrite Hx, IH. reflexivity.
Qed.

(* what a successful call went through *)
Definition run_ok (sf_fun : option ifun) (sf_level : option Q) (y : list Q) (cols : list (list Q))
    (w : option (list Q)) (functional : option ifun) (level : option Q)
    (f : ifun) (a m ymin : Q) (ok : bool) (sm : Q) (rows : list drow) : Prop :=
  (exists fa, infer sf_fun sf_level functional level = DOk fa /\ alias v fa = (f, a)) /\
  Forall (fun c => length c = length y) cols /\
  (match w with None => True | Some wl => length wl = length y end) /\
  all_pos_w w = true /\ cols <> [] /\
  prelude S f a y w = DOk (m, ymin, ok, sm) /\
  columns v S f a y w ymin ok sm cols = DOk rows.

Lemma decompose_inv sf_fun sf_level y cols w functional level rows :
  decompose v S sf_fun sf_level y cols w functional level = DOk rows ->
  exists f a m ymin ok sm,
    run_ok sf_fun sf_level y cols w functional level f a m ymin ok sm rows.
Proof.
  unfold decompose. intros H.
  destruct (infer sf_fun sf_level functional level) as [fa|e] eqn:Ei; [|discriminate H].
  destruct (alias v fa) as [f a] eqn:Ea.
  destruct (forallb (fun c => Nat.eqb (length c) (length y)) cols) eqn:Ec; [|discriminate H].
  cbn [negb] in H.
  destruct (match w with None => true | Some wl => Nat.eqb (length wl) (length y) end) eqn:Ew;
    [|discriminate H].
  cbn [negb] in H.
  destruct (all_pos_w w) eqn:Ep; [|discriminate H]. cbn [negb] in H.
  destruct cols as [|c0 cols']; [discriminate H|].
  destruct (prelude S f a y w) as [[[[m ymin] ok] sm]|e] eqn:Epre; [|discriminate H].
  exists f, a, m, ymin, ok, sm. unfold run_ok.
  split; [exists fa; split; [exact Ei| exact Ea]|]. split.
  { apply Forall_forall. intros c Hc. rewrite forallb_forall in Ec.
    apply Nat.eqb_eq. exact (Ec c Hc). }
  split.
  { destruct w as [wl|]; [apply Nat.eqb_eq; exact Ew| exact Logic.I]. }
  split; [exact Ep|]. split; [discriminate|]. split; [exact Epre| exact H].
Qed.

Lemma decompose_of_run sf_fun sf_level y cols w functional level f a m ymin ok sm rows :
  run_ok sf_fun sf_level y cols w functional level f a m ymin ok sm rows ->
  decompose v S sf_fun sf_level y cols w functional level = DOk rows.
Proof.
  intros ((fa & Hi & Ha) & Hc & Hw & Hp & Hn & Hpre & Hcols). unfold decompose. rewrite Hi, Ha.
  assert (Ec : forallb (fun c => Nat.eqb (length c) (length y)) cols = true).
  { apply forallb_forall. intros c Hin. rewrite Forall_forall in Hc.
    apply Nat.eqb_eq. exact (Hc c Hin). }
  rewrite Ec. cbn [negb].
  assert (Ew : (match w with None => true | Some wl => Nat.eqb (length wl) (length y) end) = true).
  { destruct w as [wl|]; [apply Nat.eqb_eq; exact Hw| reflexivity]. }
  rewrite Ew, Hp. cbn [negb].
  destruct cols as [|c0 cols']; [congruence|]. rewrite Hpre. exact Hcols.
Qed.

(* ------------------------------------------------------------------ *)
(* 2. C06: score = miscalibration - discrimination + uncertainty       *)
(* ------------------------------------------------------------------ *)
Theorem decomp_identity : forall sf_fun sf_level y cols w functional level rows,
  decompose v S sf_fun sf_level y cols w functional level = DOk rows ->
  Forall (fun r => sco r == mcb r - dsc r + unc r) rows.
Proof.
  intros sf_fun sf_level y cols w functional level rows H.
  destruct (decompose_inv _ _ _ _ _ _ _ _ H) as (f & a & m & ymin & ok & sm & HR).
  destruct HR as (_ & _ & _ & _ & _ & _ & Hcols).
  pose proof (columns_inv _ _ _ _ _ _ _ _ _ Hcols) as HF.
  clear Hcols H. induction HF as [|x row cols rows Hx HF IH]; constructor; [|exact IH].
  destruct (column_inv _ _ _ _ _ _ _ _ _ Hx) as (r & s & sr & _ & _ & _ & _ & ->).
  cbn [sco mcb dsc unc]. ring.
Qed.

(* the number of rows is the number of forecast columns *)
Theorem decomp_length : forall sf_fun sf_level y cols w functional level rows,
  decompose v S sf_fun sf_level y cols w functional level = DOk rows -> length rows = length cols.
Proof.
  intros sf_fun sf_level y cols w functional level rows H.
  destruct (decompose_inv _ _ _ _ _ _ _ _ H) as (f & a & m & ymin & ok & sm & HR).
  destruct HR as (_ & _ & _ & _ & _ & _ & Hcols).
  pose proof (columns_inv _ _ _ _ _ _ _ _ _ Hcols) as HF.
  clear Hcols H. induction HF as [|x row cols rows Hx HF IH]; [reflexivity|].
  cbn [length]. rewrite IH. reflexivity.
Qed.

(* ------------------------------------------------------------------ *)
(* 3. C06: the score column is the plain weighted average score        *)
(* ------------------------------------------------------------------ *)
Lemma avg_score_eq y x wl s : avg_score S y x wl = Some s ->
  exists ss, scores S y x = Some ss /\ s == wsum (combine ss wl) / wtot (combine ss wl).
Proof.
  unfold avg_score. intros H. destruct (scores S y x) as [ss|]; [|discriminate H].
  injection H as <-. exists ss. split; [reflexivity| apply wmean_eq].
Qed.

(* [scores] is the pointwise score: same length, every entry S y_i x_i *)
Lemma scores_spec : forall y x ss, scores S y x = Some ss ->
  length x = length y /\ length ss = length y /\
  forall i, (i < length y)%nat -> S (nth i y 0) (nth i x 0) = Some (nth i ss 0).
Proof.
  induction y as [|b y IH]; intros x ss H.
  - destruct x as [|c x]; [|discriminate H]. injection H as <-.
    split; [reflexivity|]. split; [reflexivity|]. intros i Hi. inversion Hi.
  - destruct x as [|c x]; [discriminate H|]. cbn [scores] in H.
    destruct (S b c) as [s|] eqn:Es; [|discriminate H].
    destruct (scores S y x) as [ss'|] eqn:Ess; [|discriminate H].
    injection H as <-. destruct (IH x ss' Ess) as (L1 & L2 & L3).
    split; [cbn [length]; rewrite L1; reflexivity|].
    split; [cbn [length]; rewrite L2; reflexivity|].
    intros i Hi. destruct i as [|i]; [exact Es|]. cbn [nth]. apply L3.
    cbn [length] in Hi. lia.
Qed.

Theorem decomp_score_is_avg : forall sf_fun sf_level y cols w functional level rows,
  decompose v S sf_fun sf_level y cols w functional level = DOk rows ->
  Forall2 (fun x r =>
     exists ss, scores S y x = Some ss /\
       sco r == wsum (combine ss (weights_or_ones (length y) w))
                / wtot (combine ss (weights_or_ones (length y) w))) cols rows.
Proof.
  intros sf_fun sf_level y cols w functional level rows H.
  destruct (decompose_inv _ _ _ _ _ _ _ _ H) as (f & a & m & ymin & ok & sm & HR).
  destruct HR as (_ & _ & _ & _ & _ & _ & Hcols).
  pose proof (columns_inv _ _ _ _ _ _ _ _ _ Hcols) as HF.
  clear Hcols H. induction HF as [|x row cols rows Hx HF IH]; constructor; [|exact IH].
  destruct (column_inv _ _ _ _ _ _ _ _ _ Hx) as (r & s & sr & _ & Hs & _ & _ & ->).
  cbn [sco]. exact (avg_score_eq _ _ _ _ Hs).
Qed.

(* ------------------------------------------------------------------ *)
(* 4. C06: uncertainty does not depend on the forecasts                *)
(* ------------------------------------------------------------------ *)
Lemma column_unc f a y w ymin ok sm x row :
  column v S f a y w ymin ok sm x = DOk row -> unc row = sm.
Proof.
  intros H. destruct (column_inv _ _ _ _ _ _ _ _ _ H) as (r & s & sr & _ & _ & _ & _ & ->).
  reflexivity.
Qed.

(* [uncertainty] (model/Decompose.v) has no forecast argument; every row of every
   successful call carries exactly its value *)
Theorem decomp_unc_indep : forall sf_fun sf_level y cols w functional level rows,
  decompose v S sf_fun sf_level y cols w functional level = DOk rows ->
  exists u, uncertainty v S sf_fun sf_level y w functional level = Some u /\
            Forall (fun r => unc r = u) rows.
Proof.
  intros sf_fun sf_level y cols w functional level rows H.
  destruct (decompose_inv _ _ _ _ _ _ _ _ H) as (f & a & m & ymin & ok & sm & HR).
  destruct HR as ((fa & Hi & Ha) & _ & _ & _ & _ & Hpre & Hcols).
  exists sm. split.
  - unfold uncertainty. rewrite Hi, Ha, Hpre. reflexivity.
  - pose proof (columns_inv _ _ _ _ _ _ _ _ _ Hcols) as HF.
    clear Hcols H. induction HF as [|x row cols rows Hx HF IH]; constructor; [|exact IH].
    exact (column_unc _ _ _ _ _ _ _ _ _ Hx).
Qed.

Corollary decomp_unc_indep2 : forall sf_fun sf_level y cols cols' w functional level rows rows' r r',
  decompose v S sf_fun sf_level y cols w functional level = DOk rows ->
  decompose v S sf_fun sf_level y cols' w functional level = DOk rows' ->
  In r rows -> In r' rows' -> unc r = unc r'.
Proof.
  intros sf_fun sf_level y cols cols' w functional level rows rows' r r' H H' Hr Hr'.
  destruct (decomp_unc_indep _ _ _ _ _ _ _ _ H) as (u & Eu & Fu).
  destruct (decomp_unc_indep _ _ _ _ _ _ _ _ H') as (u' & Eu' & Fu').
  rewrite Eu in Eu'. injection Eu' as <-.
  rewrite Forall_forall in Fu, Fu'. rewrite (Fu r Hr), (Fu' r' Hr'). reflexivity.
Qed.

(* the uncertainty is the average score of the constant marginal forecast *)
Lemma prelude_inv f a y w m ymin ok sm : prelude S f a y w = DOk (m, ymin, ok, sm) ->
  y <> [] /\
  marginal f a y (weights_or_ones (length y) w) = Some m /\
  avg_score S y (repeat m (length y)) (weights_or_ones (length y) w) = Some sm /\
  ymin = minQ (hd 0 y) (tl y) /\ ok = allowed S (hd 0 y) ymin.
Proof.
  unfold prelude. intros H. destruct y as [|y0 ytl]; [discriminate H|].
  destruct (marginal f a (y0 :: ytl) (weights_or_ones (length (y0 :: ytl)) w)) as [m0|] eqn:Em;
    [|discriminate H].
  destruct (Qeq_bool y0 m0 && Qeq_bool m0 (last (y0 :: ytl) y0) && negb (allowed S y0 m0));
    [discriminate H|].
  destruct (avg_score S (y0 :: ytl) (repeat m0 (length (y0 :: ytl)))
              (weights_or_ones (length (y0 :: ytl)) w)) as [sm0|] eqn:Es; [|discriminate H].
  injection H as <- <- <- <-.
  split; [discriminate|]. split; [reflexivity|]. split; [exact Es|].
  split; reflexivity.
Qed.

Theorem decomp_unc_is_marginal_score : forall sf_fun sf_level y cols w functional level rows,
  decompose v S sf_fun sf_level y cols w functional level = DOk rows ->
  exists fa f a m, infer sf_fun sf_level functional level = DOk fa /\ alias v fa = (f, a) /\
    marginal f a y (weights_or_ones (length y) w) = Some m /\
    Forall (fun r => avg_score S y (repeat m (length y)) (weights_or_ones (length y) w)
                     = Some (unc r)) rows.
Proof.
  intros sf_fun sf_level y cols w functional level rows H.
  destruct (decompose_inv _ _ _ _ _ _ _ _ H) as (f & a & m & ymin & ok & sm & HR).
  destruct HR as ((fa & Hi & Ha) & _ & _ & _ & _ & Hpre & Hcols).
  destruct (prelude_inv _ _ _ _ _ _ _ _ Hpre) as (_ & Hm & Hs & _ & _).
  exists fa, f, a, m. split; [exact Hi|]. split; [exact Ha|]. split; [exact Hm|].
  pose proof (columns_inv _ _ _ _ _ _ _ _ _ Hcols) as HF.
  clear Hcols H. induction HF as [|x row cols rows Hx HF IH]; constructor; [|exact IH].
  rewrite (column_unc _ _ _ _ _ _ _ _ _ Hx). exact Hs.
Qed.

(* ------------------------------------------------------------------ *)
(* 5. C07: every column of a forecast matrix gets the row it gets alone *)
(* ------------------------------------------------------------------ *)
Theorem decomp_column_indep : forall sf_fun sf_level y cols w functional level rows i,
  decompose v S sf_fun sf_level y cols w functional level = DOk rows ->
  (i < length cols)%nat ->
  decompose v S sf_fun sf_level y [nth i cols []] w functional level
    = DOk [nth i rows (mkrow 0 0 0 0)].
Proof.
  intros sf_fun sf_level y cols w functional level rows i H Hi.
  destruct (decompose_inv _ _ _ _ _ _ _ _ H) as (f & a & m & ymin & ok & sm & HR).
  destruct HR as (Hinf & Hc & Hw & Hp & Hn & Hpre & Hcols).
  apply (decompose_of_run _ _ _ _ _ _ _ f a m ymin ok sm).
  unfold run_ok. split; [exact Hinf|]. split.
  { constructor; [|constructor]. rewrite Forall_forall in Hc. apply Hc. apply nth_In. exact Hi. }
  split; [exact Hw|]. split; [exact Hp|]. split; [discriminate|]. split; [exact Hpre|].
  pose proof (columns_inv _ _ _ _ _ _ _ _ _ Hcols) as HF.
  apply columns_of_F2. constructor; [|constructor].
  clear - HF Hi. revert i Hi. induction HF as [|x row cols rows Hx HF IH]; intros i Hi.
  - inversion Hi.
  - destruct i as [|i]; [exact Hx|]. cbn [nth]. apply IH. cbn [length] in Hi. lia.
Qed.

(* and conversely: a matrix of columns that succeed alone succeeds, row by row *)
Theorem decomp_columns_assemble : forall sf_fun sf_level y cols w functional level rows,
  cols <> [] ->
  Forall2 (fun x r => decompose v S sf_fun sf_level y [x] w functional level = DOk [r]) cols rows ->
  decompose v S sf_fun sf_level y cols w functional level = DOk rows.
Proof.
  intros sf_fun sf_level y cols w functional level rows Hn HF.
  destruct HF as [|x0 r0 cols' rows' H0 HF']; [congruence|].
  destruct (decompose_inv _ _ _ _ _ _ _ _ H0) as (f & a & m & ymin & ok & sm & HR).
  destruct HR as (Hinf & Hc & Hw & Hp & _ & Hpre & Hcols).
  apply (decompose_of_run _ _ _ _ _ _ _ f a m ymin ok sm).
  unfold run_ok. split; [exact Hinf|].
  assert (Hall : Forall (fun c => length c = length y) (x0 :: cols') /\
                 Forall2 (fun x r => column v S f a y w ymin ok sm x = DOk r) (x0 :: cols') (r0 :: rows')).
  { split.
    - constructor; [inversion Hc; assumption|].
      clear - HF'. induction HF' as [|x r cs rs Hx HF IH]; constructor; [|exact IH].
      destruct (decompose_inv _ _ _ _ _ _ _ _ Hx) as (f' & a' & m' & ymin' & ok' & sm' & HR').
      destruct HR' as (_ & Hc' & _). inversion Hc'; assumption.
    - constructor.
      + pose proof (columns_inv _ _ _ _ _ _ _ _ _ Hcols) as F. inversion F; assumption.
      + clear - HF' Hinf Hpre. induction HF' as [|x r cs rs Hx HF IH]; constructor; [|exact IH].
        destruct (decompose_inv _ _ _ _ _ _ _ _ Hx) as (f' & a' & m' & ymin' & ok' & sm' & HR').
        destruct HR' as ((fa' & Hinf' & Ha') & _ & _ & _ & _ & Hpre' & Hcols').
        destruct Hinf as (fa & Hinf & Ha).
        rewrite Hinf in Hinf'. injection Hinf' as <-.
        rewrite Ha in Ha'. injection Ha' as <- <-.
        rewrite Hpre in Hpre'. injection Hpre' as <- <- <- <-.
        pose proof (columns_inv _ _ _ _ _ _ _ _ _ Hcols') as F. inversion F; assumption. }
  destruct Hall as [HA HB].
  split; [exact HA|]. split; [exact Hw|]. split; [exact Hp|]. split; [discriminate|].
  split; [exact Hpre|]. apply columns_of_F2. exact HB.
Qed.

End Generic.

Print Assumptions decomp_identity.
Print Assumptions decomp_score_is_avg.
Print Assumptions decomp_unc_indep.
Print Assumptions decomp_unc_is_marginal_score.
Print Assumptions decomp_column_indep.
Print Assumptions decomp_columns_assemble.

(* ================================================================== *)
(* Part 2.  The sort of `recalibrate` and sums over rows               *)
(* ================================================================== *)
From Coq Require Import Sorted.

Section SortFacts.
Variable A : Type.
Variable le : A -> A -> bool.

Lemma insert_perm a : forall l, Permutation (insert le a l) (a :: l).
Proof.
  induction l as [|b l IH]; [apply Permutation_refl|].
  cbn [insert]. destruct (le a b); [apply Permutation_refl|].
  eapply perm_trans; [apply perm_skip; exact IH| apply perm_swap].
Qed.

Lemma isort_perm : forall l, Permutation (isort le l) l.
Proof.
  induction l as [|a l IH]; [constructor|].
  cbn [isort]. eapply perm_trans; [apply insert_perm| apply perm_skip; exact IH].
Qed.

Lemma isort_length l : length (isort le l) = length l.
Proof. apply Permutation_length, isort_perm. Qed.

Hypothesis le_total : forall a b, le a b = false -> le b a = true.

Lemma insert_sorted a : forall l, Sorted (fun p q => le p q = true) l ->
  Sorted (fun p q => le p q = true) (insert le a l).
Proof.
  induction l as [|b l IH]; intros Hs.
  - cbn [insert]. constructor; constructor.
  - cbn [insert]. destruct (le a b) eqn:E.
    + constructor; [exact Hs| constructor; exact E].
    + inversion Hs as [|b' l' Hs' Hd]; subst.
      constructor; [apply IH; exact Hs'|].
      destruct l as [|c l]; cbn [insert].
      * constructor. apply le_total. exact E.
      * destruct (le a c); constructor; [apply le_total; exact E|].
        inversion Hd; assumption.
Qed.

Lemma isort_sorted : forall l, Sorted (fun p q => le p q = true) (isort le l).
Proof.
  induction l as [|a l IH]; [constructor|].
  cbn [isort]. apply insert_sorted. exact IH.
Qed.
End SortFacts.

(* sorting commutes with a map that preserves the comparison *)
Lemma insert_map (A B : Type) (le1 : A -> A -> bool) (le2 : B -> B -> bool) (phi : A -> B) :
  (forall a b, le2 (phi a) (phi b) = le1 a b) ->
  forall a l, map phi (insert le1 a l) = insert le2 (phi a) (map phi l).
Proof.
  intros H a l. induction l as [|b l IH]; [reflexivity|].
  cbn [insert map]. rewrite H. destruct (le1 a b); [reflexivity|].
  cbn [map]. rewrite IH. reflexivity.
Qed.

Lemma isort_map (A B : Type) (le1 : A -> A -> bool) (le2 : B -> B -> bool) (phi : A -> B) :
  (forall a b, le2 (phi a) (phi b) = le1 a b) ->
  forall l, map phi (isort le1 l) = isort le2 (map phi l).
Proof.
  intros H l. induction l as [|a l IH]; [reflexivity|].
  cbn [isort map]. rewrite (insert_map _ _ le1 le2 phi H), IH. reflexivity.
Qed.

(* a list sorted by a key (<=) whose keys are a permutation of 0..n-1 has the keys
   0..n-1 in this order *)
Lemma sorted_le_keys_unique : forall (l1 l2 : list nat),
  Sorted Nat.le l1 -> Sorted Nat.le l2 -> Permutation l1 l2 -> l1 = l2.
Proof.
  intros l1 l2 S1 S2. apply Sorted_StronglySorted in S1; [|intros p q r; apply Nat.le_trans].
  apply Sorted_StronglySorted in S2; [|intros p q r; apply Nat.le_trans].
  revert l2 S2. induction S1 as [|a l1 S1 IH Ha]; intros l2 S2 P.
  - apply Permutation_nil in P. symmetry. exact P.
  - destruct l2 as [|b l2]; [apply Permutation_sym, Permutation_nil in P; discriminate P|].
    inversion S2 as [|b' l2' S2' Hb]; subst.
    assert (Eab : a = b).
    { assert (Hab : (a <= b)%nat).
      { assert (Hin : In b (a :: l1)) by (eapply Permutation_in; [apply Permutation_sym; exact P| left; reflexivity]).
        destruct Hin as [->|Hin]; [apply Nat.le_refl|].
        rewrite Forall_forall in Ha. exact (Ha b Hin). }
      assert (Hba : (b <= a)%nat).
      { assert (Hin : In a (b :: l2)) by (eapply Permutation_in; [exact P| left; reflexivity]).
        destruct Hin as [->|Hin]; [apply Nat.le_refl|].
        rewrite Forall_forall in Hb. exact (Hb a Hin). }
      lia. }
    subst b. f_equal. apply IH; [exact S2'|]. eapply Permutation_cons_inv. exact P.
Qed.

Lemma seq_sorted : forall n i, Sorted Nat.le (seq i n).
Proof.
  induction n as [|n IH]; intros i; [constructor|].
  cbn [seq]. constructor; [apply IH|]. destruct n; cbn [seq]; constructor. lia.
Qed.

(* ------------------------------------------------------------------ *)
(* rows                                                                *)
(* ------------------------------------------------------------------ *)
Lemma mkrows_idx : forall x y wl i, length x = length y -> length wl = length y ->
  map r_idx (mkrows i x y wl) = seq i (length y).
Proof.
  induction x as [|a x IH]; intros y wl i Hx Hw.
  - destruct y; [reflexivity| discriminate Hx].
  - destruct y as [|b y]; [discriminate Hx|]. destruct wl as [|c wl]; [discriminate Hw|].
    cbn [mkrows map length seq r_idx]. cbn [length] in Hx, Hw.
    rewrite IH by lia. reflexivity.
Qed.

Lemma mkrows_length : forall x y wl i, length x = length y -> length wl = length y ->
  length (mkrows i x y wl) = length y.
Proof.
  intros x y wl i Hx Hw. rewrite <- (map_length r_idx), mkrows_idx by assumption. apply seq_length.
Qed.

Lemma mkrows_x : forall x y wl i, length x = length y -> length wl = length y ->
  map r_x (mkrows i x y wl) = x.
Proof.
  induction x as [|a x IH]; intros y wl i Hx Hw.
  - destruct y; [reflexivity| discriminate Hx].
  - destruct y as [|b y]; [discriminate Hx|]. destruct wl as [|c wl]; [discriminate Hw|].
    cbn [mkrows map r_x]. cbn [length] in Hx, Hw. rewrite IH by lia. reflexivity.
Qed.

Lemma mkrows_y : forall x y wl i, length x = length y -> length wl = length y ->
  map r_y (mkrows i x y wl) = y.
Proof.
  induction x as [|a x IH]; intros y wl i Hx Hw.
  - destruct y; [reflexivity| discriminate Hx].
  - destruct y as [|b y]; [discriminate Hx|]. destruct wl as [|c wl]; [discriminate Hw|].
    cbn [mkrows map r_y]. cbn [length] in Hx, Hw. rewrite IH by lia. reflexivity.
Qed.

Lemma mkrows_w : forall x y wl i, length x = length y -> length wl = length y ->
  map r_w (mkrows i x y wl) = wl.
Proof.
  induction x as [|a x IH]; intros y wl i Hx Hw.
  - destruct y; [|discriminate Hx]. destruct wl; [reflexivity| discriminate Hw].
  - destruct y as [|b y]; [discriminate Hx|]. destruct wl as [|c wl]; [discriminate Hw|].
    cbn [mkrows map r_w]. cbn [length] in Hx, Hw. rewrite IH by lia. reflexivity.
Qed.

Lemma row_le_total a b : row_le a b = false -> row_le b a = true.
Proof.
  unfold row_le. intros H.
  destruct (Qeq_bool (r_x a) (r_x b)) eqn:E.
  - apply Qeq_bool_iff in E.
    assert (E' : Qeq_bool (r_x b) (r_x a) = true) by (apply Qeq_bool_iff; symmetry; exact E).
    rewrite E'. apply Qle_bool_iff.
    destruct (Qlt_le_dec (r_y a) (r_y b)) as [Hl|Hl]; [apply Qlt_le_weak; exact Hl|].
    apply Qle_bool_iff in Hl. rewrite Hl in H. discriminate H.
  - assert (E' : Qeq_bool (r_x b) (r_x a) = false).
    { destruct (Qeq_bool (r_x b) (r_x a)) eqn:E2; [|reflexivity].
      apply Qeq_bool_iff in E2. symmetry in E2. apply Qeq_bool_iff in E2. congruence. }
    rewrite E'. apply Qle_bool_iff.
    destruct (Qlt_le_dec (r_x a) (r_x b)) as [Hl|Hl]; [|exact Hl].
    apply Qlt_le_weak, Qle_bool_iff in Hl. rewrite Hl in H. discriminate H.
Qed.

Lemma row_le_x a b : row_le a b = true -> r_x a <= r_x b.
Proof.
  unfold row_le. destruct (Qeq_bool (r_x a) (r_x b)) eqn:E; intros H.
  - apply Qeq_bool_iff in E. rewrite E. apply Qle_refl.
  - apply Qle_bool_iff. exact H.
Qed.

Lemma sorted_rows_x (l : list srow) : Sorted (fun p q => row_le p q = true) l -> sortedQ (map r_x l).
Proof.
  intros H. induction H as [|a l Hs IH Hd]; [exact Logic.I|].
  destruct l as [|b l]; [exact Logic.I|].
  cbn [map]. split; [|exact IH]. inversion Hd; subst. apply row_le_x. assumption.
Qed.

Lemma idx_le_total (B : Type) (key : B -> nat) a b :
  Nat.leb (key a) (key b) = false -> Nat.leb (key b) (key a) = true.
Proof. intros H. apply Nat.leb_le. apply Nat.leb_gt in H. lia. Qed.

(* The "unsort" of `recalibrate`: sorting the sorted rows, tagged with any values v,
   by their original index gives back the rows in the caller's order. *)
Definition key_le (p q : srow * Q) : bool := Nat.leb (r_idx (fst p)) (r_idx (fst q)).

Lemma unsort_rows x y wl (v : list Q) :
  length x = length y -> length wl = length y -> length v = length y ->
  let rows := mkrows 0 x y wl in
  let srt := isort row_le rows in
  let back := isort key_le (combine srt v) in
  map fst back = rows /\
  map snd back = map snd (isort idx_le (combine (map r_idx srt) v)) /\
  Permutation back (combine srt v).
Proof.
  intros Hx Hw Hv rows srt back.
  assert (Hlen : length srt = length v).
  { unfold srt. rewrite isort_length. unfold rows. rewrite mkrows_length by assumption. lia. }
  split; [|split].
  - (* keys *)
    assert (Hk : map r_idx (map fst back) = map r_idx rows).
    { apply sorted_le_keys_unique.
      - unfold back. rewrite map_map.
        pose proof (isort_sorted _ key_le
                      (fun a b => idx_le_total _ (fun p : srow * Q => r_idx (fst p)) a b)
                      (combine srt v)) as HS.
        clear - HS. induction HS as [|p l Hs IH Hd]; [constructor|].
        cbn [map]. constructor; [exact IH|].
        destruct l as [|q l]; constructor. inversion Hd; subst.
        unfold key_le in *. apply Nat.leb_le. assumption.
      - unfold rows. rewrite mkrows_idx by assumption. apply seq_sorted.
      - apply Permutation_map. unfold back.
        eapply perm_trans; [apply Permutation_map, isort_perm|].
        assert (E : map fst (combine srt v) = srt).
        { clear - Hlen. revert v Hlen. induction srt as [|r s IH]; intros v Hlen; [reflexivity|].
          destruct v as [|q v]; [discriminate Hlen|]. cbn [combine map fst].
          rewrite IH by (cbn [length] in Hlen; lia). reflexivity. }
        rewrite E. apply isort_perm. }
    (* rows with equal index lists that are permutations of each other are equal lists:
       use injectivity of r_idx on rows (indices are 0..n-1, distinct) *)
    assert (HP : Permutation (map fst back) rows).
    { unfold back. eapply perm_trans; [apply Permutation_map, isort_perm|].
      assert (E : map fst (combine srt v) = srt).
      { clear - Hlen. revert v Hlen. induction srt as [|r s IH]; intros v Hlen; [reflexivity|].
        destruct v as [|q v]; [discriminate Hlen|]. cbn [combine map fst].
        rewrite IH by (cbn [length] in Hlen; lia). reflexivity. }
      rewrite E. apply isort_perm. }
    assert (ND : NoDup (map r_idx rows)).
    { unfold rows. rewrite mkrows_idx by assumption. apply seq_NoDup. }
    clear - Hk HP ND. revert Hk HP ND. generalize (map fst back) as l1. generalize rows as l2.
    intros l2 l1. revert l2. induction l1 as [|a l1 IH]; intros l2 Hk HP ND.
    + apply Permutation_nil in HP. symmetry. exact HP.
    + destruct l2 as [|b l2]; [discriminate Hk|].
      cbn [map] in Hk. injection Hk as Hab Hk.
      assert (Eab : a = b).
      { assert (Hin : In a (b :: l2)) by (eapply Permutation_in; [exact HP| left; reflexivity]).
        destruct Hin as [E|Hin]; [symmetry; exact E|].
        exfalso. cbn [map] in ND. inversion ND as [|k ks Hnot ND']; subst.
        apply Hnot. rewrite <- Hab. apply in_map. exact Hin. }
      subst b. f_equal. apply IH; [exact Hk| |].
      * eapply Permutation_cons_inv. exact HP.
      * cbn [map] in ND. inversion ND; assumption.
  - (* values *)
    unfold back.
    assert (E : map (fun p : srow * Q => (r_idx (fst p), snd p)) (combine srt v)
                = combine (map r_idx srt) v).
    { clear - Hlen. revert v Hlen. induction srt as [|r s IH]; intros v Hlen; [reflexivity|].
      destruct v as [|q v]; [discriminate Hlen|]. cbn [combine map fst snd].
      rewrite IH by (cbn [length] in Hlen; lia). reflexivity. }
    rewrite <- E.
    rewrite <- (isort_map _ _ key_le idx_le (fun p : srow * Q => (r_idx (fst p), snd p)))
      by (intros a b; reflexivity).
    rewrite map_map. reflexivity.
  - apply isort_perm.
Qed.

(* ------------------------------------------------------------------ *)
(* sums of a total score T over rows                                   *)
(* ------------------------------------------------------------------ *)
Section Sums.
Variable T : Q -> Q -> Q.

Fixpoint zipT (y x : list Q) : list Q :=
  match y, x with
  | b :: y', c :: x' => T b c :: zipT y' x'
  | _, _ => []
  end.

Lemma scores_total : forall y x, length x = length y -> scores (total T) y x = Some (zipT y x).
Proof.
  induction y as [|b y IH]; intros x H.
  - destruct x; [reflexivity| discriminate H].
  - destruct x as [|c x]; [discriminate H|]. cbn [scores zipT]. unfold total at 1.
    rewrite IH by (cbn [length] in H; lia). reflexivity.
Qed.

Lemma avg_score_total y x wl : length x = length y ->
  avg_score (total T) y x wl = Some (wmean (combine (zipT y x) wl)).
Proof. intros H. unfold avg_score. rewrite scores_total by exact H. reflexivity. Qed.

(* sum_i w_i T(y_i, u_i), observations and weights from a list of pairs *)
Fixpoint tloss (l : list elt) (u : list Q) {struct l} : Q :=
  match l, u with
  | e :: l', q :: u' => ew e * T (ey e) q + tloss l' u'
  | _, _ => 0
  end.

Lemma wsum_zipT : forall y x wl, length x = length y -> length wl = length y ->
  wsum (combine (zipT y x) wl) == tloss (combine y wl) x.
Proof.
  induction y as [|b y IH]; intros x wl Hx Hw.
  - destruct x; [|discriminate Hx]. reflexivity.
  - destruct x as [|c x]; [discriminate Hx|]. destruct wl as [|d wl]; [discriminate Hw|].
    cbn [zipT combine wsum tloss]. unfold ew, ey. cbn [fst snd].
    cbn [length] in Hx, Hw. rewrite IH by lia. reflexivity.
Qed.

Lemma wtot_zipT : forall y x wl, length x = length y -> length wl = length y ->
  wtot (combine (zipT y x) wl) == wtot (combine y wl).
Proof.
  induction y as [|b y IH]; intros x wl Hx Hw.
  - destruct x; [|discriminate Hx]. reflexivity.
  - destruct x as [|c x]; [discriminate Hx|]. destruct wl as [|d wl]; [discriminate Hw|].
    cbn [zipT combine wtot]. unfold ew. cbn [snd].
    cbn [length] in Hx, Hw. rewrite IH by lia. reflexivity.
Qed.

Definition elt_of (r : srow) : elt := (r_y r, r_w r).

Fixpoint psum (l : list (srow * Q)) : Q :=
  match l with
  | [] => 0
  | p :: l' => r_w (fst p) * T (r_y (fst p)) (snd p) + psum l'
  end.

Lemma psum_perm l l' : Permutation l l' -> psum l == psum l'.
Proof.
  intros P. induction P as [|p l l' P IH|p q l|l1 l2 l3 P1 IH1 P2 IH2].
  - reflexivity.
  - cbn [psum]. rewrite IH. reflexivity.
  - cbn [psum]. ring.
  - rewrite IH1. exact IH2.
Qed.

Lemma psum_combine : forall rows u, length u = length rows ->
  psum (combine rows u) == tloss (map elt_of rows) u.
Proof.
  induction rows as [|r rows IH]; intros u H.
  - reflexivity.
  - destruct u as [|q u]; [discriminate H|].
    cbn [combine psum map tloss fst snd]. unfold elt_of at 1 2. unfold ew, ey. cbn [fst snd].
    rewrite IH by (cbn [length] in H; lia). reflexivity.
Qed.

Lemma mkrows_elt : forall x y wl i, length x = length y -> length wl = length y ->
  map elt_of (mkrows i x y wl) = combine y wl.
Proof.
  induction x as [|c x IH]; intros y wl i Hx Hw.
  - destruct y; [reflexivity| discriminate Hx].
  - destruct y as [|b y]; [discriminate Hx|]. destruct wl as [|d wl]; [discriminate Hw|].
    cbn [mkrows map combine]. cbn [length] in Hx, Hw. rewrite IH by lia. reflexivity.
Qed.

Lemma combine_map_l (A B : Type) (g : A -> B) : forall l : list A,
  combine l (map g l) = map (fun r => (r, g r)) l.
Proof. induction l as [|r l IH]; [reflexivity|]. cbn [map combine]. rewrite IH. reflexivity. Qed.

Lemma combine_repeat (A B : Type) (m : B) : forall l : list A,
  combine l (repeat m (length l)) = map (fun r => (r, m)) l.
Proof. induction l as [|r l IH]; [reflexivity|]. cbn [length repeat map combine]. rewrite IH. reflexivity. Qed.

Lemma combine_split (A B : Type) : forall l : list (A * B), combine (map fst l) (map snd l) = l.
Proof. induction l as [|[p q] l IH]; [reflexivity|]. cbn [map combine fst snd]. rewrite IH. reflexivity. Qed.

(* the three totals of `decompose`, expressed over the SORTED rows *)
Lemma total_forecast x y wl : length x = length y -> length wl = length y ->
  let srt := isort row_le (mkrows 0 x y wl) in
  tloss (combine y wl) x == tloss (map elt_of srt) (map r_x srt).
Proof.
  intros Hx Hw srt. set (rows := mkrows 0 x y wl).
  rewrite <- (mkrows_elt x y wl 0 Hx Hw). fold rows.
  rewrite <- (mkrows_x x y wl 0 Hx Hw) at 1. fold rows.
  rewrite <- !psum_combine by (rewrite map_length; reflexivity).
  rewrite !combine_map_l. apply psum_perm, Permutation_map, Permutation_sym, isort_perm.
Qed.

Lemma total_constant x y wl m : length x = length y -> length wl = length y ->
  let srt := isort row_le (mkrows 0 x y wl) in
  tloss (combine y wl) (repeat m (length y)) == tloss (map elt_of srt) (repeat m (length srt)).
Proof.
  intros Hx Hw srt. set (rows := mkrows 0 x y wl).
  rewrite <- (mkrows_elt x y wl 0 Hx Hw). fold rows.
  assert (E : length y = length rows) by (unfold rows; rewrite mkrows_length by assumption; reflexivity).
  rewrite E.
  rewrite <- !psum_combine by (rewrite repeat_length; reflexivity).
  rewrite !combine_repeat. apply psum_perm, Permutation_map, Permutation_sym, isort_perm.
Qed.

Lemma total_recal x y wl v : length x = length y -> length wl = length y -> length v = length y ->
  let srt := isort row_le (mkrows 0 x y wl) in
  let recal := map snd (isort idx_le (combine (map r_idx srt) v)) in
  tloss (combine y wl) recal == tloss (map elt_of srt) v.
Proof.
  intros Hx Hw Hv srt recal.
  destruct (unsort_rows x y wl v Hx Hw Hv) as (H1 & H2 & H3). cbv zeta in H1, H2, H3.
  fold srt in H1, H2, H3.
  set (back := isort key_le (combine srt v)) in *.
  rewrite <- (mkrows_elt x y wl 0 Hx Hw). rewrite <- H1.
  unfold recal. rewrite <- H2.
  rewrite <- psum_combine by (rewrite !map_length; reflexivity).
  rewrite combine_split. rewrite (psum_perm _ _ H3).
  apply psum_combine. unfold srt. rewrite isort_length, mkrows_length by assumption. exact Hv.
Qed.
End Sums.

(* ================================================================== *)
(* Part 3.  C06 signs: miscalibration >= 0 and discrimination >= 0     *)
(* ================================================================== *)
From Coq Require Import Qreals Reals Lra.
(* from here on unqualified [lra] is the real-number tactic; [Lqa.lra] the rational one *)
From MD Require Import theory.Optimal theory.IsoOptimal theory.Transport proofs.IsoProps
  proofs.IsoQuantProps.
Open Scope Q_scope.

Lemma all_pos_Forall wl : all_pos wl = true -> Forall (fun q => 0 < q) wl.
Proof.
  unfold all_pos. intros H. apply Forall_forall. intros q Hq.
  rewrite forallb_forall in H. specialize (H q Hq).
  destruct (Qle_bool q 0) eqn:E; [discriminate H|].
  destruct (Qlt_le_dec 0 q) as [Hl|Hl]; [exact Hl|].
  apply Qle_bool_iff in Hl. congruence.
Qed.

Lemma combine_yw_rows : forall l : list srow, combine (map r_y l) (map r_w l) = map elt_of l.
Proof. induction l as [|r l IH]; [reflexivity|]. cbn [map combine]. rewrite IH. reflexivity. Qed.

Lemma combine_y_ones : forall l : list srow, Forall (fun r => r_w r = 1) l ->
  combine (map r_y l) (map (fun _ => 1) (map r_y l)) = map elt_of l.
Proof.
  intros l H. induction H as [|r l Hr H IH]; [reflexivity|].
  cbn [map combine]. rewrite IH. unfold elt_of. rewrite Hr. reflexivity.
Qed.

Lemma div_le_mono (A B W : Q) : 0 < W -> B <= A -> B / W <= A / W.
Proof.
  intros HW H. unfold Qdiv. apply Qmult_le_compat_r; [exact H|].
  apply Qlt_le_weak, Qinv_lt_0_compat. exact HW.
Qed.

(* the data `isotonic_regression` is called with, as the list of sorted rows *)
Lemma sorted_data x y w :
  length x = length y ->
  (match w with None => True | Some wl => length wl = length y end) ->
  all_pos_w w = true ->
  let srt := sorted_rows x y w in
  let ws := match w with None => None | Some _ => Some (map r_w srt) end in
  valid_w (map r_y srt) ws /\ data (map r_y srt) ws = map elt_of srt /\
  Forall posw (map elt_of srt) /\ length srt = length y.
Proof.
  intros Hx Hw Hp srt ws.
  assert (Hwl : length (weights_or_ones (length y) w) = length y).
  { destruct w as [wl|]; cbn [weights_or_ones]; [exact Hw| apply repeat_length]. }
  assert (Hperm : Permutation srt (mkrows 0 x y (weights_or_ones (length y) w))).
  { unfold srt, sorted_rows. apply isort_perm. }
  assert (Hpos : Forall (fun q => 0 < q) (weights_or_ones (length y) w)).
  { destruct w as [wl|]; cbn [weights_or_ones].
    - apply all_pos_Forall. exact Hp.
    - apply Forall_forall. intros q Hq. apply repeat_spec in Hq. subst q. reflexivity. }
  assert (Hposr : Forall (fun r => 0 < r_w r) srt).
  { apply Forall_forall. intros r Hr.
    assert (Hin : In (r_w r) (map r_w (mkrows 0 x y (weights_or_ones (length y) w)))).
    { apply in_map. eapply Permutation_in; [exact Hperm| exact Hr]. }
    rewrite mkrows_w in Hin by assumption. rewrite Forall_forall in Hpos. exact (Hpos _ Hin). }
  assert (Hlen : length srt = length y).
  { rewrite (Permutation_length Hperm). apply mkrows_length; assumption. }
  assert (Hpw : Forall posw (map elt_of srt)).
  { apply Forall_forall. intros e He. apply in_map_iff in He. destruct He as (r & <- & Hr).
    rewrite Forall_forall in Hposr. exact (Hposr r Hr). }
  destruct w as [wl|].
  - split; [|split; [|split]]; [| |exact Hpw| exact Hlen].
    + cbn [valid_w]. split; [rewrite !map_length; reflexivity|].
      apply Forall_forall. intros q Hq. apply in_map_iff in Hq. destruct Hq as (r & <- & Hr).
      rewrite Forall_forall in Hposr. exact (Hposr r Hr).
    + unfold data. cbn [weights_of]. apply combine_yw_rows.
  - split; [|split; [|split]]; [exact Logic.I| |exact Hpw| exact Hlen].
    unfold data. cbn [weights_of]. apply combine_y_ones.
    apply Forall_forall. intros r Hr.
    assert (Hin : In (r_w r) (map r_w (mkrows 0 x y (weights_or_ones (length y) None)))).
    { apply in_map. eapply Permutation_in; [exact Hperm| exact Hr]. }
    rewrite mkrows_w in Hin by assumption. cbn [weights_or_ones] in Hin.
    apply repeat_spec in Hin. exact Hin.
Qed.

Section Sign.
Variable vr : variant.
Variable T : Q -> Q -> Q.
Variable f : ifun.
Variable a : Q.
Hypothesis f_not_median : f <> IFmedian.

(* v minimises the total score over ALL monotone rational sequences *)
Definition iso_opt_Q (l : list elt) (v : list Q) : Prop :=
  forall u, length u = length l -> sortedQ u -> tloss T l v <= tloss T l u.

Hypothesis Hopt : forall ys ws v r, ys <> [] -> valid_w ys ws ->
  isotonic_regression ys ws true f a = IOk (v, r) ->
  length v = length ys /\ iso_opt_Q (data ys ws) v.

Lemma recal_opt x y w r :
  y <> [] -> length x = length y ->
  (match w with None => True | Some wl => length wl = length y end) ->
  all_pos_w w = true ->
  recalibrate f a x y w = DOk r ->
  let wl := weights_or_ones (length y) w in
  length r = length y /\
  tloss T (combine y wl) r <= tloss T (combine y wl) x /\
  forall m, tloss T (combine y wl) r <= tloss T (combine y wl) (repeat m (length y)).
Proof.
  intros Hn Hx Hw Hp Hr wl.
  assert (Hwl : length wl = length y).
  { unfold wl. destruct w as [wl0|]; cbn [weights_or_ones]; [exact Hw| apply repeat_length]. }
  destruct (sorted_data x y w Hx Hw Hp) as (Hv & Hd & Hpw & Hlen). cbv zeta in Hv, Hd, Hpw, Hlen.
  unfold recalibrate in Hr.
  set (srt := sorted_rows x y w) in *.
  set (ws := match w with None => None | Some _ => Some (map r_w srt) end) in *.
  destruct (isotonic_regression (map r_y srt) ws true f a) as [[v rr]|e] eqn:Ei; [|discriminate Hr].
  injection Hr as <-.
  assert (Hne : map r_y srt <> []).
  { intros E. apply (f_equal (@length Q)) in E. rewrite map_length, Hlen in E.
    destruct y; [congruence| discriminate E]. }
  destruct (Hopt _ _ _ _ Hne Hv Ei) as (Lv & Ho).
  rewrite map_length, Hlen in Lv. rewrite Hd in Ho.
  assert (Lr : length (map snd (isort idx_le (combine (map r_idx srt) v))) = length y).
  { rewrite map_length, isort_length, combine_length, map_length, Hlen, Lv. apply Nat.min_id. }
  split; [exact Lr|].
  assert (ER : tloss T (combine y wl) (map snd (isort idx_le (combine (map r_idx srt) v)))
               == tloss T (map elt_of srt) v).
  { exact (total_recal T x y wl v Hx Hwl Lv). }
  assert (EF : tloss T (combine y wl) x == tloss T (map elt_of srt) (map r_x srt)).
  { exact (total_forecast T x y wl Hx Hwl). }
  assert (EC : forall m, tloss T (combine y wl) (repeat m (length y))
                         == tloss T (map elt_of srt) (repeat m (length srt))).
  { intros m. exact (total_constant T x y wl m Hx Hwl). }
  split.
  - rewrite ER, EF. apply Ho.
    + rewrite !map_length. reflexivity.
    + apply sorted_rows_x. unfold srt, sorted_rows. apply isort_sorted. exact row_le_total.
  - intros m. rewrite ER, (EC m). apply Ho.
    + rewrite repeat_length, map_length. reflexivity.
    + clear. induction (length srt) as [|k IH]; [exact Logic.I|].
      cbn [repeat]. destruct k as [|k]; [exact Logic.I|]. split; [apply Qle_refl| exact IH].
Qed.

Theorem sign_generic : forall sf_fun sf_level y cols w functional level rows,
  infer sf_fun sf_level functional level = DOk (f, a) ->
  decompose vr (total T) sf_fun sf_level y cols w functional level = DOk rows ->
  Forall (fun r => 0 <= mcb r /\ 0 <= dsc r) rows.
Proof.
  intros sf_fun sf_level y cols w functional level rows Hinf H.
  destruct (decompose_inv _ _ _ _ _ _ _ _ _ _ H) as (f' & a' & m & ymin & ok & sm & HR).
  destruct HR as ((fa & Hinf' & Ha') & Hc & Hw & Hp & _ & Hpre & Hcols).
  rewrite Hinf in Hinf'. injection Hinf' as <-.
  rewrite (alias_id vr f a f_not_median) in Ha'. injection Ha' as <- <-.
  destruct (prelude_inv _ _ _ _ _ _ _ _ _ Hpre) as (Hn & _ & Hsm & _ & Hok).
  assert (Eok : ok = true) by (rewrite Hok; reflexivity). clear Hok. rewrite Eok in Hcols. clear Hpre Eok ok.
  pose proof (columns_inv _ _ _ _ _ _ _ _ _ _ _ Hcols) as HF.
  set (wl := weights_or_ones (length y) w) in *.
  assert (Hwl : length wl = length y).
  { unfold wl. destruct w as [wl0|]; cbn [weights_or_ones]; [exact Hw| apply repeat_length]. }
  assert (HW : 0 < wtot (combine y wl)).
  { apply wtot_pos.
    - intros E. apply (f_equal (@length (Q * Q))) in E. rewrite combine_length, Hwl, Nat.min_id in E.
      destruct y; [congruence| discriminate E].
    - apply Forall_forall. intros e He. destruct e as [q1 q2]. apply in_combine_r in He.
      unfold posw, ew. cbn [snd]. unfold wl in He. destruct w as [wl0|]; cbn [weights_or_ones] in He.
      + pose proof (all_pos_Forall wl0 Hp) as F. rewrite Forall_forall in F. exact (F _ He).
      + apply repeat_spec in He. subst q2. reflexivity. }
  clear Hcols H.
  induction HF as [|x row cols rows Hx HF IH]; constructor.
  - clear IH. inversion Hc as [|c0 cs Hlx Hc']; subst.
    destruct (column_inv _ _ _ _ _ _ _ _ _ _ _ Hx) as (r & s & sr & Hrf & Hs & Hsr & _ & ->).
    unfold recal_final in Hrf.
    destruct (recalibrate f a x y w) as [r0|e] eqn:Er; [|discriminate Hrf].
    cbn [negb andb] in Hrf. injection Hrf as <-.
    destruct (recal_opt x y w r0 Hn Hlx Hw Hp Er) as (Lr & H1 & H2). cbv zeta in H1, H2.
    fold wl in H1, H2, Hs, Hsr, Hsm.
    rewrite avg_score_total in Hs by exact Hlx. injection Hs as <-.
    rewrite avg_score_total in Hsr by exact Lr. injection Hsr as <-.
    rewrite avg_score_total in Hsm by apply repeat_length. injection Hsm as <-.
    cbn [mcb dsc]. rewrite !wmean_eq.
    rewrite !wsum_zipT, !wtot_zipT by (try assumption; try apply repeat_length).
    split.
    + pose proof (div_le_mono _ _ _ HW H1) as HD. Lqa.lra.
    + pose proof (div_le_mono _ _ _ HW (H2 m)) as HD. Lqa.lra.
  - apply IH. inversion Hc; assumption.
Qed.
End Sign.

(* ------------------------------------------------------------------ *)
(* the three rational score families: optimality of the fit, in Q      *)
(* ------------------------------------------------------------------ *)
Lemma Q2R_Qred q : Q2R (Qred q) = Q2R q.
Proof. apply Qeq_eqR, Qred_correct. Qed.

Lemma sortedQ_repeat (m : Q) n : sortedQ (repeat m n).
Proof.
  induction n as [|k IH]; [exact Logic.I|].
  cbn [repeat]. destruct k as [|k]; [exact Logic.I|]. split; [apply Qle_refl| exact IH].
Qed.

(* (a) squared error and the mean fit *)
Lemma lossSq_tloss : forall l u, lossSq l (map Q2R u) = Q2R (tloss sq_score l u).
Proof.
  induction l as [|e l IH]; intros u.
  - cbn [lossSq tloss]. symmetry. apply Q2R_0.
  - destruct u as [|q u].
    + cbn [map lossSq tloss]. symmetry. apply Q2R_0.
    + cbn [map lossSq tloss]. rewrite IH, Q2R_plus, Q2R_mult. unfold sq_score.
      rewrite Q2R_Qred, Q2R_mult, Q2R_minus. ring.
Qed.

Lemma opt_squared a : forall ys ws v r, ys <> [] -> valid_w ys ws ->
  isotonic_regression ys ws true IFmean a = IOk (v, r) ->
  length v = length ys /\ iso_opt_Q sq_score (data ys ws) v.
Proof.
  intros ys ws v r Hn Hv H.
  destruct (iso_mean_optimal ys ws true a v r Hn Hv H) as (L & _ & HO).
  split; [exact L|]. intros u Hu Hs.
  rewrite (data_length ys ws Hv) in Hu.
  assert (HuR : length (map Q2R u) = length ys) by (rewrite map_length; exact Hu).
  pose proof (HO (map Q2R u) HuR (sortedR_map_Q2R u Hs)) as HI.
  pose proof (wdist_nonneg (data ys ws) (data_posw ys ws Hv) (map Q2R u) (map Q2R v)) as HW.
  rewrite !lossSq_tloss in HI. apply Rle_Qle. lra.
Qed.

(* (b) asymmetric squared error (HomogeneousExpectileScore of degree 2) and the expectile fit *)
Lemma lossAs_tloss a : forall l u, (2 * lossAs a l (map Q2R u))%R = Q2R (tloss (asq_score a) l u).
Proof.
  induction l as [|e l IH]; intros u.
  - cbn [lossAs tloss]. rewrite Q2R_0. ring.
  - destruct u as [|q u].
    + cbn [map lossAs tloss]. rewrite Q2R_0. ring.
    + cbn [map lossAs tloss]. rewrite Q2R_plus, Q2R_mult, <- IH. unfold asq_score.
      rewrite Q2R_Qred, !Q2R_mult, Q2R_minus, Q2R_2.
      change (Qle_bool (ey e) q) with (Functionals.leb (ey e) q).
      rewrite (leb_Rle_dec Q (ey e) q (1 - a)%Q a).
      destruct (Rle_dec (Q2R (ey e)) (Q2R q)) as [Hc|Hc].
      * rewrite Q2R_minus, Q2R_1. ring.
      * ring.
Qed.

Lemma opt_asq a : (0 < a /\ a < 1) -> forall ys ws v r, ys <> [] -> valid_w ys ws ->
  isotonic_regression ys ws true IFexpectile a = IOk (v, r) ->
  length v = length ys /\ iso_opt_Q (asq_score a) (data ys ws) v.
Proof.
  intros Ha ys ws v r Hn Hv H.
  destruct (iso_expectile_optimal ys ws true a v r Hn Hv Ha H) as (L & _ & HO).
  split; [exact L|]. intros u Hu Hs.
  rewrite (data_length ys ws Hv) in Hu.
  assert (HuR : length (map Q2R u) = length ys) by (rewrite map_length; exact Hu).
  pose proof (HO (map Q2R u) HuR (sortedR_map_Q2R u Hs)) as HI.
  pose proof (wdist_nonneg (data ys ws) (data_posw ys ws Hv) (map Q2R u) (map Q2R v)) as HW.
  pose proof (level_R a Ha) as HaR.
  assert (HM : (0 <= Rmin (Q2R a) (1 - Q2R a))%R).
  { unfold Rmin. destruct (Rle_dec (Q2R a) (1 - Q2R a)); lra. }
  pose proof (Rmult_le_pos _ _ HM HW) as HP.
  apply Rle_Qle. rewrite <- !lossAs_tloss. lra.
Qed.

(* (c) pinball loss and the quantile fit (no weights: the library rejects them) *)
Lemma lossPin_tloss a : forall l u, Forall (fun e => ew e = 1) l ->
  lossPin a l (map Q2R u) = Q2R (tloss (pin_score a) l u).
Proof.
  induction l as [|e l IH]; intros u Hl.
  - cbn [lossPin tloss]. symmetry. apply Q2R_0.
  - destruct u as [|q u].
    + cbn [map lossPin tloss]. symmetry. apply Q2R_0.
    + inversion Hl as [|e' l' He Hl']; subst.
      cbn [map lossPin tloss]. rewrite (IH u Hl'), Q2R_plus, Q2R_mult, He, Q2R_1. unfold pin_score.
      rewrite Q2R_Qred, Q2R_mult, !Q2R_minus.
      change (Qle_bool (ey e) q) with (Functionals.leb (ey e) q).
      rewrite (leb_Rle_dec Q (ey e) q 1 0).
      destruct (Rle_dec (Q2R (ey e)) (Q2R q)) as [Hc|Hc].
      * rewrite Q2R_1. ring.
      * rewrite Q2R_0. ring.
Qed.

Lemma udata_ones : forall ys : list Q, Forall (fun e => ew e = 1) (udata ys).
Proof.
  intros ys. unfold udata. induction ys as [|q ys IH]; [constructor|].
  cbn [map combine]. constructor; [reflexivity| exact IH].
Qed.

Lemma opt_pin a : (0 < a /\ a < 1) -> forall ys ws v r, ys <> [] -> valid_w ys ws ->
  isotonic_regression ys ws true IFquantile a = IOk (v, r) ->
  length v = length ys /\ iso_opt_Q (pin_score a) (data ys ws) v.
Proof.
  intros Ha ys ws v r Hn Hv H.
  destruct ws as [wl|].
  - exfalso. unfold isotonic_regression in H.
    rewrite (level_guard a Ha) in H. cbn [andb] in H. discriminate H.
  - destruct (iso_quantile_optimal ys true a v r Hn Ha H) as (L & _ & HO).
    split; [exact L|]. intros u Hu Hs.
    change (data ys None) with (udata ys) in *.
    rewrite udata_length in Hu.
    assert (HuR : length (map Q2R u) = length ys) by (rewrite map_length; exact Hu).
    assert (Hm : IsoQuantProps.monoR true (map Q2R u)) by (exact (sortedR_map_Q2R u Hs)).
    pose proof (HO (map Q2R u) HuR Hm) as HI.
    rewrite !(lossPin_tloss a _ _ (udata_ones ys)) in HI. apply Rle_Qle. lra.
Qed.

(* the level returned by [infer] for a functional that has one *)
Lemma infer_level sf_fun sf_level functional level f a :
  infer sf_fun sf_level functional level = DOk (f, a) -> has_level f = true -> 0 < a /\ a < 1.
Proof.
  unfold infer. intros H Hf.
  destruct (match functional with Some f0 => Some f0 | None => sf_fun end) as [f0|]; [|discriminate H].
  destruct (match level with Some a0 => Some a0 | None => if has_level f0 then sf_level else Some (1#2) end)
    as [a0|]; [|discriminate H].
  destruct f0; try discriminate H; cbn [has_level andb] in H.
  - injection H as <- <-. discriminate Hf.
  - injection H as <- <-. discriminate Hf.
  - destruct (Qle_bool a0 0 || Qle_bool 1 a0) eqn:E; [discriminate H|]. injection H as <- <-.
    apply orb_false_elim in E. destruct E as [E0 E1]. split.
    + destruct (Qlt_le_dec 0 a0) as [Hl|Hl]; [exact Hl|]. apply Qle_bool_iff in Hl. congruence.
    + destruct (Qlt_le_dec a0 1) as [Hl|Hl]; [exact Hl|]. apply Qle_bool_iff in Hl. congruence.
  - destruct (Qle_bool a0 0 || Qle_bool 1 a0) eqn:E; [discriminate H|]. injection H as <- <-.
    apply orb_false_elim in E. destruct E as [E0 E1]. split.
    + destruct (Qlt_le_dec 0 a0) as [Hl|Hl]; [exact Hl|]. apply Qle_bool_iff in Hl. congruence.
    + destruct (Qlt_le_dec a0 1) as [Hl|Hl]; [exact Hl|]. apply Qle_bool_iff in Hl. congruence.
Qed.

Lemma infer_level_alias v sf_fun sf_level functional level fa f a :
  infer sf_fun sf_level functional level = DOk fa -> alias v fa = (f, a) ->
  has_level f = true -> 0 < a /\ a < 1.
Proof.
  intros Hi Ha Hf. destruct fa as [f0 a0].
  destruct f0; cbn [alias] in Ha;
    try (injection Ha as <- <-; exact (infer_level _ _ _ _ _ _ Hi Hf)).
  destruct (v_median v).
  - injection Ha as <- <-. split; reflexivity.
  - injection Ha as <- <-. discriminate Hf.
Qed.

(* C06, signs.  For these three scores every real number is an admissible prediction,
   so "the smallest observation is admissible" holds and the repair path is never taken. *)
Theorem decomp_sign_squared_error : forall v sf_fun sf_level y cols w functional level a rows,
  infer sf_fun sf_level functional level = DOk (IFmean, a) ->
  decompose v (total sq_score) sf_fun sf_level y cols w functional level = DOk rows ->
  Forall (fun r => 0 <= mcb r /\ 0 <= dsc r) rows.
Proof.
  intros v sf_fun sf_level y cols w functional level a rows Hi H.
  exact (sign_generic v sq_score IFmean a ltac:(discriminate) (opt_squared a) _ _ _ _ _ _ _ _ Hi H).
Qed.

Theorem decomp_mcb_nonneg : forall v sf_fun sf_level y cols w functional level a rows,
  infer sf_fun sf_level functional level = DOk (IFmean, a) ->
  decompose v (total sq_score) sf_fun sf_level y cols w functional level = DOk rows ->
  Forall (fun r => 0 <= mcb r) rows.
Proof.
  intros v sf_fun sf_level y cols w functional level a rows Hi H.
  eapply Forall_impl; [|exact (decomp_sign_squared_error _ _ _ _ _ _ _ _ _ _ Hi H)].
  intros r [Hm _]. exact Hm.
Qed.

Theorem decomp_dsc_nonneg : forall v sf_fun sf_level y cols w functional level a rows,
  infer sf_fun sf_level functional level = DOk (IFmean, a) ->
  decompose v (total sq_score) sf_fun sf_level y cols w functional level = DOk rows ->
  Forall (fun r => 0 <= dsc r) rows.
Proof.
  intros v sf_fun sf_level y cols w functional level a rows Hi H.
  eapply Forall_impl; [|exact (decomp_sign_squared_error _ _ _ _ _ _ _ _ _ _ Hi H)].
  intros r [_ Hd]. exact Hd.
Qed.

Theorem decomp_sign_expectile2 : forall v sf_fun sf_level y cols w functional level a rows,
  infer sf_fun sf_level functional level = DOk (IFexpectile, a) ->
  decompose v (total (asq_score a)) sf_fun sf_level y cols w functional level = DOk rows ->
  Forall (fun r => 0 <= mcb r /\ 0 <= dsc r) rows.
Proof.
  intros v sf_fun sf_level y cols w functional level a rows Hi H.
  pose proof (infer_level _ _ _ _ _ _ Hi eq_refl) as Ha.
  exact (sign_generic v (asq_score a) IFexpectile a ltac:(discriminate) (opt_asq a Ha) _ _ _ _ _ _ _ _ Hi H).
Qed.

Theorem decomp_sign_pinball : forall v sf_fun sf_level y cols w functional level a rows,
  infer sf_fun sf_level functional level = DOk (IFquantile, a) ->
  decompose v (total (pin_score a)) sf_fun sf_level y cols w functional level = DOk rows ->
  Forall (fun r => 0 <= mcb r /\ 0 <= dsc r) rows.
Proof.
  intros v sf_fun sf_level y cols w functional level a rows Hi H.
  pose proof (infer_level _ _ _ _ _ _ Hi eq_refl) as Ha.
  exact (sign_generic v (pin_score a) IFquantile a ltac:(discriminate) (opt_pin a Ha) _ _ _ _ _ _ _ _ Hi H).
Qed.

Print Assumptions decomp_sign_squared_error.
Print Assumptions decomp_sign_expectile2.
Print Assumptions decomp_sign_pinball.

(* ================================================================== *)
(* Part 4.  C07 aliases; the defects of the current code on the model  *)
(* ================================================================== *)
(* explicit functional = the scoring function's own functional *)
Theorem decomp_explicit_functional : forall v S f sl y cols w level,
  decompose v S (Some f) sl y cols w (Some f) level = decompose v S (Some f) sl y cols w None level.
Proof. intros. reflexivity. Qed.

(* explicit level = the scoring function's own level (expectile / quantile) *)
Theorem decomp_explicit_level : forall v S f a y cols w,
  has_level f = true ->
  decompose v S (Some f) (Some a) y cols w None (Some a) = decompose v S (Some f) (Some a) y cols w None None.
Proof. intros v S f a y cols w H. unfold decompose, infer. rewrite H. reflexivity. Qed.

(* functional "mean": the level argument is ignored *)
Theorem decomp_mean_level_ignored : forall v S sl y cols w a,
  decompose v S (Some IFmean) sl y cols w None (Some a) = decompose v S (Some IFmean) sl y cols w None None.
Proof.
  intros v S sl y cols w a. unfold decompose, infer. cbn [has_level andb alias].
  destruct (negb (forallb (fun c => Nat.eqb (length c) (length y)) cols)); [reflexivity|].
  destruct (negb (match w with None => true | Some wl => Nat.eqb (length wl) (length y) end)); [reflexivity|].
  destruct (negb (all_pos_w w)); [reflexivity|].
  destruct cols as [|c0 cols']; [reflexivity|].
  assert (EP : prelude S IFmean a y w = prelude S IFmean (1#2) y w) by reflexivity.
  rewrite EP. destruct (prelude S IFmean (1#2) y w) as [[[[m ymin] ok] sm]|e]; [|reflexivity].
  assert (EC : forall x, column v S IFmean a y w ymin ok sm x = column v S IFmean (1#2) y w ymin ok sm x)
    by (intros x; destruct v as [b1 [|] b3]; reflexivity).
  generalize (c0 :: cols') as cs. induction cs as [|x cs IH]; [reflexivity|].
  cbn [columns]. rewrite EC, IH. reflexivity.
Qed.

(* RECORD OF THE OLD BEHAVIOUR (variant `current`, before /repo fix d3b9226; DESIGN.md defect
   D1): "median = quantile at 0.5" did NOT hold - no marginal for "median". *)
Theorem decomp_median_alias_refuted :
  exists S y cols rows,
    decompose current S (Some IFquantile) (Some (1#2)) y cols None (Some IFmedian) None = DErr DEUnbound /\
    decompose current S (Some IFquantile) (Some (1#2)) y cols None (Some IFquantile) (Some (1#2)) = DOk rows.
Proof.
  exists (total (pin_score (1#2))), [0; 1; 2; 1], [[1#2; 1; 5#2; 3#2]].
  eexists. split; vm_compute; reflexivity.
Qed.

(* ... and holds since /repo fix d3b9226 (variant flag v_median; `fixed` below) *)
Theorem decomp_median_alias : forall v S sf sl y cols w lvl,
  v_median v = true ->
  decompose v S sf sl y cols w (Some IFmedian) lvl
  = decompose v S sf sl y cols w (Some IFquantile) (Some (1#2)).
Proof.
  intros v S sf sl y cols w lvl Hv. unfold decompose, infer. cbn [has_level andb orb].
  destruct lvl as [a|]; cbn [alias]; rewrite Hv; reflexivity.
Qed.

Theorem decomp_median_alias_fixed : forall S sf sl y cols w lvl,
  decompose fixed S sf sl y cols w (Some IFmedian) lvl
  = decompose fixed S sf sl y cols w (Some IFquantile) (Some (1#2)).
Proof. intros. apply decomp_median_alias. reflexivity. Qed.

(* RECORD OF THE OLD BEHAVIOUR (variant `current`, before /repo fix 04732ba; DESIGN.md defect
   D2): the positional repair (lines 888-910) made the outcome depend on the row order.
   The same rows under the repaired code: repair_by_value_example below.  Witness: a score for the mean with predictions restricted to
   z > 0 (the domain of the Poisson deviance), the rows of D2. *)
Definition sq_pos (y z : Q) : option Q := if Qle_bool z 0 then None else Some (sq_score y z).

Theorem repair_not_perm_invariant_refuted :
  exists rows,
    decompose current sq_pos (Some IFmean) (Some (1#2)) [0; 0; 1; 2; 0; 3]
      [[1#2; 1#5; 3#2; 5#2; 1#10; 3]] None None None = DErr DEValue /\
    (* the same rows sorted by forecast *)
    decompose current sq_pos (Some IFmean) (Some (1#2)) [0; 0; 0; 1; 2; 3]
      [[1#10; 1#5; 1#2; 3#2; 5#2; 3]] None None None = DOk rows.
Proof. eexists. split; vm_compute; reflexivity. Qed.

(* RECORD OF THE OLD BEHAVIOUR (variants without v_squeeze, before /repo fix e52a7ce): a data
   set with one row was rejected (np.squeeze, line 887); now: single_row_fixed_example *)
Theorem single_row_rejected : forall v S sf sl y0 x0 w functional level,
  v_squeeze v = false ->
  exists e, decompose v S sf sl [y0] [[x0]] w functional level = DErr e.
Proof.
  intros v S sf sl y0 x0 w functional level Hv. unfold decompose.
  destruct (infer sf sl functional level) as [fa|e]; [|eexists; reflexivity].
  destruct (alias v fa) as [f a].
  destruct (negb (forallb (fun c => Nat.eqb (length c) (length [y0])) [[x0]])); [eexists; reflexivity|].
  destruct (negb (match w with None => true | Some wl => Nat.eqb (length wl) (length [y0]) end));
    [eexists; reflexivity|].
  destruct (negb (all_pos_w w)); [eexists; reflexivity|].
  destruct (prelude S f a [y0] w) as [[[[m ymin] ok] sm]|e]; [|eexists; reflexivity].
  cbn [columns]. unfold column.
  destruct (recal_final v f a [y0] w ymin ok [x0]) as [r|e]; [|eexists; reflexivity].
  rewrite Hv. cbn [length Nat.eqb negb andb].
  destruct (avg_score S [y0] [x0] (weights_or_ones 1 w)); eexists; reflexivity.
Qed.

(* ================================================================== *)
(* Part 5.  C07: score and uncertainty are invariant under any         *)
(*          permutation of the rows                                    *)
(* ================================================================== *)
From MD Require Import theory.GpavaMerge theory.InstMean theory.InstExpectile theory.InstQuantile.

Lemma wsum_perm l l' : Permutation l l' -> wsum l == wsum l'.
Proof.
  intros P. induction P as [|p l l' P IH|p q l|l1 l2 l3 P1 IH1 P2 IH2]; cbn [wsum].
  - reflexivity.
  - rewrite IH. reflexivity.
  - ring.
  - rewrite IH1. exact IH2.
Qed.

Lemma wtot_perm l l' : Permutation l l' -> wtot l == wtot l'.
Proof.
  intros P. induction P as [|p l l' P IH|p q l|l1 l2 l3 P1 IH1 P2 IH2]; cbn [wtot].
  - reflexivity.
  - rewrite IH. reflexivity.
  - ring.
  - rewrite IH1. exact IH2.
Qed.

Lemma Qred_eq_of_Qeq (p q : Q) : p == q -> Qred p = Qred q.
Proof. apply Qred_complete. Qed.

Lemma wmean_perm l l' : Permutation l l' -> wmean l = wmean l'.
Proof.
  intros P. unfold wmean. apply Qred_complete.
  rewrite (wsum_perm _ _ P), (wtot_perm _ _ P). reflexivity.
Qed.

Lemma hi_perm (V : elt -> Q -> Q) l l' t : Permutation l l' -> hi elt V l t == hi elt V l' t.
Proof.
  intros P. induction P as [|p l l' P IH|p q l|l1 l2 l3 P1 IH1 P2 IH2]; cbn [hi].
  - reflexivity.
  - rewrite IH. reflexivity.
  - ring.
  - rewrite IH1. exact IH2.
Qed.

Lemma Forall_perm (A : Type) (P : A -> Prop) l l' : Permutation l l' -> Forall P l -> Forall P l'.
Proof.
  intros Hp H. apply Forall_forall. intros x Hx. rewrite Forall_forall in H.
  apply H. eapply Permutation_in; [apply Permutation_sym; exact Hp| exact Hx].
Qed.

Lemma perm_nonempty (A : Type) (l l' : list A) : Permutation l l' -> l <> [] -> l' <> [].
Proof. intros P Hn E. subst l'. apply Permutation_sym, Permutation_nil in P. congruence. Qed.

(* the value of expectile_Q is always in reduced form *)
Lemma efirst_canon a l : forall cands, exists q, efirst a l cands = Qred q.
Proof.
  induction cands as [|c cs IH].
  - exists 0. reflexivity.
  - cbn [efirst]. destruct (evalid l c (ecand a l c)); [|exact IH].
    unfold ecand. eexists. reflexivity.
Qed.

Lemma Qred_idem q : Qred (Qred q) = Qred q.
Proof. apply Qred_complete, Qred_correct. Qed.

Lemma canon_eq (p q : Q) : (exists p', p = Qred p') -> (exists q', q = Qred q') -> p == q -> p = q.
Proof.
  intros [p' ->] [q' ->] H. rewrite <- (Qred_idem p'), <- (Qred_idem q'). apply Qred_complete. exact H.
Qed.

Lemma expectile_perm a l l' : 0 < a /\ a < 1 -> l <> [] -> Forall posw l -> Permutation l l' ->
  expectile_Q a l = expectile_Q a l'.
Proof.
  intros Ha Hn Hp P. apply canon_eq; [apply efirst_canon| apply efirst_canon|].
  pose proof (expectile_Q_root a Ha l Hn Hp) as R1.
  pose proof (expectile_Q_root a Ha l' (perm_nonempty _ _ _ P Hn) (Forall_perm _ _ _ _ P Hp)) as R2.
  rewrite <- (hi_perm _ _ _ _ P) in R2.
  exact (F_root_unique a Ha l _ _ Hn Hp R1 R2).
Qed.

Lemma count_le_perm l l' t : Permutation l l' -> count_le l t = count_le l' t.
Proof.
  intros P. unfold count_le.
  induction P as [|p l l' P IH|p q l|l1 l2 l3 P1 IH1 P2 IH2]; cbn [filter].
  - reflexivity.
  - destruct (Functionals.leb (ey p) t); cbn [length]; rewrite IH; reflexivity.
  - destruct (Functionals.leb (ey p) t), (Functionals.leb (ey q) t); reflexivity.
  - rewrite IH1. exact IH2.
Qed.

Lemma qlow_perm a l l' : 0 < a /\ a < 1 -> l <> [] -> Permutation l l' -> qlow a l == qlow a l'.
Proof.
  intros Ha Hn P. pose proof (perm_nonempty _ _ _ P Hn) as Hn'.
  apply Qle_antisym.
  - apply (qlow_least a Ha l _ Hn).
    rewrite (Permutation_length P), (count_le_perm _ _ _ P). apply (qlow_reaches a Ha l' Hn').
  - apply (qlow_least a Ha l' _ Hn').
    rewrite <- (Permutation_length P), <- (count_le_perm _ _ _ P). apply (qlow_reaches a Ha l Hn).
Qed.

Lemma midq_perm a l l' : 0 < a /\ a < 1 -> l <> [] -> Permutation l l' -> midq a l = midq a l'.
Proof.
  intros Ha Hn P. unfold midq. apply Qred_complete.
  assert (Ha' : 0 < 1 - a /\ 1 - a < 1) by (destruct Ha; split; Lqa.lra).
  assert (Hn2 : map negy l <> []) by (destruct l; [congruence| discriminate]).
  unfold qupp.
  rewrite (qlow_perm a l l' Ha Hn P).
  rewrite (qlow_perm (1 - a) (map negy l) (map negy l') Ha' Hn2 (Permutation_map negy P)).
  reflexivity.
Qed.

(* rows as triples (observation, forecast, weight) *)
Definition ty (t : Q * Q * Q) : Q := fst (fst t).
Definition tx (t : Q * Q * Q) : Q := snd (fst t).
Definition tw (t : Q * Q * Q) : Q := snd t.
Definition wopt (weighted : bool) (rs : list (Q * Q * Q)) : option (list Q) :=
  if weighted then Some (map tw rs) else None.

Section Perm.
Variable v : variant.
Variable S : Q -> Q -> option Q.

Definition unwrap (o : option Q) : Q := match o with Some s => s | None => 0 end.

Lemma scores_rows (g : Q * Q * Q -> Q) : forall rs ss,
  scores S (map ty rs) (map g rs) = Some ss ->
  forall wf : Q * Q * Q -> Q,
  combine ss (map wf rs) = map (fun t => (unwrap (S (ty t) (g t)), wf t)) rs.
Proof.
  induction rs as [|t rs IH]; intros ss H wf.
  - cbn [map scores] in H. injection H as <-. reflexivity.
  - cbn [map scores] in H. destruct (S (ty t) (g t)) as [s|] eqn:Es; [|discriminate H].
    destruct (scores S (map ty rs) (map g rs)) as [ss'|] eqn:Ess; [|discriminate H].
    injection H as <-. cbn [map combine]. rewrite (IH ss' eq_refl wf), Es. reflexivity.
Qed.

Lemma map_const_repeat (A B : Type) (c : B) : forall l : list A, map (fun _ => c) l = repeat c (length l).
Proof. induction l as [|x l IH]; [reflexivity|]. cbn [map length repeat]. rewrite IH. reflexivity. Qed.

Lemma wl_rows weighted rs :
  weights_or_ones (length (map ty rs)) (wopt weighted rs)
  = map (fun t => if weighted then tw t else 1) rs.
Proof.
  destruct weighted; cbn [wopt weights_or_ones]; [reflexivity|].
  rewrite map_length. symmetry. apply map_const_repeat.
Qed.

Lemma avg_score_perm (g : Q * Q * Q -> Q) weighted rs rs' s s' :
  Permutation rs rs' ->
  avg_score S (map ty rs) (map g rs) (weights_or_ones (length (map ty rs)) (wopt weighted rs)) = Some s ->
  avg_score S (map ty rs') (map g rs') (weights_or_ones (length (map ty rs')) (wopt weighted rs')) = Some s' ->
  s = s'.
Proof.
  intros P H H'. rewrite wl_rows in H. rewrite wl_rows in H'. unfold avg_score in H, H'.
  destruct (scores S (map ty rs) (map g rs)) as [ss|] eqn:E; [|discriminate H].
  destruct (scores S (map ty rs') (map g rs')) as [ss'|] eqn:E'; [|discriminate H'].
  injection H as <-. injection H' as <-.
  rewrite (scores_rows g rs ss E), (scores_rows g rs' ss' E').
  apply wmean_perm, Permutation_map. exact P.
Qed.

Lemma combine_yw_rows3 (weighted : bool) : forall rs : list (Q * Q * Q),
  combine (map ty rs) (map (fun t => if weighted then tw t else 1) rs)
  = map (fun t => (ty t, if weighted then tw t else 1)) rs.
Proof. induction rs as [|t rs IH]; [reflexivity|]. cbn [map combine]. rewrite IH. reflexivity. Qed.

Lemma marginal_perm f a weighted rs rs' m m' :
  (has_level f = true -> 0 < a /\ a < 1) ->
  rs <> [] -> all_pos_w (wopt weighted rs) = true ->
  Permutation rs rs' ->
  marginal f a (map ty rs) (weights_or_ones (length (map ty rs)) (wopt weighted rs)) = Some m ->
  marginal f a (map ty rs') (weights_or_ones (length (map ty rs')) (wopt weighted rs')) = Some m' ->
  m = m'.
Proof.
  intros Ha Hn Hp P H H'. rewrite wl_rows in H. rewrite wl_rows in H'.
  unfold marginal in H, H'. rewrite combine_yw_rows3 in H. rewrite combine_yw_rows3 in H'.
  set (g := fun t : Q * Q * Q => (ty t, if weighted then tw t else 1)) in *.
  assert (PG : Permutation (map g rs) (map g rs')) by (apply Permutation_map; exact P).
  assert (HnG : map g rs <> []) by (destruct rs; [congruence| discriminate]).
  destruct f; try discriminate H.
  - injection H as <-. injection H' as <-. apply wmean_perm. exact PG.
  - injection H as <-. injection H' as <-.
    apply expectile_perm; [apply Ha; reflexivity| exact HnG| | exact PG].
    apply Forall_forall. intros e He. apply in_map_iff in He. destruct He as (t & <- & Ht).
    unfold g, posw, ew. cbn [snd]. destruct weighted; [|reflexivity].
    cbn [wopt all_pos_w] in Hp. pose proof (all_pos_Forall _ Hp) as F. rewrite Forall_forall in F.
    apply F. apply in_map. exact Ht.
  - injection H as <-. injection H' as <-.
    apply midq_perm; [apply Ha; reflexivity| exact HnG| exact PG].
Qed.

(* C07, first clause, for the two components that do not involve the recalibration *)
Theorem decomp_perm_score_unc : forall sf_fun sf_level functional level weighted rs rs' row row',
  Permutation rs rs' ->
  decompose v S sf_fun sf_level (map ty rs) [map tx rs] (wopt weighted rs) functional level = DOk [row] ->
  decompose v S sf_fun sf_level (map ty rs') [map tx rs'] (wopt weighted rs') functional level = DOk [row'] ->
  sco row = sco row' /\ unc row = unc row'.
Proof.
  intros sf_fun sf_level functional level weighted rs rs' row row' P H H'.
  destruct (decompose_inv _ _ _ _ _ _ _ _ _ _ H) as (f & a & m & ymin & ok & sm & HR).
  destruct (decompose_inv _ _ _ _ _ _ _ _ _ _ H') as (f' & a' & m' & ymin' & ok' & sm' & HR').
  destruct HR as ((fa & Hi & Ha) & _ & _ & Hp & _ & Hpre & Hcols).
  destruct HR' as ((fa' & Hi' & Ha') & _ & _ & _ & _ & Hpre' & Hcols').
  rewrite Hi in Hi'. injection Hi' as <-.
  rewrite Ha in Ha'. injection Ha' as <- <-.
  destruct (prelude_inv _ _ _ _ _ _ _ _ _ Hpre) as (Hn & Hm & Hs & _ & _).
  destruct (prelude_inv _ _ _ _ _ _ _ _ _ Hpre') as (_ & Hm' & Hs' & _ & _).
  assert (Hrs : rs <> []) by (destruct rs; [exact (fun _ => Hn eq_refl)| discriminate]).
  assert (Ea : has_level f = true -> 0 < a /\ a < 1) by (exact (infer_level_alias v _ _ _ _ _ _ _ Hi Ha)).
  pose proof (marginal_perm f a weighted rs rs' m m' Ea Hrs Hp P Hm Hm') as Em. subst m'.
  cbn [columns] in Hcols, Hcols'.
  destruct (column v S f a (map ty rs) (wopt weighted rs) ymin ok sm (map tx rs)) as [r1|e] eqn:E1;
    [|discriminate Hcols].
  injection Hcols as <-.
  destruct (column v S f a (map ty rs') (wopt weighted rs') ymin' ok' sm' (map tx rs')) as [r2|e] eqn:E2;
    [|discriminate Hcols'].
  injection Hcols' as <-.
  destruct (column_inv _ _ _ _ _ _ _ _ _ _ _ E1) as (r & s & sr & _ & Hsc & _ & _ & ->).
  destruct (column_inv _ _ _ _ _ _ _ _ _ _ _ E2) as (r' & s' & sr' & _ & Hsc' & _ & _ & ->).
  cbn [sco unc]. split.
  - exact (avg_score_perm tx weighted rs rs' s s' P Hsc Hsc').
  - assert (ER : forall l : list (Q * Q * Q), repeat m (length (map ty l)) = map (fun _ => m) l).
    { intros l. rewrite map_length. symmetry. apply map_const_repeat. }
    rewrite ER in Hs. rewrite ER in Hs'.
    exact (avg_score_perm (fun _ => m) weighted rs rs' sm sm' P Hs Hs').
Qed.
End Perm.

Print Assumptions decomp_perm_score_unc.

(* ================================================================== *)
(* Part 6.  C06: discrimination is 0 for constant forecasts            *)
(*          (functionals mean and expectile, every score S that does   *)
(*          not distinguish equal rationals in the prediction)         *)
(* ================================================================== *)
From MD Require Import theory.GInst theory.GpavaCert model.Gpava.

Lemma SS_app_cross (A : Type) (R : A -> A -> Prop) : forall l1 l2 : list A,
  StronglySorted R (l1 ++ l2) -> forall p q, In p l1 -> In q l2 -> R p q.
Proof.
  induction l1 as [|x l1 IH]; intros l2 H p q Hp Hq; [destruct Hp|].
  cbn [app] in H. inversion H as [|x' l' Hs Hall]; subst.
  destruct Hp as [<-|Hp].
  - rewrite Forall_forall in Hall. apply Hall. apply in_or_app. right. exact Hq.
  - exact (IH l2 Hs p q Hp Hq).
Qed.

Lemma SS_app_l (A : Type) (R : A -> A -> Prop) : forall l1 l2 : list A,
  StronglySorted R (l1 ++ l2) -> StronglySorted R l1.
Proof.
  induction l1 as [|x l1 IH]; intros l2 H; [constructor|].
  cbn [app] in H. inversion H as [|x' l' Hs Hall]; subst.
  constructor; [exact (IH l2 Hs)|].
  rewrite Forall_forall in *. intros z Hz. apply Hall. apply in_or_app. left. exact Hz.
Qed.

(* on data whose observations are non-increasing the pooling ends with ONE block *)
Lemma single_block (I : GInst) (stk : list (blk (g_elt I))) :
  stack_ok I stk -> flat (g_elt I) stk <> [] ->
  StronglySorted (fun e1 e2 => g_yv I e2 <= g_yv I e1) (flat (g_elt I) stk) ->
  exists b, stk = [b].
Proof.
  intros Hok Hn HS.
  pose proof (blocks_increasing I stk Hok) as Hinc.
  pose proof (stack_ok_nonempty I stk Hok) as Hne.
  unfold flat in Hn, HS.
  destruct (rev stk) as [|b1 [|b2 bs]] eqn:Er.
  - exfalso. apply Hn. reflexivity.
  - exists b1. rewrite <- (rev_involutive stk), Er. reflexivity.
  - exfalso.
    assert (Hb1 : In b1 stk) by (apply in_rev; rewrite Er; left; reflexivity).
    assert (Hb2 : In b2 stk) by (apply in_rev; rewrite Er; right; left; reflexivity).
    rewrite Forall_forall in Hne.
    pose proof (Hne b1 Hb1) as N1. pose proof (Hne b2 Hb2) as N2. cbv beta in N1, N2.
    cbn [map concat] in HS. rewrite app_assoc in HS.
    apply SS_app_l in HS.
    destruct (IsoProps.exists_max _ (g_yv I) (bel b2) N2) as (M2 & HM2 & Hmax2).
    destruct (IsoProps.exists_min _ (g_yv I) (bel b2) N2) as (m2 & Hm2 & Hmin2).
    destruct (IsoProps.exists_max _ (g_yv I) (bel b1) N1) as (M1 & HM1 & Hmax1).
    destruct (block_range I stk b1 Hok Hb1 (g_yv I M2) (g_yv I M1)) as [L1 _].
    { intros e He. split; [|exact (Hmax1 e He)].
      exact (SS_app_cross _ _ _ _ HS e M2 He HM2). }
    destruct (block_range I stk b2 Hok Hb2 (g_yv I m2) (g_yv I M2)) as [_ U2].
    { intros e He. split; [exact (Hmin2 e He)| exact (Hmax2 e He)]. }
    inversion Hinc as [|b l Hs Hall]; subst. rewrite Forall_forall in Hall.
    pose proof (Hall b2 (or_introl eq_refl)) as Hlt. cbv beta in Hlt. Lqa.lra.
Qed.

Lemma run_const (I : GInst) l x r :
  run I l true x r -> l <> [] ->
  StronglySorted (fun e1 e2 => g_yv I e2 <= g_yv I e1) l ->
  Forall (fun q => q == g_T I l) x.
Proof.
  intros (stk & x0 & _ & Hok & Hflat & HQ & Ex & _) Hn HS.
  cbn [dir] in Hflat, Ex. subst x0.
  rewrite <- Hflat in Hn, HS.
  destruct (single_block I stk Hok Hn HS) as [b Eb]. subst stk.
  assert (Hbel : bel b = l).
  { rewrite <- Hflat. unfold flat. cbn [rev app map concat]. rewrite app_nil_r. reflexivity. }
  destruct Hok as [HF _]. inversion HF as [|b' l' HI _]; subst b' l'.
  destruct HI as (_ & _ & Et & _ & _).
  apply Forall_forall. intros q Hq.
  destruct (F2_In x _ HQ q Hq) as (v' & Hv' & Eqv).
  rewrite expand_blocks in Hv'. cbn [rev app flat_map] in Hv'. rewrite app_nil_r in Hv'.
  apply repeat_spec in Hv'. subst v'. rewrite Eqv, Et, Hbel. reflexivity.
Qed.

Section ConstantForecast.
Variable vr : variant.
Variable S : Q -> Q -> option Q.
(* S does not distinguish two representations of the same rational prediction *)
Hypothesis S_proper : forall y z z', z == z' -> S y z = S y z'.

Lemma scores_proper : forall y r r', Forall2 Qeq r r' -> scores S y r = scores S y r'.
Proof.
  induction y as [|b y IH]; intros r r' H.
  - destruct H; reflexivity.
  - destruct H as [|p q r r' Hpq H]; [reflexivity|].
    cbn [scores]. rewrite (S_proper b p q Hpq), (IH r r' H). reflexivity.
Qed.

Lemma Forall_repeat_F2 (m : Q) : forall r : list Q, Forall (fun q => q == m) r ->
  Forall2 Qeq r (repeat m (length r)).
Proof.
  intros r H. induction H as [|q r Hq H IH]; [constructor|].
  cbn [length repeat]. constructor; [exact Hq| exact IH].
Qed.

(* the sorted rows of a constant forecast are ordered by non-increasing observation *)
Lemma const_rows_desc c y w : (match w with None => True | Some wl => length wl = length y end) ->
  let srt := sorted_rows (repeat c (length y)) y w in
  StronglySorted (fun e1 e2 => ey e2 <= ey e1) (map elt_of srt).
Proof.
  intros Hw srt.
  assert (Hwl : length (weights_or_ones (length y) w) = length y).
  { destruct w as [wl|]; cbn [weights_or_ones]; [exact Hw| apply repeat_length]. }
  assert (Hx : forall r, In r srt -> r_x r = c).
  { intros r Hr.
    assert (Hin : In (r_x r) (map r_x (mkrows 0 (repeat c (length y)) y (weights_or_ones (length y) w)))).
    { apply in_map. eapply Permutation_in; [|exact Hr]. unfold srt, sorted_rows. apply isort_perm. }
    rewrite mkrows_x in Hin by (try apply repeat_length; exact Hwl).
    apply repeat_spec in Hin. exact Hin. }
  pose proof (isort_sorted _ row_le row_le_total
                (mkrows 0 (repeat c (length y)) y (weights_or_ones (length y) w))) as HS.
  fold (sorted_rows (repeat c (length y)) y w) in HS. fold srt in HS.
  apply SS_map.
  assert (HS2 : Sorted (fun p q : srow => r_y q <= r_y p) srt).
  { clear - HS Hx. induction HS as [|p l Hs IH Hd]; [constructor|].
    constructor.
    - apply IH. intros r Hr. apply Hx. right. exact Hr.
    - destruct Hd as [|q l Hpq]; constructor.
      unfold row_le in Hpq. rewrite (Hx p (or_introl eq_refl)), (Hx q (or_intror (or_introl eq_refl))) in Hpq.
      assert (E : Qeq_bool c c = true) by (apply Qeq_bool_iff; reflexivity).
      rewrite E in Hpq. apply Qle_bool_iff. exact Hpq. }
  apply Sorted_StronglySorted; [|exact HS2].
  intros p q r H1 H2. eapply Qle_trans; [exact H2| exact H1].
Qed.

Lemma recal_constant f a c y w r m :
  (f = IFmean \/ f = IFexpectile /\ (0 < a /\ a < 1)) ->
  y <> [] -> (match w with None => True | Some wl => length wl = length y end) ->
  all_pos_w w = true ->
  marginal f a y (weights_or_ones (length y) w) = Some m ->
  recalibrate f a (repeat c (length y)) y w = DOk r ->
  Forall2 Qeq r (repeat m (length y)).
Proof.
  intros Hf Hn Hw Hp Hm Hr.
  assert (Hx : length (repeat c (length y)) = length y) by apply repeat_length.
  destruct (sorted_data (repeat c (length y)) y w Hx Hw Hp) as (Hv & Hd & Hpw & Hlen).
  cbv zeta in Hv, Hd, Hpw, Hlen.
  pose proof (const_rows_desc c y w Hw) as HS. cbv zeta in HS.
  unfold recalibrate in Hr.
  set (srt := sorted_rows (repeat c (length y)) y w) in *.
  set (ws := match w with None => None | Some _ => Some (map r_w srt) end) in *.
  destruct (isotonic_regression (map r_y srt) ws true f a) as [[v rr]|e] eqn:Ei; [|discriminate Hr].
  injection Hr as <-.
  assert (Hne : map r_y srt <> []).
  { intros E. apply (f_equal (@length Q)) in E. rewrite map_length, Hlen in E.
    destruct y; [congruence| discriminate E]. }
  assert (Hle : map elt_of srt <> []).
  { intros E. apply (f_equal (@length elt)) in E. rewrite map_length, Hlen in E.
    destruct y; [congruence| discriminate E]. }
  assert (Hwl : length (weights_or_ones (length y) w) = length y).
  { destruct w as [wl|]; cbn [weights_or_ones]; [exact Hw| apply repeat_length]. }
  assert (Hperm : Permutation (map elt_of srt) (combine y (weights_or_ones (length y) w))).
  { rewrite <- (mkrows_elt (repeat c (length y)) y _ 0 Hx Hwl).
    apply Permutation_map. unfold srt, sorted_rows. apply isort_perm. }
  assert (Hvm : Forall (fun q => q == m) v /\ length v = length y).
  { destruct Hf as [-> | [-> Ha]].
    - pose proof (run_mean _ _ _ _ _ _ Hne Hv Ei) as HR. rewrite Hd in HR.
      pose proof (run_const mean_inst _ _ _ HR Hle HS) as HC.
      pose proof (run_length _ _ _ _ _ HR) as HL. rewrite map_length, Hlen in HL.
      split; [|exact HL].
      cbn [marginal] in Hm. injection Hm as <-.
      cbn [g_T mean_inst] in HC. rewrite (wmean_perm _ _ Hperm) in HC. exact HC.
    - pose proof (run_expectile _ _ _ _ Ha _ _ Hne Hv Ei) as HR. rewrite Hd in HR.
      pose proof (run_const (expectile_inst a Ha) _ _ _ HR Hle HS) as HC.
      pose proof (run_length _ _ _ _ _ HR) as HL. rewrite map_length, Hlen in HL.
      split; [|exact HL].
      cbn [marginal] in Hm. injection Hm as <-.
      cbn [g_T expectile_inst] in HC.
      rewrite (expectile_perm a _ _ Ha Hle Hpw Hperm) in HC. exact HC. }
  destruct Hvm as [Hvm Lv].
  set (r := map snd (isort idx_le (combine (map r_idx srt) v))).
  assert (Lr : length r = length y).
  { unfold r. rewrite map_length, isort_length, combine_length, map_length, Hlen, Lv. apply Nat.min_id. }
  rewrite <- Lr. apply Forall_repeat_F2.
  apply Forall_forall. intros q Hq. unfold r in Hq. apply in_map_iff in Hq.
  destruct Hq as ([i q'] & <- & Hin). cbn [snd].
  assert (Hin2 : In (i, q') (combine (map r_idx srt) v)).
  { eapply Permutation_in; [apply isort_perm| exact Hin]. }
  apply in_combine_r in Hin2. rewrite Forall_forall in Hvm. exact (Hvm q' Hin2).
Qed.

Theorem decomp_dsc_zero_if_constant : forall sf_fun sf_level y cols w functional level rows f a,
  infer sf_fun sf_level functional level = DOk (f, a) ->
  f = IFmean \/ f = IFexpectile ->
  (* the smallest observation is an admissible prediction *)
  allowed S (hd 0 y) (minQ (hd 0 y) (tl y)) = true ->
  decompose vr S sf_fun sf_level y cols w functional level = DOk rows ->
  Forall2 (fun x r => (exists c, x = repeat c (length y)) -> dsc r == 0) cols rows.
Proof.
  intros sf_fun sf_level y cols w functional level rows f a Hinf Hf Hadm H.
  destruct (decompose_inv _ _ _ _ _ _ _ _ _ _ H) as (f' & a' & m & ymin & ok & sm & HR).
  destruct HR as ((fa & Hinf' & Ha') & Hc & Hw & Hp & _ & Hpre & Hcols).
  rewrite Hinf in Hinf'. injection Hinf' as <-.
  assert (Hnm : f <> IFmedian) by (destruct Hf as [->| ->]; discriminate).
  rewrite (alias_id vr f a Hnm) in Ha'. injection Ha' as <- <-.
  destruct (prelude_inv _ _ _ _ _ _ _ _ _ Hpre) as (Hn & Hm & Hsm & Hymin & Hok).
  assert (Eok : ok = true) by (rewrite Hok, Hymin; exact Hadm).
  assert (Hfa : f = IFmean \/ f = IFexpectile /\ (0 < a /\ a < 1)).
  { destruct Hf as [->| ->]; [left; reflexivity| right; split; [reflexivity|]].
    exact (infer_level _ _ _ _ _ _ Hinf eq_refl). }
  pose proof (columns_inv _ _ _ _ _ _ _ _ _ _ _ Hcols) as HF.
  clear Hcols H Hpre.
  induction HF as [|x row cols rows Hx HF IH]; constructor.
  - clear IH. intros [c ->].
    destruct (column_inv _ _ _ _ _ _ _ _ _ _ _ Hx) as (r & s & sr & Hrf & _ & Hsr & _ & ->).
    unfold recal_final in Hrf.
    destruct (recalibrate f a (repeat c (length y)) y w) as [r0|e] eqn:Er; [|discriminate Hrf].
    rewrite Eok in Hrf. cbn [negb andb] in Hrf. injection Hrf as <-.
    pose proof (recal_constant f a c y w r0 m Hfa Hn Hw Hp Hm Er) as HQ.
    unfold avg_score in Hsr, Hsm. rewrite (scores_proper y _ _ HQ) in Hsr.
    destruct (scores S y (repeat m (length y))) as [ss|]; [|discriminate Hsm].
    injection Hsm as <-. injection Hsr as <-. cbn [dsc]. ring.
  - apply IH. inversion Hc; assumption.
Qed.
End ConstantForecast.

(* the rational library scores do not distinguish equal rationals *)
Lemma total_proper (T : Q -> Q -> Q) : (forall y z z', z == z' -> T y z = T y z') ->
  forall y z z', z == z' -> total T y z = total T y z'.
Proof. intros H y z z' E. unfold total. rewrite (H y z z' E). reflexivity. Qed.

Lemma sq_score_proper y z z' : z == z' -> sq_score y z = sq_score y z'.
Proof. intros E. unfold sq_score. apply Qred_complete. rewrite E. reflexivity. Qed.

Lemma Qle_bool_proper_r y z z' : z == z' -> Qle_bool y z = Qle_bool y z'.
Proof.
  intros E. destruct (Qle_bool y z) eqn:E1; destruct (Qle_bool y z') eqn:E2; try reflexivity.
  - apply Qle_bool_iff in E1. rewrite E in E1. apply Qle_bool_iff in E1. congruence.
  - apply Qle_bool_iff in E2. rewrite <- E in E2. apply Qle_bool_iff in E2. congruence.
Qed.

Lemma asq_score_proper a y z z' : z == z' -> asq_score a y z = asq_score a y z'.
Proof.
  intros E. unfold asq_score. rewrite (Qle_bool_proper_r y z z' E). apply Qred_complete.
  rewrite E. reflexivity.
Qed.

Corollary decomp_dsc_zero_if_constant_sq : forall v sf_fun sf_level y cols w functional level rows a,
  infer sf_fun sf_level functional level = DOk (IFmean, a) ->
  decompose v (total sq_score) sf_fun sf_level y cols w functional level = DOk rows ->
  Forall2 (fun x r => (exists c, x = repeat c (length y)) -> dsc r == 0) cols rows.
Proof.
  intros v sf_fun sf_level y cols w functional level rows a Hi H.
  exact (decomp_dsc_zero_if_constant v (total sq_score) (total_proper _ sq_score_proper)
           _ _ _ _ _ _ _ _ IFmean a Hi (or_introl eq_refl) eq_refl H).
Qed.

Corollary decomp_dsc_zero_if_constant_asq : forall v sf_fun sf_level y cols w functional level rows a,
  infer sf_fun sf_level functional level = DOk (IFexpectile, a) ->
  decompose v (total (asq_score a)) sf_fun sf_level y cols w functional level = DOk rows ->
  Forall2 (fun x r => (exists c, x = repeat c (length y)) -> dsc r == 0) cols rows.
Proof.
  intros v sf_fun sf_level y cols w functional level rows a Hi H.
  exact (decomp_dsc_zero_if_constant v (total (asq_score a)) (total_proper _ (asq_score_proper a))
           _ _ _ _ _ _ _ _ IFexpectile a Hi (or_intror eq_refl) eq_refl H).
Qed.

Print Assumptions decomp_dsc_zero_if_constant.

(* ================================================================== *)
(* Part 7.  C06: miscalibration 0 for recalibrated forecasts (partial) *)
(* ================================================================== *)
(* PARTIAL: "already isotonic-recalibrated" is taken as "a fixed point of the
   recalibration": the vector that is scored as recalibrated equals the forecast. *)
Theorem decomp_mcb_zero_if_recalibrated_partial :
  forall v (S : Q -> Q -> option Q), (forall y z z', z == z' -> S y z = S y z') ->
  forall sf_fun sf_level y cols w functional level rows f a m ymin ok sm,
  run_ok v S sf_fun sf_level y cols w functional level f a m ymin ok sm rows ->
  Forall2 (fun x r => (exists r0, recal_final v f a y w ymin ok x = DOk r0 /\ Forall2 Qeq r0 x) ->
                      mcb r == 0) cols rows.
Proof.
  intros v S S_proper sf_fun sf_level y cols w functional level rows f a m ymin ok sm HR.
  destruct HR as (_ & _ & _ & _ & _ & _ & Hcols).
  pose proof (columns_inv _ _ _ _ _ _ _ _ _ _ _ Hcols) as HF. clear Hcols.
  induction HF as [|x row cols rows Hx HF IH]; constructor; [|exact IH].
  intros (r0 & Hr0 & HQ).
  destruct (column_inv _ _ _ _ _ _ _ _ _ _ _ Hx) as (r & s & sr & Hrf & Hs & Hsr & _ & ->).
  rewrite Hr0 in Hrf. injection Hrf as <-.
  unfold avg_score in Hs, Hsr. rewrite (scores_proper S S_proper y _ _ HQ) in Hsr.
  destruct (scores S y x) as [ss|]; [|discriminate Hs].
  injection Hs as <-. injection Hsr as <-. cbn [mcb]. ring.
Qed.
(* full statement, not proved:
     forall x0, recal_final v f a y w ymin ok x0 = DOk x ->            (x is the output of a recalibration)
       decompose v S ... y [x] w ... = DOk [row] -> mcb row == 0
   It needs "rows with equal forecast receive equal fitted values" (claim (i) in the
   header of model/Decompose.v) to see the second recalibration as a monotone
   function of the first; the judge of harness/run_decompose.py feeds the
   implementation its own recalibrated vector and checks |mcb| <= 1e-12 * scale. *)

(* full statements, not proved (C07):
   decomp_perm (all four columns):
     forall rs rs', Permutation rs rs' -> allowed S (hd y) (min y) = true ->
       decompose v S .. (map ty rs) [map tx rs] (wopt wd rs) .. = DOk [row] ->
       exists row', decompose v S .. (map ty rs') [map tx rs'] (wopt wd rs') .. = DOk [row'] /\
                    mcb row == mcb row' /\ dsc row == dsc row'
     (false without the admissibility hypothesis: repair_not_perm_invariant_refuted);
   decomp_replication (integer weights = repeated rows, mean and expectile scores):
     forall rs (k : row -> positive), decompose v S .. on rs with weights k
       = decompose v S .. on (flat_map (fun t => repeat t (k t)) rs) without weights.
   The judge evaluates both on the implementation for every generated case. *)

(* ================================================================== *)
(* Part 8.  C07: strictly increasing relabelling of the forecasts      *)
(* ================================================================== *)
Section Relabel.
Variable g : Q -> Q.
Hypothesis g_incr : forall p q, p < q -> g p < g q.
Hypothesis g_proper : forall p q, p == q -> g p == g q.

Lemma g_le_iff p q : p <= q <-> g p <= g q.
Proof.
  split; intros H.
  - destruct (Qlt_le_dec p q) as [Hl|Hl].
    + apply Qlt_le_weak, g_incr. exact Hl.
    + assert (E : p == q) by (apply Qle_antisym; assumption).
      rewrite (g_proper p q E). apply Qle_refl.
  - destruct (Qlt_le_dec q p) as [Hl|Hl]; [|exact Hl].
    exfalso. pose proof (g_incr q p Hl) as H2. Lqa.lra.
Qed.

Lemma g_Qle_bool p q : Qle_bool (g p) (g q) = Qle_bool p q.
Proof.
  destruct (Qle_bool p q) eqn:E.
  - apply Qle_bool_iff. apply (proj1 (g_le_iff p q)). apply Qle_bool_iff. exact E.
  - destruct (Qle_bool (g p) (g q)) eqn:E2; [|reflexivity].
    apply Qle_bool_iff in E2. apply (proj2 (g_le_iff p q)) in E2. apply Qle_bool_iff in E2. congruence.
Qed.

Lemma g_Qeq_bool p q : Qeq_bool (g p) (g q) = Qeq_bool p q.
Proof.
  destruct (Qeq_bool p q) eqn:E.
  - apply Qeq_bool_iff. apply g_proper. apply Qeq_bool_iff. exact E.
  - destruct (Qeq_bool (g p) (g q)) eqn:E2; [|reflexivity].
    apply Qeq_bool_iff in E2.
    assert (E3 : p == q).
    { apply Qle_antisym.
      - apply (proj2 (g_le_iff p q)). rewrite E2. apply Qle_refl.
      - apply (proj2 (g_le_iff q p)). rewrite E2. apply Qle_refl. }
    apply Qeq_bool_iff in E3. congruence.
Qed.

Definition relab (r : srow) : srow := mksrow (r_idx r) (g (r_x r)) (r_y r) (r_w r).

Lemma mkrows_relab : forall x y wl i, mkrows i (map g x) y wl = map relab (mkrows i x y wl).
Proof.
  induction x as [|c x IH]; intros y wl i; [reflexivity|].
  destruct y as [|b y]; [reflexivity|]. destruct wl as [|d wl]; [reflexivity|].
  cbn [map mkrows]. rewrite IH. reflexivity.
Qed.

Lemma row_le_relab p q : row_le (relab p) (relab q) = row_le p q.
Proof. unfold row_le, relab. cbn [r_x r_y]. rewrite g_Qeq_bool, g_Qle_bool. reflexivity. Qed.

Lemma sorted_rows_relab x y w : sorted_rows (map g x) y w = map relab (sorted_rows x y w).
Proof.
  unfold sorted_rows. rewrite mkrows_relab. symmetry.
  apply (isort_map _ _ row_le row_le relab). exact row_le_relab.
Qed.

(* the recalibrated forecast depends on the forecasts through their order only *)
Lemma recalibrate_relab f a x y w : recalibrate f a (map g x) y w = recalibrate f a x y w.
Proof.
  unfold recalibrate. rewrite sorted_rows_relab, !map_map. reflexivity.
Qed.

Theorem decomp_monotone_relabel : forall v S sf_fun sf_level y cols w functional level rows rows',
  decompose v S sf_fun sf_level y cols w functional level = DOk rows ->
  decompose v S sf_fun sf_level y (map (map g) cols) w functional level = DOk rows' ->
  Forall2 (fun r r' => dsc r = dsc r' /\ unc r = unc r') rows rows'.
Proof.
  intros v S sf_fun sf_level y cols w functional level rows rows' H H'.
  destruct (decompose_inv _ _ _ _ _ _ _ _ _ _ H) as (f & a & m & ymin & ok & sm & HR).
  destruct (decompose_inv _ _ _ _ _ _ _ _ _ _ H') as (f' & a' & m' & ymin' & ok' & sm' & HR').
  destruct HR as ((fa & Hi & Ha) & _ & _ & _ & _ & Hpre & Hcols).
  destruct HR' as ((fa' & Hi' & Ha') & _ & _ & _ & _ & Hpre' & Hcols').
  rewrite Hi in Hi'. injection Hi' as <-.
  rewrite Ha in Ha'. injection Ha' as <- <-.
  rewrite Hpre in Hpre'. injection Hpre' as <- <- <- <-.
  pose proof (columns_inv _ _ _ _ _ _ _ _ _ _ _ Hcols) as HF.
  pose proof (columns_inv _ _ _ _ _ _ _ _ _ _ _ Hcols') as HF'.
  clear - HF HF' g_incr g_proper. revert rows' HF'.
  induction HF as [|x row cols rows Hx HF IH]; intros rows' HF'.
  - inversion HF'. constructor.
  - cbn [map] in HF'. inversion HF' as [|x' row' cs rs Hx' HF'' E1 E2]; subst.
    constructor; [|exact (IH _ HF'')].
    destruct (column_inv _ _ _ _ _ _ _ _ _ _ _ Hx) as (r & s & sr & Hrf & _ & Hsr & _ & ->).
    destruct (column_inv _ _ _ _ _ _ _ _ _ _ _ Hx') as (r' & s' & sr' & Hrf' & _ & Hsr' & _ & ->).
    unfold recal_final in Hrf, Hrf'. rewrite recalibrate_relab in Hrf'.
    rewrite Hrf in Hrf'. injection Hrf' as <-.
    rewrite Hsr in Hsr'. injection Hsr' as <-.
    split; reflexivity.
Qed.
End Relabel.

Print Assumptions decomp_monotone_relabel.

(* ================================================================== *)
(* Part 9.  C06: the uncertainty is the score of the BEST constant     *)
(*          forecast (squared error, exact arithmetic)                 *)
(* ================================================================== *)
Fixpoint wsq (l : list elt) : Q := match l with [] => 0 | e :: l' => ew e * (ey e * ey e) + wsq l' end.

Lemma tloss_sq_const c : forall l, tloss sq_score l (repeat c (length l))
  == c * c * wtot l - 2 * c * wsum l + wsq l.
Proof.
  induction l as [|e l IH]; cbn [length repeat tloss wtot wsum wsq]; [ring|].
  rewrite IH. unfold sq_score. rewrite Qred_correct. ring.
Qed.

Lemma sq_best_constant l c : l <> [] -> Forall posw l ->
  tloss sq_score l (repeat (wmean l) (length l)) <= tloss sq_score l (repeat c (length l)).
Proof.
  intros Hn Hp. rewrite !tloss_sq_const.
  pose proof (wmean_times_wtot l Hn Hp) as Hm. pose proof (wtot_pos l Hn Hp) as HW.
  set (m := wmean l) in *. set (W := wtot l) in *. set (A := wsum l) in *.
  assert (E : c * c * W - 2 * c * A + wsq l - (m * m * W - 2 * m * A + wsq l) == W * ((c - m) * (c - m))).
  { rewrite <- Hm. ring. }
  assert (Hsq : 0 <= (c - m) * (c - m)).
  { destruct (Qlt_le_dec (c - m) 0) as [Hl|Hl].
    - setoid_replace ((c - m) * (c - m)) with ((m - c) * (m - c)) by ring.
      apply Qmult_le_0_compat; Lqa.lra.
    - apply Qmult_le_0_compat; exact Hl. }
  pose proof (Qmult_le_0_compat _ _ (Qlt_le_weak _ _ HW) Hsq) as HP. Lqa.lra.
Qed.

Theorem decomp_unc_is_best_constant_sq : forall v sf_fun sf_level y cols w functional level a rows,
  infer sf_fun sf_level functional level = DOk (IFmean, a) ->
  decompose v (total sq_score) sf_fun sf_level y cols w functional level = DOk rows ->
  forall c sc, avg_score (total sq_score) y (repeat c (length y)) (weights_or_ones (length y) w) = Some sc ->
  Forall (fun r => unc r <= sc) rows.
Proof.
  intros v sf_fun sf_level y cols w functional level a rows Hinf H c sc Hsc.
  destruct (decompose_inv _ _ _ _ _ _ _ _ _ _ H) as (f' & a' & m & ymin & ok & sm & HR).
  destruct HR as ((fa & Hinf' & Ha') & _ & Hw & Hp & _ & Hpre & Hcols).
  rewrite Hinf in Hinf'. injection Hinf' as <-. cbn [alias] in Ha'. injection Ha' as <- <-.
  destruct (prelude_inv _ _ _ _ _ _ _ _ _ Hpre) as (Hn & Hm & Hsm & _ & _).
  set (wl := weights_or_ones (length y) w) in *.
  assert (Hwl : length wl = length y).
  { unfold wl. destruct w as [wl0|]; cbn [weights_or_ones]; [exact Hw| apply repeat_length]. }
  assert (Hl : @length elt (combine y wl) = length y).
  { change (@length (Q * Q) (combine y wl) = length y). rewrite combine_length, Hwl. apply Nat.min_id. }
  assert (Hne : combine y wl <> []).
  { intros E. rewrite E in Hl. destruct y; [congruence| discriminate Hl]. }
  assert (Hpw : Forall posw (combine y wl)).
  { apply Forall_forall. intros e He. destruct e as [q1 q2]. apply in_combine_r in He.
    unfold posw, ew. cbn [snd]. unfold wl in He. destruct w as [wl0|]; cbn [weights_or_ones] in He.
    - pose proof (all_pos_Forall wl0 Hp) as F. rewrite Forall_forall in F. exact (F _ He).
    - apply repeat_spec in He. subst q2. reflexivity. }
  cbn [marginal] in Hm. injection Hm as <-.
  rewrite avg_score_total in Hsm by apply repeat_length. injection Hsm as <-.
  rewrite avg_score_total in Hsc by apply repeat_length. injection Hsc as <-.
  pose proof (sq_best_constant (combine y wl) c Hne Hpw) as HB. rewrite Hl in HB.
  pose proof (wtot_pos _ Hne Hpw) as HW.
  assert (HLE : wmean (combine (zipT sq_score y (repeat (wmean (combine y wl)) (length y))) wl)
                <= wmean (combine (zipT sq_score y (repeat c (length y))) wl)).
  { rewrite (wmean_eq (combine (zipT sq_score y (repeat (wmean (combine y wl)) (length y))) wl)).
    rewrite (wmean_eq (combine (zipT sq_score y (repeat c (length y))) wl)).
    rewrite (wsum_zipT sq_score y (repeat (wmean (combine y wl)) (length y)) wl (repeat_length _ _) Hwl).
    rewrite (wsum_zipT sq_score y (repeat c (length y)) wl (repeat_length _ _) Hwl).
    rewrite (wtot_zipT sq_score y (repeat (wmean (combine y wl)) (length y)) wl (repeat_length _ _) Hwl).
    rewrite (wtot_zipT sq_score y (repeat c (length y)) wl (repeat_length _ _) Hwl).
    apply div_le_mono; assumption. }
  pose proof (columns_inv _ _ _ _ _ _ _ _ _ _ _ Hcols) as HF.
  clear Hcols H Hpre.
  induction HF as [|x row cols rows Hx HF IH]; constructor; [|exact IH].
  rewrite (column_unc _ _ _ _ _ _ _ _ _ _ _ Hx). exact HLE.
Qed.

Print Assumptions decomp_unc_is_best_constant_sq.

(* ================================================================== *)
(* The hypotheses are satisfiable: the example of the docstring        *)
(* (scoring.py lines 786-795)                                          *)
(* ================================================================== *)
Example decomp_docstring :
  exists r, decompose current (total sq_score) (Some IFmean) (Some (1#2)) [0; 0; 1; 1] [[-1; 1; 1; 2]]
              None None None = DOk [r] /\
            mcb r == 5#8 /\ dsc r == 1#8 /\ unc r == 1#4 /\ sco r == 3#4.
Proof.
  eexists. split; [vm_compute; reflexivity|]. cbn [mcb dsc unc sco]. repeat split; reflexivity.
Qed.

(* three columns, weights, expectile at level 1/5, ties and a constant column *)
Example decomp_matrix_example :
  exists rows, decompose current (total (asq_score (1#5))) (Some IFexpectile) (Some (1#5)) [3; 1; 2; 2; 0]
                 [[1; 2; 2; 3; 1]; [2; 2; 2; 2; 2]; [0; 5; 1; 1; 4]] (Some [1; 2; 1; 3; 1]) None None
               = DOk rows /\ length rows = 3%nat.
Proof. eexists. split; [vm_compute; reflexivity| reflexivity]. Qed.

(* the variant [fixed] on the witnesses of the three findings: the rows of D2 in both
   orders give the same decomposition, a single row is accepted *)
Definition row_Qeqb (r r' : drow) : bool :=
  Qeq_bool (mcb r) (mcb r') && Qeq_bool (dsc r) (dsc r') && Qeq_bool (unc r) (unc r') && Qeq_bool (sco r) (sco r').

Example repair_by_value_example :
  exists r r',
    decompose fixed sq_pos (Some IFmean) (Some (1#2)) [0; 0; 1; 2; 0; 3]
      [[1#2; 1#5; 3#2; 5#2; 1#10; 3]] None None None = DOk [r] /\
    decompose fixed sq_pos (Some IFmean) (Some (1#2)) [0; 0; 0; 1; 2; 3]
      [[1#10; 1#5; 1#2; 3#2; 5#2; 3]] None None None = DOk [r'] /\
    row_Qeqb r r' = true.
Proof.
  do 2 eexists. split; [vm_compute; reflexivity|]. split; [vm_compute; reflexivity|].
  vm_compute. reflexivity.
Qed.

Example single_row_fixed_example :
  exists r, decompose fixed (total sq_score) (Some IFmean) (Some (1#2)) [2] [[3]] None None None = DOk [r].
Proof. eexists. vm_compute. reflexivity. Qed.

(* ================================================================== *)
(* Part 10.  C06 signs for ALL Bregman-type scores of the mean         *)
(*   (squared error h = 2, Poisson deviance h = 1, Gamma deviance      *)
(*   h = 0, every homogeneous score of level 1/2), world R:            *)
(*   the model's recalibrated forecast has a total real score          *)
(*   breg h that is no larger than that of the forecast itself and of  *)
(*   every admissible constant.                                        *)
(* ================================================================== *)
From MD Require Import lib.NumpyR spec.Scores theory.Powers.

Section RowSumsR.
Variable TR : R -> R -> R.

Fixpoint tlossR (l : list elt) (u : list Q) {struct l} : R :=
  match l, u with
  | e :: l', q :: u' => (Q2R (ew e) * TR (Q2R (ey e)) (Q2R q) + tlossR l' u')%R
  | _, _ => 0%R
  end.

Fixpoint psumR (l : list (srow * Q)) : R :=
  match l with
  | [] => 0%R
  | p :: l' => (Q2R (r_w (fst p)) * TR (Q2R (r_y (fst p))) (Q2R (snd p)) + psumR l')%R
  end.

Lemma psumR_perm l l' : Permutation l l' -> psumR l = psumR l'.
Proof.
  intros P. induction P as [|p l l' P IH|p q l|l1 l2 l3 P1 IH1 P2 IH2]; cbn [psumR].
  - reflexivity.
  - rewrite IH. reflexivity.
  - ring.
  - rewrite IH1. exact IH2.
Qed.

Lemma psumR_combine : forall rows u, length u = length rows ->
  psumR (combine rows u) = tlossR (map elt_of rows) u.
Proof.
  induction rows as [|r rows IH]; intros u H; [reflexivity|].
  destruct u as [|q u]; [discriminate H|].
  cbn [combine psumR map tlossR fst snd]. unfold elt_of at 1 2. unfold ew, ey. cbn [fst snd].
  rewrite IH by (cbn [length] in H; lia). reflexivity.
Qed.

Lemma total_forecastR x y wl : length x = length y -> length wl = length y ->
  tlossR (combine y wl) x
  = tlossR (map elt_of (isort row_le (mkrows 0 x y wl))) (map r_x (isort row_le (mkrows 0 x y wl))).
Proof.
  intros Hx Hw. set (rows := mkrows 0 x y wl).
  rewrite <- (mkrows_elt x y wl 0 Hx Hw). fold rows.
  rewrite <- (mkrows_x x y wl 0 Hx Hw) at 1. fold rows.
  rewrite <- !psumR_combine by (rewrite map_length; reflexivity).
  rewrite !combine_map_l. apply psumR_perm, Permutation_map, Permutation_sym, isort_perm.
Qed.

Lemma total_constantR x y wl m : length x = length y -> length wl = length y ->
  tlossR (combine y wl) (repeat m (length y))
  = tlossR (map elt_of (isort row_le (mkrows 0 x y wl)))
      (repeat m (length (isort row_le (mkrows 0 x y wl)))).
Proof.
  intros Hx Hw. set (rows := mkrows 0 x y wl).
  rewrite <- (mkrows_elt x y wl 0 Hx Hw). fold rows.
  assert (E : length y = length rows) by (unfold rows; rewrite mkrows_length by assumption; reflexivity).
  rewrite E.
  rewrite <- !psumR_combine by (rewrite repeat_length; reflexivity).
  rewrite !combine_repeat. apply psumR_perm, Permutation_map, Permutation_sym, isort_perm.
Qed.

Lemma total_recalR x y wl v : length x = length y -> length wl = length y -> length v = length y ->
  tlossR (combine y wl)
    (map snd (isort idx_le (combine (map r_idx (isort row_le (mkrows 0 x y wl))) v)))
  = tlossR (map elt_of (isort row_le (mkrows 0 x y wl))) v.
Proof.
  intros Hx Hw Hv.
  destruct (unsort_rows x y wl v Hx Hw Hv) as (H1 & H2 & H3). cbv zeta in H1, H2, H3.
  set (srt := isort row_le (mkrows 0 x y wl)) in *.
  set (back := isort key_le (combine srt v)) in *.
  rewrite <- (mkrows_elt x y wl 0 Hx Hw). rewrite <- H1. rewrite <- H2.
  rewrite <- psumR_combine by (rewrite !map_length; reflexivity).
  rewrite combine_split. rewrite (psumR_perm _ _ H3).
  apply psumR_combine. unfold srt. rewrite isort_length, mkrows_length by assumption. exact Hv.
Qed.

(* the sum as a [loss] of theory/Optimal.v *)
Lemma tlossR_loss : forall l u, Forall posw l ->
  tlossR l u = loss elt (fun e z => (wp e * TR (Q2R (ey e)) z)%R) l (map Q2R u).
Proof.
  intros l u G. revert u. induction G as [|e l Ge G IH]; intros u; [reflexivity|].
  destruct u as [|q u]; [reflexivity|].
  cbn [tlossR map loss]. rewrite IH, (wp_posw e Ge). reflexivity.
Qed.
End RowSumsR.

Section Bregman.
Variable h : R.
Local Open Scope R_scope.

Lemma domZ_up a b : domZ h a -> a <= b -> domZ h b.
Proof. unfold domZ. destruct (hrange_of h); intros Ha Hab; try exact I; lra. Qed.

(* the score without its forecast-independent part 2 phi(y) *)
Definition LB (e : elt) (u : R) : R := wp e * (2 * (- phi h u - dphi h u * (Q2R (ey e) - u))).
Definition LBr (e : elt) (u : R) : R := wp e * breg h (Q2R (ey e)) u.
Definition gB (u : R) : R := 2 * dphi h u.
Definition kapB (_ : elt) : R := 0.

Lemma gB_mono : forall p q, domZ h p -> domZ h q -> p <= q -> gB p <= gB q.
Proof. intros p q Hp Hq Hpq. unfold gB. pose proof (dphi_mono h p q Hp Hq Hpq). lra. Qed.

Lemma kapB_nonneg : forall e, 0 <= kapB e.
Proof. intros e. unfold kapB. lra. Qed.

Lemma LB_SG : forall e t u, domZ h t -> domZ h u ->
  LB e u - LB e t >= (gB u - gB t) * VR_mean e t + kapB e * (u - t)^2.
Proof.
  intros e t u Ht Hu.
  pose proof (breg_core_nonneg h t u (conj (domZ_sub h t Ht) Hu)) as HD.
  pose proof (wp_nonneg e) as Hw.
  assert (E : LB e u - LB e t - ((gB u - gB t) * VR_mean e t + kapB e * (u - t)^2)
              = 2 * (wp e * (phi h t - phi h u - dphi h u * (t - u)))).
  { unfold LB, gB, VR_mean, kapB. ring. }
  pose proof (Rmult_le_pos _ _ Hw HD) as HP. lra.
Qed.

Lemma loss_LB_LBr : forall l u, length u = length l ->
  loss elt LBr l u = loss elt LB l u + loss elt (fun e _ => wp e * (2 * phi h (Q2R (ey e)))) l u.
Proof.
  induction l as [|e l IH]; intros u H.
  - destruct u; [simpl; lra| discriminate H].
  - destruct u as [|z u]; [discriminate H|]. cbn [loss]. rewrite (IH u) by (cbn [length] in H; lia).
    unfold LBr, LB, breg. ring.
Qed.

Lemma loss_const_part : forall l u u', length u = length l -> length u' = length l ->
  loss elt (fun e _ => wp e * (2 * phi h (Q2R (ey e)))) l u
  = loss elt (fun e _ => wp e * (2 * phi h (Q2R (ey e)))) l u'.
Proof.
  induction l as [|e l IH]; intros u u' H H'.
  - destruct u; [|discriminate H]. destruct u'; [reflexivity| discriminate H'].
  - destruct u as [|z u]; [discriminate H|]. destruct u' as [|z' u']; [discriminate H'|].
    cbn [loss]. rewrite (IH u u') by (cbn [length] in *; lia). reflexivity.
Qed.

(* optimality of the mean fit for the real Bregman score of degree h *)
Lemma bregman_opt : forall ys ws v rr lo, ys <> [] -> valid_w ys ws ->
  isotonic_regression ys ws true IFmean (1#2) = IOk (v, rr) ->
  (forall q, In q ys -> (lo <= q)%Q) -> domZ h (Q2R lo) ->
  length v = length ys /\
  forall u : list Q, length u = length ys -> sortedQ u -> Forall (fun q => domZ h (Q2R q)) u ->
    tlossR (breg h) (data ys ws) v <= tlossR (breg h) (data ys ws) u.
Proof.
  intros ys ws v rr lo Hn Hv H Hlo Hdlo.
  pose proof (run_mean ys ws true (1#2) v rr Hn Hv H) as HR.
  assert (HL : length v = length ys).
  { rewrite <- (data_length ys ws Hv). exact (run_length _ _ _ _ _ HR). }
  split; [exact HL|].
  destruct HR as (stk & x0 & E1 & Hok & Hflat & HQ & Ex & _).
  cbn [dir] in E1, Hflat, Ex. subst x0.
  pose proof (data_posw ys ws Hv) as Hp.
  (* block values are admissible *)
  assert (Hdom : Forall (fun b => domZ h (Q2R (bv b))) stk).
  { apply Forall_forall. intros b Hb.
    pose proof (stack_ok_nonempty mean_inst stk Hok) as Hne. rewrite Forall_forall in Hne.
    pose proof (Hne b Hb) as Hbn. cbv beta in Hbn.
    destruct (IsoProps.exists_max _ (g_yv mean_inst) (bel b) Hbn) as (M & HM & Hmax).
    destruct (block_range mean_inst stk b Hok Hb lo (g_yv mean_inst M)) as [L1 _].
    { intros e He. split; [|exact (Hmax e He)].
      apply Hlo.
      assert (Hin : In e (data ys ws)).
      { rewrite <- Hflat. unfold flat. apply in_concat. exists (bel b). split; [|exact He].
        apply in_map. apply in_rev. rewrite rev_involutive. exact Hb. }
      unfold data in Hin. destruct e as [q1 q2]. apply in_combine_l in Hin. exact Hin. }
    apply (domZ_up (Q2R lo)); [exact Hdlo| apply Qle_Rle; exact L1]. }
  pose proof (gpava_transport_optimal mean_inst VR_mean VR_mean mean_VR_ok mean_VR_ok
                LB gB kapB (domZ h) gB_mono kapB_nonneg
                (fun e t u Ht Hu _ => LB_SG e t u Ht Hu) (fun e t u Ht Hu _ => LB_SG e t u Ht Hu)
                (data ys ws) stk Hp E1 Hdom) as HT.
  cbv zeta in HT. destruct HT as (_ & HfL & HO).
  pose proof (map_Q2R_Qeq v _ HQ) as EQ.
  rewrite <- EQ in HO, HfL.
  intros u Hu Hs Hd.
  assert (HuL : length (map Q2R u) = length (data ys ws)).
  { rewrite map_length, (data_length ys ws Hv). exact Hu. }
  assert (HdR : Forall (domZ h) (map Q2R u)).
  { apply Forall_forall. intros z Hz. apply in_map_iff in Hz. destruct Hz as (q & <- & Hq).
    rewrite Forall_forall in Hd. exact (Hd q Hq). }
  pose proof (HO (map Q2R u) HuL (sortedR_map_Q2R u Hs) HdR) as HI.
  assert (HK : 0 <= kdist elt kapB (data ys ws) (map Q2R u) (map Q2R v)).
  { apply (kdist_nonneg elt kapB kapB_nonneg). }
  rewrite !(tlossR_loss (breg h) _ _ Hp).
  change (fun (e : elt) (z : R) => wp e * breg h (Q2R (ey e)) z) with LBr.
  rewrite (loss_LB_LBr _ _ HuL), (loss_LB_LBr _ _ HfL).
  rewrite (loss_const_part _ _ _ HuL HfL).
  change (g_elt mean_inst) with elt in HI. lra.
Qed.

(* C06 signs, world R: mean functional, any degree h *)
Theorem recal_bregman_sign : forall a x y w r,
  y <> [] -> length x = length y ->
  (match w with None => True | Some wl => length wl = length y end) ->
  all_pos_w w = true ->
  recalibrate IFmean a x y w = DOk r ->
  (* the smallest observation and the forecasts are admissible predictions *)
  domZ h (Q2R (minQ (hd 0%Q y) (tl y))) ->
  Forall (fun c => domZ h (Q2R c)) x ->
  let wl := weights_or_ones (length y) w in
  tlossR (breg h) (combine y wl) r <= tlossR (breg h) (combine y wl) x /\
  forall c, domZ h (Q2R c) ->
    tlossR (breg h) (combine y wl) r <= tlossR (breg h) (combine y wl) (repeat c (length y)).
Proof.
  intros a x y w r Hn Hx Hw Hp Hr Hmin Hxd wl.
  assert (Hwl : length wl = length y).
  { unfold wl. destruct w as [wl0|]; cbn [weights_or_ones]; [exact Hw| apply repeat_length]. }
  destruct (sorted_data x y w Hx Hw Hp) as (Hv & Hd & Hpw & Hlen). cbv zeta in Hv, Hd, Hpw, Hlen.
  unfold recalibrate in Hr.
  set (srt := sorted_rows x y w) in *.
  set (ws := match w with None => None | Some _ => Some (map r_w srt) end) in *.
  assert (Elvl : isotonic_regression (map r_y srt) ws true IFmean a
                 = isotonic_regression (map r_y srt) ws true IFmean (1#2)) by reflexivity.
  rewrite Elvl in Hr.
  destruct (isotonic_regression (map r_y srt) ws true IFmean (1#2)) as [[v rr]|e] eqn:Ei; [|discriminate Hr].
  injection Hr as <-.
  assert (Hne : map r_y srt <> []).
  { intros E. apply (f_equal (@length Q)) in E. rewrite map_length, Hlen in E.
    destruct y; [congruence| discriminate E]. }
  assert (Hperm : Permutation srt (mkrows 0 x y wl)) by (unfold srt, sorted_rows; apply isort_perm).
  assert (Hlo : forall q, In q (map r_y srt) -> (minQ (hd 0%Q y) (tl y) <= q)%Q).
  { intros q Hq.
    assert (Hin : In q y).
    { rewrite <- (mkrows_y x y wl 0 Hx Hwl). apply in_map_iff in Hq. destruct Hq as (r0 & <- & Hr0).
      apply in_map. eapply Permutation_in; [exact Hperm| exact Hr0]. }
    destruct y as [|y0 ytl]; [destruct Hin|]. cbn [hd tl].
    destruct (minQ_le y0 ytl) as [M1 M2]. destruct Hin as [<-|Hin]; [exact M1| exact (M2 q Hin)]. }
  destruct (bregman_opt _ _ _ _ _ Hne Hv Ei Hlo Hmin) as (Lv & HO).
  rewrite map_length, Hlen in Lv. rewrite Hd in HO.
  assert (ER : tlossR (breg h) (combine y wl) (map snd (isort idx_le (combine (map r_idx srt) v)))
               = tlossR (breg h) (map elt_of srt) v).
  { exact (total_recalR (breg h) x y wl v Hx Hwl Lv). }
  assert (EF : tlossR (breg h) (combine y wl) x = tlossR (breg h) (map elt_of srt) (map r_x srt)).
  { exact (total_forecastR (breg h) x y wl Hx Hwl). }
  assert (EC : forall m, tlossR (breg h) (combine y wl) (repeat m (length y))
                         = tlossR (breg h) (map elt_of srt) (repeat m (length srt))).
  { intros m. exact (total_constantR (breg h) x y wl m Hx Hwl). }
  split.
  - rewrite ER, EF. apply HO.
    + rewrite !map_length. reflexivity.
    + apply sorted_rows_x. unfold srt, sorted_rows. apply isort_sorted. exact row_le_total.
    + apply Forall_forall. intros q Hq. apply in_map_iff in Hq. destruct Hq as (r0 & <- & Hr0).
      assert (Hin : In (r_x r0) x).
      { rewrite <- (mkrows_x x y wl 0 Hx Hwl). apply in_map.
        eapply Permutation_in; [exact Hperm| exact Hr0]. }
      rewrite Forall_forall in Hxd. exact (Hxd _ Hin).
  - intros c Hc. rewrite ER, (EC c). apply HO.
    + rewrite repeat_length, map_length. reflexivity.
    + apply sortedQ_repeat.
    + apply Forall_forall. intros q Hq. apply repeat_spec in Hq. subst q. exact Hc.
Qed.
End Bregman.

Print Assumptions recal_bregman_sign.

(* ================================================================== *)
(* Part 11.  C07: permutation invariance of ALL FOUR columns, mean     *)
(*   functional.  Route: the recalibrated value of a row is the        *)
(*   prediction of the fitted IsotonicRegression model at the row's    *)
(*   forecast (bridge to model/IsoFit.v); that prediction function is  *)
(*   the UNIQUE least-squares monotone function of the forecast over   *)
(*   the rows (IsoFitProps.fit_predict_optimal_rows_mean, applied in   *)
(*   both directions), and the rows are the same multiset.             *)
(* ================================================================== *)
From MD Require Import model.IsoFit proofs.IsoFitProps.
(* from here on the unqualified names row, mkrow, row_le, insert, isort, sorted_rows are
   those of model/IsoFit.v; the ones of model/Decompose.v are written Decompose.xxx *)
Open Scope Q_scope.

Definition drop (r : srow) : IsoFit.row := IsoFit.mkrow (r_x r) (r_y r) (r_w r).

Lemma isort_bridge (A B : Type) (le1 : A -> A -> bool) (le2 : B -> B -> bool) (phi : A -> B) :
  (forall a b, le2 (phi a) (phi b) = le1 a b) ->
  forall l, map phi (Decompose.isort le1 l) = IsoFit.isort le2 (map phi l).
Proof.
  intros H.
  assert (HI : forall a l, map phi (Decompose.insert le1 a l) = IsoFit.insert le2 (phi a) (map phi l)).
  { intros a l. induction l as [|b l IH]; [reflexivity|].
    cbn [Decompose.insert IsoFit.insert map]. rewrite H. destruct (le1 a b); [reflexivity|].
    cbn [map]. rewrite IH. reflexivity. }
  induction l as [|a l IH]; [reflexivity|].
  cbn [Decompose.isort map]. unfold IsoFit.isort. cbn [fold_right].
  rewrite HI, IH. reflexivity.
Qed.

Lemma row_le_bridge a b : IsoFit.row_le true (drop a) (drop b) = Decompose.row_le a b.
Proof.
  unfold IsoFit.row_le, Decompose.row_le, drop, Qltb. cbn [rX rY].
  destruct (Qeq_bool (r_x a) (r_x b)) eqn:E.
  - apply Qeq_bool_iff in E.
    assert (E2 : Qle_bool (r_x b) (r_x a) = true) by (apply Qle_bool_iff; rewrite E; apply Qle_refl).
    rewrite E2. reflexivity.
  - cbn [andb]. rewrite orb_false_r.
    destruct (Qle_bool (r_x b) (r_x a)) eqn:E1; destruct (Qle_bool (r_x a) (r_x b)) eqn:E2; try reflexivity.
    + apply Qle_bool_iff in E1. apply Qle_bool_iff in E2.
      assert (E3 : r_x a == r_x b) by (apply Qle_antisym; assumption).
      apply Qeq_bool_iff in E3. congruence.
    + exfalso. destruct (Qlt_le_dec (r_x a) (r_x b)) as [Hl|Hl].
      * apply Qlt_le_weak, Qle_bool_iff in Hl. congruence.
      * apply Qle_bool_iff in Hl. congruence.
Qed.

Lemma mkrows_bridge : forall x y wl i, map drop (mkrows i x y wl) = mk_rows x y wl.
Proof.
  unfold mk_rows. induction x as [|c x IH]; intros y wl i; [reflexivity|].
  destruct y as [|b y]; [reflexivity|]. destruct wl as [|d wl]; [reflexivity|].
  cbn [mkrows map combine fst snd]. rewrite IH. reflexivity.
Qed.

Lemma ones_bridge (y : list Q) : map (fun _ : Q => 1) y = repeat 1 (length y).
Proof. induction y as [|q y IH]; [reflexivity|]. cbn [map length repeat]. rewrite IH. reflexivity. Qed.

Lemma sorted_bridge x y w :
  map drop (Decompose.sorted_rows x y w) = IsoFit.sorted_rows x y w true.
Proof.
  unfold Decompose.sorted_rows, IsoFit.sorted_rows.
  rewrite (isort_bridge _ _ Decompose.row_le (IsoFit.row_le true) drop row_le_bridge), mkrows_bridge.
  destruct w as [wl|]; cbn [weights_or_ones]; [reflexivity|]. rewrite ones_bridge. reflexivity.
Qed.

(* the recalibrated forecast of `recalibrate` is `IsotonicRegression.fit(x, y, w).predict(x)`
   of model/IsoFit.v, row by row *)
Lemma recal_bridge f a x y w r :
  length x = length y ->
  (match w with None => True | Some wl => length wl = length y end) ->
  recalibrate f a x y w = DOk r ->
  exists ft, fit x y w true f a = FOk ft /\
             Forall2 (fun xi ri => ri == predict_val ft xi) x r.
Proof.
  intros Hx Hw Hr.
  set (wl := weights_or_ones (length y) w).
  assert (Hwl : length wl = length y).
  { unfold wl. destruct w as [wl0|]; cbn [weights_or_ones]; [exact Hw| apply repeat_length]. }
  unfold recalibrate in Hr.
  set (srt := Decompose.sorted_rows x y w) in *.
  pose proof (sorted_bridge x y w) as SB. fold srt in SB.
  assert (EY : fit_ys x y w true = map r_y srt).
  { unfold fit_ys. rewrite <- SB, map_map. reflexivity. }
  assert (EX : fit_Xs x y w true = map r_x srt).
  { unfold fit_Xs. rewrite <- SB, map_map. reflexivity. }
  assert (EW : fit_ws x y w true = match w with None => None | Some _ => Some (map r_w srt) end).
  { unfold fit_ws. destruct w; [|reflexivity]. rewrite <- SB, map_map. reflexivity. }
  rewrite <- EY, <- EW in Hr.
  destruct (isotonic_regression (fit_ys x y w true) (fit_ws x y w true) true f a) as [[v rr]|e] eqn:HI;
    [|discriminate Hr].
  injection Hr as <-.
  destruct (thr_idx_some _ _ _ _ (fit_ok_hyp _ _ _ _ _ _ _ _ HI)) as (idx & ET & _).
  set (ft := mkfitted (pick (fit_Xs x y w true) idx) (pick v idx)).
  assert (HF : fit x y w true f a = FOk ft).
  { unfold fit. rewrite Hx, Nat.eqb_refl. cbn [negb].
    assert (Ew : (match w with Some w' => negb (Nat.eqb (length w') (length y)) | None => false end) = false).
    { destruct w as [w'|]; [rewrite Hw, Nat.eqb_refl|]; reflexivity. }
    rewrite Ew. cbv zeta.
    fold (fit_ys x y w true) (fit_Xs x y w true) (fit_ws x y w true).
    rewrite HI, ET. reflexivity. }
  exists ft. split; [exact HF|].
  destruct (predict_at_training _ _ _ _ _ _ _ HF) as (v' & rr' & HI' & HP).
  rewrite HI in HI'. injection HI' as <- <-.
  assert (Lsrt : length srt = length y).
  { unfold srt, Decompose.sorted_rows. rewrite isort_length. apply mkrows_length; assumption. }
  assert (Lv : length v = length y).
  { destruct (iso_facts _ _ _ _ _ _ _ HI) as ((Clen & _) & _ & _). rewrite Clen, EY, map_length. exact Lsrt. }
  destruct (unsort_rows x y wl v Hx Hwl Lv) as (G1 & G2 & G3). cbv zeta in G1, G2, G3.
  assert (H1 : map fst (Decompose.isort key_le (combine srt v)) = mkrows 0 x y wl) by exact G1.
  assert (H2 : map snd (Decompose.isort key_le (combine srt v))
               = map snd (Decompose.isort idx_le (combine (map r_idx srt) v))) by exact G2.
  assert (H3 : Permutation (Decompose.isort key_le (combine srt v)) (combine srt v)) by exact G3.
  clear G1 G2 G3.
  set (back := Decompose.isort key_le (combine srt v)) in *.
  rewrite <- H2. rewrite <- (mkrows_x x y wl 0 Hx Hwl) at 1. rewrite <- H1, map_map.
  assert (HB : Forall (fun p : srow * Q => snd p == predict_val ft (r_x (fst p))) back).
  { apply Forall_forall. intros p Hp.
    assert (Hin : In p (combine srt v)) by (eapply Permutation_in; [exact H3| exact Hp]).
    destruct (In_nth _ _ (mksrow 0 0 0 0, 0) Hin) as (k & Hk & Ek).
    rewrite combine_length, Lsrt, Lv, Nat.min_id in Hk.
    rewrite combine_nth in Ek by congruence. subst p. cbn [fst snd].
    destruct (HP k ltac:(congruence)) as (vk & Evk & Eqk).
    rewrite EX in Evk.
    assert (En : nth k (map r_x srt) 0 = r_x (nth k srt (mksrow 0 0 0 0))).
    { change 0 with (r_x (mksrow 0 0 0 0)) at 1. apply map_nth. }
    rewrite En in Evk. unfold predict_val. rewrite Evk. symmetry. exact Eqk. }
  clear - HB. generalize dependent back. intros back HB.
  induction HB as [|p l Hp HB IH]; [constructor|].
  cbn [map]. constructor; [exact Hp| exact IH].
Qed.

(* sums of non-negative terms *)
Lemma rsum_nonneg_zero (g : IsoFit.row -> R) : forall l,
  (forall rw, In rw l -> (0 <= g rw)%R) -> (rsum g l <= 0)%R -> forall rw, In rw l -> g rw = 0%R.
Proof.
  induction l as [|a l IH]; intros Hn Hs rw Hin; [destruct Hin|].
  cbn [rsum] in Hs.
  assert (Ha : (0 <= g a)%R) by (apply Hn; left; reflexivity).
  assert (Hl : (0 <= rsum g l)%R).
  { clear - Hn. induction l as [|b l IH]; [cbn; lra|]. cbn [rsum].
    assert ((0 <= g b)%R) by (apply Hn; right; left; reflexivity).
    assert ((0 <= rsum g l)%R) by (apply IH; intros rw [->|H1]; apply Hn; [left|right; right]; auto).
    lra. }
  destruct Hin as [<-|Hin]; [lra|].
  apply IH; [intros rw' H'; apply Hn; right; exact H'| lra| exact Hin].
Qed.

(* two fits on the same multiset of rows predict the same value at every row *)
Lemma fit_perm_predictions X y w X' y' w' a ft ft' :
  fit X y w true IFmean a = FOk ft -> fit X' y' w' true IFmean a = FOk ft' ->
  Permutation (rows_of X y w) (rows_of X' y' w') ->
  (forall rw, In rw (rows_of X y w) -> 0 < rW rw) ->
  forall rw, In rw (rows_of X y w) -> predict_val ft (rX rw) == predict_val ft' (rX rw).
Proof.
  intros HF HF' HP Hpos.
  set (P := fun q => Q2R (predict_val ft q)). set (P' := fun q => Q2R (predict_val ft' q)).
  assert (Hmono : forall X0 y0 w0 ft0, fit X0 y0 w0 true IFmean a = FOk ft0 ->
                    dmonoR true (fun q => Q2R (predict_val ft0 q))).
  { intros X0 y0 w0 ft0 H0 p q Hpq. cbv beta.
    destruct (predict_total _ _ _ _ _ _ _ p H0) as (vp & Ep).
    destruct (predict_total _ _ _ _ _ _ _ q H0) as (vq & Eq).
    unfold predict_val. rewrite Ep, Eq. apply Qle_Rle.
    exact (predict_monotone _ _ _ _ _ _ _ p q vp vq H0 Hpq Ep Eq). }
  pose proof (fit_predict_optimal_rows_mean _ _ _ _ _ _ HF P' (Hmono _ _ _ _ HF')) as O1.
  pose proof (fit_predict_optimal_rows_mean _ _ _ _ _ _ HF' P (Hmono _ _ _ _ HF)) as O2.
  cbv zeta in O1, O2. fold P in O1. fold P' in O2.
  rewrite <- !(rsum_perm _ _ _ HP) in O2.
  set (Rw := rows_of X y w) in *.
  assert (Hg : forall rw, In rw Rw -> (0 <= row_gap P' P rw)%R).
  { intros rw Hin. unfold row_gap. apply Rmult_le_pos.
    - pose proof (Hpos rw Hin) as H0. apply Qlt_Rlt in H0. rewrite RMicromega.Q2R_0 in H0. lra.
    - apply pow2_ge_0. }
  assert (Hg2 : (0 <= rsum (row_gap P P') Rw)%R).
  { clear - Hpos. induction Rw as [|b l IH]; [cbn; lra|]. cbn [rsum].
    assert ((0 <= row_gap P P' b)%R).
    { unfold row_gap. apply Rmult_le_pos; [|apply pow2_ge_0].
      pose proof (Hpos b (or_introl eq_refl)) as H0. apply Qlt_Rlt in H0.
      rewrite RMicromega.Q2R_0 in H0. lra. }
    assert ((0 <= rsum (row_gap P P') l)%R) by (apply IH; intros rw H1; apply Hpos; right; exact H1).
    lra. }
  assert (Hz : (rsum (row_gap P' P) Rw <= 0)%R) by lra.
  intros rw Hin. pose proof (rsum_nonneg_zero _ _ Hg Hz rw Hin) as E0.
  unfold row_gap in E0.
  pose proof (Hpos rw Hin) as H0. apply Qlt_Rlt in H0. rewrite RMicromega.Q2R_0 in H0.
  apply Rmult_integral in E0. destruct E0 as [E0|E0]; [lra|].
  assert (E1 : (P' (rX rw) - P (rX rw) = 0)%R).
  { destruct (Req_dec (P' (rX rw) - P (rX rw)) 0) as [E|E]; [exact E|].
    exfalso. pose proof (pow_nonzero _ 2 E). contradiction. }
  apply eqR_Qeq. unfold P, P' in E1. lra.
Qed.

Definition cv (weighted : bool) (t : Q * Q * Q) : IsoFit.row :=
  IsoFit.mkrow (tx t) (ty t) (if weighted then tw t else 1).

Lemma rows_of_rs weighted : forall rs : list (Q * Q * Q),
  rows_of (map tx rs) (map ty rs) (wopt weighted rs) = map (cv weighted) rs.
Proof.
  intros rs. unfold rows_of, mk_rows.
  assert (E : (match wopt weighted rs with Some w' => w' | None => map (fun _ => 1) (map ty rs) end)
              = map (fun t => if weighted then tw t else 1) rs).
  { destruct weighted; cbn [wopt]; [reflexivity|]. rewrite map_map. reflexivity. }
  rewrite E. clear E. induction rs as [|t rs IH]; [reflexivity|].
  cbn [map combine fst snd]. rewrite IH. reflexivity.
Qed.

Lemma F2_to_map (P : Q -> Q) : forall x r, Forall2 (fun xi ri => ri == P xi) x r -> Forall2 Qeq r (map P x).
Proof. intros x r H. induction H as [|a b x r Hab H IH]; [constructor|]. cbn [map]. constructor; assumption. Qed.

Lemma F2_Qeq_trans : forall a b c, Forall2 Qeq a b -> Forall2 Qeq b c -> Forall2 Qeq a c.
Proof.
  intros a b c H. revert c. induction H as [|p q a b Hpq H IH]; intros c H2.
  - inversion H2. constructor.
  - inversion H2 as [|q' z b' c' Hqz H2' E1 E2]; subst. constructor.
    + rewrite Hpq. exact Hqz.
    + exact (IH _ H2').
Qed.

(* C07, first clause, all four columns: mean functional, any score that does not distinguish
   equal rationals, no repair (the smallest observation is admissible in both row orders) *)
Theorem decomp_perm_mean : forall v (S : Q -> Q -> option Q),
  (forall y z z', z == z' -> S y z = S y z') ->
  forall sf_fun sf_level functional level a weighted rs rs' row row',
  Permutation rs rs' ->
  infer sf_fun sf_level functional level = DOk (IFmean, a) ->
  allowed S (hd 0 (map ty rs)) (minQ (hd 0 (map ty rs)) (tl (map ty rs))) = true ->
  allowed S (hd 0 (map ty rs')) (minQ (hd 0 (map ty rs')) (tl (map ty rs'))) = true ->
  decompose v S sf_fun sf_level (map ty rs) [map tx rs] (wopt weighted rs) functional level = DOk [row] ->
  decompose v S sf_fun sf_level (map ty rs') [map tx rs'] (wopt weighted rs') functional level = DOk [row'] ->
  mcb row = mcb row' /\ dsc row = dsc row' /\ unc row = unc row' /\ sco row = sco row'.
Proof.
  intros v S S_proper sf_fun sf_level functional level a weighted rs rs' row row' P Hinf Hadm Hadm' H H'.
  destruct (decomp_perm_score_unc v S _ _ _ _ _ _ _ _ _ P H H') as [Esco Eunc].
  destruct (decompose_inv _ _ _ _ _ _ _ _ _ _ H) as (f & a1 & m & ymin & ok & sm & HR).
  destruct (decompose_inv _ _ _ _ _ _ _ _ _ _ H') as (f' & a1' & m' & ymin' & ok' & sm' & HR').
  destruct HR as ((fa & Hi & Ha) & Hc & Hw & Hp & _ & Hpre & Hcols).
  destruct HR' as ((fa' & Hi' & Ha') & Hc' & Hw' & Hp' & _ & Hpre' & Hcols').
  rewrite Hinf in Hi, Hi'. injection Hi as <-. injection Hi' as <-.
  cbn [alias] in Ha, Ha'. injection Ha as <- <-. injection Ha' as <- <-.
  destruct (prelude_inv _ _ _ _ _ _ _ _ _ Hpre) as (Hn & _ & _ & Hymin & Hok).
  destruct (prelude_inv _ _ _ _ _ _ _ _ _ Hpre') as (Hn' & _ & _ & Hymin' & Hok').
  assert (Eok : ok = true) by (rewrite Hok, Hymin; exact Hadm).
  assert (Eok' : ok' = true) by (rewrite Hok', Hymin'; exact Hadm').
  cbn [columns] in Hcols, Hcols'.
  destruct (column v S IFmean a (map ty rs) (wopt weighted rs) ymin ok sm (map tx rs)) as [r1|e] eqn:E1;
    [|discriminate Hcols].
  injection Hcols as <-.
  destruct (column v S IFmean a (map ty rs') (wopt weighted rs') ymin' ok' sm' (map tx rs')) as [r2|e] eqn:E2;
    [|discriminate Hcols'].
  injection Hcols' as <-.
  destruct (column_inv _ _ _ _ _ _ _ _ _ _ _ E1) as (r & s & sr & Hrf & _ & Hsr & _ & ->).
  destruct (column_inv _ _ _ _ _ _ _ _ _ _ _ E2) as (r' & s' & sr' & Hrf' & _ & Hsr' & _ & ->).
  cbn [mcb dsc unc sco] in *. subst s' sm'.
  assert (Esr : sr = sr').
  { unfold recal_final in Hrf, Hrf'. rewrite Eok in Hrf. rewrite Eok' in Hrf'.
    destruct (recalibrate IFmean a (map tx rs) (map ty rs) (wopt weighted rs)) as [r0|e] eqn:Er;
      [|discriminate Hrf].
    destruct (recalibrate IFmean a (map tx rs') (map ty rs') (wopt weighted rs')) as [r0'|e] eqn:Er';
      [|discriminate Hrf'].
    cbn [negb andb] in Hrf, Hrf'. injection Hrf as <-. injection Hrf' as <-.
    assert (Lx : length (map tx rs) = length (map ty rs)) by (rewrite !map_length; reflexivity).
    assert (Lx' : length (map tx rs') = length (map ty rs')) by (rewrite !map_length; reflexivity).
    destruct (recal_bridge _ _ _ _ _ _ Lx Hw Er) as (ft & HF & F2).
    destruct (recal_bridge _ _ _ _ _ _ Lx' Hw' Er') as (ft' & HF' & F2').
    assert (HPR : Permutation (rows_of (map tx rs) (map ty rs) (wopt weighted rs))
                              (rows_of (map tx rs') (map ty rs') (wopt weighted rs'))).
    { rewrite !rows_of_rs. apply Permutation_map. exact P. }
    assert (Hpos : forall rw, In rw (rows_of (map tx rs) (map ty rs) (wopt weighted rs)) -> 0 < rW rw).
    { intros rw Hin. rewrite rows_of_rs in Hin. apply in_map_iff in Hin. destruct Hin as (t & <- & Ht).
      unfold cv. cbn [rW]. destruct weighted; [|reflexivity].
      cbn [wopt all_pos_w] in Hp. pose proof (all_pos_Forall _ Hp) as F. rewrite Forall_forall in F.
      apply F. apply in_map. exact Ht. }
    pose proof (fit_perm_predictions _ _ _ _ _ _ _ _ _ HF HF' HPR Hpos) as HE.
    apply F2_to_map in F2. apply F2_to_map in F2'. rewrite map_map in F2, F2'.
    assert (F2'' : Forall2 Qeq r0' (map (fun t => predict_val ft (tx t)) rs')).
    { assert (EM : Forall2 Qeq (map (fun t => predict_val ft' (tx t)) rs')
                               (map (fun t => predict_val ft (tx t)) rs')).
      { assert (Hall : forall t, In t rs' -> In t rs)
          by (intros t Ht; eapply Permutation_in; [apply Permutation_sym; exact P| exact Ht]).
        clear - HE Hall. induction rs' as [|t l IH]; [constructor|]. cbn [map]. constructor.
        - symmetry. 
          assert (Hin : In (cv weighted t) (rows_of (map tx rs) (map ty rs) (wopt weighted rs))).
          { rewrite rows_of_rs. apply in_map. apply Hall. left. reflexivity. }
          exact (HE _ Hin).
        - apply IH. intros t0 Ht0. apply Hall. right. exact Ht0. }
      exact (F2_Qeq_trans _ _ _ F2' EM). }
    unfold avg_score in Hsr, Hsr'.
    rewrite (scores_proper S S_proper _ _ _ F2) in Hsr.
    rewrite (scores_proper S S_proper _ _ _ F2'') in Hsr'.
    exact (avg_score_perm S (fun t => predict_val ft (tx t)) weighted rs rs' sr sr' P Hsr Hsr'). }
  subst sr'. repeat split; reflexivity.
Qed.

(* squared error: no hypothesis on the score is left *)
Corollary decomp_perm_squared_error : forall v sf_fun sf_level functional level a weighted rs rs' row row',
  Permutation rs rs' ->
  infer sf_fun sf_level functional level = DOk (IFmean, a) ->
  decompose v (total sq_score) sf_fun sf_level (map ty rs) [map tx rs] (wopt weighted rs) functional level
    = DOk [row] ->
  decompose v (total sq_score) sf_fun sf_level (map ty rs') [map tx rs'] (wopt weighted rs') functional level
    = DOk [row'] ->
  mcb row = mcb row' /\ dsc row = dsc row' /\ unc row = unc row' /\ sco row = sco row'.
Proof.
  intros v sf_fun sf_level functional level a weighted rs rs' row row' P Hi H H'.
  exact (decomp_perm_mean v (total sq_score) (total_proper _ sq_score_proper)
           _ _ _ _ a weighted rs rs' row row' P Hi eq_refl eq_refl H H').
Qed.

Print Assumptions decomp_perm_mean.
