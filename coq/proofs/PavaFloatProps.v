(* STRUCTURAL theorems about the binary64 twin model/PavaFloat.v.  They hold for
   EVERY float input whatsoever (NaN, infinities, signed zeros, subnormals,
   overflow in the middle of the loop): no float algebra is used, the primitive
   operations are black boxes.  `Print Assumptions` therefore lists only the
   primitive float type and operations the definitions mention (Coq 8.16 prints
   primitives under the heading "Axioms:"); nothing from FloatAxioms. *)
From Coq Require Import PrimFloat List Bool Arith Lia.
Import ListNotations.
From MD Require Import model.PavaFloat.

(* ------------------------------------------------------------------ *)
(* Blocks in data order                                                *)
(* ------------------------------------------------------------------ *)
Definition bexpand (bs : list fblk) : list float := flat_map (fun b => repeat (fv b) (fn b)) bs.
Fixpoint cnt (bs : list fblk) : nat := match bs with [] => 0 | b :: bs' => fn b + cnt bs' end.
Definition allpos (bs : list fblk) : Prop := Forall (fun b => 1 <= fn b) bs.

(* adjacent blocks (in data order) have values related by R *)
Definition adjR (R : float -> float -> Prop) (bs : list fblk) : Prop :=
  forall j d, S j < length bs -> R (fv (nth j bs d)) (fv (nth (S j) bs d)).

(* (x, r) is a block decomposition: x is piecewise constant on the consecutive
   non-empty blocks whose start positions (and the end n) are listed in r, and
   the values of two adjacent blocks are related by R *)
Definition block_form_rel (R : float -> float -> Prop) (x : list float) (r : list nat) : Prop :=
  exists bs, allpos bs /\ adjR R bs /\ x = bexpand bs /\ r = fstarts 0 bs.
Definition block_form : list float -> list nat -> Prop := block_form_rel (fun _ _ => True).

(* "the pooling condition a >= b of lines 107 / 117 is false" *)
Definition not_ge (a b : float) : Prop := fge a b = false.

Lemma cnt_app a b : cnt (a ++ b) = cnt a + cnt b.
Proof. induction a as [|p a IH]; cbn [cnt app]; lia. Qed.

Lemma cnt_rev a : cnt (rev a) = cnt a.
Proof. induction a as [|p a IH]; cbn [rev cnt]; [reflexivity|]. rewrite cnt_app. cbn [cnt]. lia. Qed.

Lemma allpos_rev a : allpos a -> allpos (rev a).
Proof. unfold allpos. intros H. apply Forall_rev. exact H. Qed.

Lemma bexpand_length bs : length (bexpand bs) = cnt bs.
Proof.
  unfold bexpand. induction bs as [|b bs IH]; cbn [flat_map cnt]; [reflexivity|].
  rewrite app_length, repeat_length, IH. reflexivity.
Qed.

Lemma fstarts_length from bs : length (fstarts from bs) = S (length bs).
Proof. revert from. induction bs as [|b bs IH]; intros from; cbn [fstarts length]; [reflexivity|]. rewrite IH. reflexivity. Qed.

Lemma fstarts_hd from bs : hd 0 (fstarts from bs) = from.
Proof. destruct bs; reflexivity. Qed.

Lemma fstarts_nth0 from bs : nth 0 (fstarts from bs) 0 = from.
Proof. destruct bs; reflexivity. Qed.

Lemma fstarts_last from bs : last (fstarts from bs) 0 = from + cnt bs.
Proof.
  revert from. induction bs as [|b bs IH]; intros from.
  - cbn. lia.
  - cbn [fstarts cnt]. specialize (IH (from + fn b)).
    destruct (fstarts (from + fn b) bs) as [|k t] eqn:E.
    + destruct bs; discriminate E.
    + change (last (from :: k :: t) 0) with (last (k :: t) 0). rewrite IH. lia.
Qed.

Lemma fstarts_ge from bs j : j <= length bs -> from <= nth j (fstarts from bs) 0.
Proof.
  revert from j. induction bs as [|b bs IH]; intros from j Hj.
  - cbn in Hj. assert (j = 0) by lia. subst j. cbn. lia.
  - destruct j as [|j]; cbn [fstarts nth]; [lia|].
    cbn [length] in Hj. specialize (IH (from + fn b) j). lia.
Qed.

(* consecutive entries differ by the block length *)
Lemma fstarts_step from bs j d : j < length bs ->
  nth (S j) (fstarts from bs) 0 = nth j (fstarts from bs) 0 + fn (nth j bs d).
Proof.
  revert from j. induction bs as [|b bs IH]; intros from j Hj; [cbn in Hj; lia|].
  destruct j as [|j].
  - cbn [fstarts nth]. rewrite fstarts_nth0. reflexivity.
  - cbn [length] in Hj. change (nth (S (S j)) (fstarts from (b :: bs)) 0) with (nth (S j) (fstarts (from + fn b) bs) 0).
    change (nth (S j) (fstarts from (b :: bs)) 0) with (nth j (fstarts (from + fn b) bs) 0).
    change (nth (S j) (b :: bs) d) with (nth j bs d).
    apply IH. lia.
Qed.

Lemma allpos_nth bs j d : allpos bs -> j < length bs -> 1 <= fn (nth j bs d).
Proof.
  unfold allpos. intros H Hj. rewrite Forall_forall in H. apply H. apply nth_In. exact Hj.
Qed.

Lemma fstarts_strict from bs j : allpos bs -> j < length bs ->
  nth j (fstarts from bs) 0 < nth (S j) (fstarts from bs) 0.
Proof.
  intros Hp Hj. rewrite (fstarts_step from bs j (mkfb fzero fzero 0) Hj).
  pose proof (allpos_nth bs j (mkfb fzero fzero 0) Hp Hj). lia.
Qed.

Lemma nth_repeat_lt (v d : float) k i : i < k -> nth i (repeat v k) d = v.
Proof.
  intros H. rewrite (nth_indep (repeat v k) d v) by (rewrite repeat_length; exact H). apply nth_repeat.
Qed.

(* the value at every position of block j is the value of block j *)
Lemma bexpand_nth bs : forall from j i d db, j < length bs ->
  nth j (fstarts from bs) 0 <= i -> i < nth (S j) (fstarts from bs) 0 ->
  nth (i - from) (bexpand bs) d = fv (nth j bs db).
Proof.
  induction bs as [|b bs IH]; intros from j i d db Hj Hlo Hhi; [cbn in Hj; lia|].
  unfold bexpand. cbn [flat_map]. fold (bexpand bs).
  destruct j as [|j].
  - cbn [fstarts nth] in Hlo, Hhi. rewrite fstarts_nth0 in Hhi.
    rewrite app_nth1 by (rewrite repeat_length; lia).
    cbn [nth]. apply nth_repeat_lt. lia.
  - cbn [length] in Hj.
    change (nth (S j) (fstarts from (b :: bs)) 0) with (nth j (fstarts (from + fn b) bs) 0) in Hlo.
    change (nth (S (S j)) (fstarts from (b :: bs)) 0) with (nth (S j) (fstarts (from + fn b) bs) 0) in Hhi.
    change (nth (S j) (b :: bs) db) with (nth j bs db).
    pose proof (fstarts_ge (from + fn b) bs j ltac:(lia)) as Hge.
    rewrite app_nth2 by (rewrite repeat_length; lia).
    rewrite repeat_length.
    replace (i - from - fn b) with (i - (from + fn b)) by lia.
    apply IH; [lia|exact Hlo|exact Hhi].
Qed.

(* ------------------------------------------------------------------ *)
(* What a block decomposition gives, in terms of x and r only          *)
(* ------------------------------------------------------------------ *)
Lemma block_form_rel_weaken (R : float -> float -> Prop) x r : block_form_rel R x r -> block_form x r.
Proof.
  intros [bs [Hp [_ [Hx Hr]]]]. exists bs. split; [exact Hp|]. split; [|split; assumption].
  intros j d _. exact I.
Qed.

Theorem block_form_length x r : block_form x r -> length x = last r 0.
Proof.
  intros [bs [_ [_ [Hx Hr]]]]. subst x r. rewrite bexpand_length, fstarts_last. reflexivity.
Qed.

Theorem block_form_first x r : block_form x r -> hd 0 r = 0 /\ nth 0 r 0 = 0.
Proof.
  intros [bs [_ [_ [_ Hr]]]]. subst r. split; [apply fstarts_hd|apply fstarts_nth0].
Qed.

Theorem block_form_strict x r : block_form x r ->
  forall j, S j < length r -> nth j r 0 < nth (S j) r 0.
Proof.
  intros [bs [Hp [_ [_ Hr]]]] j Hj. subst r. rewrite fstarts_length in Hj.
  apply fstarts_strict; [exact Hp|lia].
Qed.

Theorem block_form_nblocks x r : block_form x r -> length r = S (length r - 1) /\ (x <> [] -> 2 <= length r).
Proof.
  intros [bs [_ [_ [Hx Hr]]]]. subst x r. rewrite fstarts_length. split; [lia|].
  intros Hne. destruct bs as [|b bs]; [exfalso; apply Hne; reflexivity|]. cbn [length]. lia.
Qed.

(* inside a block all values are THE SAME float (Leibniz equal, hence bit-equal) *)
Theorem block_form_const x r : block_form x r ->
  forall j i d, S j < length r -> nth j r 0 <= i -> i < nth (S j) r 0 ->
  nth i x d = nth (nth j r 0) x d.
Proof.
  intros [bs [Hp [_ [Hx Hr]]]] j i d Hj Hlo Hhi. subst x r.
  rewrite fstarts_length in Hj. assert (Hjb : j < length bs) by lia.
  pose proof (bexpand_nth bs 0 j i d (mkfb fzero fzero 0) Hjb Hlo Hhi) as H1.
  pose proof (bexpand_nth bs 0 j (nth j (fstarts 0 bs) 0) d (mkfb fzero fzero 0) Hjb (le_n _)
                (fstarts_strict 0 bs j Hp Hjb)) as H2.
  rewrite Nat.sub_0_r in H1, H2. rewrite H1, H2. reflexivity.
Qed.

(* at every inner block boundary k = r[j] the values x[k-1], x[k] are related by R *)
Theorem block_form_boundary (R : float -> float -> Prop) x r : block_form_rel R x r ->
  forall j d, 1 <= j -> S j < length r ->
  R (nth (nth j r 0 - 1) x d) (nth (nth j r 0) x d).
Proof.
  intros [bs [Hp [Ha [Hx Hr]]]] j d Hj1 Hj. subst x r.
  rewrite fstarts_length in Hj. destruct j as [|j]; [lia|].
  assert (Hjb : S j < length bs) by lia.
  set (db := mkfb fzero fzero 0).
  pose proof (fstarts_strict 0 bs j Hp ltac:(lia)) as Hs1.
  pose proof (fstarts_strict 0 bs (S j) Hp Hjb) as Hs2.
  pose proof (bexpand_nth bs 0 j (nth (S j) (fstarts 0 bs) 0 - 1) d db ltac:(lia) ltac:(lia) ltac:(lia)) as H1.
  pose proof (bexpand_nth bs 0 (S j) (nth (S j) (fstarts 0 bs) 0) d db Hjb (le_n _) Hs2) as H2.
  rewrite Nat.sub_0_r in H1, H2. rewrite H1, H2. apply Ha. exact Hjb.
Qed.

(* ------------------------------------------------------------------ *)
(* Reversal: the decreasing fit                                        *)
(* ------------------------------------------------------------------ *)
Lemma rev_repeat (v : float) k : rev (repeat v k) = repeat v k.
Proof.
  induction k as [|k IH]; [reflexivity|]. cbn [repeat rev]. rewrite IH.
  clear IH. induction k as [|k IH]; [reflexivity|]. cbn [repeat app]. rewrite IH. reflexivity.
Qed.

Lemma bexpand_app a b : bexpand (a ++ b) = bexpand a ++ bexpand b.
Proof. unfold bexpand. apply flat_map_app. Qed.

Lemma bexpand_rev bs : rev (bexpand bs) = bexpand (rev bs).
Proof.
  induction bs as [|b bs IH]; [reflexivity|].
  cbn [rev]. rewrite bexpand_app. unfold bexpand at 1. cbn [flat_map]. fold (bexpand bs).
  rewrite rev_app_distr, IH, rev_repeat. unfold bexpand at 3. cbn [flat_map]. rewrite app_nil_r. reflexivity.
Qed.

Lemma fstarts_snoc bs : forall from b, fstarts from (bs ++ [b]) = fstarts from bs ++ [from + cnt bs + fn b].
Proof.
  induction bs as [|a bs IH]; intros from b.
  - cbn. rewrite Nat.add_0_r. reflexivity.
  - cbn [app fstarts cnt]. rewrite IH. cbn [app]. f_equal. f_equal. f_equal. lia.
Qed.

Lemma fstarts_mirror bs : forall from,
  map (fun k => from + cnt bs - k) (rev (fstarts from bs)) = fstarts 0 (rev bs).
Proof.
  induction bs as [|b bs IH]; intros from.
  - cbn. f_equal. lia.
  - cbn [fstarts rev cnt]. rewrite map_app. cbn [map]. rewrite fstarts_snoc.
    rewrite <- (IH (from + fn b)). rewrite cnt_rev. f_equal.
    + apply map_ext. intros k. lia.
    + f_equal. lia.
Qed.

Lemma adjR_rev (R : float -> float -> Prop) bs : adjR R bs -> adjR (fun a b => R b a) (rev bs).
Proof.
  intros H j d Hj. rewrite rev_length in Hj.
  rewrite (rev_nth bs d) by lia. rewrite (rev_nth bs d) by lia.
  replace (length bs - S j) with (S (length bs - S (S j))) by lia.
  apply H. lia.
Qed.

Theorem block_form_rel_rev (R : float -> float -> Prop) x r :
  block_form_rel R x r -> block_form_rel (fun a b => R b a) (rev x) (mirror_r r).
Proof.
  intros [bs [Hp [Ha [Hx Hr]]]]. subst x r. exists (rev bs).
  split; [apply allpos_rev; exact Hp|]. split; [apply adjR_rev; exact Ha|].
  split; [apply bexpand_rev|].
  unfold mirror_r. rewrite fstarts_last. apply fstarts_mirror.
Qed.

(* ------------------------------------------------------------------ *)
(* Invariants of the loops                                             *)
(* ------------------------------------------------------------------ *)
(* stack (top first): the block below is not >= the block above *)
Fixpoint chain (stk : list fblk) : Prop :=
  match stk with
  | q :: ((p :: _) as t) => not_ge (fv p) (fv q) /\ chain t
  | _ => True
  end.

Lemma chain_suffix pre stk : chain (pre ++ stk) -> chain stk.
Proof.
  induction pre as [|a pre IH]; [trivial|]. cbn [app]. intros H. apply IH.
  destruct (pre ++ stk) as [|b t]; [exact I|]. exact (proj2 H).
Qed.

Lemma chain_nth stk : chain stk -> forall j d, S j < length stk ->
  not_ge (fv (nth (S j) stk d)) (fv (nth j stk d)).
Proof.
  induction stk as [|q stk IH]; intros Hc j d Hj; [cbn in Hj; lia|].
  destruct stk as [|p t]; [cbn in Hj; lia|].
  destruct Hc as [H1 H2]. destruct j as [|j]; [exact H1|].
  change (nth (S (S j)) (q :: p :: t) d) with (nth (S j) (p :: t) d).
  change (nth (S j) (q :: p :: t) d) with (nth j (p :: t) d).
  apply IH; [exact H2|]. cbn [length] in Hj |- *. lia.
Qed.

Lemma chain_adjR stk : chain stk -> adjR not_ge (rev stk).
Proof.
  intros Hc j d Hj. rewrite rev_length in Hj.
  rewrite (rev_nth stk d) by lia. rewrite (rev_nth stk d) by lia.
  replace (length stk - S j) with (S (length stk - S (S j))) by lia.
  apply chain_nth; [exact Hc|lia].
Qed.

Lemma fup_spec : forall rest sb wb xb n sb' wb' xb' n' rest',
  fup sb wb xb n rest = (sb', wb', xb', n', rest') ->
  n' + length rest' = n + length rest /\ n <= n'.
Proof.
  induction rest as [|[y1 w1] rest IH]; intros sb wb xb n sb' wb' xb' n' rest' H; cbn [fup] in H.
  - inversion H; subst. lia.
  - destruct (fge xb y1) eqn:E.
    + apply IH in H. cbn [length]. lia.
    + inversion H; subst. lia.
Qed.

Lemma fdown_spec : forall stk sb wb xb n sb' wb' xb' n' stk',
  fdown sb wb xb n stk = (sb', wb', xb', n', stk') ->
  n' + cnt stk' = n + cnt stk /\ n <= n' /\ (exists pre, stk = pre ++ stk') /\
  match stk' with [] => True | q :: _ => not_ge (fv q) xb' end.
Proof.
  induction stk as [|p stk IH]; intros sb wb xb n sb' wb' xb' n' stk' H; cbn [fdown] in H.
  - inversion H; subst. split; [lia|]. split; [lia|]. split; [exists []; reflexivity|exact I].
  - destruct (fge (fv p) xb) eqn:E.
    + apply IH in H. destruct H as (H1 & H2 & [pre Hpre] & H4). cbn [cnt].
      split; [lia|]. split; [lia|]. split; [|exact H4].
      exists (p :: pre). cbn [app]. f_equal. exact Hpre.
    + inversion H; subst. split; [lia|]. split; [lia|]. split; [exists []; reflexivity|exact E].
Qed.

Lemma fstep_spec stk e rest stk1 rest1 :
  fstep stk e rest = (stk1, rest1) -> allpos stk -> chain stk ->
  allpos stk1 /\ chain stk1 /\
  cnt stk1 + length rest1 = cnt stk + S (length rest) /\ length rest1 <= length rest.
Proof.
  destruct e as [y1 w1]. unfold fstep. intros H Hp Hc.
  destruct stk as [|p stk'].
  - inversion H; subst. split; [constructor; [cbn; lia|constructor]|]. split; [exact I|]. cbn. lia.
  - destruct (fge (fv p) y1) eqn:E.
    + destruct (fup _ _ _ _ rest) as [[[[sb1 wb1] xb1] n1] rest1'] eqn:Eu.
      destruct (fdown sb1 wb1 xb1 n1 stk') as [[[[sb2 wb2] xb2] n2] stk2] eqn:Ed.
      inversion H; subst. apply fup_spec in Eu. apply fdown_spec in Ed.
      destruct Ed as (D1 & D2 & [pre Dpre] & D4). destruct Eu as [U1 U2].
      unfold allpos in Hp. inversion Hp as [|p0 l0 Hp1 Hp2]; subst.
      rewrite Forall_app in Hp2. destruct Hp2 as [_ Hp3].
      split; [constructor; [cbn; lia|exact Hp3]|].
      split.
      * assert (Hc' : chain stk2) by (apply (chain_suffix (p :: pre)); exact Hc).
        destruct stk2 as [|q t]; [exact I|]. split; [exact D4|exact Hc'].
      * cbn [cnt fn] in *. rewrite cnt_app in *. lia.
    + inversion H; subst. split; [constructor; [cbn; lia|exact Hp]|].
      split; [split; [exact E|exact Hc]|]. cbn [cnt fn]. lia.
Qed.

Lemma floop_spec : forall fuel stk rest, length rest <= fuel -> allpos stk -> chain stk ->
  exists stk', floop fuel stk rest = Some stk' /\ allpos stk' /\ chain stk' /\
               cnt stk' = cnt stk + length rest.
Proof.
  induction fuel as [|fuel IH]; intros stk rest Hf Hp Hc; destruct rest as [|e rest]; cbn [length] in Hf.
  - exists stk. cbn. repeat split; try assumption. lia.
  - lia.
  - exists stk. cbn. repeat split; try assumption. lia.
  - cbn [floop]. destruct (fstep stk e rest) as [stk1 rest1] eqn:Es.
    destruct (fstep_spec _ _ _ _ _ Es Hp Hc) as (S1 & S2 & S3 & S4).
    destruct (IH stk1 rest1 ltac:(lia) S1 S2) as [stk' (L1 & L2 & L3 & L4)].
    exists stk'. split; [exact L1|]. split; [exact L2|]. split; [exact L3|]. cbn [length]. lia.
Qed.

(* ------------------------------------------------------------------ *)
(* Theorems about pava_f                                               *)
(* ------------------------------------------------------------------ *)
(* fuel = length of the data is never exhausted *)
Theorem pava_blocks_f_total l :
  exists stk, pava_blocks_f l = Some stk /\ allpos stk /\ chain stk /\ cnt stk = length l.
Proof.
  unfold pava_blocks_f.
  destruct (floop_spec (length l) [] l (le_n _) (Forall_nil _) I) as [stk (H1 & H2 & H3 & H4)].
  exists stk. cbn [cnt] in H4. repeat split; assumption.
Qed.

Theorem pava_f_fuel y w :
  exists stk, pava_blocks_f (combine y w) = Some stk /\ pava_f y w = (fexpand stk, frvec stk).
Proof.
  destruct (pava_blocks_f_total (combine y w)) as [stk [H _]]. exists stk. split; [exact H|].
  unfold pava_f. rewrite H. reflexivity.
Qed.

(* the output is a block decomposition whose adjacent block values are not in the
   pooling relation  x[k-1] >= x[k]  (IEEE) *)
Theorem pava_f_block_form y w : block_form_rel not_ge (fst (pava_f y w)) (snd (pava_f y w)).
Proof.
  destruct (pava_blocks_f_total (combine y w)) as [stk (H1 & H2 & H3 & H4)].
  unfold pava_f. rewrite H1. cbn [fst snd]. exists (rev stk).
  split; [apply allpos_rev; exact H2|]. split; [apply chain_adjR; exact H3|]. split; reflexivity.
Qed.

Theorem pava_f_length y w : length (fst (pava_f y w)) = length (combine y w).
Proof.
  destruct (pava_blocks_f_total (combine y w)) as [stk (H1 & H2 & H3 & H4)].
  unfold pava_f. rewrite H1. cbn [fst]. unfold fexpand. fold (bexpand (rev stk)).
  rewrite bexpand_length, cnt_rev. exact H4.
Qed.

Corollary pava_f_length_eq y w : length y = length w -> length (fst (pava_f y w)) = length y.
Proof. intros H. rewrite pava_f_length, combine_length, <- H. apply Nat.min_id. Qed.

Theorem pava_f_r_ends y w :
  hd 0 (snd (pava_f y w)) = 0 /\ last (snd (pava_f y w)) 0 = length (combine y w).
Proof.
  pose proof (block_form_rel_weaken _ _ _ (pava_f_block_form y w)) as B.
  split; [apply (block_form_first _ _ B)|]. rewrite <- (block_form_length _ _ B). apply pava_f_length.
Qed.

Theorem pava_f_r_strict y w : forall j, S j < length (snd (pava_f y w)) ->
  nth j (snd (pava_f y w)) 0 < nth (S j) (snd (pava_f y w)) 0.
Proof. apply (block_form_strict (fst (pava_f y w))). apply (block_form_rel_weaken not_ge). apply pava_f_block_form. Qed.

Theorem pava_f_const y w : forall j i d, S j < length (snd (pava_f y w)) ->
  nth j (snd (pava_f y w)) 0 <= i -> i < nth (S j) (snd (pava_f y w)) 0 ->
  nth i (fst (pava_f y w)) d = nth (nth j (snd (pava_f y w)) 0) (fst (pava_f y w)) d.
Proof. apply block_form_const. apply (block_form_rel_weaken not_ge). apply pava_f_block_form. Qed.

(* at an inner boundary k = r[j]:  (x[k-1] >= x[k]) = false, as IEEE comparison.
   Without NaN this is x[k-1] < x[k]: the blocks are strictly increasing AS FLOATS,
   whatever the rounding errors of the block means were. *)
Theorem pava_f_boundary y w : forall j d, 1 <= j -> S j < length (snd (pava_f y w)) ->
  PrimFloat.leb (nth (nth j (snd (pava_f y w)) 0) (fst (pava_f y w)) d)
                (nth (nth j (snd (pava_f y w)) 0 - 1) (fst (pava_f y w)) d) = false.
Proof. intros j d H1 H2. exact (block_form_boundary not_ge _ _ (pava_f_block_form y w) j d H1 H2). Qed.

(* full statement, not proved: if no entry of x = fst (pava_f y w) is NaN then x is monotone
   as floats,  forall i, S i < length x -> PrimFloat.leb (nth i x d) (nth (S i) x d) = true,  and
   strictly increasing across block boundaries,  PrimFloat.ltb x[r[j]-1] x[r[j]] = true.
   From pava_f_const and pava_f_boundary this needs only the two IEEE facts
     is_nan a = false -> leb a a = true      and
     is_nan a = false -> is_nan b = false -> leb b a = false -> ltb a b = true,
   which Coq states only through FloatAxioms (leb_spec, ltb_spec, ...): axioms, kept out of this
   development.  What is proved (pava_f_boundary, isotonic_mean_f_contract) is the comparison the
   code itself performs:  (x[k-1] >= x[k]) = false  at every inner block boundary, for every input.
   With NaN the conclusion is false for the implementation too, e.g.
   y = [3, 1e200, -1e200, 0, 4], w = [1, 1e200, 1e200, 2, 1] gives x = [3, nan, nan, 0, 4]
   (see harness/run_pavafloat.py, FIXED). *)

(* the agreement of pava_f with the rational model model/Pava.v on runs without rounding is
   proofs/PavaFloatExact.v (pava_f_exact_agrees). *)

(* ------------------------------------------------------------------ *)
(* The public path                                                     *)
(* ------------------------------------------------------------------ *)
Lemma existsb_rev {A} (f : A -> bool) l : existsb f (rev l) = existsb f l.
Proof.
  induction l as [|a l IH]; [reflexivity|]. cbn [rev]. rewrite existsb_app, IH. cbn [existsb].
  rewrite orb_false_r. apply orb_comm.
Qed.

(* decreasing = mirror image of the increasing fit of the reversed input *)
Theorem isotonic_mean_f_decreasing y w :
  isotonic_mean_f y w false =
  match isotonic_mean_f (rev y) (option_map (@rev float) w) true with
  | FOk (x, r) => FOk (rev x, mirror_r r)
  | FErr e => FErr e
  end.
Proof.
  unfold isotonic_mean_f. destruct w as [w|]; cbn [option_map].
  - rewrite !rev_length. destruct (negb (Nat.eqb (length y) (length w))); [reflexivity|].
    unfold any_nonpos. rewrite existsb_rev. destruct (existsb _ w); [reflexivity|].
    destruct y as [|a y]; [reflexivity|].
    destruct (rev (a :: y)) as [|b l] eqn:E.
    + apply (f_equal (@length float)) in E. rewrite rev_length in E. discriminate E.
    + destruct (pava_f (b :: l) (rev w)) as [x r]. reflexivity.
  - rewrite map_rev.
    destruct y as [|a y]; [reflexivity|].
    destruct (rev (a :: y)) as [|b l] eqn:E.
    + apply (f_equal (@length float)) in E. rewrite rev_length in E. discriminate E.
    + destruct (pava_f (b :: l) _) as [x r]. reflexivity.
Qed.

(* the relation between the values on both sides of a block boundary *)
Definition boundary_rel (increasing : bool) : float -> float -> Prop :=
  if increasing then not_ge else (fun a b => not_ge b a).

Theorem isotonic_mean_f_block_form y w inc x r :
  isotonic_mean_f y w inc = FOk (x, r) ->
  block_form_rel (boundary_rel inc) x r /\ length x = length y.
Proof.
  unfold isotonic_mean_f. intros H.
  assert (G : forall w0, length y = length w0 -> y <> [] ->
            (let '(x0, r0) := pava_f (if inc then y else rev y) (if inc then w0 else rev w0) in
             if inc then FOk (x0, r0) else FOk (rev x0, mirror_r r0)) = FOk (x, r) ->
            block_form_rel (boundary_rel inc) x r /\ length x = length y).
  { intros w0 Hl Hne Hr.
    pose proof (pava_f_block_form (if inc then y else rev y) (if inc then w0 else rev w0)) as B.
    pose proof (pava_f_length_eq (if inc then y else rev y) (if inc then w0 else rev w0)) as L.
    destruct (pava_f _ _) as [x0 r0]. cbn [fst snd] in B, L.
    destruct inc; inversion Hr; subst.
    - split; [exact B|]. apply L. exact Hl.
    - split; [apply (block_form_rel_rev not_ge); exact B|].
      rewrite rev_length, L; [apply rev_length|]. rewrite !rev_length. exact Hl. }
  destruct w as [w|].
  - destruct (Nat.eqb (length y) (length w)) eqn:El; cbn [negb] in H; [|discriminate H].
    destruct (any_nonpos w); [discriminate H|].
    apply Nat.eqb_eq in El. destruct y as [|a y]; [discriminate H|].
    apply (G w El); [discriminate|exact H].
  - destruct y as [|a y]; [discriminate H|].
    apply (G (map (fun _ => fone) (a :: y))); [rewrite map_length; reflexivity|discriminate|exact H].
Qed.

(* the structural contract of the public function, for every float input *)
Theorem isotonic_mean_f_contract y w inc x r :
  isotonic_mean_f y w inc = FOk (x, r) ->
  length x = length y /\
  hd 0 r = 0 /\ last r 0 = length y /\ 2 <= length r /\
  (forall j, S j < length r -> nth j r 0 < nth (S j) r 0) /\
  (forall j i d, S j < length r -> nth j r 0 <= i -> i < nth (S j) r 0 -> nth i x d = nth (nth j r 0) x d) /\
  (forall j d, 1 <= j -> S j < length r ->
     if inc then PrimFloat.leb (nth (nth j r 0) x d) (nth (nth j r 0 - 1) x d) = false
     else PrimFloat.leb (nth (nth j r 0 - 1) x d) (nth (nth j r 0) x d) = false).
Proof.
  intros H. pose proof H as H0. apply isotonic_mean_f_block_form in H. destruct H as [B L].
  pose proof (block_form_rel_weaken _ _ _ B) as B0.
  split; [exact L|]. split; [apply (block_form_first _ _ B0)|].
  split; [rewrite <- (block_form_length _ _ B0); exact L|].
  split.
  { apply (block_form_nblocks _ _ B0). intros Hx. subst x. cbn in L.
    unfold isotonic_mean_f in H0. destruct y; [|discriminate L].
    destruct w as [w|]; [|discriminate H0].
    destruct (negb _); [discriminate H0|]. destruct (any_nonpos w); discriminate H0. }
  split; [apply (block_form_strict _ _ B0)|]. split; [apply (block_form_const _ _ B0)|].
  intros j d Hj1 Hj2. pose proof (block_form_boundary _ _ _ B j d Hj1 Hj2) as Hb.
  destruct inc; exact Hb.
Qed.

(* the errors are exactly the ones of the Python: ValueError for a length mismatch or a
   weight <= 0, IndexError for empty data *)
Theorem isotonic_mean_f_ok_iff y w inc :
  (exists xr, isotonic_mean_f y w inc = FOk xr) <->
  y <> [] /\ match w with None => True | Some w0 => length y = length w0 /\ any_nonpos w0 = false end.
Proof.
  unfold isotonic_mean_f. split.
  - intros [xr H]. destruct w as [w|].
    + destruct (Nat.eqb (length y) (length w)) eqn:El; cbn [negb] in H; [|discriminate H].
      destruct (any_nonpos w); [discriminate H|]. apply Nat.eqb_eq in El.
      destruct y; [discriminate H|]. split; [discriminate|]. split; [exact El|reflexivity].
    + destruct y; [discriminate H|]. split; [discriminate|exact I].
  - intros [Hne Hw]. destruct w as [w|].
    + destruct Hw as [Hl Ha]. rewrite Hl, Nat.eqb_refl, Ha. cbn [negb].
      destruct y as [|a y]; [contradiction|]. destruct (pava_f _ _) as [x r]. destruct inc; eexists; reflexivity.
    + destruct y as [|a y]; [contradiction|]. destruct (pava_f _ _) as [x r]. destruct inc; eexists; reflexivity.
Qed.

(* the hypotheses are satisfiable, and a run that overflows in the middle of the loop *)
Example pava_f_example :
  pava_f [1; 3; 2; 5; 4; 4; 0]%float [1; 1; 1; 1; 1; 1; 1]%float
  = ([1; 2.5; 2.5; 3.25; 3.25; 3.25; 3.25]%float, [0; 1; 3; 7]).
Proof. vm_compute. reflexivity. Qed.

Example isotonic_mean_f_example_overflow :
  isotonic_mean_f [0x1p+1023; 0x1p+1023; (-0x1p+1023); 5]%float None true
  = FOk ([infinity; infinity; infinity; infinity]%float, [0; 4]).
Proof. vm_compute. reflexivity. Qed.

(* the constant input 0.1, 0.1, 0.1 is NOT a fixed point: (0.1 + 0.1 + 0.1) / 3 rounds up *)
Example isotonic_mean_f_example_constant :
  isotonic_mean_f [0x1.999999999999ap-4; 0x1.999999999999ap-4; 0x1.999999999999ap-4]%float None true
  = FOk ([0x1.999999999999bp-4; 0x1.999999999999bp-4; 0x1.999999999999bp-4]%float, [0; 3]).
Proof. vm_compute. reflexivity. Qed.

Print Assumptions pava_f_fuel.
Print Assumptions pava_f_block_form.
Print Assumptions pava_f_length.
Print Assumptions pava_f_r_ends.
Print Assumptions pava_f_r_strict.
Print Assumptions pava_f_const.
Print Assumptions pava_f_boundary.
Print Assumptions isotonic_mean_f_decreasing.
Print Assumptions isotonic_mean_f_contract.
Print Assumptions isotonic_mean_f_ok_iff.
