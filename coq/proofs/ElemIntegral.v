(* C15, analytic part: "Integrated over eta the elementary score reproduces half
   the squared error (mean), the pinball loss (quantile) and half the degree-2
   expectile score, so a Murphy diagram is a non-negative curve whose area is the
   corresponding score."

   World R, Riemann integral of Coquelicot (is_RInt).

   The elementary score of the library is
       elem_val V eta y z = (1{eta <= z} - 1{eta <= y}) * V(y, eta)
   (proofs/Consistency.v).  For the quantile functional this formula has a tie
   defect at eta = y (see elem_nonneg_quantile_refuted); the likely repair uses
   strict indicators,
       elem_val_strict V eta y z = (1{eta < z} - 1{eta < y}) * V(y, eta).
   An integral over eta does not see single points, so every integral theorem is
   proved in a "_gen" form, for ANY integrand g that agrees with elem_val except
   possibly at eta = y and eta = z, over ANY interval [lo, hi] containing
   [min y z, max y z]; the theorems for elem_val and for elem_val_strict are
   instances. *)
From Coq Require Import Reals Lra Psatz List Bool.
From Coquelicot Require Import Coquelicot.
Import ListNotations. Open Scope R_scope.
From MD Require Import lib.NumpyR lib.NumpyR2 spec.Scores theory.Powers theory.Bregman
  proofs.ScoreProps proofs.Consistency.

(* ================================================================== *)
(* 0. the strict variant, and where the two variants agree             *)

(* lt_ind (lib/NumpyR2.v) and elem_val_strict (proofs/Consistency.v) are shared with the
   translated code since the library fix 42d574f *)

Lemma lt_ind_le_ind a b : a <> b -> lt_ind a b = le_ind a b.
Proof.
  intros Hne. destruct (Rlt_dec a b) as [Hlt | Hge].
  - rewrite (lt_ind_lt a b Hlt). rewrite le_ind_le by lra. reflexivity.
  - rewrite lt_ind_ge by lra. rewrite le_ind_gt by lra. reflexivity.
Qed.

(* the two variants differ at most at eta = y and eta = z *)
Lemma elem_strict_agrees V eta y z :
  eta <> y -> eta <> z -> elem_val_strict V eta y z = elem_val V eta y z.
Proof.
  intros Hy Hz. unfold elem_val_strict, elem_val.
  rewrite (lt_ind_le_ind eta z Hz), (lt_ind_le_ind eta y Hy). reflexivity.
Qed.

(* values of the integrand strictly between / outside the two arguments *)
Lemma elem_val_between_up V eta y z : y < eta < z -> elem_val V eta y z = V y eta.
Proof.
  intros [H1 H2]. unfold elem_val.
  rewrite (le_ind_le eta z) by lra. rewrite (le_ind_gt eta y) by lra. ring.
Qed.

Lemma elem_val_between_down V eta y z : z < eta < y -> elem_val V eta y z = - V y eta.
Proof.
  intros [H1 H2]. unfold elem_val.
  rewrite (le_ind_gt eta z) by lra. rewrite (le_ind_le eta y) by lra. ring.
Qed.

(* outside [min y z, max y z] every elementary score vanishes, whatever V *)
Lemma elem_val_zero_outside V eta y z :
  eta < Rmin y z \/ Rmax y z < eta -> elem_val V eta y z = 0.
Proof.
  intros H. unfold elem_val.
  pose proof (Rmin_l y z) as Hl. pose proof (Rmin_r y z) as Hr.
  pose proof (Rmax_l y z) as Hl'. pose proof (Rmax_r y z) as Hr'.
  destruct H as [H | H].
  - rewrite (le_ind_le eta z) by lra. rewrite (le_ind_le eta y) by lra. ring.
  - rewrite (le_ind_gt eta z) by lra. rewrite (le_ind_gt eta y) by lra. ring.
Qed.

Lemma elem_strict_zero_outside V eta y z :
  eta < Rmin y z \/ Rmax y z < eta -> elem_val_strict V eta y z = 0.
Proof.
  intros H.
  pose proof (Rmin_l y z) as Hl. pose proof (Rmin_r y z) as Hr.
  pose proof (Rmax_l y z) as Hl'. pose proof (Rmax_r y z) as Hr'.
  rewrite elem_strict_agrees.
  - apply elem_val_zero_outside. exact H.
  - destruct H; lra.
  - destruct H; lra.
Qed.

Theorem elem_mean_zero_outside : forall eta y z,
  eta < Rmin y z \/ Rmax y z < eta -> elem_val V_mean eta y z = 0.
Proof. intros eta y z. apply elem_val_zero_outside. Qed.

Theorem elem_quantile_zero_outside : forall a eta y z,
  eta < Rmin y z \/ Rmax y z < eta -> elem_val (V_quantile a) eta y z = 0.
Proof. intros a eta y z. apply elem_val_zero_outside. Qed.

Theorem elem_expectile_zero_outside : forall a eta y z,
  eta < Rmin y z \/ Rmax y z < eta -> elem_val (V_expectile a) eta y z = 0.
Proof. intros a eta y z. apply elem_val_zero_outside. Qed.

(* "g is the elementary score of (V, y, z) up to its values at eta = y, z" *)
Definition agrees_ae (V : R -> R -> R) (y z : R) (g : R -> R) : Prop :=
  forall eta, eta <> y -> eta <> z -> g eta = elem_val V eta y z.

Lemma agrees_ae_self V y z : agrees_ae V y z (fun eta => elem_val V eta y z).
Proof. intros eta _ _. reflexivity. Qed.

Lemma agrees_ae_strict V y z : agrees_ae V y z (fun eta => elem_val_strict V eta y z).
Proof. intros eta Hy Hz. apply elem_strict_agrees; assumption. Qed.

(* ================================================================== *)
(* 1. two primitive integrals                                          *)

Lemma is_RInt_val (f : R -> R) (a b l l' : R) :
  l = l' -> is_RInt f a b l -> is_RInt f a b l'.
Proof. intros HE H. rewrite <- HE. exact H. Qed.

Lemma RInt_constR (c a b : R) : is_RInt (fun _ : R => c) a b ((b - a) * c).
Proof. exact (is_RInt_const a b c). Qed.

Lemma RInt_zero (a b : R) : is_RInt (fun _ : R => 0) a b 0.
Proof.
  apply (is_RInt_val (fun _ : R => 0) a b ((b - a) * 0) 0); [ring | apply RInt_constR].
Qed.

(* int_a^b c (eta - y) d eta *)
Lemma RInt_affine (c y a b : R) :
  is_RInt (fun eta => c * (eta - y)) a b (c * ((b - y) ^ 2 - (a - y) ^ 2) / 2).
Proof.
  replace (c * ((b - y) ^ 2 - (a - y) ^ 2) / 2)
    with (minus ((fun eta => c * (eta - y) ^ 2 / 2) b)
                ((fun eta => c * (eta - y) ^ 2 / 2) a)).
  - apply (is_RInt_derive (fun eta => c * (eta - y) ^ 2 / 2)
                          (fun eta => c * (eta - y))).
    + intros x _. auto_derive; [exact I | field].
    + intros x _. apply (ex_derive_continuous (fun eta : R => c * (eta - y))).
      auto_derive. exact I.
  - unfold minus, plus, opp. simpl. field.
Qed.

(* ================================================================== *)
(* 2. from the open interval to [min, max], and to any wider interval  *)

Lemma elem_ext_up V g p y z v :
  y <= z -> agrees_ae V y z g ->
  (forall eta, y < eta < z -> V y eta = p eta) ->
  is_RInt p y z v -> is_RInt g (Rmin y z) (Rmax y z) v.
Proof.
  intros Hyz Hg Hp HI.
  rewrite (Rmin_left y z Hyz), (Rmax_right y z Hyz).
  apply (is_RInt_ext p g y z v); [| exact HI].
  rewrite (Rmin_left y z Hyz), (Rmax_right y z Hyz).
  intros eta Heta.
  rewrite Hg by lra. rewrite elem_val_between_up by exact Heta.
  symmetry. apply Hp. exact Heta.
Qed.

Lemma elem_ext_down V g p y z v :
  z <= y -> agrees_ae V y z g ->
  (forall eta, z < eta < y -> - V y eta = p eta) ->
  is_RInt p z y v -> is_RInt g (Rmin y z) (Rmax y z) v.
Proof.
  intros Hzy Hg Hp HI.
  rewrite (Rmin_right y z Hzy), (Rmax_left y z Hzy).
  apply (is_RInt_ext p g z y v); [| exact HI].
  rewrite (Rmin_left z y Hzy), (Rmax_right z y Hzy).
  intros eta Heta.
  rewrite Hg by lra. rewrite elem_val_between_down by exact Heta.
  symmetry. apply Hp. exact Heta.
Qed.

(* the integrand vanishes outside [min, max]: any wider interval gives the
   same integral *)
Lemma elem_wide V g y z v lo hi :
  agrees_ae V y z g ->
  is_RInt g (Rmin y z) (Rmax y z) v ->
  lo <= Rmin y z -> Rmax y z <= hi -> is_RInt g lo hi v.
Proof.
  intros Hg HI Hlo Hhi.
  pose proof (Rmin_l y z) as Hl. pose proof (Rmin_r y z) as Hr.
  pose proof (Rmax_l y z) as Hl'. pose proof (Rmax_r y z) as Hr'.
  assert (H1 : is_RInt g lo (Rmin y z) 0).
  { apply (is_RInt_ext (fun _ : R => 0) g lo (Rmin y z) 0); [| apply RInt_zero].
    rewrite (Rmin_left lo (Rmin y z) Hlo), (Rmax_right lo (Rmin y z) Hlo).
    intros eta Heta. rewrite Hg by lra.
    symmetry. apply elem_val_zero_outside. left. lra. }
  assert (H3 : is_RInt g (Rmax y z) hi 0).
  { apply (is_RInt_ext (fun _ : R => 0) g (Rmax y z) hi 0); [| apply RInt_zero].
    rewrite (Rmin_left (Rmax y z) hi Hhi), (Rmax_right (Rmax y z) hi Hhi).
    intros eta Heta. rewrite Hg by lra.
    symmetry. apply elem_val_zero_outside. right. lra. }
  pose proof (is_RInt_Chasles g lo (Rmin y z) (Rmax y z) 0 v H1 HI) as H12.
  pose proof (is_RInt_Chasles g lo (Rmax y z) hi (plus 0 v) 0 H12 H3) as H123.
  replace v with (plus (plus 0 v) 0); [exact H123 |].
  unfold plus. simpl. ring.
Qed.

(* ================================================================== *)
(* 3. the three integrals                                              *)

(* ---- mean: (y - z)^2 / 2, half the squared error ---- *)

Theorem elem_integral_mean_gen : forall g y z lo hi,
  agrees_ae V_mean y z g -> lo <= Rmin y z -> Rmax y z <= hi ->
  is_RInt g lo hi ((y - z) ^ 2 / 2).
Proof.
  intros g y z lo hi Hg Hlo Hhi.
  apply (elem_wide V_mean g y z _ lo hi Hg); [| exact Hlo | exact Hhi].
  destruct (Rle_dec y z) as [Hyz | Hyz].
  - apply (elem_ext_up V_mean g (fun eta => 1 * (eta - y)) y z _ Hyz Hg).
    + intros eta _. unfold V_mean. ring.
    + replace ((y - z) ^ 2 / 2) with (1 * ((z - y) ^ 2 - (y - y) ^ 2) / 2) by field.
      apply RInt_affine.
  - assert (Hzy : z <= y) by lra.
    apply (elem_ext_down V_mean g (fun eta => (-1) * (eta - y)) y z _ Hzy Hg).
    + intros eta _. unfold V_mean. ring.
    + replace ((y - z) ^ 2 / 2) with ((-1) * ((y - y) ^ 2 - (z - y) ^ 2) / 2) by field.
      apply RInt_affine.
Qed.

Theorem elem_integral_mean : forall y z,
  is_RInt (fun eta => elem_val V_mean eta y z) (Rmin y z) (Rmax y z) ((y - z) ^ 2 / 2).
Proof.
  intros y z. apply elem_integral_mean_gen.
  - apply agrees_ae_self.
  - lra.
  - lra.
Qed.

Theorem elem_integral_mean_strict : forall y z,
  is_RInt (fun eta => elem_val_strict V_mean eta y z) (Rmin y z) (Rmax y z)
          ((y - z) ^ 2 / 2).
Proof.
  intros y z. apply elem_integral_mean_gen.
  - apply agrees_ae_strict.
  - lra.
  - lra.
Qed.

(* ---- quantile: the pinball loss (1{z >= y} - a) (z - y) ---- *)

Theorem elem_integral_quantile_gen : forall a g y z lo hi,
  agrees_ae (V_quantile a) y z g -> lo <= Rmin y z -> Rmax y z <= hi ->
  is_RInt g lo hi ((ge_ind z y - a) * (z - y)).
Proof.
  intros a g y z lo hi Hg Hlo Hhi.
  apply (elem_wide (V_quantile a) g y z _ lo hi Hg); [| exact Hlo | exact Hhi].
  destruct (Rle_dec y z) as [Hyz | Hyz].
  - rewrite (ge_ind_ge z y Hyz).
    apply (elem_ext_up (V_quantile a) g (fun _ => 1 - a) y z _ Hyz Hg).
    + intros eta Heta. unfold V_quantile. rewrite (ge_ind_ge eta y) by lra. reflexivity.
    + replace ((1 - a) * (z - y)) with ((z - y) * (1 - a)) by ring.
      apply RInt_constR.
  - assert (Hzy : z <= y) by lra.
    rewrite (ge_ind_lt z y) by lra.
    apply (elem_ext_down (V_quantile a) g (fun _ => a) y z _ Hzy Hg).
    + intros eta Heta. unfold V_quantile. rewrite (ge_ind_lt eta y) by lra. ring.
    + replace ((0 - a) * (z - y)) with ((y - z) * a) by ring.
      apply RInt_constR.
Qed.

(* the library's current formula *)
Theorem elem_integral_quantile : forall a y z, 0 < a < 1 ->
  is_RInt (fun eta => elem_val (V_quantile a) eta y z) (Rmin y z) (Rmax y z)
          ((ge_ind z y - a) * (z - y)).
Proof.
  intros a y z _. apply elem_integral_quantile_gen.
  - apply agrees_ae_self.
  - lra.
  - lra.
Qed.

(* the strict-indicator variant *)
Theorem elem_integral_quantile_strict : forall a y z, 0 < a < 1 ->
  is_RInt (fun eta => elem_val_strict (V_quantile a) eta y z) (Rmin y z) (Rmax y z)
          ((ge_ind z y - a) * (z - y)).
Proof.
  intros a y z _. apply elem_integral_quantile_gen.
  - apply agrees_ae_strict.
  - lra.
  - lra.
Qed.

(* ---- expectile: asym a y z (y - z)^2 / 2, half the degree-2 score ---- *)

Theorem elem_integral_expectile_gen : forall a g y z lo hi, 0 < a < 1 ->
  agrees_ae (V_expectile a) y z g -> lo <= Rmin y z -> Rmax y z <= hi ->
  is_RInt g lo hi (asym a y z * (y - z) ^ 2 / 2).
Proof.
  intros a g y z lo hi Ha Hg Hlo Hhi.
  apply (elem_wide (V_expectile a) g y z _ lo hi Hg); [| exact Hlo | exact Hhi].
  destruct (Rle_dec y z) as [Hyz | Hyz].
  - rewrite (asym_ge_lvl a y z Hyz Ha).
    apply (elem_ext_up (V_expectile a) g (fun eta => (2 * (1 - a)) * (eta - y)) y z _ Hyz Hg).
    + intros eta Heta. unfold V_expectile.
      rewrite (asym_ge_lvl a y eta) by (lra || exact Ha). reflexivity.
    + replace (2 * (1 - a) * (y - z) ^ 2 / 2)
        with (2 * (1 - a) * ((z - y) ^ 2 - (y - y) ^ 2) / 2) by field.
      apply RInt_affine.
  - assert (Hzy : z <= y) by lra.
    rewrite (asym_lt a y z) by (lra || exact Ha).
    apply (elem_ext_down (V_expectile a) g (fun eta => (- (2 * a)) * (eta - y)) y z _ Hzy Hg).
    + intros eta Heta. unfold V_expectile.
      rewrite (asym_lt a y eta) by (lra || exact Ha). ring.
    + replace (2 * a * (y - z) ^ 2 / 2)
        with (- (2 * a) * ((y - y) ^ 2 - (z - y) ^ 2) / 2) by field.
      apply RInt_affine.
Qed.

Theorem elem_integral_expectile : forall a y z, 0 < a < 1 ->
  is_RInt (fun eta => elem_val (V_expectile a) eta y z) (Rmin y z) (Rmax y z)
          (asym a y z * (y - z) ^ 2 / 2).
Proof.
  intros a y z Ha. apply elem_integral_expectile_gen.
  - exact Ha.
  - apply agrees_ae_self.
  - lra.
  - lra.
Qed.

Theorem elem_integral_expectile_strict : forall a y z, 0 < a < 1 ->
  is_RInt (fun eta => elem_val_strict (V_expectile a) eta y z) (Rmin y z) (Rmax y z)
          (asym a y z * (y - z) ^ 2 / 2).
Proof.
  intros a y z Ha. apply elem_integral_expectile_gen.
  - exact Ha.
  - apply agrees_ae_strict.
  - lra.
  - lra.
Qed.

(* ---- the right-hand sides ARE the library's scores ---- *)

(* degree-2 expectile score of the specification: asym a y z * (y - z)^2 *)
Lemma hes_val_2 a y z : hes_val 2 a y z = asym a y z * (y - z) ^ 2.
Proof.
  unfold hes_val.
  assert (H : (y - z) * (y - z) = hes_val 2 (1/2) y z).
  { apply hes_val_is_spec_inv. apply spec_squared_error. }
  rewrite hes_val_half in H. rewrite <- H. ring.
Qed.

Lemma hes_val_2_half y z : hes_val 2 (1/2) y z = (y - z) ^ 2.
Proof. rewrite hes_val_2, asym_half. ring. Qed.

Lemma hqs_val_1 a y z : hqs_val 1 a y z = (ge_ind z y - a) * (z - y).
Proof.
  symmetry. apply hqs_val_is_spec_inv. apply spec_pinball.
Qed.

(* stated against the score functions (values of spec_hes 2 a, spec_hqs 1 a;
   squared error = spec_hes 2 (1/2), pinball loss = spec_hqs 1 a) *)
Theorem elem_integral_mean_score : forall y z,
  is_RInt (fun eta => elem_val V_mean eta y z) (Rmin y z) (Rmax y z)
          (hes_val 2 (1/2) y z / 2).
Proof. intros y z. rewrite hes_val_2_half. apply elem_integral_mean. Qed.

Theorem elem_integral_quantile_score : forall a y z, 0 < a < 1 ->
  is_RInt (fun eta => elem_val (V_quantile a) eta y z) (Rmin y z) (Rmax y z)
          (hqs_val 1 a y z).
Proof. intros a y z Ha. rewrite hqs_val_1. apply elem_integral_quantile. exact Ha. Qed.

Theorem elem_integral_expectile_score : forall a y z, 0 < a < 1 ->
  is_RInt (fun eta => elem_val (V_expectile a) eta y z) (Rmin y z) (Rmax y z)
          (hes_val 2 a y z / 2).
Proof.
  intros a y z Ha. rewrite hes_val_2.
  apply elem_integral_expectile. exact Ha.
Qed.

(* ================================================================== *)
(* 4. Murphy diagram: area under the average elementary score          *)

(* a weighted sample of (observation, forecast, weight) triples *)
Fixpoint wscore3 (sc : R -> R -> R) (S : list (R * R * R)) : R :=
  match S with
  | [] => 0
  | (y, z, w) :: S' => w * sc y z + wscore3 sc S'
  end.
Fixpoint wsum3 (S : list (R * R * R)) : R :=
  match S with
  | [] => 0
  | (_, _, w) :: S' => w + wsum3 S'
  end.
(* weighted average score of the sample *)
Definition wavg3 (sc : R -> R -> R) (S : list (R * R * R)) : R := wscore3 sc S / wsum3 S.

(* all observations and forecasts lie in [lo, hi] *)
Definition covers (lo hi : R) (S : list (R * R * R)) : Prop :=
  List.Forall (fun e => lo <= Rmin (fst (fst e)) (snd (fst e)) /\
                   Rmax (fst (fst e)) (snd (fst e)) <= hi) S.

(* linearity: if every per-observation curve eta |-> se eta y z integrates to
   sc y z over [lo, hi], the weighted total / average curve integrates to the
   weighted total / average of sc *)
Lemma wscore3_RInt (se : R -> R -> R -> R) (sc : R -> R -> R) (lo hi : R) :
  forall S,
  List.Forall (fun e => is_RInt (fun eta => se eta (fst (fst e)) (snd (fst e))) lo hi
                           (sc (fst (fst e)) (snd (fst e)))) S ->
  is_RInt (fun eta => wscore3 (se eta) S) lo hi (wscore3 sc S).
Proof.
  intros S. induction S as [| [[y z] w] S' IH]; intros HS.
  - simpl. apply RInt_zero.
  - inversion HS as [| e l Hhd Htl]; subst. simpl in Hhd.
    simpl.
    pose proof (is_RInt_scal (fun eta => se eta y z) lo hi w (sc y z) Hhd) as H1.
    exact (is_RInt_plus (fun eta => scal w (se eta y z))
                        (fun eta => wscore3 (se eta) S') lo hi
                        (scal w (sc y z)) (wscore3 sc S') H1 (IH Htl)).
Qed.

Theorem murphy_area_gen : forall (se : R -> R -> R -> R) (sc : R -> R -> R) lo hi S,
  List.Forall (fun e => is_RInt (fun eta => se eta (fst (fst e)) (snd (fst e))) lo hi
                           (sc (fst (fst e)) (snd (fst e)))) S ->
  is_RInt (fun eta => wavg3 (se eta) S) lo hi (wavg3 sc S).
Proof.
  intros se sc lo hi S HS. unfold wavg3.
  pose proof (wscore3_RInt se sc lo hi S HS) as HI.
  pose proof (is_RInt_scal (fun eta => wscore3 (se eta) S) lo hi (/ wsum3 S)
                           (wscore3 sc S) HI) as H1.
  apply (is_RInt_ext (fun eta => scal (/ wsum3 S) (wscore3 (se eta) S))
                     (fun eta => wscore3 (se eta) S / wsum3 S) lo hi).
  - intros eta _. unfold scal. simpl. unfold mult. simpl. unfold Rdiv. ring.
  - replace (wscore3 sc S / wsum3 S) with (scal (/ wsum3 S) (wscore3 sc S)).
    + exact H1.
    + unfold scal. simpl. unfold mult. simpl. unfold Rdiv. ring.
Qed.

Lemma murphy_area_covers (se : R -> R -> R -> R) (sc : R -> R -> R) lo hi S :
  (forall y z, lo <= Rmin y z -> Rmax y z <= hi ->
               is_RInt (fun eta => se eta y z) lo hi (sc y z)) ->
  covers lo hi S ->
  is_RInt (fun eta => wavg3 (se eta) S) lo hi (wavg3 sc S).
Proof.
  intros HP HS. apply murphy_area_gen.
  unfold covers in HS. rewrite Forall_forall in HS.
  apply Forall_forall. intros e He. destruct (HS e He) as [H1 H2].
  apply HP; assumption.
Qed.

(* the Murphy diagram of a weighted sample of (y_i, z_i, w_i), eta ranging
   over any interval that contains all observations and forecasts *)
Theorem murphy_area_mean : forall lo hi S, covers lo hi S ->
  is_RInt (fun eta => wavg3 (elem_val V_mean eta) S) lo hi
          (wavg3 (fun y z => (y - z) ^ 2 / 2) S).
Proof.
  intros lo hi S HS.
  apply (murphy_area_covers (elem_val V_mean) (fun y z => (y - z) ^ 2 / 2)); [| exact HS].
  intros y z H1 H2. apply elem_integral_mean_gen; [apply agrees_ae_self | exact H1 | exact H2].
Qed.

Theorem murphy_area_quantile : forall a lo hi S, 0 < a < 1 -> covers lo hi S ->
  is_RInt (fun eta => wavg3 (elem_val (V_quantile a) eta) S) lo hi
          (wavg3 (fun y z => (ge_ind z y - a) * (z - y)) S).
Proof.
  intros a lo hi S _ HS.
  apply (murphy_area_covers (elem_val (V_quantile a)) (fun y z => (ge_ind z y - a) * (z - y))); [| exact HS].
  intros y z H1 H2. apply elem_integral_quantile_gen; [apply agrees_ae_self | exact H1 | exact H2].
Qed.

Theorem murphy_area_quantile_strict : forall a lo hi S, 0 < a < 1 -> covers lo hi S ->
  is_RInt (fun eta => wavg3 (elem_val_strict (V_quantile a) eta) S) lo hi
          (wavg3 (fun y z => (ge_ind z y - a) * (z - y)) S).
Proof.
  intros a lo hi S _ HS.
  apply (murphy_area_covers (elem_val_strict (V_quantile a))
                         (fun y z => (ge_ind z y - a) * (z - y))); [| exact HS].
  intros y z H1 H2. apply elem_integral_quantile_gen; [apply agrees_ae_strict | exact H1 | exact H2].
Qed.

Theorem murphy_area_expectile : forall a lo hi S, 0 < a < 1 -> covers lo hi S ->
  is_RInt (fun eta => wavg3 (elem_val (V_expectile a) eta) S) lo hi
          (wavg3 (fun y z => asym a y z * (y - z) ^ 2 / 2) S).
Proof.
  intros a lo hi S Ha HS.
  apply (murphy_area_covers (elem_val (V_expectile a)) (fun y z => asym a y z * (y - z) ^ 2 / 2)); [| exact HS].
  intros y z H1 H2.
  apply elem_integral_expectile_gen; [exact Ha | apply agrees_ae_self | exact H1 | exact H2].
Qed.

(* the averages on the right are the averages of the library's scores *)
Lemma wscore3_ext (s1 s2 : R -> R -> R) :
  (forall y z, s1 y z = s2 y z) -> forall S, wscore3 s1 S = wscore3 s2 S.
Proof.
  intros HE S. induction S as [| [[y z] w] S' IH].
  - reflexivity.
  - simpl. rewrite (HE y z), IH. reflexivity.
Qed.

Lemma wscore3_scale (k : R) (s : R -> R -> R) :
  forall S, wscore3 (fun y z => s y z / k) S = wscore3 s S / k.
Proof.
  intros S. induction S as [| [[y z] w] S' IH].
  - simpl. unfold Rdiv. ring.
  - simpl. rewrite IH. unfold Rdiv. ring.
Qed.

Theorem murphy_area_mean_score : forall lo hi S, covers lo hi S ->
  is_RInt (fun eta => wavg3 (elem_val V_mean eta) S) lo hi
          (wavg3 (hes_val 2 (1/2)) S / 2).
Proof.
  intros lo hi S HS.
  replace (wavg3 (hes_val 2 (1/2)) S / 2) with (wavg3 (fun y z => (y - z) ^ 2 / 2) S).
  - apply murphy_area_mean. exact HS.
  - unfold wavg3. rewrite (wscore3_scale 2 (fun y z => (y - z) ^ 2)).
    rewrite (wscore3_ext (hes_val 2 (1/2)) (fun y z => (y - z) ^ 2) hes_val_2_half).
    unfold Rdiv. ring.
Qed.

Theorem murphy_area_quantile_score : forall a lo hi S, 0 < a < 1 -> covers lo hi S ->
  is_RInt (fun eta => wavg3 (elem_val (V_quantile a) eta) S) lo hi
          (wavg3 (hqs_val 1 a) S).
Proof.
  intros a lo hi S Ha HS.
  replace (wavg3 (hqs_val 1 a) S) with (wavg3 (fun y z => (ge_ind z y - a) * (z - y)) S).
  - apply murphy_area_quantile; assumption.
  - unfold wavg3. rewrite (wscore3_ext (hqs_val 1 a) _ (hqs_val_1 a)). reflexivity.
Qed.

Theorem murphy_area_expectile_score : forall a lo hi S, 0 < a < 1 -> covers lo hi S ->
  is_RInt (fun eta => wavg3 (elem_val (V_expectile a) eta) S) lo hi
          (wavg3 (hes_val 2 a) S / 2).
Proof.
  intros a lo hi S Ha HS.
  replace (wavg3 (hes_val 2 a) S / 2)
    with (wavg3 (fun y z => asym a y z * (y - z) ^ 2 / 2) S).
  - apply murphy_area_expectile; assumption.
  - unfold wavg3. rewrite (wscore3_scale 2 (fun y z => asym a y z * (y - z) ^ 2)).
    rewrite (wscore3_ext (hes_val 2 a) (fun y z => asym a y z * (y - z) ^ 2) (hes_val_2 a)).
    unfold Rdiv. ring.
Qed.

(* ---- ... and the curve is non-negative ---- *)

Lemma wscore3_nonneg (s : R -> R -> R) :
  forall S, List.Forall (fun e => 0 <= snd e) S ->
  List.Forall (fun e => 0 <= s (fst (fst e)) (snd (fst e))) S -> 0 <= wscore3 s S.
Proof.
  intros S. induction S as [| [[y z] w] S' IH]; intros Hw Hs.
  - simpl. lra.
  - inversion Hw as [| e1 l1 Hw1 Hw2]; subst.
    inversion Hs as [| e2 l2 Hs1 Hs2]; subst.
    simpl in Hw1, Hs1. simpl.
    pose proof (IH Hw2 Hs2) as IH'.
    pose proof (Rmult_le_pos w (s y z) Hw1 Hs1) as Hm. lra.
Qed.

Lemma wsum3_nonneg : forall S, List.Forall (fun e : R * R * R => 0 <= snd e) S -> 0 <= wsum3 S.
Proof.
  intros S. induction S as [| [[y z] w] S' IH]; intros Hw.
  - simpl. lra.
  - inversion Hw as [| e1 l1 Hw1 Hw2]; subst. simpl in Hw1. simpl.
    pose proof (IH Hw2). lra.
Qed.

Lemma wavg3_nonneg (s : R -> R -> R) S :
  List.Forall (fun e => 0 <= snd e) S ->
  List.Forall (fun e => 0 <= s (fst (fst e)) (snd (fst e))) S -> 0 <= wavg3 s S.
Proof.
  intros Hw Hs. unfold wavg3.
  pose proof (wscore3_nonneg s S Hw Hs) as Hn.
  pose proof (wsum3_nonneg S Hw) as Hd.
  destruct (Req_dec (wsum3 S) 0) as [H0 | Hne].
  - rewrite H0. unfold Rdiv. rewrite Rinv_0. lra.
  - apply div_nonneg; lra.
Qed.

Theorem murphy_nonneg_mean : forall eta S, List.Forall (fun e => 0 <= snd e) S ->
  0 <= wavg3 (elem_val V_mean eta) S.
Proof.
  intros eta S Hw. apply wavg3_nonneg; [exact Hw |].
  apply Forall_forall. intros e _. apply elem_nonneg_mean.
Qed.

Theorem murphy_nonneg_expectile : forall a eta S, 0 < a < 1 ->
  List.Forall (fun e => 0 <= snd e) S -> 0 <= wavg3 (elem_val (V_expectile a) eta) S.
Proof.
  intros a eta S Ha Hw. apply wavg3_nonneg; [exact Hw |].
  apply Forall_forall. intros e _. apply elem_nonneg_expectile. exact Ha.
Qed.

(* the library's quantile formula: only away from the observations *)
Theorem murphy_nonneg_quantile_partial : forall a eta S, 0 < a < 1 ->
  List.Forall (fun e => 0 <= snd e) S -> List.Forall (fun e => eta <> fst (fst e)) S ->
  0 <= wavg3 (elem_val (V_quantile a) eta) S.
Proof.
  intros a eta S Ha Hw Hne. apply wavg3_nonneg; [exact Hw |].
  rewrite Forall_forall in Hne. apply Forall_forall. intros e He.
  apply elem_nonneg_quantile_partial; [exact Ha | exact (Hne e He)].
Qed.

(* elem_strict_nonneg_quantile (non-negative for EVERY eta) is proved in proofs/Consistency.v *)

Theorem murphy_nonneg_quantile_strict : forall a eta S, 0 < a < 1 ->
  List.Forall (fun e => 0 <= snd e) S -> 0 <= wavg3 (elem_val_strict (V_quantile a) eta) S.
Proof.
  intros a eta S Ha Hw. apply wavg3_nonneg; [exact Hw |].
  apply Forall_forall. intros e _. apply elem_strict_nonneg_quantile. exact Ha.
Qed.

(* hypotheses are satisfiable: observation 1 / forecast 3 and observation 4 /
   forecast 2, weights 1 and 2, eta over [0, 5] *)
Example covers_example : covers 0 5 [(1, 3, 1); (4, 2, 2)].
Proof.
  unfold covers. repeat constructor; simpl;
    unfold Rmin, Rmax; repeat destruct (Rle_dec _ _); lra.
Qed.

Print Assumptions elem_mean_zero_outside.
Print Assumptions elem_integral_mean_gen.
Print Assumptions elem_integral_mean.
Print Assumptions elem_integral_quantile_gen.
Print Assumptions elem_integral_quantile.
Print Assumptions elem_integral_quantile_strict.
Print Assumptions elem_integral_expectile_gen.
Print Assumptions elem_integral_expectile.
Print Assumptions elem_integral_mean_score.
Print Assumptions elem_integral_quantile_score.
Print Assumptions elem_integral_expectile_score.
Print Assumptions murphy_area_gen.
Print Assumptions murphy_area_mean.
Print Assumptions murphy_area_quantile.
Print Assumptions murphy_area_quantile_strict.
Print Assumptions murphy_area_expectile.
Print Assumptions murphy_area_mean_score.
Print Assumptions murphy_area_quantile_score.
Print Assumptions murphy_area_expectile_score.
Print Assumptions murphy_nonneg_mean.
Print Assumptions murphy_nonneg_expectile.
Print Assumptions murphy_nonneg_quantile_partial.
Print Assumptions elem_strict_nonneg_quantile.
Print Assumptions murphy_nonneg_quantile_strict.
