(* C05 / C08, WEIGHTED samples, quantile functional (world R).

   The library has no weighted empirical quantile of its own, so the end-to-end theorems of
   proofs/ConsistencyE2E.v assume unit weights for the quantile.  This file closes the weighted
   case at the level of the weighted empirical distribution function:

     wlt S t  = sum of the weights of the observations  <  t
     wle S t  = sum of the weights of the observations  <= t
     wtot S   = sum of all weights

   (i)  the weighted sum of the GENERATED identification function of the quantile is
        wle S t - a * wtot S   ("share of observations <= prediction, minus the level", with
        weights), and its left-limit companion is wlt S t - a * wtot S;
   (ii) every t with   wlt S t <= a * wtot S <= wle S t   (a weighted a-quantile of the sample)
        minimises the weighted average of every homogeneous quantile score / the pinball loss
        among admissible constant forecasts;
   (iii) such a t always exists among the observations: the smallest observation whose weighted
        cdf reaches a * wtot S  (wq_exists), so (ii) is not vacuous for any non-empty positive-weight
        sample. *)
From Coq Require Import Reals Lra Psatz List Bool.
Import ListNotations. Open Scope R_scope.
From MD Require Import lib.NumpyR lib.NumpyR2 spec.Scores theory.Powers theory.Bregman
  proofs.ScoreProps gen.Gen_ident gen.Gen_scoring bridge.Bridge_scoring proofs.Consistency.
From MD Require proofs.IdentProps.

Fixpoint wtot (S : list (R * R)) : R :=
  match S with [] => 0 | (_, w) :: S' => w + wtot S' end.
Fixpoint wle (S : list (R * R)) (t : R) : R :=
  match S with [] => 0 | (y, w) :: S' => (if Rleb y t then w else 0) + wle S' t end.
Fixpoint wlt (S : list (R * R)) (t : R) : R :=
  match S with [] => 0 | (y, w) :: S' => (if Rltb y t then w else 0) + wlt S' t end.

Lemma wsumV_Vp_cdf a S t : wsumV (Vp_q a) S t = wle S t - a * wtot S.
Proof.
  induction S as [| [y w] S' IH]; cbn [wsumV wle wtot]; [ring|].
  rewrite IH. unfold Vp_q, ge_ind. destruct (Rleb y t); ring.
Qed.

Lemma wsumV_Vm_cdf a S t : wsumV (Vm_q a) S t = wlt S t - a * wtot S.
Proof.
  induction S as [| [y w] S' IH]; cbn [wsumV wlt wtot]; [ring|].
  rewrite IH. unfold Vm_q. destruct (Rltb y t); ring.
Qed.

Lemma wtot_pos S : S <> [] -> Forall (fun e : R * R => 0 < snd e) S -> 0 < wtot S.
Proof.
  intros Hn Hw. destruct S as [| [y w] S']; [congruence|].
  assert (G : forall L : list (R * R), Forall (fun e : R * R => 0 < snd e) L -> 0 <= wtot L).
  { induction L as [| [y0 w0] L IH]; intros HL; cbn [wtot]; [lra|].
    inversion HL as [| ? ? H1 H2]; subst. cbn in H1. specialize (IH H2). lra. }
  inversion Hw as [| ? ? H1 H2]; subst. cbn in H1. cbn [wtot]. specialize (G S' H2). lra.
Qed.

Lemma wlt_le_wle S t : Forall (fun e : R * R => 0 < snd e) S -> wlt S t <= wle S t.
Proof.
  induction S as [| [y w] S' IH]; intros Hw; cbn [wlt wle]; [lra|].
  inversion Hw as [| ? ? H1 H2]; subst. cbn in H1. specialize (IH H2).
  destruct (Rltb y t) eqn:E1; destruct (Rleb y t) eqn:E2; try lra.
  apply Rltb_true in E1. apply Rleb_false in E2. lra.
Qed.

Lemma wle_mono S t t' : Forall (fun e : R * R => 0 < snd e) S -> t <= t' -> wle S t <= wle S t'.
Proof.
  intros Hw Ht. induction S as [| [y w] S' IH]; cbn [wle]; [lra|].
  inversion Hw as [| ? ? H1 H2]; subst. cbn in H1. specialize (IH H2).
  destruct (Rleb y t) eqn:E1; destruct (Rleb y t') eqn:E2; try lra.
  apply Rleb_true in E1. apply Rleb_false in E2. lra.
Qed.

(* weighted share of observations strictly below t is what the observations <= some smaller value carry:
   if no observation lies in (s, t) then wlt S t <= wle S s *)
Lemma wlt_le_wle_gap S s t : Forall (fun e : R * R => 0 < snd e) S ->
  Forall (fun e : R * R => fst e <= s \/ t <= fst e) S -> wlt S t <= wle S s.
Proof.
  intros Hw Hg. induction S as [| [y w] S' IH]; cbn [wlt wle]; [lra|].
  inversion Hw as [| ? ? H1 H2]; subst. inversion Hg as [| ? ? G1 G2]; subst. cbn in H1, G1.
  specialize (IH H2 G2).
  destruct (Rltb y t) eqn:E1; destruct (Rleb y s) eqn:E2; try lra.
  apply Rltb_true in E1. apply Rleb_false in E2. lra.
Qed.

Lemma wle_top S t : Forall (fun e : R * R => fst e <= t) S -> wle S t = wtot S.
Proof.
  induction S as [| [y w] S' IH]; intros H; cbn [wle wtot]; [reflexivity|].
  inversion H as [| ? ? H1 H2]; subst. cbn in H1. rewrite (IH H2).
  rewrite (proj2 (Rleb_true y t) H1). reflexivity.
Qed.

Lemma wlt_bottom S t : Forall (fun e : R * R => t <= fst e) S -> wlt S t = 0.
Proof.
  induction S as [| [y w] S' IH]; intros H; cbn [wlt]; [reflexivity|].
  inversion H as [| ? ? H1 H2]; subst. cbn in H1. rewrite (IH H2).
  rewrite (proj2 (Rltb_false y t) H1). lra.
Qed.

Lemma wlt_mono S t t' : Forall (fun e : R * R => 0 < snd e) S -> t <= t' -> wlt S t <= wlt S t'.
Proof.
  intros Hw Ht. induction S as [| [y w] S' IH]; cbn [wlt]; [lra|].
  inversion Hw as [| ? ? H1 H2]; subst. cbn in H1. specialize (IH H2).
  destruct (Rltb y t) eqn:E1; destruct (Rltb y t') eqn:E2; try lra.
  apply Rltb_true in E1. apply Rltb_false in E2. lra.
Qed.

Definition is_wquantile (a : R) (S : list (R * R)) (t : R) : Prop :=
  wlt S t <= a * wtot S <= wle S t.

(* the weighted a-quantiles of a sample form an interval *)
Theorem wquantile_interval : forall a S s t u, Forall (fun e : R * R => 0 < snd e) S ->
  is_wquantile a S s -> is_wquantile a S t -> s <= u <= t -> is_wquantile a S u.
Proof.
  intros a S s t u Hw [_ Hs] [Ht _] [H1 H2]. split.
  - pose proof (wlt_mono S u t Hw H2). lra.
  - pose proof (wle_mono S s u Hw H1). lra.
Qed.

(* (i) identification function: weighted sum of the GENERATED V of the quantile *)
Theorem wquantile_ident_sum : forall a S t, 0 < a < 1 ->
  (forall y, gen_V Fquantile a y t = Ok (Vp_q a y t)) /\
  wsumV (Vp_q a) S t = wle S t - a * wtot S /\
  wsumV (Vm_q a) S t = wlt S t - a * wtot S.
Proof.
  intros a S t Ha. split; [| split].
  - intros y. rewrite bridge_V. cbn [spec_V]. rewrite (IdentProps.level_okb_true a Ha). reflexivity.
  - apply wsumV_Vp_cdf.
  - apply wsumV_Vm_cdf.
Qed.

(* sign of the weighted average identification function around a weighted quantile *)
Theorem wquantile_ident_sign : forall a S t, is_wquantile a S t ->
  wsumV (Vm_q a) S t <= 0 <= wsumV (Vp_q a) S t.
Proof.
  intros a S t [H1 H2]. rewrite wsumV_Vp_cdf, wsumV_Vm_cdf. lra.
Qed.

(* (ii) consistency for weighted samples at every weighted quantile *)
Theorem wquantile_consistent : forall h a S t c,
  0 < a < 1 -> S <> [] -> Forall (fun e : R * R => 0 < snd e) S ->
  Forall (fun e : R * R => dQ_h h (fst e)) S -> dQ_h h t -> dQ_h h c ->
  is_wquantile a S t ->
  wtotal (hqs_val h a) S t <= wtotal (hqs_val h a) S c.
Proof.
  intros h a S t c Ha Hn Hw HY Ht Hc Hq.
  destruct (wquantile_ident_sign a S t Hq) as [Hm Hp].
  exact (quantile_consistent h a S t c Ha Hn Hw HY Ht Hc Hm Hp).
Qed.

(* (iii) existence: some observation is a weighted a-quantile.  Induction on the number of observations
   strictly below the candidate: start from the maximum (wle = wtot), walk down while the cdf just below
   still reaches the target. *)
Lemma list_max_exists (S : list (R * R)) : S <> [] ->
  exists e, In e S /\ Forall (fun e' : R * R => fst e' <= fst e) S.
Proof.
  induction S as [| e S' IH]; [congruence|]. intros _.
  destruct S' as [| e' S''].
  - exists e. split; [left; reflexivity|]. constructor; [lra| constructor].
  - destruct IH as [m [Hin Hall]]; [discriminate|].
    destruct (Rle_dec (fst m) (fst e)) as [L | L].
    + exists e. split; [left; reflexivity|]. constructor; [lra|].
      eapply Forall_impl; [| exact Hall]. cbn. intros x Hx. lra.
    + exists m. split; [right; exact Hin|]. constructor; [lra| exact Hall].
Qed.

(* the largest observation strictly below t, if any *)
Lemma pred_obs (S : list (R * R)) (t : R) :
  (Forall (fun e : R * R => t <= fst e) S) \/
  (exists e, In e S /\ fst e < t /\ Forall (fun e' : R * R => fst e' <= fst e \/ t <= fst e') S).
Proof.
  induction S as [| e S' IH].
  - left. constructor.
  - destruct IH as [All | [m [Hin [Hlt Hgap]]]].
    + destruct (Rlt_dec (fst e) t) as [L | L].
      * right. exists e. split; [left; reflexivity|]. split; [exact L|].
        constructor; [left; lra|]. eapply Forall_impl; [| exact All]. cbn. intros x Hx. right. exact Hx.
      * left. constructor; [lra| exact All].
    + right. destruct (Rlt_dec (fst e) t) as [L | L].
      * destruct (Rle_dec (fst e) (fst m)) as [L2 | L2].
        -- exists m. split; [right; exact Hin|]. split; [exact Hlt|]. constructor; [left; exact L2| exact Hgap].
        -- exists e. split; [left; reflexivity|]. split; [exact L|]. constructor; [left; lra|].
           eapply Forall_impl; [| exact Hgap]. cbn. intros x [Hx | Hx]; [left; lra | right; exact Hx].
      * exists m. split; [right; exact Hin|]. split; [exact Hlt|]. constructor; [right; lra| exact Hgap].
Qed.

Fixpoint nbelow (S : list (R * R)) (t : R) : nat :=
  match S with [] => O | (y, _) :: S' => ((if Rltb y t then 1 else 0) + nbelow S' t)%nat end.

Lemma nbelow_mono S s t : s <= t -> (nbelow S s <= nbelow S t)%nat.
Proof.
  intros H. induction S as [| [y w] S' IH]; cbn [nbelow]; [apply le_n|].
  destruct (Rltb y s) eqn:E1; destruct (Rltb y t) eqn:E2; try (apply le_n_S; exact IH); try exact IH.
  - apply Rltb_true in E1. apply Rltb_false in E2. lra.
  - apply le_S. exact IH.
Qed.

Lemma nbelow_strict S e t : In e S -> fst e < t -> (nbelow S (fst e) < nbelow S t)%nat.
Proof.
  intros Hin Hlt. induction S as [| [y w] S' IH]; [inversion Hin|]. cbn [nbelow].
  destruct Hin as [E | Hin].
  - subst e. cbn [fst] in *.
    rewrite (proj2 (Rltb_false y y)) by lra. rewrite (proj2 (Rltb_true y t) Hlt).
    cbn. apply le_n_S. apply nbelow_mono. lra.
  - specialize (IH Hin).
    destruct (Rltb y (fst e)) eqn:E1; destruct (Rltb y t) eqn:E2; cbn.
    + apply le_n_S. exact IH.
    + apply Rltb_true in E1. apply Rltb_false in E2. lra.
    + apply le_S. exact IH.
    + exact IH.
Qed.

Lemma wq_descend (a : R) (S : list (R * R)) :
  Forall (fun e : R * R => 0 < snd e) S -> 0 < a -> 0 < wtot S ->
  forall (k : nat) (e : R * R), In e S -> (nbelow S (fst e) <= k)%nat ->
    a * wtot S <= wle S (fst e) -> exists e', In e' S /\ is_wquantile a S (fst e').
Proof.
  intros Hw Ha HW. induction k as [| k IH]; intros e Hin Hk Hle.
  - destruct (pred_obs S (fst e)) as [All | [m [Hm [Hlt _]]]].
    + exists e. split; [exact Hin|]. split; [| exact Hle]. rewrite (wlt_bottom S (fst e) All). nra.
    + pose proof (nbelow_strict S m (fst e) Hm Hlt) as Hs.
      exfalso. inversion Hk as [Hk0 |]. rewrite Hk0 in Hs. inversion Hs.
  - destruct (Rle_dec (wlt S (fst e)) (a * wtot S)) as [L | L].
    + exists e. split; [exact Hin|]. split; assumption.
    + destruct (pred_obs S (fst e)) as [All | [m [Hm [Hlt Hgap]]]].
      * exfalso. rewrite (wlt_bottom S (fst e) All) in L. apply L. nra.
      * apply (IH m Hm).
        -- pose proof (nbelow_strict S m (fst e) Hm Hlt) as Hs.
           apply le_S_n. eapply Nat.le_trans; [exact Hs| exact Hk].
        -- pose proof (wlt_le_wle_gap S (fst m) (fst e) Hw Hgap). lra.
Qed.

Theorem wq_exists : forall a S, 0 < a < 1 -> S <> [] -> Forall (fun e : R * R => 0 < snd e) S ->
  exists e, In e S /\ is_wquantile a S (fst e).
Proof.
  intros a S Ha Hn Hw.
  pose proof (wtot_pos S Hn Hw) as HW.
  destruct (list_max_exists S Hn) as [m [Hin Hall]].
  apply (wq_descend a S Hw (proj1 Ha) HW (nbelow S (fst m)) m Hin (le_n _)).
  rewrite (wle_top S (fst m) Hall). nra.
Qed.

(* end to end: for every non-empty positive-weight sample some observation minimises the weighted
   average quantile score among all admissible constants *)
Theorem wquantile_consistent_exists : forall h a S,
  0 < a < 1 -> S <> [] -> Forall (fun e : R * R => 0 < snd e) S ->
  Forall (fun e : R * R => dQ_h h (fst e)) S ->
  exists e, In e S /\ forall c, dQ_h h c -> wtotal (hqs_val h a) S (fst e) <= wtotal (hqs_val h a) S c.
Proof.
  intros h a S Ha Hn Hw HY.
  destruct (wq_exists a S Ha Hn Hw) as [e [Hin Hq]].
  exists e. split; [exact Hin|]. intros c Hc.
  apply (wquantile_consistent h a S (fst e) c Ha Hn Hw HY); [| exact Hc | exact Hq].
  rewrite Forall_forall in HY. exact (HY e Hin).
Qed.

(* non-vacuity / sanity: weights matter.  Sample (1, w=1), (2, w=3), level 1/2: the unweighted lower
   median is 1, the weighted median is 2 (weight below 2 is 1 <= 2 <= 4). *)
Example wq_example : is_wquantile (1/2) [(1, 1); (2, 3)] 2 /\ ~ is_wquantile (1/2) [(1, 1); (2, 3)] 1.
Proof.
  unfold is_wquantile. cbn [wlt wle wtot].
  rewrite (proj2 (Rltb_true 1 2)) by lra. rewrite (proj2 (Rltb_false 2 2)) by lra.
  rewrite (proj2 (Rleb_true 1 2)) by lra. rewrite (proj2 (Rleb_true 2 2)) by lra.
  rewrite (proj2 (Rltb_false 1 1)) by lra. rewrite (proj2 (Rltb_false 2 1)) by lra.
  rewrite (proj2 (Rleb_true 1 1)) by lra. rewrite (proj2 (Rleb_false 2 1)) by lra.
  split; [lra|]. intros [_ H]. lra.
Qed.
